(** C16 — Version vectors form a lattice: Compare is a partial order, Merge its join.
    This file holds statements only; every proof is [exact <lemma>] (lemmas in Cluster/VVProofs.v). *)
From Coq Require Import List NArith ZArith.
From stdpp Require Import gmap.
From Vivid Require Import Codec.Prim Cluster.VV Cluster.VVProofs.
Local Open Scope N_scope.

(** Compare decides the pointwise order of the counters (absent = 0) *)
Theorem C16_compare_equal v o : vcompare v o = VEqual <-> (forall k, vget v k = vget o k).
Proof. exact (vcompare_equal v o). Qed.
Theorem C16_compare_before v o :
  vcompare v o = VBefore <-> (forall k, vget v k <= vget o k) /\ (exists k, vget v k < vget o k).
Proof. exact (vcompare_before v o). Qed.
Theorem C16_compare_after v o :
  vcompare v o = VAfter <-> (forall k, vget o k <= vget v k) /\ (exists k, vget o k < vget v k).
Proof. exact (vcompare_after v o). Qed.
Theorem C16_compare_concurrent v o :
  vcompare v o = VConcurrent <-> (exists k, vget v k < vget o k) /\ (exists k, vget o k < vget v k).
Proof. exact (vcompare_concurrent v o). Qed.

(** partial order *)
Theorem C16_reflexive v : vcompare v v = VEqual.
Proof. exact (vcompare_refl v). Qed.
Theorem C16_converse v o :
  match vcompare v o with
  | VEqual => vcompare o v = VEqual
  | VBefore => vcompare o v = VAfter
  | VAfter => vcompare o v = VBefore
  | VConcurrent => vcompare o v = VConcurrent
  end.
Proof. exact (vcompare_converse v o). Qed.
Theorem C16_antisymmetric v o : vcompare v o = VBefore -> vcompare o v = VBefore -> False.
Proof. exact (vcompare_antisym v o). Qed.
Theorem C16_transitive a b c : vcompare a b = VBefore -> vcompare b c = VBefore -> vcompare a c = VBefore.
Proof. exact (vcompare_trans_before a b c). Qed.
Theorem C16_equal_transitive a b c : vcompare a b = VEqual -> vcompare b c = VEqual -> vcompare a c = VEqual.
Proof. exact (vcompare_trans_equal a b c). Qed.
Theorem C16_equal_congruence a b c : vcompare a b = VEqual -> vcompare a c = vcompare b c.
Proof. exact (vcompare_equal_congr a b c). Qed.

(** Merge is a join: commutative, associative, idempotent AS MAPS, and the least upper bound *)
Theorem C16_merge_comm a b : vmerge a b = vmerge b a.
Proof. exact (vmerge_comm a b). Qed.
Theorem C16_merge_assoc a b c : vmerge (vmerge a b) c = vmerge a (vmerge b c).
Proof. exact (vmerge_assoc a b c). Qed.
Theorem C16_merge_idem a : vmerge a a = a.
Proof. exact (vmerge_idem a). Qed.
Theorem C16_merge_pointwise a b k : vget (vmerge a b) k = N.max (vget a k) (vget b k).
Proof. exact (vget_merge a b k). Qed.
Theorem C16_merge_upper a b :
  (vcompare a (vmerge a b) = VBefore \/ vcompare a (vmerge a b) = VEqual) /\
  (vcompare b (vmerge a b) = VBefore \/ vcompare b (vmerge a b) = VEqual).
Proof. exact (conj (proj1 (vle_compare _ _) (vmerge_upper_l a b)) (proj1 (vle_compare _ _) (vmerge_upper_r a b))). Qed.
Theorem C16_merge_least a b c :
  (vcompare a c = VBefore \/ vcompare a c = VEqual) ->
  (vcompare b c = VBefore \/ vcompare b c = VEqual) ->
  (vcompare (vmerge a b) c = VBefore \/ vcompare (vmerge a b) c = VEqual).
Proof. exact (fun H1 H2 => proj1 (vle_compare _ _) (vmerge_least a b c (proj2 (vle_compare _ _) H1) (proj2 (vle_compare _ _) H2))). Qed.
Theorem C16_merge_keys a b k : is_Some (vmerge a b !! k) <-> is_Some (a !! k) \/ is_Some (b !! k).
Proof. exact (vmerge_dom a b k). Qed.

(** Increment: strictly After, exactly +1 on that node, nothing else touched; the only errors are
    an invalid address and the 2^63-1 cap *)
Theorem C16_increment v k v' :
  vinc v k = Ok v' ->
  vget v' k = vget v k + 1 /\ (forall j, j <> k -> v' !! j = v !! j) /\ vcompare v' v = VAfter.
Proof. exact (vinc_ok v k v'). Qed.
Theorem C16_increment_errors v k :
  (vinc v k = Err EInvalid <-> valid_addr k = false) /\
  (vinc v k = Err EOverflow <-> valid_addr k = true /\ max_counter <= vget v k) /\
  (forall e, vinc v k = Err e -> e = EInvalid \/ e = EOverflow).
Proof. exact (vinc_err v k). Qed.

Theorem C16_absent_is_zero v k : v !! k = None -> vcompare v (<[k := 0]> v) = VEqual.
Proof. exact (vcompare_zero_entry v k). Qed.
Theorem C16_compact_equal v : vcompare (vcompact v) v = VEqual.
Proof. exact (vcompact_equal v). Qed.

(** serialisation round trip: every vector within the documented caps (which every vector built by
    Increment/Merge/Read satisfies) is written successfully and read back unchanged, the reader
    consuming exactly the writer's bytes *)
Theorem C16_roundtrip v rest :
  wf_vv v -> exists bs, vwrite v = Ok bs /\ vread (bs ++ rest) = Ok (v, rest).
Proof. exact (vread_vwrite v rest). Qed.

(** non-vacuity: a concrete vector with an explicit zero and the maximal counter meets [wf_vv] *)
Example C16_wf_example :
  wf_vv ({[ [97; 98] := 0; [99] := max_counter ]} : vv).
Proof.
  split; [vm_compute; discriminate|]. intros k c H.
  apply lookup_insert_Some in H as [[<- <-]|[_ H]]; [split; [reflexivity|vm_compute; discriminate]|].
  apply lookup_singleton_Some in H as [<- <-]. split; [reflexivity|vm_compute; discriminate].
Qed.

Print Assumptions C16_compare_equal.
Print Assumptions C16_compare_before.
Print Assumptions C16_compare_after.
Print Assumptions C16_compare_concurrent.
Print Assumptions C16_reflexive.
Print Assumptions C16_converse.
Print Assumptions C16_antisymmetric.
Print Assumptions C16_transitive.
Print Assumptions C16_equal_transitive.
Print Assumptions C16_equal_congruence.
Print Assumptions C16_merge_comm.
Print Assumptions C16_merge_assoc.
Print Assumptions C16_merge_idem.
Print Assumptions C16_merge_pointwise.
Print Assumptions C16_merge_upper.
Print Assumptions C16_merge_least.
Print Assumptions C16_merge_keys.
Print Assumptions C16_increment.
Print Assumptions C16_increment_errors.
Print Assumptions C16_absent_is_zero.
Print Assumptions C16_compact_equal.
Print Assumptions C16_roundtrip.
