(** C12, generic half — the primitive Writer and Reader of internal/messages (writer.go, reader.go) agree on
    every supported Go type, and the reader consumes exactly the bytes the writer produced.
    Statements only; every proof is [exact <lemma>] (lemmas in Codec/PrimProofs.v, Prim2Proofs.v,
    ReflectProofs.v).  Model: Codec/Prim.v, Prim2.v, Reflect.v.

    Vocabulary (Codec/Reflect.v): a Go value is a dynamic type [goty] with a payload [goval];
    [has_typeb ty v] says the pair is a Go value (numbers within the width of their type, array length =
    the type's length, ...); [supported ty]: unnamed basic types (uint8..uint64, int8..int64, float32/64 as
    IEEE bit patterns, bool, string), slices (named or not), arrays of fewer than 2^32 elements and structs
    of supported types, nested arbitrarily — unexported struct fields may have ANY type;
    [fits ty v]: every string and slice in exported positions has fewer than 2^32 elements, and every slice
    whose element type occupies no bytes on the wire ([wire0]: struct{}, structs with only unexported fields)
    is empty;
    [write ty v] = Writer.Write(v); [read tot ty (bs, el)] = Reader.Read(&x) for a variable x of type ty on a
    Reader with len(buf) = tot, remaining input bs and el slice elements created so far (the Reader refuses to
    create more than len(buf) slice elements in its lifetime); its first component is the outcome (value, new
    state), the second a cost meter (see C13_reflect.v); [read0 ty bs] = the same on a fresh Reader over bs;
    [cnt ty v] = the number of slice elements Read creates for v (elements of slices decoded reflectively, at
    every depth); [norm ty v] = v with nil slices replaced by empty slices and unexported struct fields
    replaced by zero values. *)
From Coq Require Import List NArith ZArith Bool.
From Vivid Require Import Codec.Prim Codec.PrimProofs Codec.Prim2 Codec.Prim2Proofs Codec.Reflect Codec.ReflectProofs.
From Vivid Require Import Codec.PrimO Codec.ReflectO Codec.ReflectOProofs Codec.Buf Codec.BufProofs Codec.RefNorm Codec.RefNormProofs.
From Coq Require Import Lia.
Import ListNotations.
Local Open Scope N_scope.

(** ** every primitive pair, with its exact validity range; [rest] is arbitrary trailing input *)
Theorem C12_prim_uint8 n rest : n < 256 -> rd_u8 (put_u8 n ++ rest) = Ok (n, rest).
Proof. exact (rd_u8_put n rest). Qed.
Theorem C12_prim_uint16 n rest : n < 65536 -> rd_u16 (put_u16 n ++ rest) = Ok (n, rest).
Proof. exact (rd_u16_put n rest). Qed.
Theorem C12_prim_uint32 n rest : n < 4294967296 -> rd_u32 (put_u32 n ++ rest) = Ok (n, rest).
Proof. exact (rd_u32_put n rest). Qed.
Theorem C12_prim_uint64 n rest : n < 18446744073709551616 -> rd_u64 (put_u64 n ++ rest) = Ok (n, rest).
Proof. exact (rd_u64_put n rest). Qed.
Theorem C12_prim_int8 z rest : (- 2 ^ 7 <= z < 2 ^ 7)%Z -> rd_i8 (put_i8 z ++ rest) = Ok (z, rest).
Proof. exact (rd_i8_put z rest). Qed.
Theorem C12_prim_int16 z rest : (- 2 ^ 15 <= z < 2 ^ 15)%Z -> rd_i16 (put_i16 z ++ rest) = Ok (z, rest).
Proof. exact (rd_i16_put z rest). Qed.
Theorem C12_prim_int32 z rest : (- 2 ^ 31 <= z < 2 ^ 31)%Z -> rd_i32 (put_i32 z ++ rest) = Ok (z, rest).
Proof. exact (rd_i32_put z rest). Qed.
Theorem C12_prim_int64 z rest : (- 2 ^ 63 <= z < 2 ^ 63)%Z -> rd_i64 (put_i64 z ++ rest) = Ok (z, rest).
Proof. exact (rd_i64_put z rest). Qed.
(** floats are their IEEE-754 bit patterns: every pattern (NaN payloads, signalling NaNs, -0) survives *)
Theorem C12_prim_float32 bits rest : bits < 4294967296 -> rd_f32 (put_f32 bits ++ rest) = Ok (bits, rest).
Proof. exact (rd_f32_put bits rest). Qed.
Theorem C12_prim_float64 bits rest : bits < 18446744073709551616 -> rd_f64 (put_f64 bits ++ rest) = Ok (bits, rest).
Proof. exact (rd_f64_put bits rest). Qed.
Theorem C12_prim_bool b rest : rd_bool (put_bool b ++ rest) = Ok (b, rest).
Proof. exact (rd_bool_put b rest). Qed.
(** WriteString/ReadString and []byte: 4-byte length *)
Theorem C12_prim_string s rest : N.of_nat (length s) < 4294967296 -> rd_string (put_string s ++ rest) = Ok (s, rest).
Proof. exact (rd_lp4_put s rest). Qed.
(** WriteShortString/ReadShortString: whenever the writer accepts the string (at most 255 bytes) *)
Theorem C12_prim_short_string s w rest : put_short s = Ok w -> rd_short (w ++ rest) = Ok (s, rest).
Proof. exact (rd_lp_put 1 s w rest). Qed.
Theorem C12_prim_short_string_accepts s : N.of_nat (length s) < 256 -> exists w, put_short s = Ok w.
Proof. exact (put_lp_ok 1 s). Qed.
(** WriteBytesWithLength(v, size)/ReadBytesWithLength(size) for every int [size]: whenever the writer succeeds *)
Theorem C12_prim_bytes_with_length size b w rest :
  N.of_nat (length b) < 4294967296 -> put_lpk size b = Ok w -> rd_lpk size (w ++ rest) = Ok (b, rest).
Proof. exact (rd_lpk_put size b w rest). Qed.
(** WriteUvarint/ReadUvarint (encoding/binary): all of uint64; 1 to 10 bytes *)
Theorem C12_prim_uvarint n rest : n < 18446744073709551616 -> rd_uvarint (put_uvarint n ++ rest) = Ok (n, rest).
Proof. exact (rd_uvarint_put n rest). Qed.
Theorem C12_prim_uvarint_length n : (1 <= length (put_uvarint n) <= 10)%nat.
Proof. exact (put_uvarint_length n). Qed.
(** WriteVarint/ReadVarint (zig-zag): all of int64 *)
Theorem C12_prim_varint z rest : (- 2 ^ 63 <= z < 2 ^ 63)%Z -> rd_varint (put_varint z ++ rest) = Ok (z, rest).
Proof. exact (rd_varint_put z rest). Qed.

(** ** Write / Read: every value of every supported type, nested arbitrarily.  The decoded value is
    [norm ty v]; the reader stops exactly where the writer stopped ([rest] is returned untouched). *)
Theorem C12_reflect ty v :
  supported ty = true -> has_typeb ty v = true -> fits ty v = true ->
  exists b, write ty v = OOk b /\ forall rest, fst (read0 ty (b ++ rest)) = OOk (norm ty v, (rest, cnt ty v)).
Proof. exact (roundtrip ty v). Qed.
(** the same on a Reader in any state (e.g. in the middle of a user's reader function), provided its element
    budget still covers the value — which it always does when everything read so far was written by Write,
    because a value never has more counted elements than encoding bytes *)
Theorem C12_reflect_any_reader ty v :
  supported ty = true -> has_typeb ty v = true -> fits ty v = true ->
  exists b, write ty v = OOk b /\ cnt ty v <= N.of_nat (length b) /\
            forall tot rest el, el + cnt ty v <= tot -> fst (read tot ty (b ++ rest, el)) = OOk (norm ty v, (rest, el + cnt ty v)).
Proof. exact (roundtrip_state ty v). Qed.
(** the hypotheses are satisfiable by a nested value with an unexported field, a nil slice, a named slice,
    NaN / -0 float patterns and an array of zero-size elements (on which [norm] is not the identity) *)
Example C12_reflect_example :
  supported ex_ty = true /\ has_typeb ex_ty ex_val = true /\ fits ex_ty ex_val = true /\ norm ex_ty ex_val <> ex_val.
Proof. exact ex_ok. Qed.

(** the normalisation is the identity on values without nil slices whose struct fields are all exported *)
Theorem C12_reflect_exact ty v : canonical ty v = true -> norm ty v = v.
Proof. exact (fun H => norm_canonical v ty H). Qed.
Example C12_reflect_exact_example :
  canonical (TSlice false (TStruct [(true, TBasic BStr); (true, TArray 1 (TBasic BI64))])) (VList [VStruct [VS [65]; VList [VZ (-7)]]]) = true.
Proof. reflexivity. Qed.

(** the reflective writer (what Write reaches for struct fields and elements) writes the same bytes *)
Theorem C12_write_is_writeReflect ty v : supported ty = true -> has_typeb ty v = true -> write ty v = wrefl ty v.
Proof. exact (write_eq_wrefl ty v). Qed.

(** WriteFrom(a...) / ReadInto(&a...) over supported types, for every list: covers every user
    reader/writer pair registered with RegisterCustomMessage that is built from these two calls *)
Theorem C12_schema l :
  forallb (fun p => supported (fst p) && has_typeb (fst p) (snd p) && fits (fst p) (snd p)) l = true ->
  exists b, write_from l = OOk b /\
            forall rest, fst (read_into0 (map fst l) (b ++ rest)) = OOk (map (fun p => norm (fst p) (snd p)) l, (rest, cnt_all l)).
Proof. exact (roundtrip_list l). Qed.
Example C12_schema_example :
  forallb (fun p => supported (fst p) && has_typeb (fst p) (snd p) && fits (fst p) (snd p))
          [(TBasic BStr, VS [1; 2]); (ex_ty, ex_val); (TArray 2 (TBasic BBool), VList [VB true; VB false])] = true.
Proof. vm_compute. reflexivity. Qed.

(** Write(&x) writes what Write(x) writes, for the twelve basic types and []byte (nil *[]byte = empty) *)
Theorem C12_write_pointer b v : write (TPtr (TBasic b)) (VPtr v) = write (TBasic b) v.
Proof. exact (eq_refl (wprim b v)). Qed.

(** ** values and types EXCLUDED from the round trip, each with its witness *)
(** a nil slice comes back as an empty non-nil slice *)
Theorem C12_nil_slice_refuted : exists ty v b v', supported ty = true /\ has_typeb ty v = true /\ fits ty v = true /\
  write ty v = OOk b /\ fst (read0 ty b) = OOk (v', ([], cnt ty v)) /\ v = VNil /\ v' = VList [].
Proof. exact w_nil_slice. Qed.
(** unexported struct fields are not transmitted: they come back as zero values *)
Theorem C12_unexported_field_refuted : exists ty v b v', supported ty = true /\ has_typeb ty v = true /\ fits ty v = true /\
  write ty v = OOk b /\ fst (read0 ty b) = OOk (v', ([], cnt ty v)) /\ v = VStruct [VZ 5; VN 1] /\ v' = VStruct [VZ 0; VN 1].
Proof. exact w_unexported. Qed.
(** a NON-EMPTY slice of elements that occupy no bytes on the wire ([]struct{}{{}}): it is written as its
    length only; the reader rejects a slice length above the number of remaining bytes, and a total of more
    than len(buf) slice elements per Reader (its defences against hostile lengths), so the value reads back
    only when enough unrelated bytes happen to follow *)
Theorem C12_zero_size_elements_refuted : exists ty v b, supported ty = true /\ has_typeb ty v = true /\ fits ty v = false /\
  write ty v = OOk b /\ fst (read0 ty b) = OErr EEOF /\ fst (read0 ty (b ++ [9])) = OOk (v, ([9], 1))
  /\ ty = TSlice false (TStruct []) /\ v = VList [VStruct []].
Proof. exact w_wire0_slice. Qed.
(** the element budget: [][]struct{} with two inner slices of three elements counts 8 elements but is written
    in 12 bytes: not decodable from its own bytes, decodable when 3 more bytes follow *)
Theorem C12_element_budget_refuted :
  let ty := TSlice false (TSlice false (TStruct [])) in
  let v := VList [VList [VStruct []; VStruct []; VStruct []]; VList [VStruct []; VStruct []; VStruct []]] in
  write ty v = OOk [0; 0; 0; 2; 0; 0; 0; 3; 0; 0; 0; 3]
  /\ fst (read0 ty [0; 0; 0; 2; 0; 0; 0; 3; 0; 0; 0; 3]) = OErr EEOF
  /\ fst (read0 ty [0; 0; 0; 2; 0; 0; 0; 3; 0; 0; 0; 3; 7; 7; 7]) = OOk (v, ([7; 7; 7], 8))
  /\ fits ty v = false /\ cnt ty v = 8.
Proof. exact w_budget. Qed.
(** a string or []byte of 2^32 bytes or more: the length prefix is uint32(len), the reader cannot return it *)
Theorem C12_string_2pow32_refuted s rest : 4294967296 <= N.of_nat (length s) -> rd_string (put_string s ++ rest) <> Ok (s, rest).
Proof. exact (string_too_long s rest). Qed.
(** a slice of 2^32 or more elements announces its length modulo 2^32 *)
Theorem C12_slice_length_wraps nm e l :
  wrefl (TSlice nm e) (VList l) = obind (wlist e l) (fun b => OOk (put_u32 (N.of_nat (length l) mod 4294967296) ++ b)).
Proof. exact (wrefl_length_wraps nm e l). Qed.
(** an array type of 2^32 or more elements is never read (the uint32 on the wire cannot equal its length) *)
Theorem C12_array_2pow32_refuted tot n e st : 4294967296 <= n -> wf_bytes (fst st) = true -> forall v r, fst (read tot (TArray n e) st) <> OOk (v, r).
Proof. exact (array_too_long tot n e st). Qed.
(** a pointer field is written (dereferenced) but its type cannot be read *)
Theorem C12_pointer_field_refuted : exists ty v b, has_typeb ty v = true /\ write ty v = OOk b /\ fst (read0 ty b) = OErr EUnsupported
  /\ ty = TStruct [(true, TPtr (TBasic BI8))] /\ v = VStruct [VPtr (VZ 5)].
Proof. exact w_pointer_field. Qed.
(** a nil pointer in an exported field: the writer fails *)
Theorem C12_nil_pointer_field_refuted : exists ty v, has_typeb ty v = true /\ write ty v = OErr EInvalid
  /\ ty = TStruct [(true, TBasic BU8); (true, TPtr (TBasic BI8))] /\ v = VStruct [VN 1; VNil].
Proof. exact w_nil_pointer_field. Qed.
(** an interface field is written as its dynamic value but cannot be read *)
Theorem C12_interface_field_refuted : exists ty v b, has_typeb ty v = true /\ write ty v = OOk b /\ fst (read0 ty b) = OErr EUnsupported
  /\ ty = TStruct [(true, TIface)] /\ v = VStruct [VIface (TBasic BI32) (VZ 3)].
Proof. exact w_iface_field. Qed.
(** a pointer to an interface is written only if the interface holds an unnamed basic value; a struct field
    of interface type is written for every dynamic type *)
Theorem C12_pointer_to_interface :
  write (TPtr TIface) (VPtr (VIface (TBasic BI32) (VZ 5))) = OOk [0; 0; 0; 5]
  /\ write (TPtr TIface) (VPtr (VIface (TStruct []) (VStruct []))) = OErr EUnsupported
  /\ write (TStruct [(true, TIface)]) (VStruct [VIface (TStruct []) (VStruct [])]) = OOk [].
Proof. exact w_ptr_iface. Qed.
(** named basic types, int, uint, map, chan, func, nil interface, nil pointers (except *[]byte, written as an
    empty slice), pointer and interface targets: rejected by writer and/or reader with an error *)
Theorem C12_unsupported_kinds :
  (forall b v, basic_ok b v = true -> write (TNamed b) v = OErr EUnsupported /\ forall tot st, fst (read tot (TNamed b) st) = OErr EUnsupported) /\
  (forall z, write TInt (VZ z) = OErr EUnsupported /\ forall tot st, fst (read tot TInt st) = OErr EUnsupported) /\
  (forall n, write TUint (VN n) = OErr EUnsupported /\ forall tot st, fst (read tot TUint st) = OErr EUnsupported) /\
  (forall v, v = VNil \/ v = VOpaque -> write TMap v = OErr EUnsupported /\ write TChan v = OErr EUnsupported /\ write TFunc v = OErr EUnsupported) /\
  write TIface VNil = OErr EUnsupported /\
  (forall t, t <> TSlice false (TBasic BU8) -> write (TPtr t) VNil = OErr EInvalid) /\
  write (TPtr (TSlice false (TBasic BU8))) VNil = OOk [0; 0; 0; 0] /\
  (forall t tot st, fst (read tot (TPtr t) st) = OErr EUnsupported) /\ (forall tot st, fst (read tot TIface st) = OErr EUnsupported).
Proof. exact unsupported_kinds. Qed.
(** 1- and 2-byte length prefixes: longer data is refused by the writer; other sizes are refused by both *)
Theorem C12_length_prefix_too_long k b : 256 ^ N.of_nat k <= N.of_nat (length b) -> put_lp k b = Err ETooLarge.
Proof. exact (put_lp_err k b). Qed.
Theorem C12_length_size_invalid size b bs : size <> 1%Z -> size <> 2%Z -> size <> 4%Z ->
  put_lpk size b = Err EInvalid /\ rd_lpk size bs = Err EInvalid.
Proof. exact (fun H1 H2 H4 => conj (put_lpk_invalid size b H1 H2 H4) (rd_lpk_invalid size bs H1 H2 H4)). Qed.
(** the reader accepts encodings the writer never produces: any non-zero byte is true; non-minimal uvarints *)
Theorem C12_noncanonical_accepted : fst (read0 (TBasic BBool) [2]) = OOk (VB true, ([], 0)) /\ rd_uvarint [128; 0] = Ok (0, []) /\ put_uvarint 0 = [0].
Proof. exact w_noncanonical. Qed.

Print Assumptions C12_prim_uint8.
Print Assumptions C12_prim_uint16.
Print Assumptions C12_prim_uint32.
Print Assumptions C12_prim_uint64.
Print Assumptions C12_prim_int8.
Print Assumptions C12_prim_int16.
Print Assumptions C12_prim_int32.
Print Assumptions C12_prim_int64.
Print Assumptions C12_prim_float32.
Print Assumptions C12_prim_float64.
Print Assumptions C12_prim_bool.
Print Assumptions C12_prim_string.
Print Assumptions C12_prim_short_string.
Print Assumptions C12_prim_short_string_accepts.
Print Assumptions C12_prim_bytes_with_length.
Print Assumptions C12_prim_uvarint.
Print Assumptions C12_prim_uvarint_length.
Print Assumptions C12_prim_varint.
Print Assumptions C12_reflect.
Print Assumptions C12_reflect_any_reader.
Print Assumptions C12_reflect_exact.
Print Assumptions C12_write_is_writeReflect.
Print Assumptions C12_schema.
Print Assumptions C12_write_pointer.
Print Assumptions C12_nil_slice_refuted.
Print Assumptions C12_unexported_field_refuted.
Print Assumptions C12_zero_size_elements_refuted.
Print Assumptions C12_element_budget_refuted.
Print Assumptions C12_string_2pow32_refuted.
Print Assumptions C12_slice_length_wraps.
Print Assumptions C12_array_2pow32_refuted.
Print Assumptions C12_pointer_field_refuted.
Print Assumptions C12_nil_pointer_field_refuted.
Print Assumptions C12_interface_field_refuted.
Print Assumptions C12_pointer_to_interface.
Print Assumptions C12_unsupported_kinds.
Print Assumptions C12_length_prefix_too_long.
Print Assumptions C12_length_size_invalid.
Print Assumptions C12_noncanonical_accepted.

(** * Part II — C12, the Writer and the Reader as STATE MACHINES — buffer growth, byte order options, the sticky error, Reset /
    Seek / Skip / Remaining, the two sync.Pools, WriteMessage -> SerializeRemotingMessage -> pooled scratch Writer ->
    message writer -> WriteMessage ... at every depth, ReadMessage -> pooled Reader -> message reader — and the
    ActorRef factory at string level.  Lemmas in Codec/PrimO.v, ReflectOProofs.v, BufProofs.v, RefNormProofs.v.
    Models: Codec/PrimO.v, ReflectO.v, Buf.v, RefNorm.v.

    Vocabulary (Codec/Buf.v).
    [writer] = (w_buf = w.buf[:len], w_cap = cap(w.buf), w_ord : BE | LE, w_err = the sticky error); [w_ok w]: len <= cap.
    [wop]: the operations — the twelve WriteXxx ([WPrim]), WriteVarint/WriteUvarint, WriteBytes, WriteBytesWithLength,
    WriteShortString, Write, WriteFrom, Reset, and WriteMessage of a registered message ([WMsgReg name body ret]: the
    message's writer is the SCRIPT [body], a list of operations on the scratch Writer it is given, nested arbitrarily,
    and [ret] says how it returns) or of an outside message ([WMsgOut]: through the Codec).
    [run_wop op w p] = the real thing: capacity, growth, the pool [p] (objects that were Put + an oracle naming the object
    every Get hands out), roll-back of WriteMessage; it returns the Writer, the pool and the error WriteMessage returned.
    [wpool_clean p]: every pooled Writer is empty and error-free (what Release leaves; the byte order is set by every Get).
    [abs w] = (Bytes(), Err()): the ABSTRACT Writer; [spec_wop o op a] = the functional encoder of byte order [o] on it,
    no capacity, no pool: a registered message's body is encoded by a fresh big-endian abstract Writer.
    [reader], [prop] (operations a message reader may perform), [rop] (+ Reset, ReadMessage), [run_rop], [run_props];
    [rrem r] = Remaining(); [r_ok r]: Pos() <= len(buf).
    [sop]/[run_sop]: SCENARIOS — several Writers and Readers (handles) created with NewWriter / NewReader(opts) or taken
    from the pools, operated on in any interleaving, released in any order.
    Codec/ReflectO.v: [writeC o ty v] / [readO o tot ty st] = Writer.Write / Reader.Read in byte order [o] (chunks +
    outcome / outcome + meter); for [o = BE] they compute exactly [Reflect.write] / [Reflect.read].
    Codec/RefNorm.v: [new_ref ip a p] = actor.NewRef(a, p) on byte strings, [ip s] = (net.ParseIP(s) != nil). *)
(** ** 1. Writer: the real Writer (capacity, growth, pools, nesting, roll-back) computes the functional encoder *)

(** ONE operation on ANY Writer — new, reset, taken from the pool, grown, with any earlier content, in the error state or
    not, of either byte order — with ANY clean pool and ANY pool behaviour (oracle): Bytes(), Err() and the returned
    error are those of the functional encoder applied to what the Writer held; the pool stays clean, the byte order and
    len <= cap are kept.  By induction over the nesting of message bodies. *)
Theorem C12_writer_refines op w p w' p' e :
  w_ok w -> wpool_clean p = true -> run_wop op w p = (w', p', e) ->
  (abs w', e) = spec_wop (w_ord w) op (abs w) /\ wpool_clean p' = true /\ w_ord w' = w_ord w /\ w_ok w'.
Proof. exact (run_wop_refines op w p w' p' e). Qed.
(** any sequence of operations (the caller goes on after a failed WriteMessage) *)
Theorem C12_writer_sequence ops w p w' p' es :
  w_ok w -> wpool_clean p = true -> run_wops ops w p = (w', p', es) ->
  (abs w', es) = spec_wops (w_ord w) ops (abs w) /\ wpool_clean p' = true /\ w_ord w' = w_ord w /\ w_ok w'.
Proof. exact (run_wops_refines ops w p w' p' es). Qed.
(** no leak of earlier content, error cleared by Reset: after Reset, whatever the Writer held or was, the operations
    produce what they produce on a new Writer *)
Theorem C12_writer_reset_forgets ops w p w' p' es :
  w_ok w -> wpool_clean p = true -> run_wops (WReset :: ops) w p = (w', p', es) ->
  (abs w', tl es) = spec_wops (w_ord w) ops ([], None).
Proof. exact (reset_forgets ops w p w' p' es). Qed.
(** what an operation appends does not depend on what the Writer already holds *)
Theorem C12_writer_append_only o op b :
  op <> WReset ->
  spec_wop o op (b, None) = ((b ++ fst (fst (spec_wop o op ([], None))), snd (fst (spec_wop o op ([], None)))), snd (spec_wop o op ([], None))).
Proof. exact (spec_wop_prefix o op b). Qed.
(** the sticky error: nothing but Reset changes a Writer in the error state, and WriteMessage on it fails *)
Theorem C12_writer_sticky op w p w' p' r e :
  w_ok w -> wpool_clean p = true -> w_err w = Some e -> op <> WReset -> run_wop op w p = (w', p', r) ->
  abs w' = abs w /\ (is_plain op = false -> r <> None).
Proof. exact (writer_sticky op w p w' p' r e). Qed.
(** nested length prefixes at every depth: WriteMessage of a registered message whose writer succeeds appends
    len4(body) body len4(name) name, lengths in the OUTER Writer's order, [body] = exactly what a fresh big-endian Writer
    produces for the script (which may contain WriteMessage again) *)
Theorem C12_nested_frame o name body b d :
  spec_wbody body ([], None) = ((d, None), None) ->
  spec_wop o (WMsgReg name body RetSticky) (b, None) = ((b ++ put_lp4O o d ++ put_lp4O o name, None), None).
Proof. exact (nested_frame o name body b d). Qed.
(** a failed WriteMessage (error or panic in the message's writer, at any depth) leaves Bytes() and Err() as they were *)
Theorem C12_writemessage_rollback name body ret w p w' p' e :
  w_ok w -> wpool_clean p = true -> run_wop (WMsgReg name body ret) w p = (w', p', Some e) -> abs w' = abs w.
Proof. exact (writemessage_rollback name body ret w p w' p' e). Qed.

(** ** 2. Writer -> bytes -> Reader, through both machines *)
(** [wf_op]: the operations the Reader can undo with the values for which it does (every WriteXxx within its range,
    Write / WriteFrom of supported types); [inv_op] the inverse read, [val_op] the value it must return, [total_cnt] the
    slice elements charged to the Reader's budget.
    ANY Writer (pooled, reset, grown ...; either order; earlier content b0) performs the operations; a Reader of the same
    order placed behind b0 over the Writer's bytes followed by anything performs the inverse operations: no error on either
    side, the values come back, the Reader ends EXACTLY at the end of the Writer's bytes. *)
Theorem C12_machine_roundtrip ops w p w' p' es r junk :
  Forall wf_op ops -> w_ok w -> w_err w = None -> wpool_clean p = true ->
  run_wops ops w p = (w', p', es) ->
  r_buf r = w_buf w' ++ junk -> r_pos r = wlen w -> r_err r = None -> r_ord r = w_ord w -> r_elems r = 0 ->
  w_err w' = None /\ Forall (eq None) es /\
  run_props (map inv_op ops) r = (mkR (r_buf r) (wlen w') (w_ord w) None (total_cnt ops), inl (map val_op ops)).
Proof. exact (machine_roundtrip ops w p w' p' es r junk). Qed.
(** a Reader in any state (any position, elements already charged) whose budget still covers the values (after a Seek it always does: C12_seek_then_decode) *)
Theorem C12_ops_roundtrip o ops :
  Forall wf_op ops ->
  exists enc, spec_wops o ops ([], None) = ((enc, None), map (fun _ => None) ops) /\ total_cnt ops <= N.of_nat (length enc) /\
    forall r rest, r_err r = None -> r_ord r = o -> rrem r = enc ++ rest -> r_elems r + total_cnt ops <= rlen r ->
      run_props (map inv_op ops) r =
      (mkR (r_buf r) (r_pos r + N.of_nat (length enc)) o None (r_elems r + total_cnt ops), inl (map val_op ops)).
Proof. exact (ops_roundtrip o ops). Qed.
(** a registered message: WriteMessage on a Writer of order [o]; ReadMessage on any Reader of order [o] with any clean
    Reader pool, the registry mapping the name to the inverse script: the message's fields come back, the outer Reader
    ends exactly behind the frame *)
Theorem C12_message_roundtrip o name body :
  Forall wf_op body ->
  exists d, spec_wbody body ([], None) = ((d, None), None) /\
    (N.of_nat (length d) < 4294967296 -> N.of_nat (length name) < 4294967296 ->
     spec_wop o (WMsgReg name body RetSticky) ([], None) = ((put_lp4O o d ++ put_lp4O o name, None), None) /\
     forall env r rest p, lookup name (e_table env) = Some (map inv_op body) ->
       r_err r = None -> r_ord r = o -> rrem r = (put_lp4O o d ++ put_lp4O o name) ++ rest -> rpool_clean p = true ->
       fst (fst (run_rop env RMsg r p)) = mkR (r_buf r) (r_pos r + N.of_nat (length (put_lp4O o d ++ put_lp4O o name))) o None (r_elems r)
       /\ snd (run_rop env RMsg r p) = inl (RVMsg name (map val_op body))).
Proof. exact (message_roundtrip o name body). Qed.

(** ** 3. pools: what a Writer / Reader does depends on its own history only *)
(** every step of every scenario — any number of handles, any interleaving, any byte order options on NewWriter / NewReader /
    NewWriterFromPool / NewReaderFromPool, anything released into the pools, any pool behaviour; the only side condition
    ([admissible]) is that a caller-supplied Buffer is a Go slice, len <= cap: the invariant (pooled objects are empty and
    error-free, len <= cap, Pos <= len) is kept, and
    - an operation on a Writer handle is the functional encoder on what THAT Writer held — whatever the other handles did,
      whatever the pools contain, whichever objects they hand out;
    - NewWriterFromPool returns an empty, error-free Writer of the requested order, big-endian when none is requested —
      whatever the previous users of the object asked for;
    - an operation on a Reader handle does what it does with an empty pool; NewReaderFromPool(data) is NewReader(data). *)
Theorem C12_scenario env op s :
  sst_ok s -> admissible op ->
  sst_ok (fst (run_sop env op s)) /\
  match op with
  | SW h x ids =>
      match find_h h (s_hw s) with
      | Some (i, w) => exists w' e, snd (run_sop env op s) = ObsW w' e /\ (abs w', e) = spec_wop (w_ord w) x (abs w) /\ w_ord w' = w_ord w
      | None => snd (run_sop env op s) = ObsDead
      end
  | SGetW h ord id =>
      exists w, snd (run_sop env op s) = ObsW w None /\ abs w = ([], None) /\ w_ord w = match ord with Some o => o | None => BE end
  | SR h x ids =>
      match find_h h (s_hr s) with
      | Some (i, r) => exists r' v, snd (run_sop env op s) = ObsR r' v /\ (r', v) = (fst (fst (run_rop env x r (mkRP [] []))), snd (run_rop env x r (mkRP [] [])))
      | None => snd (run_sop env op s) = ObsDead
      end
  | SGetR h data ord id =>
      exists r, snd (run_sop env op s) = ObsR r (inl RVUnit) /\ r = mkR data 0 (match ord with Some o => o | None => BE end) None 0
  | _ => True
  end.
Proof. exact (scenario_step env op s). Qed.
(** ReadMessage: the result does not depend on the Reader pool or its oracle; the pool stays clean *)
Theorem C12_reader_pool_independent env op r p :
  rpool_clean p = true ->
  rpool_clean (snd (fst (run_rop env op r p))) = true /\
  fst (fst (run_rop env op r p)) = fst (fst (run_rop env op r (mkRP [] []))) /\
  snd (run_rop env op r p) = snd (run_rop env op r (mkRP [] [])).
Proof. exact (run_rop_pool env op r p). Qed.

(** the default byte order (repaired by 62b310d / 4dbfc0b; before, a pooled object kept the order of its previous user and
    this was C12_pool_default_order_refuted): a Writer / Reader obtained from a pool whose objects are empty and error-free
    — which is what Release leaves, whatever byte order they carry — is empty, error-free and of the requested order,
    big-endian when none is requested; NewReaderFromPool(data) IS NewReader(data) *)
Theorem C12_pool_default_order ord p id w p1 :
  wpool_clean p = true -> get_writer_opt ord p = ((id, w), p1) ->
  w_buf w = [] /\ w_err w = None /\ w_ord w = match ord with Some o => o | None => BE end /\ wpool_clean p1 = true.
Proof. exact (get_writer_clean ord p id w p1). Qed.
Theorem C12_reader_pool_default_order data p id r p1 :
  rpool_clean p = true -> get_reader_opt data None p = ((id, r), p1) -> r = new_reader data /\ rpool_clean p1 = true.
Proof. exact (get_reader_clean data p id r p1). Qed.
(** the old witnesses as regression scenarios: a Writer taken with LittleEndian and released; a Writer made with
    NewWriter(LittleEndian) and released; the next user asking for the default writes uint16(1) as 00 01, and
    SerializeRemotingMessage, handed the second object, writes the message body big-endian; likewise for Readers *)
Theorem C12_pool_order_regression :
  snd (run_scenario (mkEnv [] 0) leak_scenario s_init) =
  [ObsW (mkW [] 256 LE None) None; ObsNone; ObsW (mkW [] 256 BE None) None;
   ObsW (mkW [0; 1] 256 BE None) None;
   ObsNone;
   ObsW (mkW [] 256 LE None) None; ObsNone;
   ObsW (mkW [] 256 BE None) None;
   ObsW (mkW [0; 0; 0; 2; 0; 1; 0; 0; 0; 1; 120] 256 BE None) None].
Proof. exact pool_order_regression. Qed.
Theorem C12_reader_pool_order_regression :
  snd (run_scenario (mkEnv [] 0) leak_scenario_r s_init) =
  [ObsR (mkR [0; 1] 0 LE None 0) (inl RVUnit); ObsNone; ObsR (mkR [0; 1] 0 BE None 0) (inl RVUnit);
   ObsR (mkR [0; 1] 2 BE None 0) (inl (RVGo (VN 1)))].
Proof. exact pool_order_regression_reader. Qed.

(** Seek (repaired by ce2f8d5; before, Seek kept the element budget and this was C12_seek_reread_refuted): after Seek(p) the
    Reader is a NEW Reader over the same buffer positioned at p — error cleared, element budget cleared *)
Theorem C12_seek_is_fresh_reader p r :
  (0 <= p <= Z.of_N (rlen r))%Z -> plain_rop (RSeek p) r = (mkR (r_buf r) (Z.to_N p) (r_ord r) None 0, inl RVUnit).
Proof. exact (seek_spec p r). Qed.
(** hence: whatever the Reader did before (budget used up, error state), after Seek(p) decoding what a Writer wrote at p
    returns the values and ends exactly behind them ... *)
Theorem C12_seek_then_decode o ops :
  Forall wf_op ops ->
  exists enc, spec_wops o ops ([], None) = ((enc, None), map (fun _ => None) ops) /\
    forall r p rest, r_ord r = o -> p <= rlen r -> skipn (N.to_nat p) (r_buf r) = enc ++ rest ->
      run_props (RSeek (Z.of_N p) :: map inv_op ops) r =
      (mkR (r_buf r) (p + N.of_nat (length enc)) o None (total_cnt ops), inl (RVUnit :: map val_op ops)).
Proof. exact (seek_then_decode o ops). Qed.
(** ... any number of times *)
Theorem C12_seek_reread o ops n :
  Forall wf_op ops ->
  exists enc, spec_wops o ops ([], None) = ((enc, None), map (fun _ => None) ops) /\
    forall r p rest, r_ord r = o -> p <= rlen r -> skipn (N.to_nat p) (r_buf r) = enc ++ rest ->
      run_props (concat (repeat (RSeek (Z.of_N p) :: map inv_op ops) (S n))) r =
      (mkR (r_buf r) (p + N.of_nat (length enc)) o None (total_cnt ops), inl (concat (repeat (RVUnit :: map val_op ops) (S n)))).
Proof. exact (seek_reread_n o ops n). Qed.
(** the old witness as a regression scenario: []bool{true x5} (9 bytes) decoded three times *)
Theorem C12_seek_reread_regression :
  run_props [RRead reread_ty; RSeek 0; RRead reread_ty; RSeek 0; RRead reread_ty] (new_reader reread_data) =
  (mkR reread_data 9 BE None 5, inl [RVGo reread_val; RVUnit; RVGo reread_val; RVUnit; RVGo reread_val]).
Proof. exact seek_reread_regression. Qed.

(** ** 4. the non-default byte order *)
(** fixed-width integers (hence float bit patterns and every length prefix), both orders *)
Theorem C12_prim_any_order o k n rest : n < 256 ^ N.of_nat k -> rd_uintO o k (beO o k n ++ rest) = Ok (n, rest).
Proof. exact (rd_uintO_beO o k n rest). Qed.
Theorem C12_bytes_with_length_any_order o size b e rest :
  put_lpkO o size b = Ok e -> N.of_nat (length b) < 4294967296 -> rd_lpkO o size (e ++ rest) = Ok (b, rest).
Proof. exact (rd_lpkO_put o size b e rest). Qed.
(** a Writer and a Reader of different orders do not agree *)
Theorem C12_order_mismatch_refuted : rd_uintO BE 2 (beO LE 2 1) = Ok (256, []).
Proof. exact order_mismatch_refuted. Qed.
(** Write / Read of every value of every supported type, nested arbitrarily, in EITHER order, on a Reader in any state whose
    element budget covers the value (C12_reflect_any_reader for both orders) *)
Theorem C12_reflect_any_order o ty v :
  supported ty = true -> has_typeb ty v = true -> fits ty v = true ->
  snd (writeC o ty v) = OOk tt /\ cnt ty v <= N.of_nat (length (flat (writeC o ty v))) /\
  forall tot rest el, el + cnt ty v <= tot ->
    fst (readO o tot ty (flat (writeC o ty v) ++ rest, el)) = OOk (norm ty v, (rest, el + cnt ty v)).
Proof. exact (roundtrip_stateO o ty v). Qed.
Theorem C12_reflect_list_any_order o l :
  supported_all l = true ->
  snd (write_fromC o l) = OOk tt /\ cnt_all l <= N.of_nat (length (flat (write_fromC o l))) /\
  forall tot rest el, el + cnt_all l <= tot ->
    fst (read_intoO o tot (map fst l) (flat (write_fromC o l) ++ rest, el)) = OOk (map (fun p => norm (fst p) (snd p)) l, (rest, el + cnt_all l)).
Proof. exact (roundtrip_list_stateO o l). Qed.
(** the big-endian instance of the order-parametric functions is the model of C12_reflect.v / C13_reflect.v: same bytes and
    outcome of Write, same outcome, allocation and iteration count of Read *)
Theorem C12_big_endian_write_is_reflect ty v : of_wres (writeC BE ty v) = write ty v.
Proof. exact (writeC_BE ty v). Qed.
Theorem C12_big_endian_read_is_reflect tot ty st : proj (readO BE tot ty st) = read tot ty st.
Proof. exact (readO_BE tot ty st). Qed.

(** ** 5. the ActorRef factory (actor.NewRef) at string level, for EVERY ParseIP oracle *)
(** strings.TrimSpace is idempotent and never lengthens *)
Theorem C12_trim_space_idempotent s : trim_space (trim_space s) = trim_space s.
Proof. exact (trim_space_idem s). Qed.
(** the property of the factory the round trip of OnKill / OnKilled / envelope refs relies on: it accepts its own output
    unchanged (every *Ref in a running system was built by NewRef: ParseRef, Child, Clone go through it or copy) *)
Theorem C12_newref_idempotent ip a p a' p' : new_ref ip a p = inl (a', p') -> new_ref ip a' p' = inl (a', p').
Proof. exact (new_ref_idem ip a p a' p'). Qed.
(** what it returns is never the pair of empty strings (which reads back as a nil ref) and never longer than its input *)
Theorem C12_newref_shape ip a p a' p' :
  new_ref ip a p = inl (a', p') ->
  (exists r, p' = 47 :: r) /\ a' <> [] /\ (length a' <= length a)%nat /\ (length p' <= length p)%nat.
Proof. exact (new_ref_shape ip a p a' p'). Qed.
(** ** the hypotheses are satisfiable *)
(** a Writer that grew past its capacity, holds content and is taken through three levels of nesting *)
Definition ex_w : writer := mkW [7; 7; 7] 3 LE None.
Definition ex_pool : wpool := mkWP [(5, mkW [] 4 BE None); (6, mkW [] 700 BE None)] [6; 5; 9].
Definition ex_msg : wop :=
  WMsgReg [120; 65] [WPrim BU16 (VN 258); WMsgReg [120; 66] [WShort [1; 2]; WMsgReg [120; 67] [WVarint (-3)] RetSticky] RetSticky; WPrim BStr (VS [104; 105])] RetSticky.
Example C12_ex_writer : w_ok ex_w /\ wpool_clean ex_pool = true /\
  exists w' p', run_wop ex_msg ex_w ex_pool = (w', p', None) /\ w_cap w' = 78 /\ length (w_buf w') = 45%nat /\ wpool_clean p' = true /\ length (wp_free p') = 3%nat.
Proof. split; [vm_compute; discriminate|]. split; [reflexivity|]. eexists. eexists. vm_compute. repeat split. Qed.
Example C12_ex_wf : Forall wf_op [WPrim BF32 (VN 2143289344); WVarint (-5); WBytesLen 2 [1; 2; 3]; WWrite (TSlice false (TBasic BI16)) (VList [VZ (-2); VZ 5]);
                                  WWriteFrom [(TStruct [(true, TBasic BStr); (false, TInt)], VStruct [VS [97]; VZ 1])]].
Proof.
  constructor; [split; reflexivity|]. constructor; [cbn; lia|]. constructor; [right; left; split; [reflexivity|cbn; lia]|].
  constructor; [repeat split; reflexivity|]. constructor; [split; [discriminate|reflexivity]|constructor].
Qed.
Example C12_ex_admissible : sst_ok s_init /\ admissible (SNewW 0 1 (Some LE) (Some ([1; 2], 2)) false) /\ ~ admissible (SNewW 0 1 None (Some ([1; 2], 1)) false).
Proof. split; [repeat split; constructor|]. split; [cbn; lia|cbn; lia]. Qed.
Example C12_ex_newref : new_ref (fun _ => false) [32; 104; 46; 99; 58; 56; 48; 9] [47; 97; 37; 50; 102; 32] = inl ([104; 46; 99; 58; 56; 48], [47; 97; 37; 50; 102]).
Proof. vm_compute. reflexivity. Qed.

Print Assumptions C12_writer_refines.
Print Assumptions C12_writer_sequence.
Print Assumptions C12_writer_reset_forgets.
Print Assumptions C12_writer_append_only.
Print Assumptions C12_writer_sticky.
Print Assumptions C12_nested_frame.
Print Assumptions C12_writemessage_rollback.
Print Assumptions C12_machine_roundtrip.
Print Assumptions C12_ops_roundtrip.
Print Assumptions C12_message_roundtrip.
Print Assumptions C12_scenario.
Print Assumptions C12_reader_pool_independent.
Print Assumptions C12_pool_default_order.
Print Assumptions C12_reader_pool_default_order.
Print Assumptions C12_pool_order_regression.
Print Assumptions C12_reader_pool_order_regression.
Print Assumptions C12_seek_is_fresh_reader.
Print Assumptions C12_seek_then_decode.
Print Assumptions C12_seek_reread.
Print Assumptions C12_seek_reread_regression.
Print Assumptions C12_prim_any_order.
Print Assumptions C12_bytes_with_length_any_order.
Print Assumptions C12_order_mismatch_refuted.
Print Assumptions C12_reflect_any_order.
Print Assumptions C12_reflect_list_any_order.
Print Assumptions C12_big_endian_write_is_reflect.
Print Assumptions C12_big_endian_read_is_reflect.
Print Assumptions C12_trim_space_idempotent.
Print Assumptions C12_newref_idempotent.
Print Assumptions C12_newref_shape.
