(** C12, generic half — the primitive Writer and Reader of internal/messages (writer.go, reader.go) agree on
    every supported Go type, and the reader consumes exactly the bytes the writer produced.
    Statements only; every proof is [exact <lemma>] (lemmas in Codec/PrimProofs.v, Prim2Proofs.v,
    ReflectProofs.v).  Model: Codec/Prim.v, Prim2.v, Reflect.v.

    Vocabulary (Codec/Reflect.v): a Go value is a dynamic type [goty] with a payload [goval];
    [has_typeb ty v] says the pair is a Go value (numbers within the width of their type, array length =
    the type's length, ...); [supported ty]: unnamed basic types (uint8..uint64, int8..int64, float32/64 as
    IEEE bit patterns, bool, string), slices (named or not), arrays of fewer than 2^32 elements and structs
    of supported types, nested arbitrarily — unexported struct fields may have ANY type;
    [fits ty v]: every string and slice in exported positions has fewer than 2^32 elements, and every slice
    whose element type occupies no bytes on the wire ([wire0]: struct{}, structs with only unexported fields)
    is empty;
    [write ty v] = Writer.Write(v); [read tot ty (bs, el)] = Reader.Read(&x) for a variable x of type ty on a
    Reader with len(buf) = tot, remaining input bs and el slice elements created so far (the Reader refuses to
    create more than len(buf) slice elements in its lifetime); its first component is the outcome (value, new
    state), the second a cost meter (see C13_reflect.v); [read0 ty bs] = the same on a fresh Reader over bs;
    [cnt ty v] = the number of slice elements Read creates for v (elements of slices decoded reflectively, at
    every depth); [norm ty v] = v with nil slices replaced by empty slices and unexported struct fields
    replaced by zero values. *)
From Coq Require Import List NArith ZArith Bool.
From Vivid Require Import Codec.Prim Codec.PrimProofs Codec.Prim2 Codec.Prim2Proofs Codec.Reflect Codec.ReflectProofs.
Import ListNotations.
Local Open Scope N_scope.

(** ** every primitive pair, with its exact validity range; [rest] is arbitrary trailing input *)
Theorem C12_prim_uint8 n rest : n < 256 -> rd_u8 (put_u8 n ++ rest) = Ok (n, rest).
Proof. exact (rd_u8_put n rest). Qed.
Theorem C12_prim_uint16 n rest : n < 65536 -> rd_u16 (put_u16 n ++ rest) = Ok (n, rest).
Proof. exact (rd_u16_put n rest). Qed.
Theorem C12_prim_uint32 n rest : n < 4294967296 -> rd_u32 (put_u32 n ++ rest) = Ok (n, rest).
Proof. exact (rd_u32_put n rest). Qed.
Theorem C12_prim_uint64 n rest : n < 18446744073709551616 -> rd_u64 (put_u64 n ++ rest) = Ok (n, rest).
Proof. exact (rd_u64_put n rest). Qed.
Theorem C12_prim_int8 z rest : (- 2 ^ 7 <= z < 2 ^ 7)%Z -> rd_i8 (put_i8 z ++ rest) = Ok (z, rest).
Proof. exact (rd_i8_put z rest). Qed.
Theorem C12_prim_int16 z rest : (- 2 ^ 15 <= z < 2 ^ 15)%Z -> rd_i16 (put_i16 z ++ rest) = Ok (z, rest).
Proof. exact (rd_i16_put z rest). Qed.
Theorem C12_prim_int32 z rest : (- 2 ^ 31 <= z < 2 ^ 31)%Z -> rd_i32 (put_i32 z ++ rest) = Ok (z, rest).
Proof. exact (rd_i32_put z rest). Qed.
Theorem C12_prim_int64 z rest : (- 2 ^ 63 <= z < 2 ^ 63)%Z -> rd_i64 (put_i64 z ++ rest) = Ok (z, rest).
Proof. exact (rd_i64_put z rest). Qed.
(** floats are their IEEE-754 bit patterns: every pattern (NaN payloads, signalling NaNs, -0) survives *)
Theorem C12_prim_float32 bits rest : bits < 4294967296 -> rd_f32 (put_f32 bits ++ rest) = Ok (bits, rest).
Proof. exact (rd_f32_put bits rest). Qed.
Theorem C12_prim_float64 bits rest : bits < 18446744073709551616 -> rd_f64 (put_f64 bits ++ rest) = Ok (bits, rest).
Proof. exact (rd_f64_put bits rest). Qed.
Theorem C12_prim_bool b rest : rd_bool (put_bool b ++ rest) = Ok (b, rest).
Proof. exact (rd_bool_put b rest). Qed.
(** WriteString/ReadString and []byte: 4-byte length *)
Theorem C12_prim_string s rest : N.of_nat (length s) < 4294967296 -> rd_string (put_string s ++ rest) = Ok (s, rest).
Proof. exact (rd_lp4_put s rest). Qed.
(** WriteShortString/ReadShortString: whenever the writer accepts the string (at most 255 bytes) *)
Theorem C12_prim_short_string s w rest : put_short s = Ok w -> rd_short (w ++ rest) = Ok (s, rest).
Proof. exact (rd_lp_put 1 s w rest). Qed.
Theorem C12_prim_short_string_accepts s : N.of_nat (length s) < 256 -> exists w, put_short s = Ok w.
Proof. exact (put_lp_ok 1 s). Qed.
(** WriteBytesWithLength(v, size)/ReadBytesWithLength(size) for every int [size]: whenever the writer succeeds *)
Theorem C12_prim_bytes_with_length size b w rest :
  N.of_nat (length b) < 4294967296 -> put_lpk size b = Ok w -> rd_lpk size (w ++ rest) = Ok (b, rest).
Proof. exact (rd_lpk_put size b w rest). Qed.
(** WriteUvarint/ReadUvarint (encoding/binary): all of uint64; 1 to 10 bytes *)
Theorem C12_prim_uvarint n rest : n < 18446744073709551616 -> rd_uvarint (put_uvarint n ++ rest) = Ok (n, rest).
Proof. exact (rd_uvarint_put n rest). Qed.
Theorem C12_prim_uvarint_length n : (1 <= length (put_uvarint n) <= 10)%nat.
Proof. exact (put_uvarint_length n). Qed.
(** WriteVarint/ReadVarint (zig-zag): all of int64 *)
Theorem C12_prim_varint z rest : (- 2 ^ 63 <= z < 2 ^ 63)%Z -> rd_varint (put_varint z ++ rest) = Ok (z, rest).
Proof. exact (rd_varint_put z rest). Qed.

(** ** Write / Read: every value of every supported type, nested arbitrarily.  The decoded value is
    [norm ty v]; the reader stops exactly where the writer stopped ([rest] is returned untouched). *)
Theorem C12_reflect ty v :
  supported ty = true -> has_typeb ty v = true -> fits ty v = true ->
  exists b, write ty v = OOk b /\ forall rest, fst (read0 ty (b ++ rest)) = OOk (norm ty v, (rest, cnt ty v)).
Proof. exact (roundtrip ty v). Qed.
(** the same on a Reader in any state (e.g. in the middle of a user's reader function), provided its element
    budget still covers the value — which it always does when everything read so far was written by Write,
    because a value never has more counted elements than encoding bytes *)
Theorem C12_reflect_any_reader ty v :
  supported ty = true -> has_typeb ty v = true -> fits ty v = true ->
  exists b, write ty v = OOk b /\ cnt ty v <= N.of_nat (length b) /\
            forall tot rest el, el + cnt ty v <= tot -> fst (read tot ty (b ++ rest, el)) = OOk (norm ty v, (rest, el + cnt ty v)).
Proof. exact (roundtrip_state ty v). Qed.
(** the hypotheses are satisfiable by a nested value with an unexported field, a nil slice, a named slice,
    NaN / -0 float patterns and an array of zero-size elements (on which [norm] is not the identity) *)
Example C12_reflect_example :
  supported ex_ty = true /\ has_typeb ex_ty ex_val = true /\ fits ex_ty ex_val = true /\ norm ex_ty ex_val <> ex_val.
Proof. exact ex_ok. Qed.

(** the normalisation is the identity on values without nil slices whose struct fields are all exported *)
Theorem C12_reflect_exact ty v : canonical ty v = true -> norm ty v = v.
Proof. exact (fun H => norm_canonical v ty H). Qed.
Example C12_reflect_exact_example :
  canonical (TSlice false (TStruct [(true, TBasic BStr); (true, TArray 1 (TBasic BI64))])) (VList [VStruct [VS [65]; VList [VZ (-7)]]]) = true.
Proof. reflexivity. Qed.

(** the reflective writer (what Write reaches for struct fields and elements) writes the same bytes *)
Theorem C12_write_is_writeReflect ty v : supported ty = true -> has_typeb ty v = true -> write ty v = wrefl ty v.
Proof. exact (write_eq_wrefl ty v). Qed.

(** WriteFrom(a...) / ReadInto(&a...) over supported types, for every list: covers every user
    reader/writer pair registered with RegisterCustomMessage that is built from these two calls *)
Theorem C12_schema l :
  forallb (fun p => supported (fst p) && has_typeb (fst p) (snd p) && fits (fst p) (snd p)) l = true ->
  exists b, write_from l = OOk b /\
            forall rest, fst (read_into0 (map fst l) (b ++ rest)) = OOk (map (fun p => norm (fst p) (snd p)) l, (rest, cnt_all l)).
Proof. exact (roundtrip_list l). Qed.
Example C12_schema_example :
  forallb (fun p => supported (fst p) && has_typeb (fst p) (snd p) && fits (fst p) (snd p))
          [(TBasic BStr, VS [1; 2]); (ex_ty, ex_val); (TArray 2 (TBasic BBool), VList [VB true; VB false])] = true.
Proof. vm_compute. reflexivity. Qed.

(** Write(&x) writes what Write(x) writes, for the twelve basic types and []byte (nil *[]byte = empty) *)
Theorem C12_write_pointer b v : write (TPtr (TBasic b)) (VPtr v) = write (TBasic b) v.
Proof. exact (eq_refl (wprim b v)). Qed.

(** ** values and types EXCLUDED from the round trip, each with its witness *)
(** a nil slice comes back as an empty non-nil slice *)
Theorem C12_nil_slice_refuted : exists ty v b v', supported ty = true /\ has_typeb ty v = true /\ fits ty v = true /\
  write ty v = OOk b /\ fst (read0 ty b) = OOk (v', ([], cnt ty v)) /\ v = VNil /\ v' = VList [].
Proof. exact w_nil_slice. Qed.
(** unexported struct fields are not transmitted: they come back as zero values *)
Theorem C12_unexported_field_refuted : exists ty v b v', supported ty = true /\ has_typeb ty v = true /\ fits ty v = true /\
  write ty v = OOk b /\ fst (read0 ty b) = OOk (v', ([], cnt ty v)) /\ v = VStruct [VZ 5; VN 1] /\ v' = VStruct [VZ 0; VN 1].
Proof. exact w_unexported. Qed.
(** a NON-EMPTY slice of elements that occupy no bytes on the wire ([]struct{}{{}}): it is written as its
    length only; the reader rejects a slice length above the number of remaining bytes, and a total of more
    than len(buf) slice elements per Reader (its defences against hostile lengths), so the value reads back
    only when enough unrelated bytes happen to follow *)
Theorem C12_zero_size_elements_refuted : exists ty v b, supported ty = true /\ has_typeb ty v = true /\ fits ty v = false /\
  write ty v = OOk b /\ fst (read0 ty b) = OErr EEOF /\ fst (read0 ty (b ++ [9])) = OOk (v, ([9], 1))
  /\ ty = TSlice false (TStruct []) /\ v = VList [VStruct []].
Proof. exact w_wire0_slice. Qed.
(** the element budget: [][]struct{} with two inner slices of three elements counts 8 elements but is written
    in 12 bytes: not decodable from its own bytes, decodable when 3 more bytes follow *)
Theorem C12_element_budget_refuted :
  let ty := TSlice false (TSlice false (TStruct [])) in
  let v := VList [VList [VStruct []; VStruct []; VStruct []]; VList [VStruct []; VStruct []; VStruct []]] in
  write ty v = OOk [0; 0; 0; 2; 0; 0; 0; 3; 0; 0; 0; 3]
  /\ fst (read0 ty [0; 0; 0; 2; 0; 0; 0; 3; 0; 0; 0; 3]) = OErr EEOF
  /\ fst (read0 ty [0; 0; 0; 2; 0; 0; 0; 3; 0; 0; 0; 3; 7; 7; 7]) = OOk (v, ([7; 7; 7], 8))
  /\ fits ty v = false /\ cnt ty v = 8.
Proof. exact w_budget. Qed.
(** a string or []byte of 2^32 bytes or more: the length prefix is uint32(len), the reader cannot return it *)
Theorem C12_string_2pow32_refuted s rest : 4294967296 <= N.of_nat (length s) -> rd_string (put_string s ++ rest) <> Ok (s, rest).
Proof. exact (string_too_long s rest). Qed.
(** a slice of 2^32 or more elements announces its length modulo 2^32 *)
Theorem C12_slice_length_wraps nm e l :
  wrefl (TSlice nm e) (VList l) = obind (wlist e l) (fun b => OOk (put_u32 (N.of_nat (length l) mod 4294967296) ++ b)).
Proof. exact (wrefl_length_wraps nm e l). Qed.
(** an array type of 2^32 or more elements is never read (the uint32 on the wire cannot equal its length) *)
Theorem C12_array_2pow32_refuted tot n e st : 4294967296 <= n -> wf_bytes (fst st) = true -> forall v r, fst (read tot (TArray n e) st) <> OOk (v, r).
Proof. exact (array_too_long tot n e st). Qed.
(** a pointer field is written (dereferenced) but its type cannot be read *)
Theorem C12_pointer_field_refuted : exists ty v b, has_typeb ty v = true /\ write ty v = OOk b /\ fst (read0 ty b) = OErr EUnsupported
  /\ ty = TStruct [(true, TPtr (TBasic BI8))] /\ v = VStruct [VPtr (VZ 5)].
Proof. exact w_pointer_field. Qed.
(** a nil pointer in an exported field: the writer fails *)
Theorem C12_nil_pointer_field_refuted : exists ty v, has_typeb ty v = true /\ write ty v = OErr EInvalid
  /\ ty = TStruct [(true, TBasic BU8); (true, TPtr (TBasic BI8))] /\ v = VStruct [VN 1; VNil].
Proof. exact w_nil_pointer_field. Qed.
(** an interface field is written as its dynamic value but cannot be read *)
Theorem C12_interface_field_refuted : exists ty v b, has_typeb ty v = true /\ write ty v = OOk b /\ fst (read0 ty b) = OErr EUnsupported
  /\ ty = TStruct [(true, TIface)] /\ v = VStruct [VIface (TBasic BI32) (VZ 3)].
Proof. exact w_iface_field. Qed.
(** a pointer to an interface is written only if the interface holds an unnamed basic value; a struct field
    of interface type is written for every dynamic type *)
Theorem C12_pointer_to_interface :
  write (TPtr TIface) (VPtr (VIface (TBasic BI32) (VZ 5))) = OOk [0; 0; 0; 5]
  /\ write (TPtr TIface) (VPtr (VIface (TStruct []) (VStruct []))) = OErr EUnsupported
  /\ write (TStruct [(true, TIface)]) (VStruct [VIface (TStruct []) (VStruct [])]) = OOk [].
Proof. exact w_ptr_iface. Qed.
(** named basic types, int, uint, map, chan, func, nil interface, nil pointers (except *[]byte, written as an
    empty slice), pointer and interface targets: rejected by writer and/or reader with an error *)
Theorem C12_unsupported_kinds :
  (forall b v, basic_ok b v = true -> write (TNamed b) v = OErr EUnsupported /\ forall tot st, fst (read tot (TNamed b) st) = OErr EUnsupported) /\
  (forall z, write TInt (VZ z) = OErr EUnsupported /\ forall tot st, fst (read tot TInt st) = OErr EUnsupported) /\
  (forall n, write TUint (VN n) = OErr EUnsupported /\ forall tot st, fst (read tot TUint st) = OErr EUnsupported) /\
  (forall v, v = VNil \/ v = VOpaque -> write TMap v = OErr EUnsupported /\ write TChan v = OErr EUnsupported /\ write TFunc v = OErr EUnsupported) /\
  write TIface VNil = OErr EUnsupported /\
  (forall t, t <> TSlice false (TBasic BU8) -> write (TPtr t) VNil = OErr EInvalid) /\
  write (TPtr (TSlice false (TBasic BU8))) VNil = OOk [0; 0; 0; 0] /\
  (forall t tot st, fst (read tot (TPtr t) st) = OErr EUnsupported) /\ (forall tot st, fst (read tot TIface st) = OErr EUnsupported).
Proof. exact unsupported_kinds. Qed.
(** 1- and 2-byte length prefixes: longer data is refused by the writer; other sizes are refused by both *)
Theorem C12_length_prefix_too_long k b : 256 ^ N.of_nat k <= N.of_nat (length b) -> put_lp k b = Err ETooLarge.
Proof. exact (put_lp_err k b). Qed.
Theorem C12_length_size_invalid size b bs : size <> 1%Z -> size <> 2%Z -> size <> 4%Z ->
  put_lpk size b = Err EInvalid /\ rd_lpk size bs = Err EInvalid.
Proof. exact (fun H1 H2 H4 => conj (put_lpk_invalid size b H1 H2 H4) (rd_lpk_invalid size bs H1 H2 H4)). Qed.
(** the reader accepts encodings the writer never produces: any non-zero byte is true; non-minimal uvarints *)
Theorem C12_noncanonical_accepted : fst (read0 (TBasic BBool) [2]) = OOk (VB true, ([], 0)) /\ rd_uvarint [128; 0] = Ok (0, []) /\ put_uvarint 0 = [0].
Proof. exact w_noncanonical. Qed.

Print Assumptions C12_prim_uint8.
Print Assumptions C12_prim_uint16.
Print Assumptions C12_prim_uint32.
Print Assumptions C12_prim_uint64.
Print Assumptions C12_prim_int8.
Print Assumptions C12_prim_int16.
Print Assumptions C12_prim_int32.
Print Assumptions C12_prim_int64.
Print Assumptions C12_prim_float32.
Print Assumptions C12_prim_float64.
Print Assumptions C12_prim_bool.
Print Assumptions C12_prim_string.
Print Assumptions C12_prim_short_string.
Print Assumptions C12_prim_short_string_accepts.
Print Assumptions C12_prim_bytes_with_length.
Print Assumptions C12_prim_uvarint.
Print Assumptions C12_prim_uvarint_length.
Print Assumptions C12_prim_varint.
Print Assumptions C12_reflect.
Print Assumptions C12_reflect_any_reader.
Print Assumptions C12_reflect_exact.
Print Assumptions C12_write_is_writeReflect.
Print Assumptions C12_schema.
Print Assumptions C12_write_pointer.
Print Assumptions C12_nil_slice_refuted.
Print Assumptions C12_unexported_field_refuted.
Print Assumptions C12_zero_size_elements_refuted.
Print Assumptions C12_element_budget_refuted.
Print Assumptions C12_string_2pow32_refuted.
Print Assumptions C12_slice_length_wraps.
Print Assumptions C12_array_2pow32_refuted.
Print Assumptions C12_pointer_field_refuted.
Print Assumptions C12_nil_pointer_field_refuted.
Print Assumptions C12_interface_field_refuted.
Print Assumptions C12_pointer_to_interface.
Print Assumptions C12_unsupported_kinds.
Print Assumptions C12_length_prefix_too_long.
Print Assumptions C12_length_size_invalid.
Print Assumptions C12_noncanonical_accepted.
