From Coq Require Import List NArith ZArith.
From Vivid Require Import Codec.Prim Codec.PrimProofs Codec.Prim2 Codec.Prim2Proofs Codec.Reflect.
Local Open Scope N_scope.
Theorem C12_reflect_stub n rest : n < 18446744073709551616 -> rd_uvarint (put_uvarint n ++ rest) = Ok (n, rest).
Proof. exact (rd_uvarint_put n rest). Qed.
Print Assumptions C12_reflect_stub.
