(** C19 (the part that lives in ActorCore) - the event stream delivers each event once to exactly the
    current subscribers.

    Model: Actor/Core.v.  [subs s : list (N * list (path * aid))] is eventStream.subscribers (event type ->
    subscriber path -> subscriber context); [subscribers s ty] is the inner map of a type (empty if the type
    has no entry).  The stream operations are the actions [ASub ty] (Subscribe), [AUnsub ty] (Unsubscribe),
    [AUnsubAll] (UnsubscribeAll), [APub ty payload] -> [IPub] (Publish: snapshot under the read lock, then one
    tell per snapshot entry in map-iteration order = [IEnqAny]); the stop sequence ends in [ICleanup], whose
    first effect is UnsubscribeAll.  Each of them runs atomically ([exec1]).  The reverse table
    subscriberTypes of the Go code is not a separate component of the model: UnsubscribeAll is modelled by its
    effect on [subs] (the differential harness of C19 checks both tables of the real eventStream).
    Definitions: Actor/SpecSup.v.  Statements only; proofs in Actor/ProofsStream.v. *)
From Coq Require Import List NArith ZArith Bool Permutation.
From Vivid Require Import Actor.Core Actor.CoreRun Actor.SpecSup Actor.ProofsSup Actor.ProofsStream.
Import ListNotations.

(** ============================ (a) the table ============================ *)

(** in every reachable state no event type has two entries and no path is subscribed twice to a type *)
Theorem C19_no_duplicate_subscription s :
  reachable s ->
  NoDup (map fst (subs s)) /\ (forall ty m, In (ty, m) (subs s) -> NoDup (map fst m)) /\ (forall ty, NoDup (sub_paths s ty)).
Proof. exact (subs_nodup_unfolded s). Qed.

(** every entry names a context that exists and has that path (contexts never change their path) *)
Theorem C19_entries_name_their_context s ty m p a :
  reachable s -> In (ty, m) (subs s) -> In (p, a) m -> exists x, get s a = Some x /\ a_path x = p.
Proof. exact (fun H => subs_wf_reachable s H ty m p a). Qed.

(** subscribing twice has no additional effect: Subscribe of an already subscribed path changes nothing *)
Theorem C19_subscribe_twice_no_effect s t held x ty v :
  get s (self_of t) = Some x -> alookup (subscribers s ty) (a_path x) = Some v ->
  exec1 s t held (IAct (ASub ty)) = (s, []).
Proof. exact (exec1_ASub_again s t held x ty v). Qed.

(** a first subscription adds exactly (own path, own context) to exactly that type *)
Theorem C19_subscribe_adds_one s t held x ty :
  get s (self_of t) = Some x -> alookup (subscribers s ty) (a_path x) = None ->
  exists s', exec1 s t held (IAct (ASub ty)) = (s', []) /\
    subscribers s' ty = subscribers s ty ++ [(a_path x, self_of t)] /\
    (forall ty', ty' <> ty -> nlookup (subs s') ty' = nlookup (subs s) ty') /\
    actors s' = actors s /\ reg s' = reg s.
Proof. exact (exec1_ASub_new s t held x ty). Qed.

(** Unsubscribe removes exactly the own path from exactly that type: afterwards the path is not subscribed to
    the type (a publish that takes its snapshot from now on does not name it), every other path and every
    other type is as before *)
Theorem C19_unsubscribe_removes_exactly s t held x ty :
  get s (self_of t) = Some x ->
  exists s', exec1 s t held (IAct (AUnsub ty)) = (s', []) /\
    subscribers s' ty = aremove (subscribers s ty) (a_path x) /\
    alookup (subscribers s' ty) (a_path x) = None /\
    ~ In (a_path x) (sub_paths s' ty) /\
    (forall q, q <> a_path x -> alookup (subscribers s' ty) q = alookup (subscribers s ty) q) /\
    (forall ty', ty' <> ty -> nlookup (subs s') ty' = nlookup (subs s) ty').
Proof. exact (unsubscribe_exact s t held x ty). Qed.

(** the clause "the stream then holds no entry for it", for Unsubscribe: the PATH has no entry under the type
    (previous theorem), but the TYPE keeps its entry even when its subscriber map became empty - this is the
    code's behaviour (eventStream.Unsubscribe deletes from the inner map only; only UnsubscribeAll deletes an
    emptied type) *)
Theorem C19_unsubscribe_leaves_empty_type_entry s t held x ty l :
  get s (self_of t) = Some x -> nlookup (subs s) ty = Some l ->
  nlookup (subs (fst (exec1 s t held (IAct (AUnsub ty))))) ty = Some (aremove l (a_path x)).
Proof. exact (unsubscribe_leaves_type s t held x ty l). Qed.

(** UnsubscribeAll (table without duplicate types, e.g. any reachable state): the own path is removed from
    every type; a type whose map becomes empty is deleted, a type the path was not subscribed to is left
    alone; no remaining entry mentions the path *)
Theorem C19_no_entry_after_unsubscribe_all s t held x :
  get s (self_of t) = Some x -> subs_nodup (subs s) ->
  exists s', exec1 s t held (IAct AUnsubAll) = (s', []) /\
    subs s' = unsub_all (subs s) (a_path x) /\
    (forall ty, subscribers s' ty = aremove (subscribers s ty) (a_path x)) /\
    (forall ty m, In (ty, m) (subs s') -> alookup m (a_path x) = None) /\
    (forall ty m v, nlookup (subs s) ty = Some m -> alookup m (a_path x) = Some v -> aremove m (a_path x) = [] -> nlookup (subs s') ty = None) /\
    (forall ty m, nlookup (subs s) ty = Some m -> alookup m (a_path x) = None -> nlookup (subs s') ty = Some m) /\
    subs_nodup (subs s').
Proof. exact (unsubscribe_all_exact s t held x). Qed.

(** the same for any table, without the no-duplicate hypothesis: nothing that remains mentions the path *)
Theorem C19_unsub_all_no_entry l p ty m : In (ty, m) (unsub_all l p) -> alookup m p = None.
Proof. exact (unsub_all_no_entry l p ty m). Qed.

(** only the stream operations and the end of a stop change the table *)
Theorem C19_table_frame s t held i : stream_instr i = false -> subs (fst (exec1 s t held i)) = subs s.
Proof. exact (exec1_subs s t held i). Qed.

Theorem C19_table_frame_dispatch s a x e : subs (fst (dispatch s a x e)) = subs s.
Proof. exact (dispatch_subs s a x e). Qed.

(** ============================ (b) fan-out ============================ *)

(** Publish in a reachable state [s]: the tells are one IEnqAny over the snapshot [subscribers s ty], sent as
    user messages by the system (root) - one target per subscribed path, each target is the context that
    subscribed under that path, no target twice, nobody else; no subscriber = no tell *)
Theorem C19_fanout s t held x ty payload :
  reachable s -> get s (self_of t) = Some x ->
  exec1 s t held (IPub ty payload) =
    (s, match subscribers s ty with
        | [] => []
        | _ :: _ => [IEnqAny false (map (fun p => RObj (snd p)) (subscribers s ty)) root_ref (MEvent ty payload)]
        end) /\
  NoDup (sub_paths s ty) /\
  (forall p a, In (p, a) (subscribers s ty) -> exists y, get s a = Some y /\ a_path y = p) /\
  NoDup (map (fun p => RObj (snd p)) (subscribers s ty)).
Proof. exact (fanout s t held x ty payload). Qed.

Theorem C19_publish_action s t held x ty payload :
  get s (self_of t) = Some x -> exec1 s t held (IAct (APub ty payload)) = (s, [IPub ty [payload]]).
Proof. exact (exec1_APub s t held x ty payload). Qed.

(** one delivery of the range: the chosen target gets the envelope and is removed from the remaining list *)
Theorem C19_fanout_step s t k sys tos sender m rest :
  pend_of s t = IEnqAny sys tos sender m :: rest -> err (step s (EvPush t k)) = false ->
  exists to, nth_error tos k = Some to /\
    step s (EvPush t k) =
      set_pend (fst (deliver (snd (resolve s to)) (fst (resolve s to)) {| e_sys := sys; e_sender := sender; e_msg := m |}))
               t (IEnqDone :: match remove_nth k tos with [] => rest | _ :: _ => IEnqAny sys (remove_nth k tos) sender m :: rest end) /\
    pend_of (step s (EvPush t k)) t = IEnqDone :: match remove_nth k tos with [] => rest | _ :: _ => IEnqAny sys (remove_nth k tos) sender m :: rest end.
Proof. exact (step_IEnqAny s t k sys tos sender m rest). Qed.

(** under ANY interleaving the range advances only by the publisher's own queue insertions: a step leaves the
    pending range as it is, or delivers to one chosen remaining target and removes it from the range *)
Theorem C19_fanout_interleaved s t sys tos sender m rest ev :
  (forall a, t = TA a -> ev <> EvHandle a) -> err (step s ev) = false ->
  pend_of s t = IEnqAny sys tos sender m :: rest ->
  pend_of (step s ev) t = IEnqAny sys tos sender m :: rest \/
  exists k to, ev = EvPush t k /\ nth_error tos k = Some to /\
    pend_of (step s ev) t = IEnqDone :: match remove_nth k tos with [] => rest | _ :: _ => IEnqAny sys (remove_nth k tos) sender m :: rest end.
Proof. exact (enq_any_phase_step s t sys tos sender m rest ev). Qed.

(** hence whatever the iteration order, the deliveries of a completed range are a permutation of the snapshot:
    every snapshot entry exactly once *)
Theorem C19_fanout_each_once (tos order : list rref) : pick_order tos order -> Permutation tos order.
Proof. exact (pick_order_perm tos order). Qed.

(** ============================ (c) death and restart ============================ *)

(** the end of a stop (ICleanup) unsubscribes the dying actor from everything: afterwards no entry mentions
    its path, so no later publish names it *)
Theorem C19_death_cleans s t held x :
  get s (self_of t) = Some x ->
  subs (fst (exec1 s t held ICleanup)) = unsub_all (subs s) (a_path x) /\
  (forall ty m, In (ty, m) (subs (fst (exec1 s t held ICleanup))) -> alookup m (a_path x) = None) /\
  (forall ty, alookup (subscribers (fst (exec1 s t held ICleanup)) ty) (a_path x) = None).
Proof. exact (cleanup_cleans s t held x). Qed.

(** a restart keeps the subscriptions: neither the RestartMessage handler, nor the stop sequence of a
    restarting actor (which ends in IRestartFinish, not ICleanup - C08_restart_no_cleanup), nor
    IRestartFinish touches the table (or the registry) *)
Theorem C19_restart_keeps s t held a x e poison :
  e_msg e = MRestart poison ->
  subs (fst (dispatch s a x e)) = subs s /\
  subs (fst (exec1 s t held (IDoKill poison))) = subs s /\
  subs (fst (exec1 s t held ICheckMark)) = subs s /\
  subs (fst (exec1 s t held IRestartFinish)) = subs s /\
  reg (fst (exec1 s t held IRestartFinish)) = reg s.
Proof. exact (restart_keeps s t held a x e poison). Qed.

(** ============================ examples (concrete runs, vm_compute) ============================ *)

Local Open Scope N_scope.

(** actor [30] subscribes to type 100 twice and to 101 on launch; actor [31] subscribes to 100 *)
Definition ex_sub_a : spec := Spec 30 [ASub 100; ASub 100; ASub 101] [] [] 0 [] true [] false.
Definition ex_sub_b : spec := Spec 31 [ASub 100] [] [] 0 [] true [] false.
Definition ex_stream_scripts : list (list action) := [[ASpawn ex_sub_a; ASpawn ex_sub_b; APub 100 5]].
Definition ex_stream_evs1 : list event := Eval vm_compute in firstn 14 (auto_events 200 (init_with ex_stream_scripts)).
Definition ex_stream_s1 : state := run_events ex_stream_evs1 (init_with ex_stream_scripts).

(** both are subscribed to 100 once (the double Subscribe had no effect), [30] also to 101 *)
Example C19_ex_table :
  reachable ex_stream_s1 /\
  subs ex_stream_s1 = [(101, [([30], 1%nat)]); (100, [([30], 1%nat); ([31], 2%nat)])].
Proof.
  split; [exists ex_stream_scripts, ex_stream_evs1; split; [reflexivity|vm_compute; reflexivity]|].
  vm_compute. reflexivity.
Qed.

(** the whole run: each subscriber sees the published event exactly once *)
Definition ex_stream_evs : list event := Eval vm_compute in auto_events 200 (init_with ex_stream_scripts).
Example C19_ex_publish_once_each :
  let s := run_events ex_stream_evs (init_with ex_stream_scripts) in
  err s = false /\
  filter (fun o => match o with OSeen _ _ _ (MEvent _ _) => true | _ => false end) (olog s) =
    [OSeen 1 0 0 (MEvent 100 [5]); OSeen 2 0 0 (MEvent 100 [5])].
Proof. vm_compute. split; reflexivity. Qed.

(** killing [30] removes it from both types; type 101 becomes empty and is deleted; [31] stays *)
Definition ex_kill_scripts : list (list action) := [[ASpawn ex_sub_a; ASpawn ex_sub_b; AKill (XHeld 0) false]].
Definition ex_kill_evs : list event := Eval vm_compute in auto_events 200 (init_with ex_kill_scripts).
Example C19_ex_death_cleans :
  let s := run_events ex_kill_evs (init_with ex_kill_scripts) in
  err s = false /\ subs s = [(100, [([31], 2%nat)])] /\ reg s = [([31], 2%nat)].
Proof. vm_compute. repeat split. Qed.

(** Unsubscribe of the only subscriber leaves the (empty) type entry behind *)
Definition ex_unsub : spec := Spec 32 [ASub 100; AUnsub 100] [] [] 0 [] true [] false.
Definition ex_unsub_scripts : list (list action) := [[ASpawn ex_unsub]].
Definition ex_unsub_evs : list event := Eval vm_compute in auto_events 200 (init_with ex_unsub_scripts).
Example C19_ex_unsubscribe_leaves_empty :
  let s := run_events ex_unsub_evs (init_with ex_unsub_scripts) in
  err s = false /\ subs s = [(100, [])].
Proof. vm_compute. repeat split. Qed.

Print Assumptions C19_no_duplicate_subscription.
Print Assumptions C19_entries_name_their_context.
Print Assumptions C19_subscribe_twice_no_effect.
Print Assumptions C19_subscribe_adds_one.
Print Assumptions C19_unsubscribe_removes_exactly.
Print Assumptions C19_unsubscribe_leaves_empty_type_entry.
Print Assumptions C19_no_entry_after_unsubscribe_all.
Print Assumptions C19_unsub_all_no_entry.
Print Assumptions C19_table_frame.
Print Assumptions C19_table_frame_dispatch.
Print Assumptions C19_fanout.
Print Assumptions C19_publish_action.
Print Assumptions C19_fanout_step.
Print Assumptions C19_fanout_interleaved.
Print Assumptions C19_fanout_each_once.
Print Assumptions C19_death_cleans.
Print Assumptions C19_restart_keeps.
