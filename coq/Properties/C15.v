(** C15 — Location transparency: Kill, Watch, Ping, Ask/Reply, PipeTo (and Tell, Unwatch, scheduler firings) work
    on remote refs: every operation of the actor API that takes an ActorRef puts into the REMOTE target's
    mailbox the envelope a local call puts into a local target's mailbox.

    Statements only; every proof is [exact <lemma>] (Remoting/TransparencyProofs.v).  Model: Remoting/Transparency.v.
    The theorems COMPOSE C12 (Codec/EnvelopeProofs.envelope_rt = C12_envelope, which contains the round trip of every
    registered message kind and of a user payload through the Codec) with C11 (Remoting/FrameProofs: exactly once,
    in order, for every chunking of the byte stream); Properties/C15_remote.v keeps the two wire-level theorems
    about raw envelopes.

    Reading guide.
    - [op] lists the operations; [op_envelope o] is the envelope Context.tell / Context.ask builds for [o]
      (system flag, sender ref, receiver ref, message).  A ref is the (address, path) pair of a [*Ref]; the model
      has no ref identity, so "the same envelope modulo ref identity" ([env_equiv]: system flag, message, sender
      address/path, receiver address/path) is equality of envelopes with present refs ([C15_equiv_is_equality]).
    - [wire_bytes e] = what the sender's remoting mailbox writes for [e] (EncodeEnvelopWithRemoting, 4-byte length);
      [remote_receive own chunks] = what the receiving system (advertised address [own]) enqueues when its conn.Read
      calls return [chunks] (frame reader as coded, DecodeEnvelopWithRemoting, HandleRemotingEnvelop's NewRef on both
      refs, the receiver re-addressed to [own] when the wire carries another address string of the system);
      [remote_transport own e] = the same for the unsplit frame.
    - [find_mailbox addr r] = System.findMailbox of a cache-less ref on the system whose address is [addr].

    TRUSTED BASE / explicit hypotheses (each appears in the statements):
    - M5  TCP on a healthy link is a reliable FIFO byte stream that may split and coalesce arbitrarily: the
          hypothesis [concat chunks = wire_bytes ...] (the reads concatenate to exactly the written bytes).
    - M9  the user Codec round-trips the payload: the [M_Outside] clause of [valid_msg]
          ([cenc u = MOk d /\ len32 d /\ cdec d = MOk u]); only OpTell / OpAsk / OpReply / nested messages use it.
    - NewRef idempotence on the refs used: [valid_aref newref r] ([newref a p = MOk (a, p)], strings fit their
          length prefix, not two empty strings); [C15_newref_made_refs_valid] derives it for every ref NewRef made
          from idempotence of NewRef; the remoting harness tests idempotence on the implementation every run.
    - M7  agent (future) paths are unique: [table (snd agent) = Some fut] in [C15_remote_ask_reply] (the entry
          registered by appendFuture before the send is still the one under that path when the reply arrives).
    - the two size conditions [fits] (message body below 4 GiB) and [frame_ok] (envelope at most 4 MiB) are part of
          [valid_op]; for the flat built-in operations they are PROVED from [small_op] (strings up to 64 KiB).
    Normalisations of C12 that the validity predicates exclude (the received message equals the sent one only
    outside them): typed-nil / two-empty-string ActorRef fields read back as nil, instants outside int64
    nanoseconds wrap, PipeResult.Error is mapped by [perr_of_wire] (see [C15_remote_pipe_failure_any_error]). *)
From Coq Require Import List NArith ZArith Lia.
From stdpp Require Import gmap.
From Vivid Require Import Codec.Prim Codec.MsgPrim Cluster.VV Codec.ClusterMsgs Codec.Msgs Codec.MsgsWitnesses
  Remoting.Frame Codec.Envelope Remoting.Transparency Remoting.TransparencyProofs.
From Vivid Require Actor.Core.
From Vivid Require Remoting.Churn Remoting.ChurnProofs.
Local Open Scope N_scope.

(** * the transparency theorem *)
(** [own] = the advertised address of the system that hosts the target.  For every operation, every wire-valid
    instance, every chunking of the byte stream and WHATEVER address string of that system the caller's ref
    carries ([valid_aref newref (own, path)]: the target's path is a valid path under the system's own address -
    for a ref that already carries [own] this is part of [valid_op]): the target system enqueues exactly one
    envelope, under the target's path, with the system flag, the message, the sender (address, path) and the
    receiver path of the caller's envelope and the system's own address as receiver address - the envelope a call
    on the target system itself enqueues ([localized]) *)
Theorem C15_transparent U hc cenc cdec qerr newref (own : bytes) (o : op U) :
  valid_op U hc cenc cdec qerr newref o -> valid_aref newref (own, snd (op_receiver U o)) ->
  exists e',
    remote_transport U hc cenc cdec qerr newref own (op_envelope U o) = Some e' /\
    env_equiv U e' (localized U own (op_envelope U o)) /\
    (forall chunks, concat chunks = wire_bytes U hc cenc (op_envelope U o) ->
                    remote_receive U hc cdec qerr newref own chunks = [Some e']) /\
    find_mailbox own (e_receiver U e') = ToLocal (snd (op_receiver U o)).
Proof. exact (transparent U hc cenc cdec qerr newref own o). Qed.

(** [localized own] only replaces the receiver's address by [own]; for a ref with the system's own address it is
    the identity: the enqueued envelope is then literally the one a local call enqueues *)
Theorem C15_localized U (own : bytes) (o : op U) :
  localized U own (op_envelope U o) =
  {| e_system := e_system U (op_envelope U o); e_sender := to_eref (op_sender U o);
     e_receiver := RRef own (snd (op_receiver U o)); e_msg := e_msg U (op_envelope U o) |}.
Proof. exact (localized_op U own o). Qed.
Theorem C15_localized_canonical U (o : op U) : localized U (fst (op_receiver U o)) (op_envelope U o) = op_envelope U o.
Proof. exact (localized_op_canonical U o). Qed.

(** in this model the equivalence is equality (no ref identity) *)
Theorem C15_equiv_is_equality U (e1 e2 : envelope U) :
  env_equiv U e1 e2 ->
  (exists a p, e_sender U e1 = RRef a p) -> (exists a p, e_receiver U e1 = RRef a p) ->
  (exists a p, e_sender U e2 = RRef a p) -> (exists a p, e_receiver U e2 = RRef a p) -> e1 = e2.
Proof. exact (env_equiv_eq U e1 e2). Qed.

(** any number of operations over one connection: each is enqueued exactly once, in the order of the calls *)
Theorem C15_transparent_stream U hc cenc cdec qerr newref (own : bytes) (os : list (op U)) (chunks : list bytes) :
  Forall (fun o => valid_op U hc cenc cdec qerr newref o /\ valid_aref newref (own, snd (op_receiver U o))) os ->
  concat chunks = concat (map (fun o => wire_bytes U hc cenc (op_envelope U o)) os) ->
  remote_receive U hc cdec qerr newref own chunks = map (fun o => Some (localized U own (op_envelope U o))) os.
Proof. exact (transparent_stream U hc cenc cdec qerr newref own os chunks). Qed.

(** the same at the level of envelopes, whatever built them *)
Theorem C15_envelope_transport U hc cenc cdec qerr newref (own : bytes) (e : envelope U) :
  wire_valid U hc cenc cdec qerr newref e -> present_ref newref (e_receiver U (localized U own e)) ->
  remote_transport U hc cenc cdec qerr newref own e = Some (localized U own e) /\
  forall chunks, concat chunks = wire_bytes U hc cenc e ->
                 remote_receive U hc cdec qerr newref own chunks = [Some (localized U own e)].
Proof. exact (fun HV HP => transport_one U hc cenc cdec qerr newref own e (conj HV HP)). Qed.

(** the receiver is a function of the concatenation of its reads (no hypothesis on the bytes) *)
Theorem C15_chunking_independent U hc cdec qerr newref (own : bytes) (chunks1 chunks2 : list bytes) :
  concat chunks1 = concat chunks2 ->
  remote_receive U hc cdec qerr newref own chunks1 = remote_receive U hc cdec qerr newref own chunks2.
Proof. exact (transport_chunking U hc cdec qerr newref own chunks1 chunks2). Qed.

(** routing on the calling system: findMailbox picks the remoting mailbox of the address string in the ref *)
Theorem C15_routing U (here : bytes) (o : op U) :
  fst (op_receiver U o) <> here ->
  find_mailbox here (e_receiver U (op_envelope U o)) = ToRemote (fst (op_receiver U o)).
Proof. exact (routing U here o). Qed.

(** the size conditions of the flat built-in operations follow from string bounds *)
Theorem C15_builtin_sizes U hc cenc (o : op U) :
  small_op U o -> fits U hc cenc (e_msg U (op_envelope U o)) /\ frame_ok U hc cenc (op_envelope U o).
Proof. exact (builtin_sizes U hc cenc o). Qed.

(** every ref NewRef made is a valid ref, if NewRef is idempotent *)
Theorem C15_newref_made_refs_valid (newref : bytes -> bytes -> mres (bytes * bytes)) :
  (forall a p a' p', newref a p = MOk (a', p') -> newref a' p' = MOk (a', p')) ->
  forall a0 p0 a p, newref a0 p0 = MOk (a, p) -> len32 a -> len32 p -> (a <> [] \/ p <> []) ->
  valid_aref newref (a, p).
Proof. exact (fun Hi a0 p0 a p Hn La Lp Hne => conj La (conj Lp (conj Hne (Hi a0 p0 a p Hn)))). Qed.

(** * per operation.  [own] / [ownT] = the advertised address of the target's system, [ownW] / [ownA] = that of the
    watcher's / asker's system.  The ref the caller holds ([target]) may carry [own] or an alias of it. *)
(** Kill: OnKill{Killer, Reason, Poison} arrives as a system message iff the kill is not a poison kill, names the
    killer's address and path, and is enqueued under the target's path *)
Theorem C15_remote_kill U hc cenc cdec qerr newref (own : bytes) (killer target : bytes * bytes) (reason : bytes) (poison : bool) :
  valid_aref newref killer -> valid_aref newref target -> valid_aref newref (own, snd target) ->
  small_aref killer -> small_aref target -> small reason ->
  exists e',
    remote_transport U hc cenc cdec qerr newref own (op_envelope U (OpKill killer target reason poison)) = Some e' /\
    (forall chunks, concat chunks = wire_bytes U hc cenc (op_envelope U (OpKill killer target reason poison)) ->
                    remote_receive U hc cdec qerr newref own chunks = [Some e']) /\
    e_system U e' = negb poison /\
    e_msg U e' = M_OnKill (RRef (fst killer) (snd killer)) reason poison /\
    e_sender U e' = RRef (fst killer) (snd killer) /\
    e_receiver U e' = RRef own (snd target) /\
    find_mailbox own (e_receiver U e') = ToLocal (snd target).
Proof. exact (remote_kill U hc cenc cdec qerr newref own killer target reason poison). Qed.

(** Watch: WatchMessage arrives as a system message whose sender has the watcher's address and path; the key
    onWatch files it under is "address@path" of the watcher *)
Theorem C15_remote_watch U hc cenc cdec qerr newref (own : bytes) (watcher target : bytes * bytes) :
  valid_aref newref watcher -> valid_aref newref target -> valid_aref newref (own, snd target) ->
  small_aref watcher -> small_aref target ->
  exists e',
    remote_transport U hc cenc cdec qerr newref own (op_envelope U (OpWatch watcher target)) = Some e' /\
    (forall chunks, concat chunks = wire_bytes U hc cenc (op_envelope U (OpWatch watcher target)) ->
                    remote_receive U hc cdec qerr newref own chunks = [Some e']) /\
    e_system U e' = true /\ e_msg U e' = M_Empty E_Watch /\
    e_sender U e' = RRef (fst watcher) (snd watcher) /\
    watcher_key (e_sender U e') = fst watcher ++ [64] ++ snd watcher /\
    find_mailbox own (e_receiver U e') = ToLocal (snd target).
Proof. exact (remote_watch U hc cenc cdec qerr newref own watcher target). Qed.

Theorem C15_remote_unwatch U hc cenc cdec qerr newref (own : bytes) (watcher target : bytes * bytes) :
  valid_aref newref watcher -> valid_aref newref target -> valid_aref newref (own, snd target) ->
  small_aref watcher -> small_aref target ->
  exists e',
    remote_transport U hc cenc cdec qerr newref own (op_envelope U (OpUnwatch watcher target)) = Some e' /\
    (forall chunks, concat chunks = wire_bytes U hc cenc (op_envelope U (OpUnwatch watcher target)) ->
                    remote_receive U hc cdec qerr newref own chunks = [Some e']) /\
    e_system U e' = true /\ e_msg U e' = M_Empty E_Unwatch /\
    watcher_key (e_sender U e') = fst watcher ++ [64] ++ snd watcher /\
    find_mailbox own (e_receiver U e') = ToLocal (snd target).
Proof. exact (remote_unwatch U hc cenc cdec qerr newref own watcher target). Qed.

(** the whole Watch round: the terminated target sends OnKilled{Ref: its own ref (ownT, path)} to the ref onWatch
    stored (the sender of the received request); that envelope reaches the watcher's system, is enqueued under
    the watcher's path, and its OnKilled.Ref has the terminated actor's (own) address and path *)
Theorem C15_remote_onkilled_names_target U hc cenc cdec qerr newref (ownW ownT : bytes) (watcher target : bytes * bytes) :
  valid_aref newref watcher -> valid_aref newref (ownW, snd watcher) ->
  valid_aref newref target -> valid_aref newref (ownT, snd target) ->
  small_aref watcher -> small_aref target -> small ownT ->
  exists e1 e2,
    remote_transport U hc cenc cdec qerr newref ownT (op_envelope U (OpWatch watcher target)) = Some e1 /\
    killed_notice U (ownT, snd target) (e_sender U e1) = op_envelope U (OpKilledNotice (ownT, snd target) watcher) /\
    remote_transport U hc cenc cdec qerr newref ownW (killed_notice U (ownT, snd target) (e_sender U e1)) = Some e2 /\
    (forall chunks, concat chunks = wire_bytes U hc cenc (killed_notice U (ownT, snd target) (e_sender U e1)) ->
                    remote_receive U hc cdec qerr newref ownW chunks = [Some e2]) /\
    e_system U e2 = true /\
    e_msg U e2 = M_OnKilled (RRef ownT (snd target)) /\
    find_mailbox ownW (e_receiver U e2) = ToLocal (snd watcher).
Proof. exact (remote_onkilled_names_target U hc cenc cdec qerr newref ownW ownT watcher target). Qed.

(** Ping / Pong: onPing on the target's system replies to the agent ref of the asker's future; the PongMessage is
    enqueued under the agent's path on the asker's system with both instants intact *)
Theorem C15_remote_ping_pong U hc cenc cdec qerr newref (ownA ownT : bytes) (agent target : bytes * bytes) (t now : Z) :
  valid_aref newref agent -> valid_aref newref (ownA, snd agent) ->
  valid_aref newref target -> valid_aref newref (ownT, snd target) ->
  small_aref agent -> small_aref target -> small ownT -> in_i64 t -> in_i64 now ->
  exists e1 pong e2,
    remote_transport U hc cenc cdec qerr newref ownT (op_envelope U (OpPing agent target t)) = Some e1 /\
    e_msg U e1 = M_Ping t /\ find_mailbox ownT (e_receiver U e1) = ToLocal (snd target) /\
    on_ping U (ownT, snd target) e1 now = Some pong /\ pong = op_envelope U (OpPong (ownT, snd target) agent t now) /\
    remote_transport U hc cenc cdec qerr newref ownA pong = Some e2 /\
    (forall chunks, concat chunks = wire_bytes U hc cenc pong -> remote_receive U hc cdec qerr newref ownA chunks = [Some e2]) /\
    e_system U e2 = false /\ e_msg U e2 = M_PongMessage (Some t) now /\
    find_mailbox ownA (e_receiver U e2) = ToLocal (snd agent).
Proof. exact (remote_ping_pong U hc cenc cdec qerr newref ownA ownT agent target t now). Qed.

(** Ask / Reply: the reply is addressed to the asker's agent path on the asker's system (routing by address, then
    path); M7 = the table entry under the agent path is this Ask's future *)
Theorem C15_remote_ask_reply U hc cenc cdec qerr newref (ownA ownT : bytes) (agent target : bytes * bytes) (m m' : msg U) :
  valid_op U hc cenc cdec qerr newref (OpAsk agent target m) -> valid_aref newref (ownT, snd target) ->
  valid_op U hc cenc cdec qerr newref (OpReply (ownT, snd target) agent m') -> valid_aref newref (ownA, snd agent) ->
  exists e1 e2,
    remote_transport U hc cenc cdec qerr newref ownT (op_envelope U (OpAsk agent target m)) = Some e1 /\
    e_system U e1 = false /\ e_msg U e1 = m /\ e_sender U e1 = RRef (fst agent) (snd agent) /\
    find_mailbox ownT (e_receiver U e1) = ToLocal (snd target) /\
    reply_envelope U (ownT, snd target) e1 m' = op_envelope U (OpReply (ownT, snd target) agent m') /\
    remote_transport U hc cenc cdec qerr newref ownA (reply_envelope U (ownT, snd target) e1 m') = Some e2 /\
    (forall chunks, concat chunks = wire_bytes U hc cenc (reply_envelope U (ownT, snd target) e1 m') ->
                    remote_receive U hc cdec qerr newref ownA chunks = [Some e2]) /\
    e_system U e2 = false /\ e_msg U e2 = m' /\
    find_mailbox ownA (e_receiver U e2) = ToLocal (snd agent) /\
    forall (X : Type) (table : bytes -> option X) (fut : X),
      table (snd agent) = Some fut ->
      lookup_local table (find_mailbox ownA (e_receiver U e2)) = Some fut.
Proof. exact (remote_ask_reply U hc cenc cdec qerr newref ownA ownT agent target m m'). Qed.

(** PipeTo, success result *)
Theorem C15_remote_pipe_success U hc cenc cdec qerr newref (own : bytes) (self forwarder : bytes * bytes) (id : bytes) (m : msg U) (e : perr) :
  valid_op U hc cenc cdec qerr newref (OpPipeSuccess self forwarder id m e) -> valid_aref newref (own, snd forwarder) ->
  exists e',
    remote_transport U hc cenc cdec qerr newref own (op_envelope U (OpPipeSuccess self forwarder id m e)) = Some e' /\
    (forall chunks, concat chunks = wire_bytes U hc cenc (op_envelope U (OpPipeSuccess self forwarder id m e)) ->
                    remote_receive U hc cdec qerr newref own chunks = [Some e']) /\
    e_system U e' = false /\ e_msg U e' = M_PipeResult id m e /\
    e_sender U e' = RRef (fst self) (snd self) /\
    find_mailbox own (e_receiver U e') = ToLocal (snd forwarder).
Proof. exact (remote_pipe_success U hc cenc cdec qerr newref own self forwarder id m e). Qed.

(** PipeTo, failure result (Message nil): uses C12_rt_PipeResult_nil_message; an error that is nil or a
    *vivid.Error with a non-zero registered code and a non-empty (or the registered) text arrives unchanged *)
Theorem C15_remote_pipe_failure U hc cenc cdec qerr newref (own : bytes) (self forwarder : bytes * bytes) (id : bytes) (e : perr) :
  valid_aref newref self -> valid_aref newref forwarder -> valid_aref newref (own, snd forwarder) ->
  small_aref self -> small_aref forwarder ->
  small id -> ty_perr e -> valid_perr qerr e -> match e with PEVivid _ t => small t | _ => True end ->
  exists e',
    remote_transport U hc cenc cdec qerr newref own (op_envelope U (OpPipeFailure self forwarder id e)) = Some e' /\
    (forall chunks, concat chunks = wire_bytes U hc cenc (op_envelope U (OpPipeFailure self forwarder id e)) ->
                    remote_receive U hc cdec qerr newref own chunks = [Some e']) /\
    e_system U e' = false /\ e_msg U e' = M_PipeResultNil id e /\
    find_mailbox own (e_receiver U e') = ToLocal (snd forwarder).
Proof. exact (remote_pipe_failure U hc cenc cdec qerr newref own self forwarder id e). Qed.

(** ... and for ANY error value the writer accepts ([perr_wire e = MOk (code, text)]: everything except a typed nil
    *Error): the forwarder sees [perr_of_wire qerr code text], i.e. (theorems C12_PipeResult_error_..._refuted): code 0 -> no error,
    unregistered code -> ErrorException(-1) "exception: error code <c> not found, message: <text>", empty text ->
    the registered text, a foreign error type -> ErrorException(-1) "exception: <err.Error()>" *)
Theorem C15_remote_pipe_failure_any_error U hc cenc cdec qerr newref (own : bytes) (self forwarder : bytes * bytes) (id : bytes)
        (e : perr) (c : Z) (t : bytes) :
  valid_aref newref self -> valid_aref newref forwarder -> valid_aref newref (own, snd forwarder) ->
  small_aref self -> small_aref forwarder -> small id ->
  perr_wire e = MOk (c, t) -> in_i32 c -> small t ->
  exists e',
    remote_transport U hc cenc cdec qerr newref own (op_envelope U (OpPipeFailure self forwarder id e)) = Some e' /\
    (forall chunks, concat chunks = wire_bytes U hc cenc (op_envelope U (OpPipeFailure self forwarder id e)) ->
                    remote_receive U hc cdec qerr newref own chunks = [Some e']) /\
    e_system U e' = false /\ e_msg U e' = M_PipeResultNil id (perr_of_wire qerr c t) /\
    e_sender U e' = RRef (fst self) (snd self) /\
    find_mailbox own (e_receiver U e') = ToLocal (snd forwarder).
Proof. exact (remote_pipe_failure_any_error U hc cenc cdec qerr newref own self forwarder id e c t). Qed.

(** a scheduler firing to a remote receiver: onScheduler runs the behaviour on the scheduled message with the
    scheduling actor as sender *)
Theorem C15_remote_scheduled U hc cenc cdec qerr newref (own : bytes) (self receiver : bytes * bytes) (reference : bytes) (m : msg U) :
  valid_op U hc cenc cdec qerr newref (OpScheduled self receiver reference m) -> valid_aref newref (own, snd receiver) ->
  exists e' seen,
    remote_transport U hc cenc cdec qerr newref own (op_envelope U (OpScheduled self receiver reference m)) = Some e' /\
    (forall chunks, concat chunks = wire_bytes U hc cenc (op_envelope U (OpScheduled self receiver reference m)) ->
                    remote_receive U hc cdec qerr newref own chunks = [Some e']) /\
    e_system U e' = false /\ e_msg U e' = M_Scheduler reference m /\
    find_mailbox own (e_receiver U e') = ToLocal (snd receiver) /\
    on_scheduler U e' = Some seen /\ e_msg U seen = m /\ e_sender U seen = RRef (fst self) (snd self).
Proof. exact (remote_scheduled U hc cenc cdec qerr newref own self receiver reference m). Qed.

(** * address aliases (finding repaired by the fix commit "resolve the receiver of an inbound remote envelope locally") *)
(** findMailbox treats a ref whose address string is not the system's own address as remote *)
Theorem C15_alias_address_forwarded (local a p : bytes) : a <> local -> find_mailbox local (RRef a p) = ToRemote a.
Proof. exact (alias_address_forwarded local a p). Qed.
(** with the repaired HandleRemotingEnvelop an operation through a ref that carries ANY address string reaching the
    system (localhost for 127.0.0.1, a DNS name, a NAT address) is delivered exactly as through the ref with the
    system's own address: the same envelope is enqueued, under the target's path, and nothing is sent again *)
Theorem C15_alias_address_delivered U hc cenc cdec qerr newref (own : bytes) (o : op U) :
  valid_op U hc cenc cdec qerr newref o -> valid_aref newref (own, snd (op_receiver U o)) ->
  wire_valid U hc cenc cdec qerr newref (localized U own (op_envelope U o)) ->
  exists e',
    remote_transport U hc cenc cdec qerr newref own (op_envelope U o) = Some e' /\
    remote_transport U hc cenc cdec qerr newref own (localized U own (op_envelope U o)) = Some e' /\
    (forall chunks, concat chunks = wire_bytes U hc cenc (op_envelope U o) ->
                    remote_receive U hc cdec qerr newref own chunks = [Some e']) /\
    find_mailbox own (e_receiver U e') = ToLocal (snd (op_receiver U o)) /\
    forall a, find_mailbox own (e_receiver U e') <> ToRemote a.
Proof. exact (alias_address_delivered U hc cenc cdec qerr newref own o). Qed.
(** regression: the handler before the fix enqueued the envelope with the wire's address string, which findMailbox
    routes to the remoting mailbox of that string again, and what that mailbox sends is the same envelope once
    more: the system sent the envelope to itself for ever and never delivered it (reproduced on the code before
    the fix: > 60000 frames in 1.5 s, delivered = 0) *)
Theorem C15_alias_loop_before_fix U hc cenc cdec qerr newref (own : bytes) (o : op U) :
  valid_op U hc cenc cdec qerr newref o -> fst (op_receiver U o) <> own ->
  (forall chunks, concat chunks = wire_bytes U hc cenc (op_envelope U o) ->
                  remote_receive_before_fix U hc cdec qerr newref chunks = [Some (op_envelope U o)]) /\
  find_mailbox own (e_receiver U (op_envelope U o)) = ToRemote (fst (op_receiver U o)).
Proof. exact (alias_loop_before_fix U hc cenc cdec qerr newref own o). Qed.

(** * where a remote target is not served like a local one (limits of the wire, not of the ref handling) *)
(** an unregistered user payload needs a Codec: without one the remote Tell is an encode failure on the sender's
    side (dead letter), while a local Tell delivers the value as it is *)
Theorem C15_tell_outside_needs_codec U hc cenc (sys : bool) (s t : bytes * bytes) (u : U) :
  hc = false -> wire U hc cenc (mk_env U sys s t (M_Outside u)) = None.
Proof. exact (tell_outside_needs_codec U hc cenc sys s t u). Qed.
(** an envelope above 4 MiB is refused by the sender (a local Tell has no size limit) *)
Theorem C15_oversize_not_sent U hc cenc (e : envelope U) (w : bytes) :
  enc_envelope U hc cenc e = MOk w -> max_frame < N.of_nat (length w) -> wire U hc cenc e = None.
Proof. exact (oversize_not_sent U hc cenc e w). Qed.
(** an envelope without sender (no operation above builds one) is dropped by HandleRemotingEnvelop *)
Theorem C15_absent_sender_dropped U newref (own : bytes) (o : envelope_out U) (er : merr) :
  o_saddr U o = [] -> o_spath U o = [] -> newref [] [] = MErr er -> handle U newref own o = None.
Proof. exact (absent_sender_dropped U newref own o er). Qed.

(** * link to the local semantics (Actor/Core.v: [deliver] = Enqueue into the looked-up mailbox, [dispatch] =
    Context.HandleEnvelop, [resolve] = findMailbox with ref caches).  Core.v is a one-system model: a locally
    sent envelope carries the sender's ref object [RObj b], the same envelope received through remoting carries
    a rebuilt ref [RFresh path]. *)
(** HandleEnvelop uses the sender ref only through its path: same instruction list, same state up to the
    identity of the sender ref stored in the current envelope and in the watcher table *)
Theorem C15_dispatch_sender_path_only (s : Core.state) (a : nat) (x : Core.actor) (sy : bool) (r1 r2 : Core.rref) (m : Core.msg) :
  Core.ref_path s r1 = Core.ref_path s r2 ->
  snd (Core.dispatch s a x (CoreView.mk sy r1 m)) = snd (Core.dispatch s a x (CoreView.mk sy r2 m)) /\
  CoreView.erase_state s (fst (Core.dispatch s a x (CoreView.mk sy r1 m))) =
  CoreView.erase_state s (fst (Core.dispatch s a x (CoreView.mk sy r2 m))).
Proof. exact (CoreLink.dispatch_sender_path_only s a x sy r1 r2 m). Qed.

Theorem C15_dispatch_remote_like_local (s : Core.state) (a b : nat) (x y : Core.actor) (sy : bool) (m : Core.msg) :
  Core.get s b = Some y ->
  snd (Core.dispatch s a x (CoreView.mk sy (Core.RObj b) m)) =
  snd (Core.dispatch s a x (CoreView.mk sy (Core.RFresh (Core.a_path y)) m)) /\
  CoreView.erase_state s (fst (Core.dispatch s a x (CoreView.mk sy (Core.RObj b) m))) =
  CoreView.erase_state s (fst (Core.dispatch s a x (CoreView.mk sy (Core.RFresh (Core.a_path y)) m))).
Proof. exact (CoreLink.dispatch_remote_like_local s a b x y sy m). Qed.

(** Enqueue: mailbox, queue and position do not depend on the sender ref *)
Theorem C15_deliver_sender_irrelevant (s : Core.state) (mb : Core.mbox) (sy : bool) (r1 r2 : Core.rref) (m : Core.msg) :
  snd (Core.deliver s mb (CoreView.mk sy r1 m)) = snd (Core.deliver s mb (CoreView.mk sy r2 m)) /\
  (mb = Core.MbDead -> fst (Core.deliver s mb (CoreView.mk sy r1 m)) = fst (Core.deliver s mb (CoreView.mk sy r2 m))) /\
  (forall r, fst (Core.deliver s mb (CoreView.mk sy r m)) =
             Core.push_mb s (snd (Core.deliver s mb (CoreView.mk sy r m)))
               (match mb with
                | Core.MbDead => {| Core.e_sys := false; Core.e_sender := Core.root_ref; Core.e_msg := Core.MDeadLetter sy m |}
                | _ => CoreView.mk sy r m
                end)).
Proof. exact (CoreLink.deliver_sender_irrelevant s mb sy r1 r2 m). Qed.

(** findMailbox of the stored ref (Reply, OnKilled to a watcher): object and rebuilt ref agree while the object's
    mailbox cache agrees with the registry ... *)
Theorem C15_resolve_obj_fresh_agree (s : Core.state) (a : nat) (x : Core.actor) :
  Core.get s a = Some x ->
  (forall y, Core.a_cache x = Some y -> Core.alookup (Core.reg s) (Core.a_path x) = Some y) ->
  fst (Core.resolve s (Core.RObj a)) = fst (Core.resolve s (Core.RFresh (Core.a_path x))).
Proof. exact (CoreLink.resolve_obj_fresh_agree s a x). Qed.
(** ... and THIS is where ref identity matters: once the path has been released and registered again, the cached
    ref object still reaches the old mailbox, a rebuilt ref reaches the new context *)
Theorem C15_resolve_identity_witness :
  Core.get CoreView.reuse_state 1 = Some CoreView.old_ctx /\
  fst (Core.resolve CoreView.reuse_state (Core.RObj 1)) = Core.MbActor 1 /\
  fst (Core.resolve CoreView.reuse_state (Core.RFresh (Core.a_path CoreView.old_ctx))) = Core.MbActor 2.
Proof. exact CoreLink.resolve_identity_witness. Qed.
(** an OnKilled that names a rebuilt ref never removes a child entry (removeChild compares ref objects) *)
Theorem C15_onkilled_fresh_keeps_children (s : Core.state) (t : Core.tid) (held : list nat) (x : Core.actor) (p : list N) :
  Core.get s (Core.self_of t) = Some x -> Core.a_zombie x = false ->
  Core.ref_eq s (Core.RFresh p) (Core.RObj (Core.self_of t)) = false ->
  Core.exec1 s t held (Core.IOnKilled (Core.RFresh p)) =
  (Core.set_actor s (Core.self_of t) x,
   [Core.IBeh (Core.MKilled (Core.RFresh p)) (Core.sp_killed (Core.a_spec x)) (Core.RecKilled (Core.RFresh p)); Core.ICheckMark]).
Proof. exact (CoreLink.onkilled_fresh_keeps_children s t held x p). Qed.

(** * non-vacuity *)
(** a remote non-poison Kill from a:1/w to b:1/t is a valid operation (no Codec, the accept-all ref factory) *)
Example C15_ex_kill_valid :
  valid_op wU false w_cenc w_cdec w_qerr w_newref (OpKill ([97; 58; 49], [47; 119]) ([98; 58; 49], [47; 116]) [120] false).
Proof.
  apply small_valid.
  - cbn. split; [vm_compute; reflexivity|split; [vm_compute; reflexivity|split; [left; discriminate|reflexivity]]].
  - cbn. split; [vm_compute; reflexivity|split; [vm_compute; reflexivity|split; [left; discriminate|reflexivity]]].
  - vm_compute. reflexivity.
  - unfold small_op, small_aref, small. cbn. lia.
Qed.
(** ... and its frame, cut after two bytes, is enqueued on b:1 as the OnKill system envelope naming a:1/w *)
Example C15_ex_kill_received :
  let e := op_envelope wU (OpKill ([97; 58; 49], [47; 119]) ([98; 58; 49], [47; 116]) [120] false) in
  let fr := wire_bytes wU false w_cenc e in
  remote_receive wU false w_cdec w_qerr w_newref [98; 58; 49] [firstn 2 fr; skipn 2 fr] = [Some e] /\
  e_system wU e = true /\ e_msg wU e = M_OnKill (RRef [97; 58; 49] [47; 119]) [120] false.
Proof. cbn zeta. split; [vm_compute; reflexivity|split; reflexivity]. Qed.
(** the same Kill through the alias "c:1" of the system advertised as "b:1": delivered under /t with the system's own
    address, whereas the handler before the fix enqueued an envelope that findMailbox sends out again *)
Example C15_ex_alias :
  let e := op_envelope wU (OpKill ([97; 58; 49], [47; 119]) ([99; 58; 49], [47; 116]) [120] false) in
  let fr := wire_bytes wU false w_cenc e in
  remote_receive wU false w_cdec w_qerr w_newref [98; 58; 49] [firstn 2 fr; skipn 2 fr] = [Some (localized wU [98; 58; 49] e)] /\
  find_mailbox [98; 58; 49] (e_receiver wU (localized wU [98; 58; 49] e)) = ToLocal [47; 116] /\
  remote_receive_before_fix wU false w_cdec w_qerr w_newref [firstn 2 fr; skipn 2 fr] = [Some e] /\
  find_mailbox [98; 58; 49] (e_receiver wU e) = ToRemote [99; 58; 49].
Proof. cbn zeta. repeat split; vm_compute; reflexivity. Qed.
(** a user payload through a Codec that round-trips it (M9): U = byte strings, the identity Codec *)
Example C15_ex_tell_codec_valid :
  valid_op bytes true (fun u => MOk u) (fun d => MOk d) w_qerr w_newref
           (OpTell ([97; 58; 49], [47; 119]) ([98; 58; 49], [47; 116]) (M_Outside [1; 2; 3])).
Proof.
  split; [|split; [|split; [|split]]].
  - cbn. split; [vm_compute; reflexivity|split; [vm_compute; reflexivity|split; [left; discriminate|reflexivity]]].
  - cbn. split; [vm_compute; reflexivity|split; [vm_compute; reflexivity|split; [left; discriminate|reflexivity]]].
  - cbn. split; [exact I|]. split; [reflexivity|]. exists [1; 2; 3]. split; [reflexivity|split; [vm_compute; reflexivity|reflexivity]].
  - intros b Hb. discriminate.
  - intros w Hw. vm_compute in Hw. injection Hw as <-. unfold max_frame. cbn. lia.
Qed.
(** the M7 hypothesis of the Ask / Reply theorem is satisfiable: a table with the agent path registered *)
Example C15_ex_table : (fun p : bytes => if bytes_eqb p [47; 119; 47; 102] then Some 7%nat else None) [47; 119; 47; 102] = Some 7%nat.
Proof. reflexivity. Qed.

(** * name reuse on the target system (model: Remoting/Churn.v, shared with C11)
    HandleRemotingEnvelop builds a fresh receiver ref for EVERY inbound envelope and resolves it against the table
    of live contexts at arrival time.  In a history of spawn / kill / restart steps of the target system interleaved
    with inbound traffic, the routing of the envelopes of a phase (to the incarnation registered at the path then, or
    to the dead letters) is a function of the registry changes before it alone: two histories that differ only in
    the envelopes received earlier - how many, to which path, to which earlier incarnation - route the phase
    identically.  In particular nothing an earlier envelope resolved to is remembered (a remote reference keeps
    behaving like the local one after the actor was re-created under the same name). *)
Theorem C15_routing_history_independent :
  forall (D : Type) (dec : bytes -> option D) (rpath : D -> bytes)
         (pre1 pre2 : list Churn.step) (chunks : list bytes) (r : list (bytes * Churn.inst)),
    Churn.strip_traffic pre1 = Churn.strip_traffic pre2 ->
    exists routed,
      routed = map (Churn.dispatch rpath (Churn.reg_after (Churn.strip_traffic pre1) r)) (delivered (receive dec chunks)) /\
      Churn.run_churn dec rpath (pre1 ++ [Churn.STraffic chunks]) r = Churn.run_churn dec rpath pre1 r ++ routed /\
      Churn.run_churn dec rpath (pre2 ++ [Churn.STraffic chunks]) r = Churn.run_churn dec rpath pre2 r ++ routed.
Proof. exact (@ChurnProofs.routing_history_independent). Qed.

(** the incarnation a remote operation reaches after "kill P; spawn P as i" is i, whatever was sent to P before *)
Theorem C15_respawned_registered :
  forall (p : bytes) (i : N) (r : list (bytes * Churn.inst)),
    Churn.lookup p (Churn.reg_after [Churn.SKill p; Churn.SSpawn p i] r) = Some {| Churn.i_inc := i; Churn.i_epoch := 0 |}.
Proof. exact ChurnProofs.lookup_respawn. Qed.

(** non-vacuity: two histories of the path [47] that differ in the traffic received by incarnation 1 *)
Example C15_ex_history :
  Churn.strip_traffic [Churn.SSpawn [47] 1; Churn.STraffic [[0; 0; 0; 1; 7]]; Churn.SKill [47]; Churn.SSpawn [47] 2] =
  Churn.strip_traffic [Churn.SSpawn [47] 1; Churn.SKill [47]; Churn.SSpawn [47] 2] /\
  Churn.run_churn (fun b => Some b) (fun _ : bytes => [47])
    ([Churn.SSpawn [47] 1; Churn.STraffic [[0; 0; 0; 1; 7]]; Churn.SKill [47]; Churn.SSpawn [47] 2] ++ [Churn.STraffic [[0; 0; 0; 1; 8]]]) [] =
  [Churn.ODeliver [47] {| Churn.i_inc := 1; Churn.i_epoch := 0 |} [7]; Churn.ODeliver [47] {| Churn.i_inc := 2; Churn.i_epoch := 0 |} [8]].
Proof. split; reflexivity. Qed.

Print Assumptions C15_transparent.
Print Assumptions C15_localized.
Print Assumptions C15_localized_canonical.
Print Assumptions C15_equiv_is_equality.
Print Assumptions C15_transparent_stream.
Print Assumptions C15_envelope_transport.
Print Assumptions C15_chunking_independent.
Print Assumptions C15_routing.
Print Assumptions C15_builtin_sizes.
Print Assumptions C15_newref_made_refs_valid.
Print Assumptions C15_remote_kill.
Print Assumptions C15_remote_watch.
Print Assumptions C15_remote_unwatch.
Print Assumptions C15_remote_onkilled_names_target.
Print Assumptions C15_remote_ping_pong.
Print Assumptions C15_remote_ask_reply.
Print Assumptions C15_remote_pipe_success.
Print Assumptions C15_remote_pipe_failure.
Print Assumptions C15_remote_pipe_failure_any_error.
Print Assumptions C15_remote_scheduled.
Print Assumptions C15_alias_address_forwarded.
Print Assumptions C15_alias_address_delivered.
Print Assumptions C15_alias_loop_before_fix.
Print Assumptions C15_tell_outside_needs_codec.
Print Assumptions C15_oversize_not_sent.
Print Assumptions C15_absent_sender_dropped.
Print Assumptions C15_dispatch_sender_path_only.
Print Assumptions C15_dispatch_remote_like_local.
Print Assumptions C15_deliver_sender_irrelevant.
Print Assumptions C15_resolve_obj_fresh_agree.
Print Assumptions C15_resolve_identity_witness.
Print Assumptions C15_onkilled_fresh_keeps_children.
Print Assumptions C15_routing_history_independent.
Print Assumptions C15_respawned_registered.
