(** C09 - after any failure no surviving actor stays paused; queued mail survives restart.

    Model: Actor/Core.v (ActorCore) - [IFailed] = Context.failed, [dispatch] on [MSup] = onSupervise,
    [ISupPause] / [ISupApply] = the pause loop and supervisionContext.applyDecision, [IRestartFinish] =
    killedHandler.handleRestart, [ICleanup] = cleanupIfNotRestarting, zombie branch of onKilled.  Scripts,
    decisions and hook outcomes are data: every theorem holds for all of them and all schedules.
    Derived notions: Actor/SpecMail.v.  Statements only; proofs in Actor/ProofsMail*.v. *)
From Coq Require Import List NArith ZArith Bool.
From Vivid Require Import Actor.Core Actor.CoreRun Actor.SpecMail Actor.ProofsMailBase Actor.ProofsMail Actor.ProofsMailInv Actor.ProofsMailWf Actor.ProofsMailAcct Actor.ProofsMailPause Actor.ProofsMailQuiet Actor.ProofsMailKids Actor.ProofsMailCover2.
Import ListNotations.

(** ============================ (a) a failure pauses the actor and is reported once ============================ *)

(** Context.failed: pause the own mailbox, ONE supervision report (child = self, no targets yet, no sub-context)
    to the parent as a system message, then the two events *)
Theorem C09_failure_pauses_and_reports_once s t h x :
  get s (self_of t) = Some x ->
  exec1 s t h IFailed =
  (s, [IPauseSt; IEnq true (rref_parent x) (RObj (self_of t)) (MSup (SupCtx (RObj (self_of t)) [] None)); IEnqDone;
       IPub evFailed (actor_key x); IPub evPaused (actor_key x)]).
Proof. exact (exec1_failed s t h x). Qed.

(** a behaviour invocation (not a zombie, not the guard) is logged, runs its script up to the first panic, and
    calls failed() exactly when the script panics and the recovery policy of the call site says so:
    [RecFail] (OnLaunch, user messages, events) always; [RecLog] (OnKill, the own OnKilled, everything during a
    restart) never; [RecKilled who] (a child's / watched actor's OnKilled) only in state Running and who <> self *)
Theorem C09_behaviour_invocation s t h x p m acts r :
  get s (self_of t) = Some x -> a_zombie x = false -> a_parent x = Some p ->
  exec1 s t h (IBeh m acts r) =
  (add_obs s (OSeen (self_of t) (a_inst x) (match a_cons x with CBusy md => md | _ => mode_top x end) m),
   map IAct (fst (take_until_panic acts)) ++
   (if snd (take_until_panic acts) &&
       match r with
       | RecFail => true
       | RecLog => false
       | RecKilled who => match a_state x with Running => negb (ref_eq s who (RObj (self_of t))) | _ => false end
       end
    then [IFailed] else [])).
Proof. exact (exec1_beh s t h x p m acts r). Qed.

Theorem C09_failed_iff_panic s t h x p m acts r :
  get s (self_of t) = Some x -> a_zombie x = false -> a_parent x = Some p ->
  (In IFailed (snd (exec1 s t h (IBeh m acts r))) <->
   snd (take_until_panic acts) = true /\ reports s (self_of t) x r = true).
Proof. exact (exec1_beh_failed_iff s t h x p m acts r). Qed.

(** no supervision while stopping: OnKill runs under the log-only policy ... *)
Theorem C09_no_supervision_while_stopping_onkill s t h x poison :
  get s (self_of t) = Some x ->
  exec1 s t h (IDoKill poison) =
  (s, (match a_children x with
       | [] => []
       | l => [IEnqAny (negb poison) (map (fun p => RObj (snd p)) l) (RObj (self_of t)) (MKill (RObj (self_of t)) poison)]
       end)
      ++ [IBeh (match a_cur x with Some e => e_msg e | None => MKill RNone poison end) (sp_kill (a_spec x)) RecLog;
          IOnKilled (RObj (self_of t))]).
Proof. exact (exec1_dokill s t h x poison). Qed.

(** ... and in a state other than Running a panic in a child's OnKilled (policy [RecKilled]) or anywhere under
    [RecLog] produces no report *)
Theorem C09_no_supervision_while_stopping s t h x p m acts r :
  get s (self_of t) = Some x -> a_zombie x = false -> a_parent x = Some p ->
  a_state x <> Running -> r <> RecFail ->
  ~ In IFailed (snd (exec1 s t h (IBeh m acts r))).
Proof. exact (exec1_beh_not_failed_stopping s t h x p m acts r). Qed.

(** ============================ (b) every decision brings the targets back ============================ *)

(** onSupervise: decision and targets.  Strategy 0 (none: the system default, always at the root) decides Stop and
    consumes no decision; otherwise the next scripted decision (Stop when exhausted).  Targets: one-for-all
    (2) = all children of the supervisor, else the failed child.  The handler then pauses the targets and applies. *)
Theorem C09_supervise s a x e c :
  e_msg e = MSup c -> (is_dead x e && negb (a_zombie x)) = false ->
  dispatch s a x e =
  (set_actor s a (set_decisions (set_mb x (a_sq x) (a_uq x) (a_paused x) (a_cons x) (Some e)) (snd (sup_decision x))),
   [ISupPause c (fst (sup_decision x)) (sup_targets x c) []; IEndHandler]).
Proof. exact (dispatch_sup s a x e c). Qed.

Theorem C09_root_decides_stop x :
  sp_strategy (a_spec x) = 0%N -> sup_decision x = (DStop, a_decisions x).
Proof. exact (sup_decision_root x). Qed.

(** each step of the pause loop sends MCmdPause (system) to one not-yet-paused target, in any order ... *)
Theorem C09_pause_loop_step s t c d rem done rest choice to :
  pend_of s t = ISupPause c d rem done :: rest -> nth_error rem choice = Some to ->
  step s (EvPush t choice) =
  set_pend (fst (deliver (snd (resolve s to)) (fst (resolve s to)) {| e_sys := true; e_sender := RObj (self_of t); e_msg := MCmdPause |}))
           t (IEnqDone :: ISupPause c d (firstn choice rem ++ skipn (S choice) rem) (done ++ [to]) :: rest).
Proof. exact (step_push_sup_pause s t c d rem done rest choice to). Qed.

(** ... and when none is left the decision is applied to the paused targets *)
Theorem C09_pause_loop_end s t h x c d done :
  get s (self_of t) = Some x -> exec1 s t h (ISupPause c d [] done) = (s, [ISupApply c d done]).
Proof. exact (exec1_sup_pause_done s t h x c d done). Qed.

(** Resume: MCmdResume (system) to every target of the whole escalation chain *)
Theorem C09_resume_decision s t h x c targets :
  get s (self_of t) = Some x ->
  exec1 s t h (ISupApply c DResume targets) =
  (s, flat_map (fun r => [IEnq true r (RObj (self_of t)) MCmdResume; IEnqDone]) (chain_targets (with_targets c targets))).
Proof. exact (exec1_sup_resume s t h x c targets). Qed.

(** Restart: the targets get MRestart - a system message when immediate; a user message followed by a
    resume of the whole chain when graceful (so the mail queued before it is processed first) *)
Theorem C09_restart_decision s t h x c targets d :
  get s (self_of t) = Some x -> d = DRestart \/ d = DGRestart ->
  exec1 s t h (ISupApply c d targets) =
  (s, flat_map (fun r => [IEnq (negb (is_graceful d)) r (RObj (self_of t)) (MRestart (is_graceful d)); IEnqDone]) targets
      ++ if is_graceful d then resume_all (self_of t) (with_targets c targets) else []).
Proof. exact (exec1_sup_restart s t h x c targets d). Qed.

(** a running target turns the restart into its own kill chain, keeping queues, stash and the pause flag *)
Theorem C09_restart_received s a x e poison :
  e_msg e = MRestart poison -> a_state x = Running ->
  exists y, dispatch s a x e = (set_actor s a y, [IPub evRestarting (actor_key x); IDoKill poison; IEndHandler]) /\
            a_state y = Killing /\ a_restarting y = Some poison /\ a_uq y = a_uq x /\ a_sq y = a_sq x /\
            a_stash y = a_stash x /\ a_paused y = a_paused x.
Proof. exact (dispatch_restart_running s a x e poison). Qed.

(** when its last child is gone the stopping actor marks itself Killed, runs its own OnKilled (log-only policy)
    and continues with the restart (if one is in progress) or with the cleanup *)
Theorem C09_check_mark s t h x :
  get s (self_of t) = Some x -> a_children x = [] -> a_state x = Killing ->
  exists y, fst (exec1 s t h ICheckMark) = set_actor s (self_of t) y /\ a_state y = Killed /\
            a_uq y = a_uq x /\ a_sq y = a_sq x /\ a_paused y = a_paused x /\ a_stash y = a_stash x /\
  snd (exec1 s t h ICheckMark) =
    [IBeh (MKilled (RObj (self_of t))) (sp_killed (a_spec x)) RecLog;
     match a_restarting x with None => ICleanup | Some _ => IRestartFinish end].
Proof. exact (exec1_checkmark s t h x). Qed.

(** the restart completes: with successful hooks the actor is Running again (fresh behaviour stack, next
    provider instance), the queues and the stash are kept, the FIRST thing it does is mailbox.Resume, and
    OnLaunch is handled inline before any queued message *)
Theorem C09_restart_finish_ok s t h x :
  get s (self_of t) = Some x -> restart_ok x = true ->
  exists y, exec1 s t h IRestartFinish =
    (set_actor s (self_of t) y,
     [IResume1; IPub evRestarted (actor_key x); IPub evResumed (actor_key x);
      IBeh MLaunch (sp_launch (a_spec x)) RecFail; IPub evLaunched (actor_key x)]) /\
    a_state y = Running /\ a_restarting y = None /\ a_zombie y = a_zombie x /\ a_modes y = [0%N] /\
    a_inst y = (if sp_provider (a_spec x) then (a_inst x + 1)%N else a_inst x) /\
    a_uq y = a_uq x /\ a_sq y = a_sq x /\ a_stash y = a_stash x /\ a_paused y = a_paused x /\
    a_cur y = Some {| e_sys := true; e_sender := rref_parent x; e_msg := MLaunch |}.
Proof. exact (exec1_restart_finish_ok s t h x). Qed.

(** with a failing OnRestarted / OnPrelaunch hook the actor becomes a zombie; it sends nothing (no termination
    notice) and also resumes its mailbox, so that it keeps consuming its mail *)
Theorem C09_restart_finish_zombie s t h x :
  get s (self_of t) = Some x -> restart_ok x = false ->
  exists y, exec1 s t h IRestartFinish = (set_actor s (self_of t) y, [IResume1]) /\
    a_zombie y = true /\ a_state y = a_state x /\ a_uq y = a_uq x /\ a_sq y = a_sq x /\ a_stash y = a_stash x /\
    a_paused y = a_paused x.
Proof. exact (exec1_restart_finish_fail s t h x). Qed.

(** Resume's first CAS on a paused mailbox clears the flag and keeps the queues *)
Theorem C09_resume_unpauses s t x rest :
  pend_of s t = IResume1 :: rest -> get s (self_of t) = Some x -> a_paused x = true ->
  exists x', get (step s (EvResume1 t)) (self_of t) = Some x' /\ a_paused x' = false /\ a_uq x' = a_uq x /\ a_sq x' = a_sq x.
Proof. exact (step_resume1_unpauses s t x rest). Qed.

(** the resume command *)
Theorem C09_resume_command s a x e :
  e_msg e = MCmdResume -> (is_dead x e && negb (a_zombie x)) = false ->
  dispatch s a x e = (set_actor s a (set_mb x (a_sq x) (a_uq x) (a_paused x) (a_cons x) (Some e)),
                      [IResume1; IPub evResumed (actor_key x); IEndHandler]).
Proof. exact (dispatch_cmd_resume s a x e). Qed.

(** a zombie runs no user code and sends nothing on a user message: the whole step returns the consumer to its loop *)
Theorem C09_zombie_unpaused_and_silent s a x e tag acts :
  get s a = Some x -> a_cons x = CH e -> e_msg e = MUser tag acts -> a_zombie x = true ->
  step s (EvHandle a) = set_actor s a (handled x (Some e)).
Proof. exact (handle_zombie_user s a x e tag acts). Qed.

(** no behaviour invocation of a zombie does anything *)
Theorem C09_zombie_runs_no_user_code s t h x m acts r :
  get s (self_of t) = Some x -> a_zombie x = true -> exec1 s t h (IBeh m acts r) = (s, []).
Proof. exact (exec1_beh_zombie s t h x m acts r). Qed.

(** a zombie is released by an explicit Kill (HandleEnvelop passes OnKill to the kill chain, which ends in
    onKilled(self)) or by any OnKilled it receives: onKilled's zombie branch = cleanup (the termination notices to
    watchers and parent, ActorKilledEvent, Resume) and leaving the zombie state, once *)
Theorem C09_zombie_kill s a x e k poison :
  a_zombie x = true -> e_msg e = MKill k poison ->
  dispatch s a x e = (set_actor s a (set_mb x (a_sq x) (a_uq x) (a_paused x) (a_cons x) (Some e)), [IDoKill poison; IEndHandler]).
Proof. exact (dispatch_zombie_kill s a x e k poison). Qed.

Theorem C09_zombie_killed s a x e who :
  a_zombie x = true -> e_msg e = MKilled who ->
  dispatch s a x e = (set_actor s a (set_mb x (a_sq x) (a_uq x) (a_paused x) (a_cons x) (Some e)), [IOnKilled who; IEndHandler]).
Proof. exact (dispatch_zombie_killed s a x e who). Qed.

Theorem C09_zombie_release s t h x who :
  get s (self_of t) = Some x -> a_zombie x = true -> exec1 s t h (IOnKilled who) = (s, [ICleanup; IUnzombie]).
Proof. exact (exec1_onkilled_zombie s t h x who). Qed.

Theorem C09_unzombie s t h x :
  get s (self_of t) = Some x -> exec1 s t h IUnzombie = (set_actor s (self_of t) (set_zombie x false), []).
Proof. exact (exec1_unzombie s t h x). Qed.

(** Stop: the targets get OnKill - a system message when immediate; a user message (poison) followed by a
    resume of the whole chain when graceful; a killed actor's cleanup resumes its mailbox *)
Theorem C09_stop_decision s t h x c targets d :
  get s (self_of t) = Some x -> d = DStop \/ d = DGStop ->
  exec1 s t h (ISupApply c d targets) =
  (s, flat_map (fun r => [IEnq (negb (is_graceful d)) r (RObj (self_of t)) (MKill (RObj (self_of t)) (is_graceful d)); IEnqDone]) targets
      ++ if is_graceful d then resume_all (self_of t) (with_targets c targets) else []).
Proof. exact (exec1_sup_stop s t h x c targets d). Qed.

Theorem C09_cleanup s t h x :
  get s (self_of t) = Some x ->
  exec1 s t h ICleanup =
  (set_reg (set_subs s (unsub_all (subs s) (a_path x))) (aremove (reg s) (a_path x)),
   cleanup_sends (self_of t) x ++ [IPub evKilled (actor_key x); IResume1]).
Proof. exact (exec1_cleanup s t h x). Qed.

(** Escalate, and every out-of-range decision: the supervisor pauses itself and reports once to its own parent,
    with the current context (its targets recorded) chained as sub-context *)
Theorem C09_escalate s t h x c targets d :
  get s (self_of t) = Some x -> d = DEscalate \/ d = DInvalid ->
  exec1 s t h (ISupApply c d targets) =
  (s, [IPauseSt; IEnq true (rref_parent x) (RObj (self_of t)) (MSup (SupCtx (RObj (self_of t)) [] (Some (with_targets c targets)))); IEnqDone]).
Proof. exact (exec1_sup_escalate s t h x c targets d). Qed.

(** ============================ (d) who pauses, who resumes ============================ *)

(** the paused flag of a mailbox is written only by the two mailbox words executed by the actor's OWN thread:
    Pause's store sets it, Resume's first CAS clears it; no other event, and no other actor's thread, changes it *)
Theorem C09_paused_only_by_pause_resume s ev b :
  err (step s ev) = false ->
  paused_at (step s ev) b =
  match ev with
  | EvPauseSt t => if Nat.eqb (self_of t) b then true else paused_at s b
  | EvResume1 t => if Nat.eqb (self_of t) b then false else paused_at s b
  | _ => paused_at s b
  end.
Proof. exact (paused_step_explicit s ev b). Qed.

(** a Pause is put on an actor's instruction list only by Context.failed ([IFailed]) and by an escalating
    applyDecision - each followed by exactly one supervision report to the parent, (a) and (b) above - ... *)
Theorem C09_pause_sites_exec s t h i :
  In IPauseSt (snd (exec1 s t h i)) ->
  i = IFailed \/ exists c d targets, i = ISupApply c d targets /\ (d = DEscalate \/ d = DInvalid).
Proof. exact (exec1_pause_sites_explicit s t h i). Qed.

(** ... and by HandleEnvelop only for a CommandPauseMailbox, which only a supervisor's pause loop sends
    ([C09_pause_loop_step]) and which is followed by that supervisor's directive *)
Theorem C09_pause_sites_dispatch s a x e :
  In IPauseSt (snd (dispatch s a x e)) -> e_msg e = MCmdPause.
Proof. exact (dispatch_pause_sites s a x e). Qed.

(** ============================ (c) queued mail keeps its order ============================ *)

(** Pause / Resume / Restart never reorder or drop queued user envelopes: for every event and every actor, what
    the event pops from the head of the user queue followed by the queue afterwards = the queue before followed
    by what the event pushes at its tail ([pushed_to] is non-empty only for the target of an EvPush, [popped_from]
    only for an EvUserPop of that actor's consumer in the user-pop position) *)
Theorem C09_queued_mail_order s ev b :
  err (step s ev) = false ->
  popped_from s ev b false ++ uq_at (step s ev) b = uq_at s b ++ pushed_to s ev b false.
Proof. exact (queue_step s ev b false). Qed.

(** along any run: the user envelopes popped so far, followed by those still queued, are exactly those that
    were queued at the start followed by those pushed since - in push order.  So the messages queued behind a
    failing one are popped (and then handled) in their original order after the resume / restart, whatever
    happened in between; the restarted instance keeps the queue ([C09_restart_finish_ok]) *)
Theorem C09_queued_mail_fifo b evs s :
  err (run_events evs s) = false ->
  popped_run b false evs s ++ uq_at (run_events evs s) b = uq_at s b ++ pushed_run b false evs s.
Proof. exact (queue_run false b evs s). Qed.

(** a user envelope is popped only by EvUserPop in consumer position C3 ... *)
Theorem C09_user_pop_position s ev b e :
  popped_from s ev b false = [e] ->
  ev = EvUserPop b /\ exists x, get s b = Some x /\ a_cons x = C3 /\ exists r, a_uq x = e :: r.
Proof. exact (user_pop_needs_c3 s ev b e). Qed.

(** ... and that position is entered only by the paused-load of that consumer reading "not paused": while the
    mailbox is paused no user message is taken *)
Theorem C09_user_pop_only_unpaused s ev b x' :
  get (step s ev) b = Some x' -> a_cons x' = C3 ->
  exists x, get s b = Some x /\ (a_cons x = C3 \/ (ev = EvLoadPaused b /\ a_cons x = C2 /\ a_paused x = false)).
Proof. exact (c3_step s ev b x'). Qed.

(** the popped envelope stays in the consumer's hands until the handler call (in reachable states) *)
Theorem C09_popped_is_handled s ev b :
  wf s -> err (step s ev) = false ->
  held_at (step s ev) b ++ handled_at s ev b = held_at s b ++ popped_from s ev b true ++ popped_from s ev b false.
Proof. exact (fun W He => proj2 (step_wf_held s ev W He) b). Qed.

(** ============================ (e) quiescent states ============================ *)

(** two former findings as regression runs (both fixed in /repo a8829bb; before the fix the first run ended
    quiescent with C running + paused + its mail stuck and P killing + paused for ever, the second with a paused
    zombie holding message 12 for ever).
    Run 1: root -> G (one-for-one, Restart) -> P (one-for-one, Escalate) -> C.  P handles a graceful Kill (-> killing,
    poison forwarded to C), C then panics (paused, report to P), P escalates (pauses C and itself), G answers with
    an immediate Restart that reaches P while it is killing: P now resumes itself and passes an immediate kill
    to C; everything below G terminates and the stuck poison is dead-lettered once *)
Example C09_ex_restart_reaches_killing_supervisor :
  let s := run_events rf_evs (init_with rf_scs) in
  reachable s /\ quiescent s = true /\ map a_state (actors s) = [Running; Running; Killed; Killed] /\
  map a_paused (actors s) = [false; false; false; false] /\ ghost s = [ODeadLetter false (MKill (RObj 2) true)].
Proof.
  cbv zeta. split; [exists rf_scs, rf_evs; split; [reflexivity|vm_compute; reflexivity]|].
  vm_compute. repeat split.
Qed.

(** Run 2: under one-for-all a zombie sibling is paused by the pause loop and then sent an immediate Restart: it now
    resumes its mailbox and keeps consuming its mail (message 12 is consumed silently: no behaviour, no dead letter) *)
Example C09_ex_zombie_paused_by_one_for_all :
  let s := run_events zf_evs (init_with zf_scs) in
  reachable s /\ quiescent s = true /\ map a_zombie (actors s) = [false; false; true; false] /\
  map a_paused (actors s) = [false; false; false; false] /\ map (fun x => length (a_uq x)) (actors s) = [0; 0; 0; 0]%nat /\
  ghost s = [] /\ count_obs (is_seen_of (user_tag 12)) (olog s) = 0%nat.
Proof.
  cbv zeta. split; [exists zf_scs, zf_evs; split; [reflexivity|vm_compute; reflexivity]|].
  vm_compute. repeat split.
Qed.

(** about every run (see also (a), (b), (d)), first two auxiliary facts:
    - the flag of a mailbox at the end of a run is the last Pause / Resume word its own thread executed on it
      (nothing else ever writes it) ... *)
Theorem C09_quiescent_unpaused_partial scs evs b :
  err (run_events evs (init_with scs)) = false ->
  paused_at (run_events evs (init_with scs)) b = match last_pause_word b evs None with Some v => v | None => false end.
Proof. exact (paused_iff_last_word scs evs b). Qed.

(** - ... and in a quiescent state the only envelopes left anywhere are user envelopes behind such an unanswered
      Pause: every system queue is empty, no consumer holds anything, no instruction is pending. *)
Theorem C09_quiescent_mail_only_behind_a_pause scs evs a x :
  let s := run_events evs (init_with scs) in
  err s = false -> quiescent s = true -> get s a = Some x -> inbox x <> [] ->
  inbox x = a_uq x /\ a_paused x = true /\ last_pause_word a evs None = Some true.
Proof. exact (quiescent_mail_only_behind_a_pause scs evs a x). Qed.

(** THE GLOBAL STATEMENT.  In every reachable state in which nothing is pending anywhere (no instruction, every
    consumer idle, every system queue empty), every actor that is Running and not a zombie has an unpaused mailbox -
    whatever the scripts, the supervision strategies and decisions, the restart hooks and the interleaving were.
    Proof (Actor/ProofsMailCover.v, ...Cover2.v): an invariant of all micro-steps - an actor that is running (or is
    being restarted) and whose own pipeline (pending instructions, envelope in hand, system queue) ends "paused"
    has a cover in flight: a resume command for it, an immediate stop / restart for it or an ancestor, a supervision
    report or a supervisor's pause loop / decision concerning it, pending in some thread or queued at another actor.
    It rests on the invariants of (f), on the well-formedness of the supervision contexts in flight
    (ProofsMailCtx.v), on "a reference object routes to its own mailbox" (ProofsMailCache.v) and on "a pause
    command is only ever told by a supervisor's pause loop, never stashed or replayed" (ProofsMailHyg.v).
    The statement was FALSE before the three fixes in /repo (20ffea6, a8829bb): see the regression runs above. *)
Theorem C09_quiescent_unpaused s a x :
  reachable s -> quiescent s = true -> get s a = Some x -> a_state x = Running -> a_zombie x = false -> a_paused x = false.
Proof. exact (quiescent_unpaused s a x). Qed.

(** ... hence nothing is left in its mailbox: every message sent to a surviving actor has been handled *)
Theorem C09_quiescent_survivor_has_no_mail s a x :
  reachable s -> quiescent s = true -> get s a = Some x -> a_state x = Running -> a_zombie x = false -> inbox x = [].
Proof. exact (quiescent_survivor_inbox_empty s a x). Qed.

(** the guard (root) is never paused *)
Theorem C09_root_never_paused s x : reachable s -> get s 0 = Some x -> a_paused x = false.
Proof. exact (root_never_paused s x). Qed.

(** the reference object of every context except the root has its own mailbox cached (ActorOf tells OnLaunch through
    it at once): a tell through a reference object reaches the context that owns it, also after a restart or when
    the name has been reused by a later incarnation *)
Theorem C09_ref_object_routes_to_owner s c xc : reachable s -> get s c = Some xc -> c <> 0 -> a_cache xc = Some c.
Proof. exact (ref_cache_reachable s c xc). Qed.

(** a pause command is never stashed and never travels through a user queue *)
Theorem C09_no_pause_command_in_user_mail s a x e :
  reachable s -> get s a = Some x -> In e (a_uq x ++ a_stash x) -> e_msg e <> MCmdPause.
Proof. exact (no_pause_command_in_user_mail s a x e). Qed.

(** ============================ (f) the supervisor of a live actor is alive ============================ *)

(** invariants of every reachable state, proved over micro-steps (Actor/ProofsMailMicro.v, ...Life.v, ...Tree.v,
    ...MK.v, ...Kids.v): they are what makes a failure report reach a supervisor that can act on it.
    An actor that is not terminated is registered under its own path (so a message sent through its ref object
    reaches it) ... *)
Theorem C09_running_is_registered s a x :
  reachable s -> get s a = Some x -> a <> 0 -> a_state x <> Killed -> alookup (reg s) (a_path x) = Some a.
Proof. exact (running_is_registered s a x). Qed.

(** ... a zombie stays registered until its release is under way, is Killed and has no children ... *)
Theorem C09_zombie_registered_until_released s a x :
  reachable s -> get s a = Some x -> a <> 0 -> a_zombie x = true -> ~ In IUnzombie (a_pend x) ->
  alookup (reg s) (a_path x) = Some a.
Proof. exact (zombie_registered_until_released s a x). Qed.

Theorem C09_zombie_is_terminated s a x :
  reachable s -> get s a = Some x -> a_zombie x = true -> a_state x = Killed /\ a_children x = [].
Proof. exact (zombie_is_terminated s a x). Qed.

(** ... a terminated actor has no children left, every entry of a children map is a context created by that parent
    under that path ... *)
Theorem C09_killed_has_no_children s a x : reachable s -> get s a = Some x -> a_state x = Killed -> a_children x = [].
Proof. exact (killed_has_no_children s a x). Qed.

Theorem C09_children_entries_are_children s a x p c :
  reachable s -> get s a = Some x -> alookup (a_children x) p = Some c ->
  exists xc, get s c = Some xc /\ a_parent xc = Some a /\ a_path xc = p.
Proof. exact (children_entries_are_children s a x p c). Qed.

(** ... and every registered actor is entered in the children map of its parent, which therefore is neither
    terminated nor a zombie and is itself registered: the failure report of a live actor is never dead-lettered,
    a one-for-all supervisor finds the failed child among its children, and a kill of the parent reaches it.
    (This is the invariant that the first finding - a stale OnKilled removing a new same-name child - violated.) *)
Theorem C09_registered_child_has_live_parent s a x :
  reachable s -> get s a = Some x -> a <> 0 -> alookup (reg s) (a_path x) = Some a ->
  exists q xq, a_parent x = Some q /\ q < a /\ get s q = Some xq /\ alookup (a_children xq) (a_path x) = Some a /\
               a_state xq <> Killed /\ a_zombie xq = false /\ (q <> 0 -> alookup (reg s) (a_path xq) = Some q).
Proof. exact (registered_child_has_live_parent s a x). Qed.

(** a termination notice from another context, found in a mailbox, names a context that has released its path *)
Theorem C09_notice_means_released s a x e c :
  reachable s -> get s a = Some x -> In e (a_sq x ++ a_uq x ++ held x) -> e_msg e = MKilled (RObj c) -> c <> a ->
  exists xc, get s c = Some xc /\ alookup (reg s) (a_path xc) <> Some c.
Proof. exact (notice_means_released s a x e c). Qed.

(** ============================ examples ============================ *)
Local Open Scope N_scope.

(** a child (provider-created, so that instances are distinguishable) fails on message 10 with 11 and 12 queued
    behind it; its parent decides [d] *)
Definition ex_child : spec := Spec 2 [] [] [] 0 [] true [] true.
Definition ex_parent (d : decision) : spec := Spec 1 [ASpawn ex_child] [] [] 1 [d] true [] false.
Definition ex_scs (d : decision) : list (list action) :=
  [[ASpawn (ex_parent d)]; [ATell (XPath [1;2]) 10 [APanic]; ATell (XPath [1;2]) 11 []; ATell (XPath [1;2]) 12 []]].
Definition ex_sched (d : decision) : list event :=
  let s0 := init_with (ex_scs d) in
  let e1 := drive 100 [TX 0; TA 0; TA 1; TA 2] s0 in
  let s1 := run_events e1 s0 in
  let e2 := drive 100 [TX 1] s1 in
  e1 ++ e2 ++ drive_all 1000 (run_events e2 s1).
Definition ex_restart_evs : list event := Eval vm_compute in ex_sched DRestart.
Definition ex_stop_evs : list event := Eval vm_compute in ex_sched DStop.
Definition ex_grestart_evs : list event := Eval vm_compute in ex_sched DGRestart.

(** immediate Restart: 11 and 12 are delivered, in order, to the restarted instance (instance 1), after its OnLaunch *)
Example C09_ex_restart_keeps_mail :
  let s := run_events ex_restart_evs (init_with (ex_scs DRestart)) in
  reachable s /\ quiescent s = true /\ ghost s = [] /\ map a_paused (actors s) = [false; false; false] /\
  olog s = [OSpawn 0 1 0; OSeen 1 0 0 MLaunch; OSpawn 1 2 0; OSeen 2 0 0 MLaunch; OSeen 2 0 0 (MUser 10 [APanic]);
            OSeen 2 0 0 (MKill (RObj 2) false); OSeen 2 0 0 (MKilled (RObj 2));
            OSeen 2 1 0 MLaunch; OSeen 2 1 0 (MUser 11 []); OSeen 2 1 0 (MUser 12 [])].
Proof.
  cbv zeta. split; [exists (ex_scs DRestart), ex_restart_evs; split; [reflexivity|vm_compute; reflexivity]|].
  vm_compute. repeat split.
Qed.

(** immediate Stop: the child is stopped while paused; its cleanup resumes the mailbox and 11 and 12 are
    dead-lettered, once each, in order *)
Example C09_ex_stop_dead_letters :
  let s := run_events ex_stop_evs (init_with (ex_scs DStop)) in
  reachable s /\ quiescent s = true /\ map a_paused (actors s) = [false; false; false] /\
  ghost s = [ODeadLetter false (MUser 11 []); ODeadLetter false (MUser 12 [])] /\
  count_obs (is_seen_of is_user) (olog s) = 1%nat.
Proof.
  cbv zeta. split; [exists (ex_scs DStop), ex_stop_evs; split; [reflexivity|vm_compute; reflexivity]|].
  vm_compute. repeat split.
Qed.

(** graceful Restart: 11 and 12 are processed by the OLD instance before it restarts *)
Example C09_ex_graceful_restart :
  let s := run_events ex_grestart_evs (init_with (ex_scs DGRestart)) in
  reachable s /\ quiescent s = true /\ ghost s = [] /\ map a_paused (actors s) = [false; false; false] /\
  olog s = [OSpawn 0 1 0; OSeen 1 0 0 MLaunch; OSpawn 1 2 0; OSeen 2 0 0 MLaunch; OSeen 2 0 0 (MUser 10 [APanic]);
            OSeen 2 0 0 (MUser 11 []); OSeen 2 0 0 (MUser 12 []);
            OSeen 2 0 0 (MKill (RObj 2) true); OSeen 2 0 0 (MKilled (RObj 2)); OSeen 2 1 0 MLaunch].
Proof.
  cbv zeta. split; [exists (ex_scs DGRestart), ex_grestart_evs; split; [reflexivity|vm_compute; reflexivity]|].
  vm_compute. repeat split.
Qed.

(** regression (finding fixed in /repo 20ffea6): a stale OnKilled of a released child, handled after the parent has
    spawned a new child under the same name, must not make the parent forget the new child.  Schedule: the old
    child releases its path, the parent respawns the name, then handles the old child's OnKilled, then is killed:
    the new child (actor 3) is terminated with its parent and a later message to it is dead-lettered *)
Definition ex_orphan_scs : list (list action) :=
  let c := Spec 2 [] [] [] 0 [] true [] false in
  [ [ASpawn (Spec 1 [ASpawn c] [] [] 1 [] true [] false)];
    [ATell (XPath [1]) 10 [AKill (XChild 2) false]];
    [ATell (XPath [1]) 11 [ASpawn c]];
    [AKill (XPath [1]) false];
    [ATell (XPath [1;2]) 12 [APanic]] ].
Definition ex_orphan_sched : list event :=
  let s0 := init_with ex_orphan_scs in
  let e1 := drive 100 [TX 0; TA 0; TA 1; TA 2] s0 in let s1 := run_events e1 s0 in
  let e2 := drive 100 [TX 1; TA 1] s1 in let s2 := run_events e2 s1 in
  let e3 := drive 2 [TA 2] s2 in let s3 := run_events e3 s2 in
  let e4 := drive 100 [TX 2; TA 1] s3 in let s4 := run_events e4 s3 in
  let e5 := drive 100 [TA 2; TA 1; TA 0; TA 3] s4 in let s5 := run_events e5 s4 in
  let e6 := drive 100 [TX 3; TA 1; TA 0; TA 2; TA 3] s5 in let s6 := run_events e6 s5 in
  e1 ++ e2 ++ e3 ++ e4 ++ e5 ++ e6 ++ drive_all 1000 s6.
Definition ex_orphan_evs : list event := Eval vm_compute in ex_orphan_sched.
Example C09_ex_stale_onkilled_keeps_new_child :
  let s := run_events ex_orphan_evs (init_with ex_orphan_scs) in
  reachable s /\ quiescent s = true /\ map a_state (actors s) = [Running; Killed; Killed; Killed] /\
  map a_paused (actors s) = [false; false; false; false] /\ reg s = [] /\
  ghost s = [ODeadLetter false (MUser 12 [APanic])].
Proof.
  cbv zeta. split; [exists ex_orphan_scs, ex_orphan_evs; split; [reflexivity|vm_compute; reflexivity]|].
  vm_compute. repeat split.
Qed.

Print Assumptions C09_failure_pauses_and_reports_once.
Print Assumptions C09_behaviour_invocation.
Print Assumptions C09_failed_iff_panic.
Print Assumptions C09_no_supervision_while_stopping_onkill.
Print Assumptions C09_no_supervision_while_stopping.
Print Assumptions C09_supervise.
Print Assumptions C09_root_decides_stop.
Print Assumptions C09_pause_loop_step.
Print Assumptions C09_pause_loop_end.
Print Assumptions C09_resume_decision.
Print Assumptions C09_restart_decision.
Print Assumptions C09_restart_received.
Print Assumptions C09_check_mark.
Print Assumptions C09_restart_finish_ok.
Print Assumptions C09_restart_finish_zombie.
Print Assumptions C09_resume_unpauses.
Print Assumptions C09_resume_command.
Print Assumptions C09_zombie_unpaused_and_silent.
Print Assumptions C09_zombie_runs_no_user_code.
Print Assumptions C09_zombie_kill.
Print Assumptions C09_zombie_killed.
Print Assumptions C09_zombie_release.
Print Assumptions C09_unzombie.
Print Assumptions C09_stop_decision.
Print Assumptions C09_cleanup.
Print Assumptions C09_escalate.
Print Assumptions C09_queued_mail_order.
Print Assumptions C09_queued_mail_fifo.
Print Assumptions C09_user_pop_position.
Print Assumptions C09_user_pop_only_unpaused.
Print Assumptions C09_popped_is_handled.
Print Assumptions C09_paused_only_by_pause_resume.
Print Assumptions C09_pause_sites_exec.
Print Assumptions C09_pause_sites_dispatch.
Print Assumptions C09_quiescent_unpaused_partial.
Print Assumptions C09_quiescent_mail_only_behind_a_pause.
Print Assumptions C09_quiescent_unpaused.
Print Assumptions C09_quiescent_survivor_has_no_mail.
Print Assumptions C09_root_never_paused.
Print Assumptions C09_ref_object_routes_to_owner.
Print Assumptions C09_no_pause_command_in_user_mail.
Print Assumptions C09_running_is_registered.
Print Assumptions C09_zombie_registered_until_released.
Print Assumptions C09_zombie_is_terminated.
Print Assumptions C09_killed_has_no_children.
Print Assumptions C09_children_entries_are_children.
Print Assumptions C09_registered_child_has_live_parent.
Print Assumptions C09_notice_means_released.
