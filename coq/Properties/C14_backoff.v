(** C14 (second file) — the retry policy of Mailbox.Enqueue, exactly: internal/utils/backoff.go.
    Statements only; every proof is [exact <lemma>] (Remoting/BackoffProofs.v, LinkBackoff.v, LinkOverlap.v).

    Model: Remoting/Backoff.v.  Durations are nanoseconds in Z.  Every float64 operation of Next() is the exact
    result rounded to nearest-even at 53 significant bits ([rn53]); [bo_next c k r] is the value Next() returns when
    currentAttempt = k and the random source hands the 63-bit integer r to rand.Float64().  The real type is run
    against [bo_next] / [bo_try] bit for bit on every check (seeded global source, mirror generator).
    [cfg_ok c]: 0 < InitialDelay, MaxDelay < 2^52 ns (52 days); Factor = 2 (the only factor vivid uses). *)
From Coq Require Import List ZArith NArith Lia Bool Permutation.
From Vivid Require Import Codec.Prim Remoting.Frame Remoting.Link Remoting.LinkProofs
  Remoting.Backoff Remoting.BackoffProofs Remoting.LinkBackoff Remoting.LinkOverlap.
Import ListNotations.
Local Open Scope Z_scope.

(** FACTOR 2 IS EXACT.  float64(InitialDelay) * math.Pow(2, attempt), capped: the three float operations of the code
    compute exactly min(InitialDelay * 2^k, MaxDelay) for EVERY attempt number k - no rounding ever (an integer
    below 2^53 is a float64; multiplying by a power of two only changes the exponent). *)
Theorem C14_backoff_base_exact :
  forall (c : bo_cfg) (k : N), cfg_ok c -> bo_base_f c k = Z.min (bo_init c * 2 ^ Z.of_N k) (bo_max c).
Proof. exact bo_base_exact. Qed.

(** EVERY DELAY IN ITS INTERVAL, for every attempt number and every value of the random source: with jitter between
    75 % (rounded down) and 125 % (rounded up) of the capped exponential - through the four roundings of the jitter
    arithmetic and the final truncation; without jitter exactly the capped exponential. *)
Theorem C14_backoff_delay_in_interval :
  forall (c : bo_cfg) (k : N) (r : Z),
    cfg_ok c -> 0 <= r < 2 ^ 63 ->
    let d := Z.min (bo_init c * 2 ^ Z.of_N k) (bo_max c) in
    (bo_jitter c = true -> (3 * d) / 4 <= bo_next c k r <= - ((- (5 * d)) / 4)) /\
    (bo_jitter c = false -> bo_next c k r = d).
Proof. exact bo_next_interval. Qed.

(** the objects vivid constructs satisfy the side condition: remoting.newMailbox (100 ms .. 3 s, jitter) and
    remoting.NewServerActor (100 ms .. 10 s, jitter); e.g. the first retry of a remote mailbox waits 75 .. 125 ms,
    from the sixth on 2.25 .. 3.75 s *)
Example C14_backoff_vivid_configs :
  cfg_ok mailbox_cfg /\ cfg_ok server_cfg /\
  (bo_lo mailbox_cfg 0, bo_hi mailbox_cfg 0) = (75000000, 125000000) /\
  (bo_lo mailbox_cfg 5, bo_hi mailbox_cfg 5) = (2250000000, 3750000000) /\
  bo_next mailbox_cfg 0 3440579354231278675 = 93651418.
Proof. split; [exact mailbox_cfg_ok|]. split; [exact server_cfg_ok|]. vm_compute. auto. Qed.

(** NUMBER OF ATTEMPTS.  fn fails every time (no abort): from a fresh counter Try(limit >= 0) calls fn exactly
    limit + 1 times, with GetAttempt() = 0, 1, .., limit (the RetryCount of the connection-failed events), sleeps
    exactly limit times in between, returns an error and leaves the counter at 0. *)
Theorem C14_backoff_attempts_when_all_fail :
  forall (c : bo_cfg) (limit : Z) (outs : list fn_out),
    0 <= limit -> (Z.to_nat limit < length outs)%nat -> Forall fails (firstn (S (Z.to_nat limit)) outs) ->
    let t := bo_try c limit outs 0 in
    tr_returned t = true /\ tr_abort t = false /\ tr_err t = true /\
    tr_seen t = nseq 0 (S (Z.to_nat limit)) /\ length (tr_sleeps t) = Z.to_nat limit /\
    tr_rest t = skipn (S (Z.to_nat limit)) outs /\ tr_after t = 0%N.
Proof. exact bo_try_all_fail_fresh. Qed.

(** fn succeeds or aborts at its (n+1)-th call, within the limit (or limit < 0: unbounded): n sleeps, the result is
    fn's own, the counter is 0 *)
Theorem C14_backoff_try_stops_with_fn :
  forall (c : bo_cfg) (limit : Z) (n : nat) (outs : list fn_out) (o : fn_out),
    (limit < 0 \/ Z.of_nat n <= limit) ->
    Forall fails (firstn n outs) -> nth_error outs n = Some o -> fo_abort o || negb (fo_err o) = true ->
    let t := bo_try c limit outs 0 in
    tr_returned t = true /\ tr_abort t = fo_abort o /\ tr_err t = fo_err o /\
    tr_seen t = nseq 0 (S n) /\ length (tr_sleeps t) = n /\ tr_rest t = skipn (S n) outs /\ tr_after t = 0%N.
Proof. exact bo_try_stops_fresh. Qed.

Example C14_backoff_try_example :
  let fail := {| fo_abort := false; fo_err := true; fo_draw := 5 |} in
  Forall fails (firstn 3 [fail; fail; fail; fail]) /\
  tr_seen (bo_try mailbox_cfg 2 [fail; fail; fail; fail] 0) = [0; 1; 2]%N /\
  tr_sleeps (bo_try mailbox_cfg 2 [fail; fail; fail; fail] 0) = [75000000; 150000000].
Proof. cbn zeta. split; [repeat constructor|]. vm_compute. auto. Qed.

(** COUNTER RESET ON EVERY EXIT (history independence).  However Try returns - success, abort, exhaustion - and
    whatever the counter was when it started, the counter is 0 afterwards; so a Try on an object that served any
    earlier Try behaves exactly like a Try on a new object: no message inherits used-up attempts. *)
Theorem C14_backoff_reset_on_every_exit :
  forall (c : bo_cfg) (limit : Z) (outs : list fn_out) (att : N),
    tr_returned (bo_try c limit outs att) = true -> tr_after (bo_try c limit outs att) = 0%N.
Proof. exact bo_try_after. Qed.

Theorem C14_backoff_history_independent :
  forall (c : bo_cfg) (l1 : Z) (o1 : list fn_out) (att : N) (l2 : Z) (o2 : list fn_out),
    tr_returned (bo_try c l1 o1 att) = true ->
    bo_try c l2 o2 (tr_after (bo_try c l1 o1 att)) = bo_try c l2 o2 0%N.
Proof. exact bo_try_history_independent. Qed.

(** what the reset prevents: with a counter left at or above the limit the very first failure is final *)
Theorem C14_backoff_stale_counter_loses_attempts :
  forall (c : bo_cfg) (limit : Z) (o : fn_out) (outs : list fn_out) (att : N),
    0 <= limit -> limit <= Z.of_N att -> fails o ->
    tr_seen (bo_try c limit (o :: outs) att) = [att] /\ tr_err (bo_try c limit (o :: outs) att) = true.
Proof. exact bo_try_stale_counter. Qed.

(** Reset forgets: the results of any sequence of Next / Reset / GetAttempt calls after a Reset do not depend on
    what was done to the object before it *)
Theorem C14_backoff_reset_forgets :
  forall (c : bo_cfg) (att att' : N) (h h' ops : list bo_op),
    snd (bo_run c (fst (bo_run c att (h ++ [BReset]))) ops) = snd (bo_run c (fst (bo_run c att' (h' ++ [BReset]))) ops).
Proof. exact bo_run_reset_forgets. Qed.

(** TOTAL SLEEP BOUNDED.  Every sleep of a Try lies in the interval of its attempt number; their sum in the sum of
    the intervals; never more than (number of sleeps) * 125 % of MaxDelay. *)
Theorem C14_backoff_total_sleep_bounded :
  forall (c : bo_cfg) (limit : Z) (outs : list fn_out) (att : N),
    cfg_ok c -> Forall (fun o => 0 <= fo_draw o < 2 ^ 63) outs ->
    let t := bo_try c limit outs att in
    let n := length (tr_sleeps t) in
    Forall2 (fun k d => bo_lo c k <= d <= bo_hi c k) (nseq att n) (tr_sleeps t) /\
    sum_lo c att n <= sum_z (tr_sleeps t) <= sum_hi c att n /\
    0 <= sum_lo c att n /\ sum_hi c att n <= Z.of_nat n * (- ((- (5 * bo_max c)) / 4)).
Proof. exact bo_try_total_sleep. Qed.

(** ENQUEUE = TRY.  The [LSleep k] labels of Remoting/Link.v's machine are the Next() calls of this object: in one
    Enqueue that returns, the calling goroutine sleeps n <= ReconnectLimit times, for the attempt numbers 0 .. n-1
    without gaps, and for EVERY random stream the time it spends asleep lies in the sum of the intervals - at most
    n * 3.75 s.  (This bounds the known finding C14-tell-blocks-caller from both sides.) *)
Theorem C14_enqueue_blocking_time_bounded :
  forall (M : Type) (encode : M -> option bytes) (limit : N) (m : M) (script : list answers) (s s' : st) (rest : list answers),
    attempt s = 0%N ->
    try_loop encode limit m script s = (s', rest, true) ->
    exists tr n, trace s' = trace s ++ tr /\ sleep_ks tr = nseq 0 n /\ (N.of_nat n <= limit)%N /\
      forall rs, length rs = n -> Forall (fun r => 0 <= r < 2 ^ 63) rs ->
        sum_lo mailbox_cfg 0 n <= sleep_ns mailbox_cfg (sleep_ks tr) rs <= sum_hi mailbox_cfg 0 n /\
        0 <= sum_lo mailbox_cfg 0 n /\ sum_hi mailbox_cfg 0 n <= Z.of_nat n * 3750000000.
Proof. exact (@enqueue_blocking_time). Qed.

(** the peer stays unreachable: exactly ReconnectLimit sleeps, then the dead letter; the caller was asleep for at
    least the sum of the lower ends; with vivid's default ReconnectLimit 10 that is 13.575 s .. 22.625 s *)
Theorem C14_enqueue_exhaustion_blocks_for :
  forall (M : Type) (encode : M -> option bytes) (limit : N) (m : M) (data : bytes) (script : list answers) (s : st),
    wire_of encode m = Some data -> attempt s = 0%N ->
    (N.to_nat limit < length script)%nat -> Forall hard_fail (firstn (S (N.to_nat limit)) script) ->
    exists s' tr, try_loop encode limit m script s = (s', skipn (S (N.to_nat limit)) script, true) /\
      dead s' = dead s ++ [m] /\ trace s' = trace s ++ tr /\ sleep_ks tr = nseq 0 (N.to_nat limit) /\
      forall rs, length rs = N.to_nat limit -> Forall (fun r => 0 <= r < 2 ^ 63) rs ->
        sum_lo mailbox_cfg 0 (N.to_nat limit) <= sleep_ns mailbox_cfg (sleep_ks tr) rs <= sum_hi mailbox_cfg 0 (N.to_nat limit).
Proof. exact (@enqueue_exhaustion_blocks). Qed.

Example C14_default_limit_blocking :
  sum_lo mailbox_cfg 0 10 = 13575000000 /\ sum_hi mailbox_cfg 0 10 = 22625000000.
Proof. exact default_limit_blocking. Qed.

(** OVERLAPPING CONNECTIONS (what remains of the subsequence clause without C14_subsequence_partial's proviso).
    For EVERY interleaving [r] of the deliveries of the connections of one sender mailbox - every message list, every
    fault script, every ReconnectLimit: [r] is a permutation of a subsequence of what was sent (nothing invented,
    corrupted or duplicated), and each single connection's deliveries keep their order inside [r].  The only thing
    an overlap can break is the order BETWEEN two connections (C14_overlap_reorder_refuted). *)
Theorem C14_any_overlap_no_corruption_no_duplicate :
  forall (M : Type) (encode : M -> option bytes) (limit : N) (dec : bytes -> option M),
    (forall m b, encode m = Some b -> dec b = Some m) ->
    forall (ms : list M) (script : list answers) (r : list M),
      merges (per_conn dec (fst (exec encode limit ms script init))) r ->
      (exists r', Permutation r r' /\ subseq r' ms) /\
      Forall (fun l => subseq l r) (per_conn dec (fst (exec encode limit ms script init))).
Proof. exact (@overlap_perm_of_subseq). Qed.

(** in particular no message is received more often than it was sent *)
Theorem C14_any_overlap_at_most_once :
  forall (M : Type) (encode : M -> option bytes) (limit : N) (dec : bytes -> option M) (eqb : M -> M -> bool),
    (forall m b, encode m = Some b -> dec b = Some m) ->
    forall (ms : list M) (script : list answers) (r : list M) (x : M),
      merges (per_conn dec (fst (exec encode limit ms script init))) r ->
      (length (filter (eqb x) r) <= length (filter (eqb x) ms))%nat.
Proof. exact (@overlap_no_duplicate). Qed.

Print Assumptions C14_backoff_base_exact.
Print Assumptions C14_backoff_delay_in_interval.
Print Assumptions C14_backoff_attempts_when_all_fail.
Print Assumptions C14_backoff_try_stops_with_fn.
Print Assumptions C14_backoff_reset_on_every_exit.
Print Assumptions C14_backoff_history_independent.
Print Assumptions C14_backoff_stale_counter_loses_attempts.
Print Assumptions C14_backoff_reset_forgets.
Print Assumptions C14_backoff_total_sleep_bounded.
Print Assumptions C14_enqueue_blocking_time_bounded.
Print Assumptions C14_enqueue_exhaustion_blocks_for.
Print Assumptions C14_any_overlap_no_corruption_no_duplicate.
Print Assumptions C14_any_overlap_at_most_once.
