(** C11 (second file) — first contact: the per-address table of outbound mailboxes (internal/remoting/
    mailbox_central.go) under any number of concurrent senders.  Statements only; every proof is [exact <lemma>]
    (Remoting/CentralProofs.v, CentralFrame.v).

    Model: Remoting/Central.v.  Sender threads run [GetOrCreate] (one atomic get-or-insert: the whole body holds
    rmc.lock) and then [Enqueue] on the mailbox they got (atomic per mailbox: connectionLock) under an ARBITRARY
    schedule ([run sched]); [init progs] = cold start: empty table, thread i has the program [nth i progs] (a list of
    (address, message) sends).  [cs_log] = all Enqueues in the order they happened, each tagged with the mailbox
    ([e_box], creation index) that served it; [log_of a s] = the frames on the one connection of address a, in wire
    order.  "Finished" = every thread has done all its sends. *)
From Coq Require Import List NArith Bool Lia PeanoNat.
From Vivid Require Import Codec.Prim Remoting.Frame Remoting.FrameProofs Remoting.Link Remoting.Central Remoting.CentralProofs
  Remoting.CentralFrame.
Import ListNotations.

(** ONE MAILBOX (= ONE CONNECTION CHAIN) PER PEER ADDRESS, for every number of senders, all programs, every
    interleaving of their GetOrCreate and Enqueue steps: two Enqueues went through the same mailbox iff they were
    addressed to the same address. *)
Theorem C11_one_mailbox_per_address :
  forall (A M : Type) (eqb : A -> A -> bool), (forall a b, eqb a b = true <-> a = b) ->
  forall (progs : list (list (A * M))) (sched : list nat) (e1 e2 : entry A M),
    let s := run eqb sched (init progs) in
    In e1 (cs_log s) -> In e2 (cs_log s) -> (e_addr e1 = e_addr e2 <-> e_box e1 = e_box e2).
Proof. exact (@one_mailbox_per_address). Qed.

(** PER-SENDER FIFO ON THE WIRE.  At every moment what sender i has on the wire of address a is a prefix of its
    program's messages to a, in program order ... *)
Theorem C11_first_contact_per_sender_prefix :
  forall (A M : Type) (eqb : A -> A -> bool), (forall a b, eqb a b = true <-> a = b) ->
  forall (progs : list (list (A * M))) (sched : list nat) (i : nat) (p : list (A * M)) (a : A),
    nth_error progs i = Some p ->
    exists rest, to_addr eqb a p = sent_by i (log_of eqb a (run eqb sched (init progs))) ++ rest.
Proof. exact (@per_sender_prefix). Qed.

(** ... and when all senders are done exactly those messages, once each *)
Theorem C11_first_contact_per_sender_fifo :
  forall (A M : Type) (eqb : A -> A -> bool), (forall a b, eqb a b = true <-> a = b) ->
  forall (progs : list (list (A * M))) (sched : list nat) (i : nat) (p : list (A * M)) (a : A),
    nth_error progs i = Some p ->
    finished (run eqb sched (init progs)) ->
    sent_by i (log_of eqb a (run eqb sched (init progs))) = to_addr eqb a p.
Proof. exact (@per_sender_fifo). Qed.

(** COMPOSED WITH THE FRAMING THEOREM (C11_exactly_once_in_order): cold start, any senders, any schedule, ANY chunking
    of the connection's byte stream: the remote system is handed exactly the wire log of the address, and of every
    sender exactly its messages to that address, once each, in the order sent. *)
Theorem C11_cold_start_exactly_once_in_order :
  forall (A M : Type) (eqb : A -> A -> bool), (forall a b, eqb a b = true <-> a = b) ->
  forall (enc : entry A M -> bytes) (dec : bytes -> option (entry A M)), (forall e, dec (enc e) = Some e) ->
  forall (progs : list (list (A * M))) (sched : list nat) (a : A) (i : nat) (p : list (A * M)) (chunks : list bytes),
    let s := run eqb sched (init progs) in
    nth_error progs i = Some p -> finished s ->
    Forall (fun e => (1 <= N.of_nat (length (enc e)) <= max_frame)%N) (log_of eqb a s) ->
    concat chunks = concat (map (fun e => frame (enc e)) (log_of eqb a s)) ->
    delivered (receive dec chunks) = log_of eqb a s /\
    sent_by i (delivered (receive dec chunks)) = to_addr eqb a p.
Proof. exact (@cold_start_delivery). Qed.

(** non-vacuity: two senders racing for their first contact with address 7 (GetOrCreate of sender 1 between
    GetOrCreate and Enqueue of sender 0), both finish, one mailbox, both sequences in order on its wire *)
Example C11_first_contact_example :
  let progs := [[(7, 10); (7, 11)]; [(7, 20); (7, 21)]] in
  let s := run Nat.eqb [0; 1; 1; 0; 1; 0; 1; 0] (init progs) in
  finished s /\ map (fun e => (e_box e, e_msg e)) (cs_log s) = [(0, 20); (0, 10); (0, 21); (0, 11)] /\
  sent_by 1 (log_of Nat.eqb 7 s) = [20; 21].
Proof. cbn zeta. split; [repeat constructor|]. vm_compute. auto. Qed.

(** what the theorems exclude.  If lookup and insert were two steps and the loser of a concurrent first contact kept
    the mailbox it had made for itself ([orun]: NOT the code), one address would be served by two connections with two
    independent reader actors, and the receiver could see a sender's second message before its first. *)
Theorem C11_orphan_mailbox_reorders_refuted :
  exists (progs : list (list (nat * nat))) (sched : list nat) (r : list (entry nat nat)),
    let s := orun Nat.eqb sched (oinit progs) in
    merges [box_log 0 (os_log s); box_log 1 (os_log s)] r /\
    nth_error progs 1 = Some [(7, 20); (7, 21)] /\ sent_by 1 r = [21; 20].
Proof. exact orphan_reorders. Qed.

Print Assumptions C11_one_mailbox_per_address.
Print Assumptions C11_first_contact_per_sender_prefix.
Print Assumptions C11_first_contact_per_sender_fifo.
Print Assumptions C11_cold_start_exactly_once_in_order.
Print Assumptions C11_orphan_mailbox_reorders_refuted.
