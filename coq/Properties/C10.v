(** C10 (PARTIAL) — the documented-concurrent API is safe from any goroutine: no race on shared memory.

    What is proved. [Race/Lockset.v] is an abstract machine of threads that take and release locks
    (RWMutex semantics), become / resign "the goroutine processing actor i's mailbox" (at most one per actor
    at a time), claim / fire a once-only completion event, and perform memory accesses drawn from an ACCESS
    TABLE; an access may begin only in a state in which the table's annotations for that site are true of
    the thread (locks held, owner role, publication phase). [lockset_sound]: for EVERY table and EVERY
    population of threads, object instances and schedules — if every location class of the table is
    (1) only accessed through synchronisation primitives, or (2) always accessed under one common lock of
    the same object (writes exclusively, reads at least shared), or (3) only accessed by its owner
    goroutine, or (4) written only by the single claimant of a once-event before it fires and read by others
    only after it fired, or (5) never written — then no reachable state has two different threads in the
    middle of conflicting accesses (same location of the same object, one a write, not both atomic).

    The instance. [Generated/AccessTable.v] is regenerated on every run from the tree under test by the
    translator harness/cmd/accessgen (bin/gen_access): every read/write site (file:line, function) of
    Context.children / watchers / stash / state / zombie / restarting, System.futureAgents (outer and inner
    maps) / actorContexts, eventStream.subscribers / subscriberTypes (outer and inner maps), Future.closed /
    err / message / forwarders / done / timer, Ref.cache, MailboxCentral.mailboxes, Scheduler.jobKeys.
    [C10_discipline] evaluates the discipline on that finite table with [vm_compute] — the table is the
    bound; [C10_no_conflict] is [lockset_sound] at that table.

    LIMITS (why this is "partial").
    - The theorem is about the inventory and the discipline, not about the Go memory model: that the
      annotations are true at run time (the lock really is held at that line, the function really runs
      only on the actor's goroutine) is the translator's claim, not a theorem.
    - "Owner goroutine" = the goroutine currently processing the actor's mailbox; that there is at most one
      at a time is property C01 ([C01_single_consumer]), ASSUMED here (machine rule [SBecome]). The list of
      owner-only functions is hand-written in the translator and checked against the static call graph
      (every in-package caller of an owner-only function is owner-only); the exported ActorContext /
      Scheduler methods are owner-only by vivid's documented contract.
    - Lock tracking is lexical per function (must-hold intersection at joins of structured control flow;
      a lock counts only for fields selected from the same base expression; closures start with nothing
      held; caller-held locks are unknown to callees). It errs towards false alarms, EXCEPT: a base variable
      re-assigned between Lock and the access, a callee/closure releasing the caller's lock, Unlock through
      an alias of the mutex, and field contents (maps, slices, pointers) that escape into locals / structs
      / return values and are used after Unlock — these can hide a race from the table. Followed: local
      aliases of inner maps, and local aliases of a tracked MAP field itself ([x := B.f], or [x := B.m()]
      where method m returns [R.f] of its receiver). An access through such an alias is credited with a lock
      of B only while that lock is still the SAME acquisition under which the alias was read from the field:
      a table captured in one critical section and written under a later one (the field may have been
      re-assigned in between, so the write can land in a detached map: time-of-check / time-of-use) appears
      in the table WITHOUT the lock and breaks [C10_discipline]. Dropping a lock from an annotation is always
      sound for [C10_lockset_sound] (fewer annotations = more behaviours of the machine); it is conservative
      (a stale alias of a field that is never re-assigned is flagged too).
    - Accesses through reflection, unsafe, cgo, third-party code, or from packages other than
      internal/actor, internal/future, internal/remoting are not inventoried; composite-literal field
      initialisers (construction before the object is shared) are counted but not treated as accesses.
    - "No crash": see PART 3 for the four runtime failures that the inventory classifies; every other source of a
      crash is searched for on the real code by the stress harness (harness/cmd/race, built with -race): monitors
      data-race, fatal, panic, hang, tree.

    PART 2 - "without corrupting the actor tree" (theorems [C10_tree_*], machine Race/Tree.v). The three tables
    that ARE the tree (System.actorContexts, Context.children, Context.state) and every code path that writes them
    (Context.ActorOf, System.ActorOf, onKill / onRestart, checkAndMarkKilled, handleRestart, the zombie path,
    cleanupIfNotRestarting, handleChildDeath, the dead-letter gate of HandleEnvelop) are modelled at the granularity
    of the synchronisation the inventory above reports for them (one sync.Map operation, one childrenLock critical
    section, one atomic operation = one step; everything between two such operations interleaves freely), for any
    number of actors, threads, re-used names, any tree shape and EVERY schedule; kills, restarts, failed restarts and
    the order of notices are nondeterministic. Proved: below every parent that is NOT DEAD - the root included - the tree is
    never corrupted (in-flight form in every reachable state: a table entry is registered or in the course of its
    release, a registered actor is in its parent's table or a spawn of it is in flight; at quiescence registry <->
    children <-> parent agree exactly, so the root's table never keeps a dead context while the root is alive); below
    every parent other than the root additionally: no registered actor has a dead parent, and a dead parent's table is
    empty; for every parent: registry soundness, actorOfLock serialises root spawns, nobody ever deletes another
    context's registration. Two defects of the root found with this machine are REPAIRED in /repo and kept as regression
    scenarios of the harness: the stale root entry (an actor killed between appendActorContext and the insertion into
    the root's table was inserted dead: b0e210b re-checks the registration inside the insertion's critical section -
    the state word would not do, a restart passes through `killed`; monitor tree-stale-root-child) and the orphan (the
    root dying between the state check and the registration: 6438ab6; monitor tree-orphan-under-dead-root). NOT proved
    (why "_partial"): that an actor registered under an already dead ROOT disappears again (it is sent OnKill by the
    spawner's re-read of the parent state; that it then terminates is a liveness matter), and a DEAD root's table may
    keep the entry of such a late child (nothing reads it).

    PART 3 - "without crashing the process" (theorems [C10_panic_*], Race/Crash.v). The translator also inventories
    every PANIC SITE of the three packages - unlock of an unlocked mutex, close of a closed channel, send on a closed
    channel, assignment to an entry of a nil map (tracked map fields, their inner maps, local aliases) - with the guard
    the code provides: the lock is in the must-hold set in the matching mode (deferred unlocks: held at the defer
    statement and not released twice); the map is established non-nil on every path (fresh assignment, nil test whose
    nil branch assigns a fresh map, `!ok` branch assigning a fresh map, a field every constructor initialises) and no
    tracked map field is ever assigned anything but a fresh map; a close / send lies in the claimed phase of a
    once-event. [C10_panic_sites_guarded] evaluates that discipline on the generated table; [C10_panic_close_sound]
    is the one part that needs an argument: a channel closed only as the fire of one once-event by its claimant is
    never closed twice and never sent on after the close - every table, every population, every schedule. LIMITS: nil
    pointer dereferences, unchecked type assertions (Ask with a nil / foreign ActorRef panics on the caller: argument
    validation), slice indexing, user panics (C08) and internal/guard's close(guardClosedSignal) (guarded by "own
    OnKilled at most once", C06) are not classified; the guards are the translator's lexical must-analysis.

    This file holds statements only; the lemmas are in Race/LocksetProofs.v, Race/TreeProofs.v, Race/CrashProofs.v. *)
From Coq Require Import List NArith Bool String.
From Vivid Require Import Race.Lockset Race.LocksetProofs Race.Report Generated.AccessTable.
From Vivid Require Import Race.Tree Race.TreeInv Race.TreeProofs Race.Crash Race.CrashProofs.
Import ListNotations.
Local Open Scope N_scope.

(** Printed on every run. If [C10_discipline] below stops checking, the first list names the offending
    sites (file:line:col function [location] R/W `expression` held: ...). *)
Eval vm_compute in (violation_report site_names access_table).
Eval vm_compute in (protection_report loc_names access_table).

(** the generic soundness theorem, restated in full: every table, every thread population *)
Theorem C10_lockset_sound (T : list access) :
  discipline_ok T = true ->
  forall s, reachable T s ->
  ~ (exists t1 t2 i a1 a2,
        t1 <> t2 /\ st_flight s t1 = Some (i, a1) /\ st_flight s t2 = Some (i, a2) /\
        N.eqb (a_loc a1) (a_loc a2) && (is_wr a1 || is_wr a2) && negb (a_atomic a1 && a_atomic a2) = true).
Proof. exact (lockset_sound T). Qed.

(** what makes the annotations meaningful: they stay true for as long as the access is in flight, and an
    exclusive holder of a lock excludes every other holder *)
Theorem C10_annotations_stable (T : list access) s t i a :
  reachable T s -> st_flight s t = Some (i, a) -> In a T /\ annotations_hold s t i a.
Proof. exact (inflight_annotations T s t i a). Qed.
Theorem C10_lock_exclusion (T : list access) s t t' l i :
  reachable T s -> st_locks s t l i = Some Excl -> t' <> t -> st_locks s t' l i = None.
Proof. exact (lock_exclusion T s t t' l i). Qed.

(** the inventory found at least one site of every one of the 22 location classes (a translator that
    silently loses a field would make the discipline vacuously true) *)
Theorem C10_inventory_covers :   (* map N.of_nat (seq 1 22) = [1; 2; ...; 22] *)
  forallb (fun l => existsb (fun a => N.eqb (a_loc a) l) access_table) (map N.of_nat (seq 1 22)) = true.
Proof. exact (eq_refl true <: forallb (fun l => existsb (fun a => N.eqb (a_loc a) l) access_table) (map N.of_nat (seq 1 22)) = true). Qed.

(** the table generated from the tree under test satisfies the discipline (finite: the table is the bound) *)
Theorem C10_discipline : discipline_ok access_table = true.
Proof. exact (eq_refl true <: discipline_ok access_table = true). Qed.

(** hence: no reachable state of the access machine over the generated table has a data race *)
Theorem C10_no_conflict : forall s, reachable access_table s -> ~ race s.
Proof. exact (lockset_sound access_table C10_discipline). Qed.

(** the sharpness of the machine: a table shaped like the historical defect (root children written under
    actorOfLock by API callers and with no lock by the root's goroutine) is rejected and does race *)
Theorem C10_machine_can_race :
  discipline_ok bad_table = false /\ exists s, reachable bad_table s /\ race s.
Proof. exact (conj (proj1 bad_table_rejected) bad_table_races). Qed.

(** non-vacuity of [C10_no_conflict]: in the GENERATED table two threads can be in flight at the same time
    (on the same object) — the theorem then says these two accesses do not conflict *)
Example C10_two_in_flight :
  exists s a b, reachable access_table s /\ st_flight s 1 = Some (0, a) /\ st_flight s 2 = Some (0, b).
Proof.
  destruct (find plain access_table) as [a|] eqn:E; [|vm_compute in E; discriminate].
  destruct (find_plain_In _ _ E) as [Ha Pa].
  destruct (plain_pair_inflight access_table a a Ha Ha Pa Pa) as [s Hs].
  exists s, a, a. exact Hs.
Qed.

(** non-vacuity of [C10_lockset_sound]: a disciplined table using every kind of protection, with two
    readers under RLock and a post-publication reader in flight together *)
Example C10_sound_hypotheses_met :
  discipline_ok ex_table = true /\
  exists s, reachable ex_table s /\ st_flight s 1 <> None /\ st_flight s 2 <> None.
Proof.
  split; [exact ex_table_ok|]. destruct ex_two_readers as [s [Hr [H1 [H2 _]]]].
  exists s. split; [exact Hr|]. split; [rewrite H1; discriminate|exact H2].
Qed.

(** * PART 2 - the actor tree *)

(** In EVERY reachable state of the tree machine - every root, parent function, path function (names may be re-used),
    every number of actors and threads, every schedule, nothing needs to be quiescent - below every parent [p] other
    than the root:
    (1) an entry children[p][q] = c names a context of path q whose parent is p and which is still registered, or whose
        release is in progress (its registry entry is deleted and its OnKilled notice to p is about to be sent, or is
        waiting in p's mailbox);
    (2) a registered context whose parent is p is in p's child table, or p's own goroutine is in the middle of
        spawning it (between appendActorContext and the insertion);
    (3) the parent of a registered context is not dead (state killed). *)
Theorem C10_tree_below_every_actor_partial (root : aid) (par : aid -> option aid) (path_of : aid -> apath) :
  (forall c, c <> root -> path_of c <> path_of root) -> par root = None ->
  forall s p, treachable root par path_of s -> p <> root ->
    (forall q c, ch_get q (t_children s p) = Some c ->
        path_of c = q /\ par c = Some p /\
        (t_reg s (path_of c) = Some c \/ t_pc s (Own c) = Released c \/ In c (t_notices s p))) /\
    (forall c, t_reg s (path_of c) = Some c -> par c = Some p ->
        ch_get (path_of c) (t_children s p) = Some c \/ t_pc s (Own p) = SpRegistered p c) /\
    (forall c, t_reg s (path_of c) = Some c -> par c = Some p -> t_st s p <> Killed).
Proof. exact (tree_nonroot_always root par path_of). Qed.

(** at quiescence (every thread between operations, every termination notice handled) the tree is EXACTLY consistent
    below every parent other than the root: registry <-> children <-> parent, both ways, and no registered context
    under a dead parent *)
Theorem C10_tree_quiescent_partial (root : aid) (par : aid -> option aid) (path_of : aid -> apath) :
  (forall c, c <> root -> path_of c <> path_of root) -> par root = None ->
  forall s p, treachable root par path_of s ->
    (forall t, t_pc s t = Idle) -> (forall x, t_notices s x = []) -> p <> root ->
    (forall q c, ch_get q (t_children s p) = Some c -> path_of c = q /\ par c = Some p /\ t_reg s (path_of c) = Some c) /\
    (forall c, t_reg s (path_of c) = Some c -> par c = Some p -> ch_get (path_of c) (t_children s p) = Some c) /\
    (t_st s p = Killed -> forall c, t_reg s (path_of c) = Some c -> par c <> Some p).
Proof. exact (fun H1 H2 s p Hr Q1 Q2 => tree_nonroot_quiescent root par path_of H1 H2 s p Hr (conj Q1 Q2)). Qed.

(** for EVERY parent, the root included, in every reachable state: the registry holds at most one context per path,
    under its own path, never the root; a registered context is in its parent's table or a spawn of it is in flight;
    the keys of a child table are the paths of the stored references, which are children of that parent *)
Theorem C10_tree_registry_sound (root : aid) (par : aid -> option aid) (path_of : aid -> apath) :
  (forall c, c <> root -> path_of c <> path_of root) -> par root = None ->
  forall s, treachable root par path_of s ->
    (forall q a, t_reg s q = Some a -> path_of a = q /\ a <> root) /\
    (forall c p, t_reg s (path_of c) = Some c -> par c = Some p ->
        ch_get (path_of c) (t_children s p) = Some c \/ exists t, t_pc s t = SpRegistered p c) /\
    (forall p q c, ch_get q (t_children s p) = Some c -> path_of c = q /\ par c = Some p).
Proof. exact (tree_all_always root par path_of). Qed.

(** so at quiescence every registered top-level actor IS in the root's child table (this direction holds at the root) *)
Theorem C10_tree_root_registered_in_table (root : aid) (par : aid -> option aid) (path_of : aid -> apath) :
  (forall c, c <> root -> path_of c <> path_of root) -> par root = None ->
  forall s, treachable root par path_of s -> (forall t, t_pc s t = Idle) -> (forall x, t_notices s x = []) ->
    forall c, t_reg s (path_of c) = Some c -> par c = Some root -> ch_get (path_of c) (t_children s root) = Some c.
Proof. exact (fun H1 H2 s Hr Q1 Q2 => tree_root_quiescent_half root par path_of H1 H2 s Hr (conj Q1 Q2)). Qed.

(** actorOfLock: two threads are never inside a spawn on the root at the same time *)
Theorem C10_tree_actorOfLock_serialises (root : aid) (par : aid -> option aid) (path_of : aid -> apath) :
  (forall c, c <> root -> path_of c <> path_of root) -> par root = None ->
  forall s t t' c c', treachable root par path_of s ->
    (t_pc s t = SpChecked root c \/ t_pc s t = SpRegistered root c) ->
    (t_pc s t' = SpChecked root c' \/ t_pc s t' = SpRegistered root c') -> t = t'.
Proof. exact (fun H1 H2 s t t' c c' => tree_root_spawns_serialised root par path_of H1 H2 s t t' c c'). Qed.

(** a context stays registered from its LoadOrStore until its own Delete: nobody deletes or overwrites the registration
    of another context (actorContexts.Delete is by path and unconditional - the proof shows the path is always still
    the deleter's own) *)
Theorem C10_tree_registration_stable (root : aid) (par : aid -> option aid) (path_of : aid -> apath) :
  (forall c, c <> root -> path_of c <> path_of root) -> par root = None ->
  forall s a, treachable root par path_of s -> t_pub s a = true -> a <> root ->
    t_reg s (path_of a) = Some a \/ (t_st s a = Killed /\ t_zombie s a = false /\ t_reg s (path_of a) <> Some a).
Proof. exact (tree_registration_stable root par path_of). Qed.

(** the same two clauses for EVERY parent that is not dead, the root included (the insertion into the child table
    re-checks the registration inside the same childrenLock section: /repo b0e210b) - every reachable state *)
Theorem C10_tree_every_live_parent_partial (root : aid) (par : aid -> option aid) (path_of : aid -> apath) :
  (forall c, c <> root -> path_of c <> path_of root) -> par root = None ->
  forall s p, treachable root par path_of s -> p <> root \/ t_st s p <> Killed ->
    (forall q c, ch_get q (t_children s p) = Some c ->
        path_of c = q /\ par c = Some p /\
        (t_reg s (path_of c) = Some c \/ t_pc s (Own c) = Released c \/ In c (t_notices s p))) /\
    (forall c, t_reg s (path_of c) = Some c -> par c = Some p ->
        ch_get (path_of c) (t_children s p) = Some c \/ exists t, t_pc s t = SpRegistered p c).
Proof. exact (tree_live_parent_always root par path_of). Qed.

(** at quiescence registry, child table and parent agree EXACTLY below every parent that is not dead: the root's table
    never keeps a dead context, every registered top-level actor is in it. (Not proved, see the header: that no actor stays
    registered under a root that is already dead.) *)
Theorem C10_tree_quiescent_every_live_parent_partial (root : aid) (par : aid -> option aid) (path_of : aid -> apath) :
  (forall c, c <> root -> path_of c <> path_of root) -> par root = None ->
  forall s p, treachable root par path_of s ->
    (forall t, t_pc s t = Idle) -> (forall x, t_notices s x = []) -> p <> root \/ t_st s p <> Killed ->
    (forall q c, ch_get q (t_children s p) = Some c -> path_of c = q /\ par c = Some p /\ t_reg s (path_of c) = Some c) /\
    (forall c, t_reg s (path_of c) = Some c -> par c = Some p -> ch_get (path_of c) (t_children s p) = Some c).
Proof. exact (fun H1 H2 s p Hr Q1 Q2 => tree_live_parent_quiescent root par path_of H1 H2 s p Hr (conj Q1 Q2)). Qed.

(** uniqueness of registration (the registration step is an atomic LoadOrStore, taken under actorOfLock at the root): a path
    names at most one live context. Of two distinct contexts with the same path that have both been registered at some time -
    two successful spawns under one name - at least one is dead and no longer registered, in EVERY reachable state. Tied to the
    code by the duplicate-name rounds of the harness (K goroutines call System.ActorOf with one name at once, OnPrelaunch 1-3 ms;
    monitor tree-duplicate-name). *)
Theorem C10_tree_registration_unique (root : aid) (par : aid -> option aid) (path_of : aid -> apath) :
  (forall c, c <> root -> path_of c <> path_of root) -> par root = None ->
  forall s c c', treachable root par path_of s ->
    t_pub s c = true -> t_pub s c' = true -> c <> root -> c' <> root -> path_of c = path_of c' -> c <> c' ->
    (t_st s c = Killed /\ t_reg s (path_of c) <> Some c) \/ (t_st s c' = Killed /\ t_reg s (path_of c') <> Some c').
Proof. exact (tree_registration_unique root par path_of). Qed.

(** the schedule that used to leave a dead context in the root's table (the recorded finding C10-root-stale-child, repaired
    by b0e210b; the harness forces the same schedule on the real code) is still enabled step by step and now ends, quiescent,
    with the root's table empty *)
Theorem C10_tree_former_stale_child_schedule_repaired :
  exists s, trun x_root x_par x_path w1_sched (tinit x_root) = Some s /\
            ((forall t, t_pc s t = Idle) /\ (forall x, t_notices s x = [])) /\
            ch_get 1 (t_children s x_root) = None /\ t_reg s (x_path 1) = None /\ t_st s 1 = Killed /\ t_st s x_root = Running.
Proof. exact (ex_intro _ (w_run w1_sched) (conj (w_run_some w1_sched (eq_refl true <: w_ok w1_sched = true)) (conj w1_quiescent w1_repaired))). Qed.

(** the hypotheses of the tree theorems are satisfiable, and by a non-trivial state: the instance satisfies both
    assumptions, and a quiescent reachable state has a three-level tree root - 1 - 16 *)
Example C10_tree_hypotheses_met :
  (forall c, c <> x_root -> x_path c <> x_path x_root) /\ x_par x_root = None /\
  exists s, treachable x_root x_par x_path s /\ quiescent s /\
            ch_get 16 (t_children s 1) = Some 16 /\ t_reg s (x_path 16) = Some 16 /\ x_par 16 = Some 1.
Proof.
  split; [exact x_path_root|]. split; [exact x_par_root|]. exists e_state.
  split; [exact e_reachable|]. split; [exact e_quiescent|]. destruct e_facts as (A & B & C & _). auto.
Qed.

(** * PART 3 - panic sites *)

(** printed on every run: the panic sites that are not guarded (empty on a disciplined tree) *)
Eval vm_compute in (map (lookup_name panic_names) (unguarded panic_table)).

(** generic: for EVERY table of panic sites, every number of threads and objects and every schedule of the channel machine
    (threads claim once-events - at most one claimant per event and object, for ever - and execute close / send sites where
    their annotation is true; a close fires the event), if every channel site lies in the claimed phase of an event and all
    channel sites of one channel class use the same event, then no reachable state has closed a closed channel or sent on a
    closed channel *)
Theorem C10_panic_close_sound (T : list psite) :
  forallb psite_ok T && same_event T = true -> forall s, creachable T s -> cm_crashed s = false.
Proof. exact (close_discipline_sound T). Qed.

(** the table generated from the tree under test: every unlock site holds its lock, every map write / store / field assignment
    has its non-nil guard, every close lies after the winning CompareAndSwap of its object's once-event (finite: the table is the bound) *)
Theorem C10_panic_sites_guarded : panic_discipline_ok panic_table = true.
Proof. exact (eq_refl true <: panic_discipline_ok panic_table = true). Qed.

(** hence: no reachable state of the channel machine over the generated table has crashed *)
Theorem C10_panic_no_double_close : forall s, creachable panic_table s -> cm_crashed s = false.
Proof. exact (close_discipline_sound panic_table C10_panic_sites_guarded). Qed.

(** the inventory is not empty where the code is known to have such sites (a translator that silently loses a kind would
    make the discipline vacuous): at least one unlock site, one close site and one map-write site *)
Theorem C10_panic_inventory_covers :
  (0 <? count_kind (fun k => match k with KUnlock => true | _ => false end) panic_table) &&
  (0 <? count_kind (fun k => match k with KClose => true | _ => false end) panic_table) &&
  (0 <? count_kind (fun k => match k with KMapWrite => true | _ => false end) panic_table) = true.
Proof. exact (eq_refl true). Qed.

(** sharpness / non-vacuity: an undisciplined table is rejected and does crash; a disciplined one really closes its channel *)
Theorem C10_panic_machine_can_crash :
  panic_discipline_ok bad_close_table = false /\ exists s, creachable bad_close_table s /\ cm_crashed s = true.
Proof. exact (conj (proj1 bad_close_rejected) bad_close_crashes). Qed.
Example C10_panic_hypotheses_met :
  panic_discipline_ok ok_close_table = true /\ exists s, creachable ok_close_table s /\ cm_closed s 18 0 = true /\ cm_crashed s = false.
Proof. exact (conj ok_close_table_ok ok_close_happens). Qed.

Print Assumptions C10_lockset_sound.
Print Assumptions C10_annotations_stable.
Print Assumptions C10_lock_exclusion.
Print Assumptions C10_inventory_covers.
Print Assumptions C10_discipline.
Print Assumptions C10_no_conflict.
Print Assumptions C10_machine_can_race.
Print Assumptions C10_tree_below_every_actor_partial.
Print Assumptions C10_tree_quiescent_partial.
Print Assumptions C10_tree_registry_sound.
Print Assumptions C10_tree_root_registered_in_table.
Print Assumptions C10_tree_actorOfLock_serialises.
Print Assumptions C10_tree_registration_stable.
Print Assumptions C10_tree_every_live_parent_partial.
Print Assumptions C10_tree_quiescent_every_live_parent_partial.
Print Assumptions C10_tree_registration_unique.
Print Assumptions C10_tree_former_stale_child_schedule_repaired.
Print Assumptions C10_panic_close_sound.
Print Assumptions C10_panic_sites_guarded.
Print Assumptions C10_panic_no_double_close.
Print Assumptions C10_panic_inventory_covers.
Print Assumptions C10_panic_machine_can_crash.
