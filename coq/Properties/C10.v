(** C10 (PARTIAL) — the documented-concurrent API is safe from any goroutine: no race on shared memory.

    What is proved. [Race/Lockset.v] is an abstract machine of threads that take and release locks
    (RWMutex semantics), become / resign "the goroutine processing actor i's mailbox" (at most one per actor
    at a time), claim / fire a once-only completion event, and perform memory accesses drawn from an ACCESS
    TABLE; an access may begin only in a state in which the table's annotations for that site are true of
    the thread (locks held, owner role, publication phase). [lockset_sound]: for EVERY table and EVERY
    population of threads, object instances and schedules — if every location class of the table is
    (1) only accessed through synchronisation primitives, or (2) always accessed under one common lock of
    the same object (writes exclusively, reads at least shared), or (3) only accessed by its owner
    goroutine, or (4) written only by the single claimant of a once-event before it fires and read by others
    only after it fired, or (5) never written — then no reachable state has two different threads in the
    middle of conflicting accesses (same location of the same object, one a write, not both atomic).

    The instance. [Generated/AccessTable.v] is regenerated on every run from the tree under test by the
    translator harness/cmd/accessgen (bin/gen_access): every read/write site (file:line, function) of
    Context.children / watchers / stash / state / zombie / restarting, System.futureAgents (outer and inner
    maps) / actorContexts, eventStream.subscribers / subscriberTypes (outer and inner maps), Future.closed /
    err / message / forwarders / done / timer, Ref.cache, MailboxCentral.mailboxes, Scheduler.jobKeys.
    [C10_discipline] evaluates the discipline on that finite table with [vm_compute] — the table is the
    bound; [C10_no_conflict] is [lockset_sound] at that table.

    LIMITS (why this is "partial").
    - The theorem is about the inventory and the discipline, not about the Go memory model: that the
      annotations are true at run time (the lock really is held at that line, the function really runs
      only on the actor's goroutine) is the translator's claim, not a theorem.
    - "Owner goroutine" = the goroutine currently processing the actor's mailbox; that there is at most one
      at a time is property C01 ([C01_single_consumer]), ASSUMED here (machine rule [SBecome]). The list of
      owner-only functions is hand-written in the translator and checked against the static call graph
      (every in-package caller of an owner-only function is owner-only); the exported ActorContext /
      Scheduler methods are owner-only by vivid's documented contract.
    - Lock tracking is lexical per function (must-hold intersection at joins of structured control flow;
      a lock counts only for fields selected from the same base expression; closures start with nothing
      held; caller-held locks are unknown to callees). It errs towards false alarms, EXCEPT: a base variable
      re-assigned between Lock and the access, a callee/closure releasing the caller's lock, Unlock through
      an alias of the mutex, and field contents (maps, slices, pointers) that escape into locals / structs
      / return values and are used after Unlock — these can hide a race from the table. Followed: local
      aliases of inner maps, and local aliases of a tracked MAP field itself ([x := B.f], or [x := B.m()]
      where method m returns [R.f] of its receiver). An access through such an alias is credited with a lock
      of B only while that lock is still the SAME acquisition under which the alias was read from the field:
      a table captured in one critical section and written under a later one (the field may have been
      re-assigned in between, so the write can land in a detached map: time-of-check / time-of-use) appears
      in the table WITHOUT the lock and breaks [C10_discipline]. Dropping a lock from an annotation is always
      sound for [C10_lockset_sound] (fewer annotations = more behaviours of the machine); it is conservative
      (a stale alias of a field that is never re-assigned is flagged too).
    - Accesses through reflection, unsafe, cgo, third-party code, or from packages other than
      internal/actor, internal/future, internal/remoting are not inventoried; composite-literal field
      initialisers (construction before the object is shared) are counted but not treated as accesses.
    - "No crash, tree not corrupted" are NOT proved here; they are searched for on the real code by the
      stress harness (harness/cmd/race, built with -race): monitors data-race, fatal, panic, hang, tree.

    This file holds statements only; the lemmas are in Race/LocksetProofs.v. *)
From Coq Require Import List NArith Bool String.
From Vivid Require Import Race.Lockset Race.LocksetProofs Race.Report Generated.AccessTable.
Import ListNotations.
Local Open Scope N_scope.

(** Printed on every run. If [C10_discipline] below stops checking, the first list names the offending
    sites (file:line:col function [location] R/W `expression` held: ...). *)
Eval vm_compute in (violation_report site_names access_table).
Eval vm_compute in (protection_report loc_names access_table).

(** the generic soundness theorem, restated in full: every table, every thread population *)
Theorem C10_lockset_sound (T : list access) :
  discipline_ok T = true ->
  forall s, reachable T s ->
  ~ (exists t1 t2 i a1 a2,
        t1 <> t2 /\ st_flight s t1 = Some (i, a1) /\ st_flight s t2 = Some (i, a2) /\
        N.eqb (a_loc a1) (a_loc a2) && (is_wr a1 || is_wr a2) && negb (a_atomic a1 && a_atomic a2) = true).
Proof. exact (lockset_sound T). Qed.

(** what makes the annotations meaningful: they stay true for as long as the access is in flight, and an
    exclusive holder of a lock excludes every other holder *)
Theorem C10_annotations_stable (T : list access) s t i a :
  reachable T s -> st_flight s t = Some (i, a) -> In a T /\ annotations_hold s t i a.
Proof. exact (inflight_annotations T s t i a). Qed.
Theorem C10_lock_exclusion (T : list access) s t t' l i :
  reachable T s -> st_locks s t l i = Some Excl -> t' <> t -> st_locks s t' l i = None.
Proof. exact (lock_exclusion T s t t' l i). Qed.

(** the inventory found at least one site of every one of the 22 location classes (a translator that
    silently loses a field would make the discipline vacuously true) *)
Theorem C10_inventory_covers :   (* map N.of_nat (seq 1 22) = [1; 2; ...; 22] *)
  forallb (fun l => existsb (fun a => N.eqb (a_loc a) l) access_table) (map N.of_nat (seq 1 22)) = true.
Proof. exact (eq_refl true <: forallb (fun l => existsb (fun a => N.eqb (a_loc a) l) access_table) (map N.of_nat (seq 1 22)) = true). Qed.

(** the table generated from the tree under test satisfies the discipline (finite: the table is the bound) *)
Theorem C10_discipline : discipline_ok access_table = true.
Proof. exact (eq_refl true <: discipline_ok access_table = true). Qed.

(** hence: no reachable state of the access machine over the generated table has a data race *)
Theorem C10_no_conflict : forall s, reachable access_table s -> ~ race s.
Proof. exact (lockset_sound access_table C10_discipline). Qed.

(** the sharpness of the machine: a table shaped like the historical defect (root children written under
    actorOfLock by API callers and with no lock by the root's goroutine) is rejected and does race *)
Theorem C10_machine_can_race :
  discipline_ok bad_table = false /\ exists s, reachable bad_table s /\ race s.
Proof. exact (conj (proj1 bad_table_rejected) bad_table_races). Qed.

(** non-vacuity of [C10_no_conflict]: in the GENERATED table two threads can be in flight at the same time
    (on the same object) — the theorem then says these two accesses do not conflict *)
Example C10_two_in_flight :
  exists s a b, reachable access_table s /\ st_flight s 1 = Some (0, a) /\ st_flight s 2 = Some (0, b).
Proof.
  destruct (find plain access_table) as [a|] eqn:E; [|vm_compute in E; discriminate].
  destruct (find_plain_In _ _ E) as [Ha Pa].
  destruct (plain_pair_inflight access_table a a Ha Ha Pa Pa) as [s Hs].
  exists s, a, a. exact Hs.
Qed.

(** non-vacuity of [C10_lockset_sound]: a disciplined table using every kind of protection, with two
    readers under RLock and a post-publication reader in flight together *)
Example C10_sound_hypotheses_met :
  discipline_ok ex_table = true /\
  exists s, reachable ex_table s /\ st_flight s 1 <> None /\ st_flight s 2 <> None.
Proof.
  split; [exact ex_table_ok|]. destruct ex_two_readers as [s [Hr [H1 [H2 _]]]].
  exists s. split; [exact Hr|]. split; [rewrite H1; discriminate|exact H2].
Qed.

Print Assumptions C10_lockset_sound.
Print Assumptions C10_annotations_stable.
Print Assumptions C10_lock_exclusion.
Print Assumptions C10_inventory_covers.
Print Assumptions C10_discipline.
Print Assumptions C10_no_conflict.
Print Assumptions C10_machine_can_race.
