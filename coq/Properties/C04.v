(** C04 — placeholder while the proofs are being written. *)
From Vivid Require Import Future.FutModel.
