(** C04 - every Ask completes exactly once, with its own reply, timeout, or death.

    Model: Future/FutModel.v - a micro-step machine of ONE Ask as the code is in /repo now: Context.ask
    (NewFuture - which arms the timer -, appendFuture, the Closed() re-check + conditional removeFuture, the send
    of the request), future.Future (close = CAS(closed); assign err/message; close(done) + timer.Stop; closer() =
    removeFuture; Lock(mu), take forwarders, Unlock; one Tell per forwarder - PipeTo = Lock(mu); Load(closed);
    closed: Unlock, wait done, read result, Tell each / open: read forwarders, then write forwarders (append +
    Unique), Unlock - Result/Wait) and the
    future table of System (path -> identity finite map, findMailbox, removeFuturesByAgentPath).
    One step = what one goroutine does between two scheduling points of the instrumented real code.
    Threads: the asker ([ask]), the timer goroutine, and ANY population ([prog]) of repliers (to the future's own
    path or to any other path), Close(err) callers, asker death, PipeTo callers, Result/Wait callers, and other
    actors/futures registering and unregistering other paths.  [reachable s] / [reach timeout progs s] = s is the
    state after SOME schedule (list of [Run i] / [Tick]) of SOME population, so every theorem holds for all
    numbers of concurrent users, all interleavings of reply / timeout / death / Close / PipeTo, all timeouts.
    Other Asks of the same system interact with this one only through the registry under other paths (M7: the
    agent path contains a fresh uuid - side condition [prog_ok], named [M7_agent_path_fresh]); they are the [PForeignReg]/[PForeignUnreg]/
    [PReply p] (p <> fpath) threads.
    Time: [now] advanced by [Tick]; the timer's fire step is enabled only when now >= armed_at + timeout (M6).
    The model is tied to the real code by lock-step replay (bin/check C04).
    Statements only; proofs in Future/FutInv*.v, Future/FutProofs.v, Future/FutFwd.v; notions in Future/FutSpec.v.
    ANY NUMBER of concurrent Asks sharing the System's tables, with the tables at their own granularity (Store / Delete /
    Load / futureLock sections as separate steps), several Asks per asker, kill clean-ups over many futures:
    Properties/C04_system.v (model Future/SysModel.v). *)
From Coq Require Import List NArith Bool.
From Vivid Require Import Future.FutModel Future.FutSpec Future.FutInvDef Future.FutInv Future.FutProofs Future.FutFwd
  Future.FutRun Future.FutRunProofs.
Import ListNotations.
Local Open Scope N_scope.

(** ============================ (1) C04_one_shot ============================ *)

(** at most one thread ever passes the CAS; [closed] is set exactly when somebody did *)
Theorem C04_one_shot_cas s :
  reachable s -> (length (winners s) <= 1)%nat /\ (closed s = true <-> winners s <> []).
Proof. exact (fun H => one_winner s (reachable_inv s H)). Qed.

(** only that thread is ever inside the rest of close (assign, close(done), closer, take forwarders, tell) *)
Theorem C04_one_shot_past_cas s i p :
  reachable s -> nth_error (thr s) i = Some p -> close_pc p = true -> winners s = [i].
Proof. exact (fun H => past_cas_is_winner s i p (reachable_inv s H)). Qed.

(** err/message are written at most once, only by the thread that won the CAS, and while done is still open *)
Theorem C04_one_shot_writes s :
  reachable s ->
  (length (wlog s) <= 1)%nat /\ forall i d, In (i, d) (wlog s) -> winners s = [i] /\ d = false.
Proof. exact (fun H => writes_once s (reachable_inv s H)). Qed.

(** the write itself: before it the result is (nil, nil) and done is open; it stores exactly the value the
    winning close was called with *)
Theorem C04_one_shot_write_step s i v s' :
  reachable s -> nth_error (thr s) i = Some (CAssign v) -> step i s = Some s' ->
  done s = false /\ closed s = true /\ res_of s = (None, None) /\ res_of s' = vpair v /\ final s = Some v.
Proof. exact (fun H => write_before_done i s s' v (reachable_inv s H)). Qed.

(** once done is closed the result is the value of the winning close and never changes again, whatever runs *)
Theorem C04_one_shot_result s :
  reachable s -> done s = true -> exists v, final s = Some v /\ res_of s = vpair v /\ closed s = true.
Proof. exact (fun H => done_final s (reachable_inv s H)). Qed.
Theorem C04_one_shot_stable s sched :
  reachable s -> done s = true -> res_of (run sched s) = res_of s /\ done (run sched s) = true.
Proof. exact (fun H => result_stable_run sched s (reachable_inv s H)). Qed.

(** Result / Wait can only return after done is closed, and every value they ever returned is the final one *)
Theorem C04_one_shot_reader_step s i full s' :
  nth_error (thr s) i = Some (WRecv full) -> step i s = Some s' -> done s = true.
Proof. exact (waiter_needs_done i s s' full). Qed.
Theorem C04_one_shot_readers s j full r :
  reachable s -> In (j, full, r) (rets s) -> done s = true /\ r = (if full then msg s else None, err s).
Proof. exact (fun H => i_rets s (reachable_inv s H) j full r). Qed.

(** ============================ (2) C04_completes ============================ *)

(** when nothing can move any more (however far the clock advances): the future is completed whenever a
    reply / Close / death / timeout reached it (somebody executed the CAS) or a timer was armed *)
Theorem C04_completes s :
  reachable s -> terminal s -> (attempts s <> [] \/ armed s <> None) -> done s = true.
Proof. exact (fun H => completes s (reachable_inv s H)). Qed.

(** ... and nobody is blocked except Result/Wait callers of a future that nothing has completed (no reply,
    Close or death reached it and it has no timeout): no deadlock on mu, no PipeTo stuck waiting for done *)
Theorem C04_completes_only_waiters_block s :
  reachable s -> terminal s ->
  forall i p, nth_error (thr s) i = Some p ->
    p = Done \/
    (exists full, p = WRecv full) /\ done s = false /\ closed s = false /\ attempts s = [] /\ armed s = None.
Proof. exact (fun H => no_deadlock s (reachable_inv s H)). Qed.

(** the timer callback never runs before the deadline *)
Theorem C04_timeout_not_early s t :
  reachable s -> fired s = Some t -> exists t0, armed s = Some t0 /\ t0 + tmo s <= t.
Proof. exact (fun H => i_fired s (reachable_inv s H) t). Qed.

(** the completing value is a reply addressed to the future's own path, the holder's Close(err), the
    actor-dead error of the asker's death, or the timeout error of the timer callback - nothing else *)
Theorem C04_completes_origin timeout progs s v :
  forallb prog_ok progs = true -> reach timeout progs s -> final s = Some v -> origin progs s v.
Proof. exact (fun Hok Hr => o_final progs s (reach_inv2 progs timeout s Hok Hr) v). Qed.

(** ============================ (3) C04_no_registration_left ============================ *)

(** a completed future is registered only transiently: while ask is between appendFuture and its Closed()
    re-check, or while the completing thread has not yet run closer() *)
Theorem C04_registration_window s :
  reachable s -> rlookup fpath (reg s) <> None -> nth_error (thr s) 0 = Some ACheck \/ closer_ran s = false.
Proof. exact (fun H => i_reg s (reachable_inv s H)). Qed.

(** in a terminal state a completed future has no registry entry *)
Theorem C04_no_registration_left s :
  reachable s -> terminal s -> done s = true -> rlookup fpath (reg s) = None.
Proof. exact (fun H => no_registration_left s (reachable_inv s H)). Qed.

(** ============================ (4) C04_forwarders_once ============================ *)

(** every forwarder named by any PipeTo call (distinct forwarders) has received exactly one PipeResult, and
    it carries the final (message, error) *)
Theorem C04_forwarders_once timeout progs s :
  forallb prog_ok progs = true -> NoDup (all_fwds progs) -> reach timeout progs s ->
  terminal s -> done s = true ->
  forall x, In x (all_fwds progs) -> told x s = [res_of s].
Proof. exact (forwarders_once timeout progs s). Qed.

(** nobody else is ever told a PipeResult *)
Theorem C04_forwarders_only_named timeout progs s x :
  forallb prog_ok progs = true -> NoDup (all_fwds progs) -> reach timeout progs s -> told x s <> [] -> In x (all_fwds progs).
Proof. exact (told_only_named timeout progs s x). Qed.

(** at any moment, every PipeResult already told carries the value of the winning close (= the final result) *)
Theorem C04_forwarded_value s x r :
  reachable s -> In (x, r) (tells s) -> exists v, final s = Some v /\ r = vpair v.
Proof. exact (fun H => i_tells s (reachable_inv s H) x r). Qed.

(** ============================ (5) C04_reply_routing ============================ *)

(** These theorems rest on assumption M7, named explicitly as the hypothesis [M7_agent_path_fresh] (FutSpec.v): the
    agent path of a request is unique among all requests of ALL incarnations of ALL actors. The code obtains it
    from uuid.NewString(); a scheme that is unique only within one incarnation of the asker (a per-actor counter)
    violates it - [C04_reply_routing_needs_M7] below - and is caught on the implementation by the name-reuse
    scenarios of the real-system component (monitor reply-misrouted). *)

(** the registry maps the future's path to this future and no other path to it *)
Theorem C04_reply_routing_registry timeout progs s q id :
  M7_agent_path_fresh progs -> reach timeout progs s ->
  rlookup q (reg s) = Some id -> (q = fpath <-> id = fid).
Proof. exact (fun Hok Hr => i_route s (reach_inv timeout progs s Hok Hr) q id). Qed.

(** every reply ever sent: one addressed to path q was delivered to what was registered under q - to this
    future only if q is its path, and a reply to its path never to anybody else (at worst to dead letters) *)
Theorem C04_reply_routing_log timeout progs s q v d id :
  M7_agent_path_fresh progs -> reach timeout progs s ->
  In (q, v, d) (routed s) -> d = Some id -> (q = fpath <-> id = fid).
Proof. exact (fun Hok Hr => o_routed progs s (reach_inv2 progs timeout s Hok Hr) q v d id). Qed.

(** the message a future holds is a reply to ITS request (a [PReply fpath] thread), never the reply to another one *)
Theorem C04_reply_routing_value timeout progs s m :
  M7_agent_path_fresh progs -> reach timeout progs s -> msg s = Some m -> In (PReply fpath (VMsg m)) progs.
Proof. exact (reply_value_addressed timeout progs s m). Qed.

(** the hypothesis is needed: if the future is also reachable under another request's path (7), the reply to that
    other request (9) completes it *)
Theorem C04_reply_routing_needs_M7 :
  exists progs sched m,
    ~ M7_agent_path_fresh progs /\ msg (run sched (init 0 progs)) = Some m /\ ~ In (PReply fpath (VMsg m)) progs.
Proof. exact routing_needs_M7. Qed.

(** ============================ the tie ============================ *)

(** the lock-step replay that bin/check compares with the real code executes nothing but model actions (thread
    steps, and Ticks in front of a timer fire): every replayed trace ends in a [reach]able state, so all theorems
    above apply to every trace the correspondence check accepts *)
Theorem C04_replay_reachable timeout progs sched :
  reach timeout progs (snd (replay sched (init timeout progs))).
Proof. exact (replay_reach timeout progs sched). Qed.

(** ============================ non-vacuity ============================ *)

Definition R (l : list nat) : list act := map Run l.

(** Ask with timeout 5; a reply 7, PipeTo [1] before and PipeTo [2] during the completion, Result, asker death;
    the timer is stopped: terminal, completed with (7, nil), both forwarders told exactly (7, nil), unregistered *)
Definition ex1_progs : list prog := [PReply 0 (VMsg 7); PPipe [1]; PPipe [2]; PWait true; PDeath].
Definition ex1_sched : list act :=
  R [0;0;0;0; 2;2;2;2;2; 1;1;1;1; 3;3;3;3; 1;1; 3; 1;1;1; 3; 4;4;4; 5;5; 6]%nat ++ [Tick;Tick;Tick;Tick;Tick] ++ R [6]%nat.
Definition ex1 : st := run ex1_sched (init 5 ex1_progs).
Example C04_ex_completed_by_reply :
  reach 5 ex1_progs ex1 /\ forallb prog_ok ex1_progs = true /\ NoDup (all_fwds ex1_progs) /\ terminal ex1 /\
  done ex1 = true /\ res_of ex1 = (Some 7, None) /\ told 1 ex1 = [(Some 7, None)] /\ told 2 ex1 = [(Some 7, None)] /\
  rets ex1 = [(4%nat, true, (Some 7, None))] /\ reg ex1 = [] /\ attempts ex1 = [1%nat] /\ winners ex1 = [1%nat].
Proof.
  split; [exists ex1_sched; unfold ex1; reflexivity|]. split; [reflexivity|].
  split; [apply (NoDup_count_occ' N.eq_dec); intros x [<-|[<-|[]]]; reflexivity|].
  split; [apply quiet_terminal; vm_compute; reflexivity|]. vm_compute. repeat split.
Qed.

(** Ask with timeout 1 whose timer fires (at time 1 >= 0 + 1) BEFORE ask registers the future: the timeout
    completes it, ask's re-check removes the late registration, Wait returns the timeout error *)
Definition ex2_sched : list act := R [0;0;2]%nat ++ [Tick] ++ R [2;2;2;2;2;2; 0;0; 1;1;1]%nat.
Definition ex2 : st := run ex2_sched (init 1 [PWait false]).
Example C04_ex_timeout_before_registration :
  reachable ex2 /\ terminal ex2 /\ done ex2 = true /\ res_of ex2 = (None, Some E_TIMEOUT) /\
  fired ex2 = Some 1 /\ armed ex2 = Some 0 /\ tmo ex2 = 1 /\ reg ex2 = [] /\ rets ex2 = [(1%nat, false, (None, Some E_TIMEOUT))].
Proof.
  split; [exists 1, [PWait false]; split; [reflexivity|exists ex2_sched; unfold ex2; reflexivity]|].
  split; [apply quiet_terminal; vm_compute; reflexivity|]. vm_compute. repeat split.
Qed.

(** no timeout, no reply to the future: Result blocks for ever (terminal, not completed); a reply addressed to
    another path (3) reaches what is registered there (5), not the future *)
Definition ex3_progs : list prog := [PWait true; PReply 3 (VMsg 9); PForeignReg 3 5].
Definition ex3_sched : list act := R [0;0;0;0; 1;1; 3;3; 2;2]%nat.
Definition ex3 : st := run ex3_sched (init 0 ex3_progs).
Example C04_ex_blocked_waiter :
  reach 0 ex3_progs ex3 /\ forallb prog_ok ex3_progs = true /\ terminal ex3 /\ done ex3 = false /\
  nth_error (thr ex3) 1 = Some (WRecv true) /\ routed ex3 = [(3, VMsg 9, Some 5)] /\ rlookup fpath (reg ex3) = Some fid.
Proof.
  split; [exists ex3_sched; unfold ex3; reflexivity|]. split; [reflexivity|].
  split; [apply quiet_terminal; vm_compute; reflexivity|]. vm_compute. repeat split.
Qed.

(** the window between the CAS and the assignment: closed is set, the result still (nil, nil); the replier is
    at its assignment and a PipeTo that loaded closed = true is parked on done (it will forward (7, nil)) *)
Definition ex4_sched : list act := R [0;0;0;0; 1;1;1;1; 2;2;2;2]%nat.
Definition ex4 : st := run ex4_sched (init 0 [PReply 0 (VMsg 7); PPipe [1]]).
Example C04_ex_window :
  reachable ex4 /\ closed ex4 = true /\ done ex4 = false /\ res_of ex4 = (None, None) /\
  nth_error (thr ex4) 1 = Some (CAssign (VMsg 7)) /\ nth_error (thr ex4) 2 = Some (PWaitDone [1]) /\
  told 1 (run (R [1;1;2;2;1;1]%nat) ex4) = [(Some 7, None)].
Proof.
  split; [exists 0, [PReply 0 (VMsg 7); PPipe [1]]; split; [reflexivity|exists ex4_sched; unfold ex4; reflexivity]|].
  vm_compute. repeat split.
Qed.

Print Assumptions C04_one_shot_cas.
Print Assumptions C04_one_shot_past_cas.
Print Assumptions C04_one_shot_writes.
Print Assumptions C04_one_shot_write_step.
Print Assumptions C04_one_shot_result.
Print Assumptions C04_one_shot_stable.
Print Assumptions C04_one_shot_reader_step.
Print Assumptions C04_one_shot_readers.
Print Assumptions C04_completes.
Print Assumptions C04_completes_only_waiters_block.
Print Assumptions C04_timeout_not_early.
Print Assumptions C04_completes_origin.
Print Assumptions C04_registration_window.
Print Assumptions C04_no_registration_left.
Print Assumptions C04_forwarders_once.
Print Assumptions C04_forwarders_only_named.
Print Assumptions C04_forwarded_value.
Print Assumptions C04_reply_routing_registry.
Print Assumptions C04_reply_routing_log.
Print Assumptions C04_reply_routing_value.
Print Assumptions C04_reply_routing_needs_M7.
Print Assumptions C04_replay_reachable.
