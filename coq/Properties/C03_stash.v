(** C03 (and the stash clause of C02) over whole histories: parked mail is conserved across every transition.

    "Every user message ... ends in exactly one of three places: it is processed by the target's behaviour, it sits
    in the target's stash, or it is published exactly once as a dead-letter event.  This holds whatever state the
    target is in (running, stopping, stopped by its supervisor while paused, restarting, ...)"; C02: "Stashed messages
    come back in the order they were stashed, each exactly once."

    Properties/C03.v has the one-instruction facts (Stash appends, Unstash takes a prefix, no other instruction
    touches a stash).  Here they are lifted to EVERY event list (= every schedule of every scripted behaviour, every
    supervision decision and hook outcome, every number of restarts / failed restarts / stops / kills in between)
    of the ActorCore machine (Actor/Core.v).  Context.Stash / Unstash are the script actions [AStash] / [AUnstash n];
    they run inside the atomic phase of a handler, so the log of a run's stash operations ([run_sops],
    Actor/SpecStash.v) is read off by re-running [run_atomic]'s own recursion with the same [exec1] on the same
    states; a park records the envelope the context is working on, a take records the envelopes the model's stash
    held at that moment.  Statements only; proofs in Actor/ProofsStash.v. *)
From Coq Require Import List NArith ZArith Bool.
From Vivid Require Import Actor.Core Actor.CoreRun Actor.SpecMail Actor.SpecStash Actor.ProofsStash.
Import ListNotations.

(** ============================ (a) the stash is a FIFO only its owner's Stash / Unstash touch ============================ *)

(** one event, any state (no side condition at all): the stash of every actor [b] before the event, followed by what
    the event's Stash calls park in it, is what its Unstash calls take out of it followed by the stash afterwards.
    The event may be anything: a handler call running a restart to completion or into the zombie state, a stop, the
    cleanup of a terminated actor, a supervisor applying a directive, Pause / Resume, a queue operation *)
Theorem C03_stash_step_balance s ev b :
  stash_at s b ++ parked_of b (step_sops s ev) = taken_of b (step_sops s ev) ++ stash_at (step s ev) b.
Proof. exact (step_balance s ev b). Qed.

(** any run from any state *)
Theorem C03_stash_run_balance evs s b :
  stash_at s b ++ parked_of b (run_sops evs s) = taken_of b (run_sops evs s) ++ stash_at (run_events evs s) b.
Proof. exact (run_balance evs s b). Qed.

(** every history of every system: the envelopes an actor parked, in the order it parked them, are exactly the
    envelopes its Unstash calls took out again, in the order they took them, followed by what is still parked.
    So parked mail comes back in stash order, each parked copy at most once, and a copy that has not come back is
    still in the stash - it cannot vanish, be duplicated or be reordered by anything that happens in between *)
Theorem C03_stash_history scs evs b :
  parked_of b (run_sops evs (init_with scs)) =
  taken_of b (run_sops evs (init_with scs)) ++ stash_at (run_events evs (init_with scs)) b.
Proof. exact (history_balance scs evs b). Qed.

(** the clause the restart case relies on: along ANY run in which the owner itself makes no Stash / Unstash call,
    its stash at the end is its stash at the beginning - whatever the run contains (see the Example: a supervised
    failure, Pause, the Restart directive, OnKill / OnKilled of the old instance, a fresh instance from the
    provider, OnLaunch of the new incarnation) *)
Theorem C03_stash_kept_while_owner_silent evs s b :
  parked_of b (run_sops evs s) = [] -> taken_of b (run_sops evs s) = [] ->
  stash_at (run_events evs s) b = stash_at s b.
Proof. exact (stash_frame_run evs s b). Qed.

(** ============================ (b) whose calls these are ============================ *)

(** the stash operations of an event are calls made by the context whose thread takes the step ... *)
Theorem C03_stash_ops_are_the_owners s ev :
  Forall (fun o => sop_actor o = event_actor ev) (step_sops s ev).
Proof. exact (step_sops_own s ev). Qed.

(** ... so no step of anybody else - another actor's handler, its supervisor, a watcher, an external API caller
    (external callers act as the root), a sender inserting into its queue - changes an actor's stash *)
Theorem C03_stash_untouched_by_others s ev b :
  event_actor ev <> b -> stash_at (step s ev) b = stash_at s b.
Proof. exact (stash_foreign_step s ev b). Qed.

(** queue operations (insertion, system / user pop, the paused load) carry no stash operation, whoever performs them *)
Theorem C03_stash_no_ops_in_queue_events s ev :
  match ev with EvSysPop _ | EvLoadPaused _ | EvUserPop _ | EvPush _ _ => True | _ => False end -> step_sops s ev = [].
Proof. exact (queue_events_no_sops s ev). Qed.

(** ============================ (c) what the logged operations are ============================ *)

(** a park is Stash() of the envelope HandleEnvelop is working on (for a restart in progress: the OnKill / OnKilled
    envelope the runtime substituted; for the new incarnation: its OnLaunch) *)
Theorem C03_stash_parks_current s t x e :
  get s (self_of t) = Some x -> a_cur x = Some e -> instr_sops s t (IAct AStash) = [SPark (self_of t) e].
Proof. exact (stash_parks_current s t x e). Qed.

(** a take is Unstash: the oldest k parked envelopes, k = 1 without argument and max(min(n, len), 0) with argument n,
    and the instructions the call leaves at the head of the handler's list re-enqueue exactly those, in that order,
    into the context's own mailbox (each then is an insertion counted by C03_conservation) *)
Theorem C03_stash_take_reenqueues s t h x n :
  get s (self_of t) = Some x -> a_stash x <> [] ->
  instr_sops s t (IAct (AUnstash n)) = [STake (self_of t) (firstn (unstash_k n (length (a_stash x))) (a_stash x))] /\
  snd (exec1 s t h (IAct (AUnstash n))) =
    flat_map (fun e => [IEnqMb (self_of t) e; IEnqDone]) (firstn (unstash_k n (length (a_stash x))) (a_stash x)).
Proof. exact (unstash_reenqueues s t h x n). Qed.

(** ============================ examples ============================ *)
Local Open Scope N_scope.

(** a worker (actor 2, with a provider) under a one-for-one supervisor that decides Restart parks 7 and 8, fails on 9,
    is restarted (fresh instance 1, behaviour stack reset), and the new incarnation's Unstash(100) brings 7 and 8 back
    in order; their scripts park them again *)
Definition ex_w : spec := Spec 1 [] [] [] 0 [] true [] true.
Definition ex_p : spec := Spec 1 [ASpawn ex_w] [] [] 1 [DRestart] true [] false.
Definition ex_scs : list (list action) :=
  [[ASpawn ex_p];
   [ATell (XPath [1;1]) 7 [AStash]; ATell (XPath [1;1]) 8 [AStash]; ATell (XPath [1;1]) 9 [APanic];
    ATell (XPath [1;1]) 10 [AUnstash (Some 100%Z)]]].
Definition ex_s0 : state := init_with ex_scs.
Definition ex_evs1 : list event := Eval vm_compute in drive 400 [TX 0; TA 0; TA 1; TA 2] ex_s0.
Definition ex_evs : list event := Eval vm_compute in ex_evs1 ++ drive_all 600 (run_events ex_evs1 ex_s0).

Example C03_ex_stash_across_restart :
  let sf := run_events ex_evs ex_s0 in
  reachable sf /\ quiescent sf = true /\
  map e_msg (parked_of 2 (run_sops ex_evs ex_s0)) = [MUser 7 [AStash]; MUser 8 [AStash]; MUser 7 [AStash]; MUser 8 [AStash]] /\
  map e_msg (taken_of 2 (run_sops ex_evs ex_s0)) = [MUser 7 [AStash]; MUser 8 [AStash]] /\
  map e_msg (stash_at sf 2) = [MUser 7 [AStash]; MUser 8 [AStash]] /\
  filter (fun o => match o with OSeen 2 1 _ _ => true | _ => false end) (olog sf) =
    [OSeen 2 1 0 MLaunch; OSeen 2 1 0 (MUser 10 [AUnstash (Some 100%Z)]); OSeen 2 1 0 (MUser 7 [AStash]); OSeen 2 1 0 (MUser 8 [AStash])].
Proof.
  cbv zeta. split; [exists ex_scs, ex_evs; split; [reflexivity|vm_compute; reflexivity]|].
  vm_compute. repeat split.
Qed.

(** the hypotheses of [C03_stash_kept_while_owner_silent] are met by the 22 events of that run from the state in
    which 7 and 8 are parked up to the state just before the Unstash: the owner makes no stash call, the segment
    contains the whole supervised restart (instance 0 -> 1), and the stash is the same two envelopes afterwards *)
Example C03_ex_silent_segment_contains_a_restart :
  let s1 := run_events (firstn 36 ex_evs) ex_s0 in
  let seg := firstn 22 (skipn 36 ex_evs) in
  let s2 := run_events seg s1 in
  parked_of 2 (run_sops seg s1) = [] /\ taken_of 2 (run_sops seg s1) = [] /\
  map e_msg (stash_at s1 2) = [MUser 7 [AStash]; MUser 8 [AStash]] /\ stash_at s2 2 = stash_at s1 2 /\
  (exists x1 x2, get s1 2 = Some x1 /\ get s2 2 = Some x2 /\ a_inst x1 = 0 /\ a_inst x2 = 1 /\
                 a_state x2 = Running /\ a_restarting x2 = None /\ a_modes x2 = [0]) /\
  err s2 = false.
Proof.
  cbv zeta. vm_compute. repeat split. eexists. eexists. repeat split.
Qed.

Print Assumptions C03_stash_step_balance.
Print Assumptions C03_stash_run_balance.
Print Assumptions C03_stash_history.
Print Assumptions C03_stash_kept_while_owner_silent.
Print Assumptions C03_stash_ops_are_the_owners.
Print Assumptions C03_stash_untouched_by_others.
Print Assumptions C03_stash_no_ops_in_queue_events.
Print Assumptions C03_stash_parks_current.
Print Assumptions C03_stash_take_reenqueues.
