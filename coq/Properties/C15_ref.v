(** C15 / C12 / C03 — actor references as strings.

    A reference crosses the wire as its two strings (address, path) and is rebuilt on the other side by
    actor.NewRef (System.HandleRemotingEnvelop for sender / receiver, the ActorRef factory of the codec for
    OnKill.Killer / OnKilled.Ref); users obtain references from strings with ParseRef / CreateRef and print them
    with String (C03: "however the sender obtained the reference ... parsed from a string").  The other C15 / C12
    theorems take "NewRef accepts the strings of a reference it made unchanged" as a HYPOTHESIS about an
    uninterpreted [newref]; here NewRef, ParseRef, String, Child, Equals and everything below them
    (NormalizeAddress, NormalizePath, IsValidHost / Port / Path, IsDomainName, FormatRefString, JoinPath,
    strings.TrimSpace, net.SplitHostPort, net.ParseIP, strconv.Atoi, the two regular expressions) are modelled at
    the level of bytes (Ref/RefModel.v, no oracle) and the hypothesis is PROVED.

    Statements only; every proof is [exact <lemma>] (Ref/RefTrimProofs.v, RefAddrProofs.v, RefProofs.v, RefCodec.v,
    RefRemote.v).  Reading guide: [bytes] = list of byte values; a reference is the pair (address, path);
    [valid_ref r] = [new_ref (fst r) (snd r) = ROk r] = "some NewRef call returned r"; [ref_string] = Ref.String;
    [ambiguous r] = the address has no ':' and the part of the path in front of its first ":/" contains a ':';
    [bs "..."] = the bytes of an ASCII literal.

    OBSERVATION (public helper ParseRef; OUTSIDE the statement of C15, C12 and C03 - a string that cannot be parsed
    sends no message, and a printed reference never parses as another one): ParseRef (String r) fails for exactly the
    [ambiguous] references, e.g. ("host", "/a:b:/c") (C15_ref_parse_string, C15_ref_parse_string_refuted) - reproduced
    on a running system: an actor named "a:b:" with a child "c" is alive, and System.FindActor(child.String())
    returns "address is invalid".  The harness records it in the report (info), it is not a monitor.

    Tie to /repo: harness/cmd/ref compares every modelled function with the real one on every run (exhaustive
    over short strings, token sequences, random long inputs) - see checks/reg/ref.py. *)
From Coq Require Import List NArith ZArith Bool.
From Coq Require String.
Import String.StringSyntax.
From Vivid Require Import Codec.Prim Codec.MsgPrim Codec.Msgs Remoting.Frame Codec.Envelope Remoting.Transparency.
From Vivid Require Import Ref.RefModel Ref.RefTrimProofs Ref.RefAddrProofs Ref.RefProofs Ref.RefCodec Ref.RefRemote.
Import ListNotations.
Local Open Scope N_scope.

(** * strings.TrimSpace *)
Theorem C15_ref_trim_space_idempotent (s : bytes) : trim_space (trim_space s) = trim_space s.
Proof. exact (trim_space_idem s). Qed.

(** what is cut off consists of bytes of space runes only (so no ':' and no '/' ever appears or disappears) *)
Theorem C15_ref_trim_space_cuts_spaces_only (s : bytes) :
  exists pre post, s = pre ++ trim_space s ++ post /\ forallb space_byte pre = true /\ forallb space_byte post = true.
Proof. exact (trim_space_decomp s). Qed.

(** * NormalizeAddress / NormalizePath / NewRef are idempotent on their own output
      (the hypotheses norm_addr_idem / norm_path_idem of C11_sender_ref, and the idempotence hypothesis of
      C15_newref_made_refs_valid) *)
Theorem C15_ref_normalize_address_idempotent (s a : bytes) :
  normalize_address s = Some a -> normalize_address a = Some a.
Proof. exact (normalize_address_idem s a). Qed.
Theorem C15_ref_normalize_path_idempotent (s p : bytes) :
  normalize_path s = Some p -> normalize_path p = Some p.
Proof. exact (normalize_path_idem s p). Qed.
Theorem C15_ref_newref_idempotent (a p : bytes) (r : bytes * bytes) :
  new_ref a p = ROk r -> new_ref (fst r) (snd r) = ROk r.
Proof. exact (new_ref_idem a p r). Qed.

Example C15_ref_newref_ex :
  new_ref (bs "  host:80 ") (194 :: 160 :: bs "/a ") = ROk (bs "host:80", bs "/a") /\
  new_ref (bs "[::ffff:1.2.3.4]:+080") (bs "/%41:b") = ROk (bs "[::ffff:1.2.3.4]:+080", bs "/%41:b") /\
  new_ref (bs "1.2.3.4") (bs "/a") = RErr EAddr /\ new_ref (bs "1.2.3.256") (bs "/a") = ROk (bs "1.2.3.256", bs "/a") /\
  new_ref [226; 132; 170] (bs "/a") = ROk ([226; 132; 170], bs "/a") /\        (* U+212A KELVIN SIGN is a "domain name" *)
  new_ref (bs "host") (bs "/a b") = RErr EPath.
Proof. vm_compute. repeat split. Qed.

(** NormalizeAddresses (cluster seeds): every address it returns is a fixed point of NormalizeAddress; idempotent *)
Theorem C15_ref_normalize_addresses_valid (l : list bytes) (a : bytes) :
  In a (normalize_addresses l) -> normalize_address a = Some a.
Proof. exact (normalize_addresses_valid l a). Qed.
Theorem C15_ref_normalize_addresses_idempotent (l : list bytes) :
  normalize_addresses (normalize_addresses l) = normalize_addresses l.
Proof. exact (normalize_addresses_idem l). Qed.

(** * the shape of what NewRef accepts *)
(** a valid address is the trimmed input, non-empty, without '/', and either host:port / [host]:port with a valid
    host and port, or a bare domain name that is not a dotted quad *)
Theorem C15_ref_valid_address_shape (s a : bytes) : normalize_address s = Some a ->
  a = trim_space s /\ a <> [] /\ has_byte 47 a = false /\
  if has_byte 58 a
  then exists h p, (a = h ++ 58 :: p \/ a = 91 :: h ++ 93 :: 58 :: p) /\ is_valid_host h = true /\ is_valid_port p = true
  else is_domain a = true /\ parse_ip a = false.
Proof. exact (valid_address_shape s a). Qed.
(** a valid path is the trimmed input, starts with '/', and is printable ASCII *)
Theorem C15_ref_valid_path_shape (s p : bytes) : normalize_path s = Some p ->
  p = trim_space s /\ (exists r, p = 47 :: r) /\ forallb printable p = true.
Proof. exact (valid_path_shape' s p). Qed.

(** * String is injective on valid references, with an explicit left inverse (so the printed form itself is
      unambiguous: what fails below is ParseRef, not the format) *)
Theorem C15_ref_string_injective (r1 r2 : bytes * bytes) :
  valid_ref r1 -> valid_ref r2 -> ref_string r1 = ref_string r2 -> r1 = r2.
Proof. exact (ref_string_injective r1 r2). Qed.
Theorem C15_ref_string_left_inverse (r : bytes * bytes) : valid_ref r -> unformat (ref_string r) = Some r.
Proof. exact (unformat_string r). Qed.
Theorem C15_ref_equals_is_equality (r1 r2 : bytes * bytes) : ref_equals r1 r2 = true <-> r1 = r2.
Proof. exact (ref_equals_eq r1 r2). Qed.
Theorem C15_ref_equals_iff_same_string (r1 r2 : bytes * bytes) : valid_ref r1 -> valid_ref r2 ->
  (ref_equals r1 r2 = true <-> ref_string r1 = ref_string r2).
Proof. exact (ref_equals_iff_string r1 r2). Qed.

Example C15_ref_string_ex :
  valid_ref (bs "host:80", bs "/a:b:/c") /\ ref_string (bs "host:80", bs "/a:b:/c") = bs "host:80:/a:b:/c" /\
  valid_ref (bs "host", bs "/a:b:/c") /\ ref_string (bs "host", bs "/a:b:/c") = bs "host/a:b:/c" /\
  unformat (bs "host/a:b:/c") = Some (bs "host", bs "/a:b:/c").
Proof. vm_compute. repeat split. Qed.

(** * ParseRef (String r) *)
(** exact: the reference itself, or - for exactly the ambiguous references - ErrorRefInvalidAddress (this failure is a
    report-only observation about the public helper ParseRef, not a violation of C15 / C12 / C03) *)
Theorem C15_ref_parse_string (r : bytes * bytes) :
  valid_ref r -> parse_ref (ref_string r) = if ambiguous r then RErr EAddr else ROk r.
Proof. exact (parse_ref_string r). Qed.

(** observation (public helper ParseRef), outside the statement of C15: "ParseRef (String r) = r for every reference
    NewRef can make" is FALSE *)
Theorem C15_ref_parse_string_refuted :
  exists r, valid_ref r /\ parse_ref (ref_string r) <> ROk r.
Proof. exact (ex_intro _ (bs "host", bs "/a:b:/c") (conj eq_refl (fun H : RErr EAddr = ROk (bs "host", bs "/a:b:/c") => match H with end))). Qed.

(** the strongest true form: it holds for every reference that is not ambiguous (every reference with a port, every
    path without ":/", every path without ':' in front of its first ":/") ... *)
Theorem C15_ref_parse_string_partial (r : bytes * bytes) :
  valid_ref r -> ambiguous r = false -> parse_ref (ref_string r) = ROk r.
Proof. exact (fun V A => eq_trans (parse_ref_string r V) (f_equal (fun b : bool => if b then RErr EAddr else ROk r) A)). Qed.
(** ... and a printed reference never parses as ANOTHER reference (no misrouting) *)
Theorem C15_ref_parse_string_never_another (r r' : bytes * bytes) :
  valid_ref r -> parse_ref (ref_string r) = ROk r' -> r' = r.
Proof. exact (parse_ref_string_same r r'). Qed.

Example C15_ref_parse_string_ex :
  ambiguous (bs "host:80", bs "/a:b:/c") = false /\ parse_ref (bs "host:80:/a:b:/c") = ROk (bs "host:80", bs "/a:b:/c") /\
  ambiguous (bs "host", bs "/a:/c") = false /\ parse_ref (bs "host/a:/c") = ROk (bs "host", bs "/a:/c") /\
  ambiguous (bs "host", bs "/a:b:/c") = true /\ parse_ref (bs "host/a:b:/c") = RErr EAddr /\
  ambiguous (bs "localhost", bs "/::/c") = true.
Proof. vm_compute. repeat split. Qed.

(** * ParseRef is a retraction: what it returns is a valid reference, is never ambiguous, and parses back from its
      own string - whatever string it was parsed from *)
Theorem C15_ref_parse_yields_valid (s : bytes) (r : bytes * bytes) : parse_ref s = ROk r -> valid_ref r.
Proof. exact (parse_ref_valid s r). Qed.
Theorem C15_ref_parse_retraction (s : bytes) (r : bytes * bytes) :
  parse_ref s = ROk r -> parse_ref (ref_string r) = ROk r.
Proof. exact (parse_ref_retraction s r). Qed.

Example C15_ref_parse_retraction_ex :
  parse_ref (bs " host /a:b ") = ROk (bs "host", bs "/a:b") /\ parse_ref (bs "host/a:b") = ROk (bs "host", bs "/a:b").
Proof. vm_compute. repeat split. Qed.

(** * Child *)
(** the child of a valid reference is a valid reference at the same address whose path extends the parent's *)
Theorem C15_ref_child (r r' : bytes * bytes) (seg : bytes) :
  valid_ref r -> child r seg = ROk r' -> valid_ref r' /\ fst r' = fst r /\ exists y, snd r' = snd r ++ y.
Proof. exact (child_spec r seg r'). Qed.
(** "extends" is not "strictly extends": a reference can be its own child *)
Theorem C15_ref_child_strict_refuted : exists r seg, valid_ref r /\ child r seg = ROk r.
Proof. exact (ex_intro _ (bs "host", bs "/") (ex_intro _ (bs "/") (conj eq_refl eq_refl))). Qed.

(** Child never fails on a non-empty segment of path characters: NewAgentRef, which ignores Child's error for the
    segment "@future@" ++ UUID, never holds a nil reference; the child's path is exactly JoinPath(parent, segment) *)
Theorem C15_ref_child_total (r : bytes * bytes) (seg : bytes) :
  valid_ref r -> seg <> [] -> forallb path_char seg = true -> child r seg = ROk (fst r, join_path (snd r) seg).
Proof. exact (child_total r seg). Qed.

Example C15_ref_child_total_ex :
  forallb path_char (bs "@future@123e4567-e89b-12d3-a456-426614174000") = true /\
  child (bs "host:80", bs "/user/a") (bs "@future@123e4567-e89b-12d3-a456-426614174000")
  = ROk (bs "host:80", bs "/user/a/@future@123e4567-e89b-12d3-a456-426614174000").
Proof. vm_compute. repeat split. Qed.

Example C15_ref_child_ex :
  child (bs "host:80", bs "/a") (bs "//b/c ") = ROk (bs "host:80", bs "/a/b/c") /\
  child (bs "host", bs "/a/") (bs "b") = ROk (bs "host", bs "/a/b") /\
  child (bs "host", bs "/a") (bs " b") = RErr EPath /\ child (bs "host", bs "/a") (bs "  ") = RErr EPath.
Proof. vm_compute. repeat split. Qed.

(** * JoinPath *)
Theorem C15_ref_join_keeps_base (b s : bytes) : b <> [] -> exists y, join_path b s = b ++ y.
Proof. exact (join_path_prefix b s). Qed.
Theorem C15_ref_join_starts_with_slash (b s : bytes) :
  b = [] \/ (exists b', b = 47 :: b') -> exists t, join_path b s = 47 :: t.
Proof. exact (join_path_head b s). Qed.
Theorem C15_ref_join_leading_slashes_irrelevant (b s : bytes) :
  join_path b (47 :: s) = join_path b s /\ join_path b (strip_slashes s) = join_path b s.
Proof. exact (conj (join_path_slash b s) (join_path_strip b s)). Qed.
Theorem C15_ref_join_empty_base_is_root (s : bytes) : join_path [] s = join_path [47] s.
Proof. exact (join_path_empty_base s). Qed.
(** "keeps a single separator": no "//" in the base, none in the segment behind its leading slashes => none in the result *)
Theorem C15_ref_join_single_separator (b s : bytes) :
  no_dslash b = true -> no_dslash (strip_slashes s) = true -> no_dslash (join_path b s) = true.
Proof. exact (join_path_no_dslash b s). Qed.
Theorem C15_ref_join_assoc (b s1 s2 : bytes) :
  join_path (join_path b s1) s2 = join_path b (join_path (strip_slashes s1) s2).
Proof. exact (join_path_assoc b s1 s2). Qed.

Example C15_ref_join_ex :
  join_path (bs "/a") (bs "//b") = bs "/a/b" /\ join_path (bs "/a/") (bs "b") = bs "/a/b" /\ join_path [] (bs "b") = bs "/b" /\
  join_path (bs "/a") [] = bs "/a/" /\ no_dslash (bs "/a/b") = true /\ no_dslash (bs "/a//b") = false.
Proof. vm_compute. repeat split. Qed.

(** * the modelled NewRef as the ActorRef factory / the NewRef of HandleRemotingEnvelop *)
(** the idempotence hypothesis of C15_newref_made_refs_valid holds of [ref_newref] *)
Theorem C15_ref_factory_idempotent (a p a' p' : bytes) :
  ref_newref a p = MOk (a', p') -> ref_newref a' p' = MOk (a', p').
Proof. exact (ref_newref_idem a p a' p'). Qed.
(** every reference NewRef can make (strings below 4 GiB) satisfies C15's [valid_aref] = C12's [valid_kref] *)
Theorem C15_ref_made_refs_wire_valid (r : bytes * bytes) :
  valid_ref r -> len32 (fst r) -> len32 (snd r) -> valid_aref ref_newref r.
Proof. exact (valid_ref_aref r). Qed.

(** C12: OnKill.Killer and OnKilled.Ref round-trip for every reference NewRef can make *)
Theorem C12_ref_onkill_roundtrip (k : bytes * bytes) (reason : bytes) (poison : bool) (rest : bytes) :
  valid_ref k -> len32 (fst k) -> len32 (snd k) -> len32 reason ->
  drun (dec_OnKill ref_newref) (enc_OnKill (RRef (fst k) (snd k)) reason poison ++ rest)
  = MOk ((RRef (fst k) (snd k), reason, poison), rest).
Proof. exact (ref_onkill_roundtrip k reason poison rest). Qed.
Theorem C12_ref_onkilled_roundtrip (k : bytes * bytes) (rest : bytes) :
  valid_ref k -> len32 (fst k) -> len32 (snd k) ->
  drun (dec_OnKilled ref_newref) (enc_OnKilled (RRef (fst k) (snd k)) ++ rest) = MOk (RRef (fst k) (snd k), rest).
Proof. exact (ref_onkilled_roundtrip k rest). Qed.

(** C15 Kill, with NO hypothesis about NewRef left: killer and target are references NewRef / ParseRef made, [own] is
    the target system's (valid) advertised address, strings up to 64 KiB *)
Theorem C15_ref_remote_kill U hc cenc cdec qerr (own : bytes) (killer target : bytes * bytes) (reason : bytes) (poison : bool) :
  valid_ref killer -> valid_ref target -> normalize_address own = Some own -> small own ->
  small_aref killer -> small_aref target -> small reason ->
  exists e',
    remote_transport U hc cenc cdec qerr ref_newref own (op_envelope U (OpKill killer target reason poison)) = Some e' /\
    (forall chunks, concat chunks = wire_bytes U hc cenc (op_envelope U (OpKill killer target reason poison)) ->
                    remote_receive U hc cdec qerr ref_newref own chunks = [Some e']) /\
    e_system U e' = negb poison /\
    e_msg U e' = M_OnKill (RRef (fst killer) (snd killer)) reason poison /\
    e_sender U e' = RRef (fst killer) (snd killer) /\
    e_receiver U e' = RRef own (snd target) /\
    find_mailbox own (e_receiver U e') = ToLocal (snd target).
Proof. exact (ref_remote_kill U hc cenc cdec qerr own killer target reason poison). Qed.

(** C15 Watch round (Watch request, then OnKilled naming the terminated actor back at the watcher), likewise *)
Theorem C15_ref_remote_watch_onkilled U hc cenc cdec qerr (ownW ownT : bytes) (watcher target : bytes * bytes) :
  valid_ref watcher -> valid_ref target ->
  normalize_address ownW = Some ownW -> normalize_address ownT = Some ownT -> small ownW -> small ownT ->
  small_aref watcher -> small_aref target ->
  exists e1 e2,
    remote_transport U hc cenc cdec qerr ref_newref ownT (op_envelope U (OpWatch watcher target)) = Some e1 /\
    killed_notice U (ownT, snd target) (e_sender U e1) = op_envelope U (OpKilledNotice (ownT, snd target) watcher) /\
    remote_transport U hc cenc cdec qerr ref_newref ownW (killed_notice U (ownT, snd target) (e_sender U e1)) = Some e2 /\
    (forall chunks, concat chunks = wire_bytes U hc cenc (killed_notice U (ownT, snd target) (e_sender U e1)) ->
                    remote_receive U hc cdec qerr ref_newref ownW chunks = [Some e2]) /\
    e_system U e2 = true /\
    e_msg U e2 = M_OnKilled (RRef ownT (snd target)) /\
    find_mailbox ownW (e_receiver U e2) = ToLocal (snd watcher).
Proof. exact (ref_remote_watch_onkilled U hc cenc cdec qerr ownW ownT watcher target). Qed.

Example C15_ref_remote_ex :
  valid_ref (bs "a.example:8080", bs "/user/killer") /\ valid_ref (bs "127.0.0.1:9090", bs "/user/target") /\
  normalize_address (bs "b.example:9090") = Some (bs "b.example:9090") /\
  ref_newref (bs " a.example:8080") (bs "/user/killer ") = MOk (bs "a.example:8080", bs "/user/killer") /\
  ref_newref (bs "a.example:8080:") (bs "/user/killer") = MErr MEBadRef.
Proof. vm_compute. repeat split. Qed.

Print Assumptions C15_ref_trim_space_idempotent.
Print Assumptions C15_ref_trim_space_cuts_spaces_only.
Print Assumptions C15_ref_normalize_address_idempotent.
Print Assumptions C15_ref_normalize_path_idempotent.
Print Assumptions C15_ref_newref_idempotent.
Print Assumptions C15_ref_normalize_addresses_valid.
Print Assumptions C15_ref_normalize_addresses_idempotent.
Print Assumptions C15_ref_valid_address_shape.
Print Assumptions C15_ref_valid_path_shape.
Print Assumptions C15_ref_string_injective.
Print Assumptions C15_ref_string_left_inverse.
Print Assumptions C15_ref_equals_is_equality.
Print Assumptions C15_ref_equals_iff_same_string.
Print Assumptions C15_ref_parse_string.
Print Assumptions C15_ref_parse_string_refuted.
Print Assumptions C15_ref_parse_string_partial.
Print Assumptions C15_ref_parse_string_never_another.
Print Assumptions C15_ref_parse_yields_valid.
Print Assumptions C15_ref_parse_retraction.
Print Assumptions C15_ref_child.
Print Assumptions C15_ref_child_strict_refuted.
Print Assumptions C15_ref_child_total.
Print Assumptions C15_ref_join_keeps_base.
Print Assumptions C15_ref_join_starts_with_slash.
Print Assumptions C15_ref_join_leading_slashes_irrelevant.
Print Assumptions C15_ref_join_empty_base_is_root.
Print Assumptions C15_ref_join_single_separator.
Print Assumptions C15_ref_join_assoc.
Print Assumptions C15_ref_factory_idempotent.
Print Assumptions C15_ref_made_refs_wire_valid.
Print Assumptions C12_ref_onkill_roundtrip.
Print Assumptions C12_ref_onkilled_roundtrip.
Print Assumptions C15_ref_remote_kill.
Print Assumptions C15_ref_remote_watch_onkilled.
