(** C19 (history level) - the event stream over whole runs of ActorCore: all interleavings of Subscribe /
    Unsubscribe / UnsubscribeAll / Publish from many actors and external callers, many event types, subscribers
    terminating and restarting in between.  The one-step facts are in Properties/C19_core.v.

    Model: Actor/Core.v.  [reachable s] (Actor/SpecMail.v; the same definition as in SpecSup/SpecLife) = [s] is the
    state after SOME event list from the initial state with SOME external scripts, without [err].  Scripts, supervision
    decisions and hook outcomes are data, so every theorem quantifies over all user code, all schedules, all
    choices of map-iteration order.  Definitions: Actor/SpecStream.v (read its header for what "published",
    "delivered", "subscribed" mean in the model).  Statements only; proofs in Actor/ProofsStream2..5.v.

    Vocabulary used below:
    - [sub_at s ty x]          context [x] has an entry under type [ty] in the table of [s];
    - [unsub_along ty x evs s] [x] has no entry under [ty] at any event boundary of the run [evs] from [s];
    - Publish = the atomic instruction [IPub ty pl]: it reads the table and leaves the range
      [IEnqAny false snapshot root (MEvent ty pl)] at the head of the publisher's list ([just_published]); "an event
      published after state [s]" = its [IPub] executes after [s], i.e. its snapshot is a later table;
    - [stream_push s ev]       the fan-out queue insertion event [ev] performs in [s] (thread, type, payload, target);
      [deliveries t ty x evs s] = how many events of type [ty] thread [t] inserts into [x]'s mailbox along the run;
      [delivered ty x evs s] = the (publisher thread, payload) list of all of them, in order;
    - [inflight t ty x s]      how often [x] is still named by ranges of type [ty] pending in [t]'s list in [s]
      (snapshots [t] took before [s] and has not yet delivered to [x]);
    - [tpushes t evs s]        (mailbox, envelope) of every queue insertion of thread [t] along the run;
      [upushed a evs s]        (thread, envelope) of everything appended to [a]'s user queue along the run. *)
From Coq Require Import List NArith ZArith Bool Permutation.
From Vivid Require Import Actor.Core Actor.CoreRun Actor.SpecSup Actor.SpecMail Actor.SpecStream.
From Vivid Require Import Actor.ProofsStream2 Actor.ProofsStream3 Actor.ProofsStream4 Actor.ProofsStream5 Actor.ProofsStream6.
Import ListNotations.

(** ============================ (1) the stream holds no entry for a terminated subscriber ============================ *)

(** In EVERY reachable state every entry (path, context) of the table, other than entries of the guard (context 0,
    on whose behalf the ActorSystem-level API of an external caller subscribes), names a context that exists, was
    created under that path, and is REGISTERED under it.  Registration is removed by [ICleanup] (the last step of
    the stop sequence), whose first effect is UnsubscribeAll, so "registered" = "not terminated": a context that is
    running, stopping, restarting, or a zombie not yet released. *)
Theorem C19_entries_live s :
  reachable s ->
  forall ty m p a, In (ty, m) (subs s) -> In (p, a) m -> a <> 0 ->
    exists x, get s a = Some x /\ a_path x = p /\ alookup (reg s) p = Some a.
Proof. exact (entries_live_reachable s). Qed.

(** without the exception the statement is FALSE: a Subscribe issued through a context whose cleanup has already run
    leaves an entry that nothing removes.  In ActorCore user code runs only inside its own context's handlers (where
    the context is registered, C19_user_code_runs_registered), so this is only expressible for the guard: an external
    caller that subscribes after the system has stopped (witness: Actor/ProofsStream6.v).  The guard then is Killed,
    not a zombie, its handler has finished, the stop signal is closed - and it has an entry. *)
Theorem C19_entries_live_guard_refuted :
  exists s, reachable s /\
    exists ty m p x, In (ty, m) (subs s) /\ In (p, 0) m /\ get s 0 = Some x /\
                     a_state x = Killed /\ a_zombie x = false /\ a_pend x = [] /\ In OGuardClosed (ghost s).
Proof. exact guard_entry_after_stop. Qed.

(** the contrapositive, per context: once a context (not the guard) is no longer registered, it has no entry under
    any type *)
Theorem C19_no_entry_for_terminated s x xx ty :
  reachable s -> x <> 0 -> get s x = Some xx -> alookup (reg s) (a_path xx) <> Some x -> ~ sub_at s ty x.
Proof. exact (dead_no_entry s x xx ty). Qed.

(** ... and never gets one again: it has no entry at any later event boundary *)
Theorem C19_terminated_stays_unsubscribed ty x evs s xx :
  reachable s -> x <> 0 -> get s x = Some xx -> alookup (reg s) (a_path xx) <> Some x ->
  err (run_events evs s) = false -> unsub_along ty x evs s.
Proof. exact (dead_unsub_along ty x evs s xx). Qed.

(** what makes (1) true: user code (a Subscribe in particular) only ever runs in a context that is still registered *)
Theorem C19_user_code_runs_registered s a x act rest :
  reachable s -> get s a = Some x -> a <> 0 -> a_pend x = IAct act :: rest -> alookup (reg s) (a_path x) = Some a.
Proof. exact (fun H => user_action_registered s a x act rest (Base_reachable s H)). Qed.

(** ============================ (2) nothing published after Unsubscribe / termination is delivered ============================ *)

(** The general form.  Let [x] have no entry under [ty] in [s] (its Unsubscribe / UnsubscribeAll has been executed, or
    it terminated, or it never subscribed) and at no later event boundary of the run [evs] (it does not subscribe to
    [ty] again).  Then, per publishing thread [t]: the events of type [ty] that [t] inserts into [x]'s mailbox during
    [evs] are at most the snapshots naming [x] that [t] took BEFORE [s] and had not yet delivered ([inflight]); every
    publish whose snapshot is taken after [s] delivers nothing to [x]. *)
Theorem C19_not_delivered_while_unsubscribed t ty x evs s :
  reachable s -> err (run_events evs s) = false -> unsub_along ty x evs s ->
  deliveries t ty x evs s + inflight t ty x (run_events evs s) <= inflight t ty x s.
Proof. exact (unsub_bound t ty x evs s). Qed.

(** ... hence, when no publish that snapshotted [x] is still in progress in [s] - every event of type [ty] delivered
    from now on is published after [s] - nothing of type [ty] is put into [x]'s mailbox, by anybody *)
Theorem C19_not_delivered_after_unsubscribe ty x evs s :
  reachable s -> err (run_events evs s) = false -> unsub_along ty x evs s ->
  (forall t, inflight t ty x s = 0) -> delivered ty x evs s = [].
Proof. exact (unsub_none ty x evs s). Qed.

(** after termination the hypothesis "does not subscribe again" is automatic (C19_terminated_stays_unsubscribed) *)
Theorem C19_not_delivered_after_death t ty x xx evs s :
  reachable s -> x <> 0 -> get s x = Some xx -> alookup (reg s) (a_path xx) <> Some x ->
  err (run_events evs s) = false ->
  deliveries t ty x evs s + inflight t ty x (run_events evs s) <= inflight t ty x s.
Proof. exact (dead_bound t ty x xx evs s). Qed.

(** a fan-out insertion addressed to a context lands in that context's own mailbox, never in another one (a reference
    to a context object resolves through its own cache, filled by ActorOf) - so "delivered to [x]" and "addressed to
    [x]" are the same thing *)
Theorem C19_delivery_lands_at_target s ev t ty pl to :
  reachable s -> stream_push s ev = Some (t, ty, pl, to) ->
  exists y, to = RObj y /\ forall x, lands s to = Some x -> x = y.
Proof. exact (delivery_lands s ev t ty pl to). Qed.

(** ============================ (3) delivered exactly once to exactly the snapshot ============================ *)

(** Publish inside the atomic loop: arriving at [IPub ty pl] with a non-empty table of [ty], the loop leaves the table
    as it is, puts the range over the CURRENT subscribers at the head of the thread's list and stops there (the first
    queue insertion is a scheduling point).  (An empty table: nothing is sent, C19_fanout.) *)
Theorem C19_publish_takes_snapshot f s t ty pl rest x :
  pend_of s t = IPub ty pl :: rest -> get s (self_of t) = Some x -> subscribers s ty <> [] ->
  err (run_atomic (S (S f)) s t) = false ->
  subs (run_atomic (S (S f)) s t) = subs s /\
  pend_of (run_atomic (S (S f)) s t) t = IEnqAny false (map (fun p => RObj (snd p)) (subscribers s ty)) root_ref (MEvent ty pl) :: rest /\
  just_published (run_atomic (S (S f)) s t) t ty pl rest.
Proof. exact (publish_snapshot f s t ty pl rest x). Qed.

(** Thread [t] has just published in the reachable state [s].  Over ANY continuation [evs] (any interleaving with
    all other threads, subscribers unsubscribing, dying, restarting meanwhile) in which [t] performs at least as many
    queue insertions as the snapshot has entries: [t]'s next insertions are exactly ONE copy of the event, as a
    user message from the system, into the own mailbox of EACH context subscribed in [s] - in some order (Go map
    iteration), no context twice, nobody else - and then the range is exhausted ([t]'s list is back to what
    followed the Publish, after the end of the last Enqueue). *)
Theorem C19_delivered_exactly_to_snapshot s t ty pl rest evs :
  reachable s -> just_published s t ty pl rest -> err (run_events evs s) = false ->
  length (subscribers s ty) <= npush t evs ->
  exists evs1 evs2 order,
    evs = evs1 ++ evs2 /\ Permutation (map snd (subscribers s ty)) order /\ NoDup order /\
    npush t evs1 = length (subscribers s ty) /\
    tpushes t evs1 s = map (fun a => (a, event_env ty pl)) order /\
    firstn (length (subscribers s ty)) (tpushes t evs s) = map (fun a => (a, event_env ty pl)) order /\
    pend_of (run_events evs1 s) t = IEnqDone :: rest.
Proof. exact (delivered_exactly s t ty pl rest evs). Qed.

(** the same for any pending range (a publish partly delivered, the children of a stopping actor, watchers) *)
Theorem C19_range_completes t sys sender m rest l evs s :
  reachable s -> pend_of s t = IEnqAny sys (map RObj l) sender m :: rest -> l <> [] ->
  err (run_events evs s) = false -> length l <= npush t evs ->
  exists evs1 evs2 order,
    evs = evs1 ++ evs2 /\ Permutation l order /\ npush t evs1 = length l /\
    tpushes t evs1 s = map (fun a => (a, {| e_sys := sys; e_sender := sender; e_msg := m |})) order /\
    firstn (length l) (tpushes t evs s) = map (fun a => (a, {| e_sys := sys; e_sender := sender; e_msg := m |})) order /\
    pend_of (run_events evs1 s) t = IEnqDone :: rest.
Proof. exact (fanout_completes t sys sender m rest l evs s). Qed.

(** ============================ (4) one publisher's events reach a subscriber in publication order ============================ *)

(** Thread [t] has just published event [e1] in [s] and [a] is subscribed in [s].  Over any continuation in which [t]
    completes the fan-out: [e1] is the FIRST envelope [t] appends to [a]'s user queue from [s] on ([l1] contains nothing
    from [t]) - everything [t] publishes later in program order (its next [IPub] executes only after this range is
    exhausted) or tells later is in [l2], behind [e1]; and the user queue is FIFO: what [a]'s consumer has taken out of
    it during the run, followed by what is still queued, is what was queued in [s] followed by the insertions in
    insertion order.  So [a] takes [e1] out of its queue before every later event of the same publisher. *)
Theorem C19_publisher_order s t ty pl rest a evs :
  reachable s -> just_published s t ty pl rest -> sub_at s ty a -> err (run_events evs s) = false ->
  length (subscribers s ty) <= npush t evs ->
  exists l1 l2,
    upushed a evs s = l1 ++ (t, event_env ty pl) :: l2 /\ (forall e, ~ In (t, e) l1) /\
    popped_run a false evs s ++ uq_at (run_events evs s) a = uq_at s a ++ map snd l1 ++ event_env ty pl :: map snd l2.
Proof. exact (publisher_order s t ty pl rest a evs). Qed.

(** ... and handles them in that order: the consumer holds one envelope at a time, so what has been given to
    HandleEnvelop, followed by what is in the consumer's hand, is what was in its hand followed by everything it
    popped, in pop order *)
Theorem C19_handled_in_pop_order b evs s :
  reachable s -> err (run_events evs s) = false ->
  handled_run b evs s ++ held_at (run_events evs s) b = held_at s b ++ pops_run b evs s.
Proof. exact (fun Hr => handled_in_pop_order b evs s (ProofsMailAcct.reachable_wf s Hr)). Qed.

(** ============================ (5) examples (concrete runs, vm_compute) ============================ *)

Local Open Scope N_scope.

(** parent [20] (one-for-one, restarts a failing child) with two subscribers of type 100: [20;30] (context 2) and
    [20;31] (context 3).  Caller 1 publishes two events; caller 2 makes [20;31] unsubscribe, caller 3 kills [20;30],
    caller 4 makes [20;31] fail (restart).  The schedules below interleave one of these BETWEEN the snapshot of the
    first event and its delivery. *)
Definition exS_a : spec := Spec 30 [ASub 100] [] [] 0 [] true [] false.
Definition exS_b : spec := Spec 31 [ASub 100] [] [] 0 [] true [(true, true, true)] false.
Definition exS_par : spec := Spec 20 [ASpawn exS_a; ASpawn exS_b] [] [] 1 [DRestart] true [] false.
Definition exS_scs : list (list action) :=
  [[ASpawn exS_par]; [APub 100 1; APub 100 2]; [ATell (XPath [20; 31]) 7 [AUnsub 100]];
   [AKill (XPath [20; 30]) false]; [ATell (XPath [20; 31]) 8 [APanic]]].
Definition exS_all : list tid := [TA 0; TA 1; TA 2; TA 3]%nat.
(** everybody launched and subscribed, then caller 1 takes the snapshot of the first event *)
Definition exS_evs0 : list event := Eval vm_compute in drive 300 (TX 0%nat :: exS_all) (init_with exS_scs) ++ [EvStart 1].
Definition exS_s0 : state := run_events exS_evs0 (init_with exS_scs).

Example exS_s0_reachable : reachable exS_s0.
Proof. exists exS_scs, exS_evs0. split; [reflexivity|vm_compute; reflexivity]. Qed.

(** (1)+(3): both entries are live; the snapshot names both subscribers *)
Example C19_ex_snapshot :
  reachable exS_s0 /\ subs exS_s0 = [(100, [([20; 30], 2%nat); ([20; 31], 3%nat)])] /\
  reg exS_s0 = [([20], 1%nat); ([20; 30], 2%nat); ([20; 31], 3%nat)] /\
  just_published exS_s0 (TX 1) 100 [1] [IAct (APub 100 2)].
Proof. split; [exact exS_s0_reachable|]. vm_compute. repeat split. discriminate. Qed.

(** --- [20;31] unsubscribes between the snapshot and the delivery *)
Definition exU_evs1 : list event := Eval vm_compute in drive 300 [TX 2; TA 3]%nat exS_s0.
Definition exU_s1 : state := run_events exU_evs1 exS_s0.
Definition exU_evs2 : list event := Eval vm_compute in drive 300 (TX 1%nat :: exS_all) exU_s1.

(** (3): the first event still goes to BOTH members of its snapshot, exactly once each (hypotheses of
    C19_delivered_exactly_to_snapshot hold for this continuation; the three insertions of caller 1 are shown) *)
Example C19_ex_delivered_to_snapshot :
  let evs := exU_evs1 ++ exU_evs2 in
  err (run_events evs exS_s0) = false /\ (length (subscribers exS_s0 100) <= npush (TX 1) evs)%nat /\
  tpushes (TX 1) evs exS_s0 = [(2%nat, event_env 100 [1]); (3%nat, event_env 100 [1]); (2%nat, event_env 100 [2])] /\
  delivered 100 3 evs exS_s0 = [(TX 1, [1])] /\ delivered 100 2 evs exS_s0 = [(TX 1, [1]); (TX 1, [2])].
Proof. vm_compute. repeat split; auto. Qed.

(** (2): from the state in which [20;31] has unsubscribed, one delivery to it is still in flight (the first event,
    snapshotted before); it receives exactly that one and NOT the second event, published after its Unsubscribe:
    the bound of C19_not_delivered_while_unsubscribed is attained *)
Example C19_ex_after_unsubscribe :
  reachable exU_s1 /\ ~ sub_at exU_s1 100 3 /\ unsub_alongb 100 3 exU_evs2 exU_s1 = true /\
  inflight (TX 1) 100 3 exU_s1 = 1%nat /\ deliveries (TX 1) 100 3 exU_evs2 exU_s1 = 1%nat /\
  inflight (TX 1) 100 3 (run_events exU_evs2 exU_s1) = 0%nat /\
  delivered 100 3 exU_evs2 exU_s1 = [(TX 1, [1])] /\ delivered 100 2 exU_evs2 exU_s1 = [(TX 1, [1]); (TX 1, [2])] /\
  filter (fun o => match o with OSeen _ _ _ (MEvent _ _) => true | _ => false end) (olog (run_events exU_evs2 exU_s1)) =
    [OSeen 2 0 0 (MEvent 100 [1]); OSeen 2 0 0 (MEvent 100 [2]); OSeen 3 0 0 (MEvent 100 [1])].
Proof.
  split; [exists exS_scs, (exS_evs0 ++ exU_evs1); split; [unfold exU_s1, exS_s0, run_events; rewrite fold_left_app; reflexivity|vm_compute; reflexivity]|].
  split; [vm_compute; intros [H|[]]; discriminate H|]. vm_compute. repeat split.
Qed.

(** once the first range is complete nothing is in flight and the second event (published after) is not delivered at all *)
Definition exU_evs2a : list event := Eval vm_compute in firstn 4 exU_evs2.
Definition exU_s2 : state := run_events exU_evs2a exU_s1.
Definition exU_evs3 : list event := Eval vm_compute in skipn 4 exU_evs2.
Example C19_ex_published_after_unsubscribe :
  (forall t, inflight t 100 3 exU_s2 = 0%nat) /\ unsub_alongb 100 3 exU_evs3 exU_s2 = true /\
  err (run_events exU_evs3 exU_s2) = false /\
  delivered 100 3 exU_evs3 exU_s2 = [] /\ delivered 100 2 exU_evs3 exU_s2 = [(TX 1, [2])].
Proof.
  split; [|vm_compute; repeat split].
  intros [a|j]; [do 5 (destruct a as [|a]; [vm_compute; reflexivity|]); vm_compute; reflexivity|do 6 (destruct j as [|j]; [vm_compute; reflexivity|]); vm_compute; reflexivity].
Qed.

(** --- [20;30] is killed between the snapshot and the delivery: its entry and its registration go together (1); the
    event snapshotted before is still put into the dead context's mailbox (and becomes a dead letter), the second
    one, published after its termination, is not (2) *)
Definition exD_evs1 : list event := Eval vm_compute in drive 300 (TX 3%nat :: exS_all) exS_s0.
Definition exD_s1 : state := run_events exD_evs1 exS_s0.
Definition exD_evs2 : list event := Eval vm_compute in drive 300 (TX 1%nat :: exS_all) exD_s1.
Example C19_ex_after_death :
  subs exD_s1 = [(100, [([20; 31], 3%nat)])] /\ reg exD_s1 = [([20], 1%nat); ([20; 31], 3%nat)] /\
  entries_liveb exD_s1 = true /\ err (run_events exD_evs2 exD_s1) = false /\
  inflight (TX 1) 100 2 exD_s1 = 1%nat /\ delivered 100 2 exD_evs2 exD_s1 = [(TX 1, [1])] /\
  delivered 100 3 exD_evs2 exD_s1 = [(TX 1, [1]); (TX 1, [2])] /\
  ghost (run_events exD_evs2 exD_s1) = [ODeadLetter false (MEvent 100 [1])].
Proof. vm_compute. repeat split. Qed.

(** --- [20;31] fails and is restarted between the snapshot and the delivery: a restart keeps the subscription, the
    new incarnation receives both events *)
Definition exR_evs1 : list event := Eval vm_compute in drive 300 (TX 4%nat :: exS_all) exS_s0.
Definition exR_s1 : state := run_events exR_evs1 exS_s0.
Definition exR_evs2 : list event := Eval vm_compute in drive 300 (TX 1%nat :: exS_all) exR_s1.
Example C19_ex_restart_keeps_subscription :
  subs exR_s1 = [(100, [([20; 30], 2%nat); ([20; 31], 3%nat)])] /\ err (run_events exR_evs2 exR_s1) = false /\
  filter (fun o => match o with OSeen 3%nat _ _ _ => true | _ => false end) (olog exR_s1) =
    [OSeen 3 0 0 MLaunch; OSeen 3 0 0 (MUser 8 [APanic]); OSeen 3 0 0 (MKill (RObj 3) false); OSeen 3 0 0 (MKilled (RObj 3)); OSeen 3 0 0 MLaunch] /\
  delivered 100 3 exR_evs2 exR_s1 = [(TX 1, [1]); (TX 1, [2])] /\
  filter (fun o => match o with OSeen 3%nat _ _ (MEvent _ _) => true | _ => false end) (olog (run_events exR_evs2 exR_s1)) =
    [OSeen 3 0 0 (MEvent 100 [1]); OSeen 3 0 0 (MEvent 100 [2])].
Proof. vm_compute. repeat split. Qed.

(** (4): in the first schedule, what is appended to the user queue of [20;30] from the snapshot on, with the inserting
    thread: the first event before the second (hypotheses of C19_publisher_order hold) *)
Example C19_ex_publisher_order :
  let evs := exU_evs1 ++ exU_evs2 in
  sub_atb exS_s0 100 2 = true /\
  upushed 2 evs exS_s0 = [(TX 1, event_env 100 [1]); (TX 1, event_env 100 [2])] /\
  popped_run 2 false evs exS_s0 = [event_env 100 [1]; event_env 100 [2]] /\
  handled_run 2 evs exS_s0 = [event_env 100 [1]; event_env 100 [2]].
Proof. vm_compute. repeat split. Qed.

(** the exception in (1) is real: an external caller that subscribes (as the guard) after the system has stopped
    leaves an entry for the guard, which is Killed and has run its cleanup *)
Definition exG_scs : list (list action) := [[AKill XSelf false]; [ASub 100]].
Definition exG_evs : list event := Eval vm_compute in drive 300 [TX 0; TA 0; TX 1]%nat (init_with exG_scs).
Example C19_ex_guard_entry_after_stop :
  let s := run_events exG_evs (init_with exG_scs) in
  reachable s /\ subs s = [(100, [([], 0%nat)])] /\ map a_state (actors s) = [Killed] /\ ghost s = [OGuardClosed].
Proof.
  cbv zeta. split; [exists exG_scs, exG_evs; split; [reflexivity|vm_compute; reflexivity]|]. vm_compute. repeat split.
Qed.

Print Assumptions C19_entries_live.
Print Assumptions C19_entries_live_guard_refuted.
Print Assumptions C19_no_entry_for_terminated.
Print Assumptions C19_terminated_stays_unsubscribed.
Print Assumptions C19_user_code_runs_registered.
Print Assumptions C19_not_delivered_while_unsubscribed.
Print Assumptions C19_not_delivered_after_unsubscribe.
Print Assumptions C19_not_delivered_after_death.
Print Assumptions C19_delivery_lands_at_target.
Print Assumptions C19_publish_takes_snapshot.
Print Assumptions C19_delivered_exactly_to_snapshot.
Print Assumptions C19_range_completes.
Print Assumptions C19_publisher_order.
Print Assumptions C19_handled_in_pop_order.
