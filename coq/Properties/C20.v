(** C20 - scheduled messages fire as specified and die with their actor.
    Statements only; every proof is [exact <lemma>] (lemmas in Timer/SchedProofs.v, witnesses in
    Timer/SchedWitness.v).  The model (Timer/SchedModel.v) is the per-actor Scheduler of
    internal/actor/scheduler.go on the go-quartz queue, with a virtual clock in milliseconds:
      [run ops init]      the state after the op sequence [ops] (Once / Loop / Cron / Cancel / Clear / Exists
                          by any actor, termination and restart of any actor, clock steps in any order)
      [nid s]             the number of scheduling calls so far: the call executed in state s gets this number
      [fires_of x s]      the Tells done so far by the job of scheduling call x, oldest first; a [firing] has
                          the instant [f_time], the payload, the receiver and [f_dead] (receiver already
                          terminated: the Tell is a dead letter)
      [OTick dt]          dt ms pass and the quartz loop is responsive; [OStall dt]: dt ms pass without it
      [spin s]            the quartz loop spins on a SimpleTrigger with interval <= 0 (nothing is modelled
                          beyond that point; excluded by [loops_positive], see C20_no_spin)
      [touches k o]       o is a Cancel/Clear/termination/restart whose actor can render the key k
      [removes a ref o]   o is Cancel(ref) / Clear / termination / restart of actor a. *)
From Coq Require Import List NArith ZArith.
From stdpp Require Import gmap.
From Vivid Require Import Timer.SchedModel Timer.SchedProofs Timer.SchedWitness.
Local Open Scope Z_scope.

(** ============================== Once ============================== *)

(** never twice and never before the delay - for EVERY op sequence before and after the call (other jobs,
    colliding keys, stalls, cancellations included) *)
Theorem C20_once_at_most_once pre a recv ref d p post :
  spin (run pre init) = false -> a ∉ dead (run pre init) ->
  (length (fires_of (nid (run pre init)) (run (pre ++ OOnce a recv ref d p :: post) init)) <= 1)%nat.
Proof. exact (fun H1 H2 => proj1 (thm_once_safety pre a recv ref d p post H1 H2)). Qed.

Theorem C20_once_not_early pre a recv ref d p post f :
  spin (run pre init) = false -> a ∉ dead (run pre init) ->
  In f (fires_of (nid (run pre init)) (run (pre ++ OOnce a recv ref d p :: post) init)) ->
  now (run pre init) + d <= f_time f.
Proof. exact (fun H1 H2 => proj2 (thm_once_safety pre a recv ref d p post H1 H2) f). Qed.

(** cancelled / cleared by its owner, or the owner terminated / restarted, before the firing instant:
    never delivered and no dead letter - for every op sequence *)
Theorem C20_once_cancelled pre a recv ref d p mid c post :
  spin (run pre init) = false -> a ∉ dead (run pre init) -> removes a ref c -> elapsed mid < d ->
  fires_of (nid (run pre init)) (run (pre ++ OOnce a recv ref d p :: mid ++ c :: post) init) = [].
Proof. exact (thm_once_cancelled pre a recv ref d p mid c post). Qed.

(** delivered exactly once, exactly at t0 + d, with the scheduled payload to the scheduled receiver.
    PARTIAL: besides "not removed before the instant" the statement needs (i) the key path:reference not
    queued at the time of the call (excludes re-use of a live reference and colliding keys), (ii) no
    Cancel/Clear/termination/restart of ANY actor that can render the same key before the instant
    (collisions again), (iii) no stall of the quartz loop before the instant, (iv) a non-negative delay.
    Each of (i)-(iv) is necessary: see the _refuted theorems below. *)
Theorem C20_once_delivered_partial pre a recv ref d p post1 dt post2 :
  spin (run pre init) = false -> a ∉ dead (run pre init) ->
  tbl (run pre init) !! job_key a ref = None -> 0 <= d ->
  no_stall post1 -> Forall (fun o => ~ touches (job_key a ref) o) post1 ->
  d <= elapsed post1 + Z.max dt 0 ->
  spin (run (pre ++ OOnce a recv ref d p :: post1 ++ OTick dt :: post2) init) = false ->
  exists f,
    fires_of (nid (run pre init)) (run (pre ++ OOnce a recv ref d p :: post1 ++ OTick dt :: post2) init) = [f] /\
    f_time f = now (run pre init) + d /\ f_payload f = p /\ f_recv f = recv /\ f_owner f = a /\ f_ref f = ref /\
    (recv ∉ dead (run (pre ++ OOnce a recv ref d p :: post1 ++ OTick dt :: post2) init) -> f_dead f = false).
Proof. exact (thm_once_delivered pre a recv ref d p post1 dt post2). Qed.

(** (b) REFUTED: a reference that is still queued is used again on the same actor - both calls return nil,
    the second message is never delivered although nothing was cancelled and nobody died
    (quartz rejects the equal key with ErrJobAlreadyExists; scheduleJob ignores the error) *)
Theorem C20_once_refuted_reuse :
  run_res w_reuse init = [ROk; ROk; RUnit] /\
  map (fun f => (f_payload f, f_time f)) (fired (run w_reuse init)) = [(1%N, 300)] /\
  fires_of 1 (run w_reuse init) = [] /\ spin (run w_reuse init) = false.
Proof. exact wit_reuse. Qed.

(** (a) REFUTED: two different (actor, reference) pairs render the same key: "/a" ":" "b:c" = "/a:b" ":" "c".
    Actor /a:b's call is silently rejected, its Cancel of its OWN reference returns nil and deletes /a's job:
    neither message is ever delivered; nobody died, /a cancelled nothing *)
Theorem C20_once_refuted_collision :
  (w_a, w_bc) <> (w_ab, w_c) /\ job_key w_a w_bc = job_key w_ab w_c /\
  run_res w_collision init = [ROk; ROk; ROk; RUnit] /\
  fired (run w_collision init) = [] /\ spin (run w_collision init) = false /\ dead (run w_collision init) = ∅.
Proof. exact wit_collision. Qed.

(** ... and the termination of /a:b deletes /a's Loop *)
Theorem C20_loop_refuted_collision_death :
  run_res w_collision_death init = [ROk; ROk; RUnit; RUnit] /\ fired (run w_collision_death init) = [] /\
  is_dead (run w_collision_death init) w_a = false.
Proof. exact wit_collision_death. Qed.

(** (d) REFUTED: quartz's misfire rule. The loop does not run from 0 to 700 ms (process suspended, CPU
    starvation): the Once due at 500 is "outdated" by more than 100 ms when the loop gets to it, its
    RunOnceTrigger has expired, the job leaves the queue without ever firing - and Exists still says true *)
Theorem C20_once_refuted_stall :
  run_res w_stall init = [ROk; RUnit; RUnit; RBool true] /\ fired (run w_stall init) = [] /\
  map_to_list (tbl (run w_stall init)) = [] /\ spin (run w_stall init) = false.
Proof. exact wit_stall. Qed.

(** the same rule for every op sequence: a delay below -100 ms returns nil and never fires *)
Theorem C20_once_negative_delay_never_fires pre a recv ref d p post :
  spin (run pre init) = false -> a ∉ dead (run pre init) -> d < - thr ->
  fires_of (nid (run pre init)) (run (pre ++ OOnce a recv ref d p :: post) init) = [].
Proof. exact (thm_once_negative pre a recv ref d p post). Qed.

(** ============================== Loop ============================== *)

(** one delivery per interval, the first at t0 + i, until removed: for every op sequence without a stall the
    delivery instants are an initial segment of t0+i, t0+2i, ... and none lies in the future *)
Theorem C20_loop_grid pre a recv ref i p post :
  spin (run pre init) = false -> a ∉ dead (run pre init) -> 0 < i -> no_stall post ->
  exists m : nat,
    map f_time (fires_of (nid (run pre init)) (run (pre ++ OLoop a recv ref i p :: post) init)) = grid (now (run pre init)) i m /\
    now (run pre init) + Z.of_nat m * i <= now (run (pre ++ OLoop a recv ref i p :: post) init).
Proof. exact (thm_loop_grid pre a recv ref i p post). Qed.

(** ... and the segment is complete while the job is not removed: exactly the instants t0 + k*i <= now.
    PARTIAL for the same reasons as C20_once_delivered_partial *)
Theorem C20_loop_partial pre a recv ref i p post :
  spin (run pre init) = false -> a ∉ dead (run pre init) ->
  tbl (run pre init) !! job_key a ref = None -> 0 < i ->
  no_stall post -> Forall (fun o => ~ touches (job_key a ref) o) post ->
  spin (run (pre ++ OLoop a recv ref i p :: post) init) = false ->
  map f_time (fires_of (nid (run pre init)) (run (pre ++ OLoop a recv ref i p :: post) init)) =
  grid (now (run pre init)) i
       (Z.to_nat ((now (run (pre ++ OLoop a recv ref i p :: post) init) - now (run pre init)) / i)).
Proof. exact (thm_loop_exact pre a recv ref i p post). Qed.

(** after Cancel(ref) / Clear / termination / restart by the owner nothing more is told by that job, whatever
    happens later (Once, Loop and Cron alike; no delivery and no dead letter) - for every op sequence *)
Theorem C20_cancel_stops pre o a recv ref p mid c post :
  is_sched o a recv ref p -> spin (run pre init) = false -> a ∉ dead (run pre init) -> removes a ref c ->
  fires_of (nid (run pre init)) (run (pre ++ o :: mid ++ c :: post) init) =
  fires_of (nid (run pre init)) (run (pre ++ o :: mid) init).
Proof. exact (thm_cancel_stops pre o a recv ref p mid c post). Qed.

(** (d) REFUTED for Loop: after a stall of 250 ms the deliveries due at 100 and 200 are skipped and the
    phase moves: 350, 450, 550 instead of 100, 200, ..., 500 *)
Theorem C20_loop_refuted_stall :
  map f_time (fired (run w_stall_loop init)) = [350; 450; 550] /\ now (run w_stall_loop init) = 550.
Proof. exact wit_stall_loop. Qed.

(** an interval <= 0 is accepted (nil) and makes the quartz loop spin; a later call is not modelled any more *)
Theorem C20_loop_nonpositive_spins :
  spin (run [OLoop w_a w_a w_r 0 1; OTick 0] init) = true /\
  spin (run [OLoop w_a w_a w_r (-1000) 1; OTick 0] init) = true /\
  run_res [OLoop w_a w_a w_r (-1000) 1; OTick 0; OOnce w_b w_b w_r 300 2] init = [ROk; RUnit; RSpin].
Proof. exact wit_loop_nonpositive. Qed.

Theorem C20_no_spin ops : loops_positive ops -> spin (run ops init) = false.
Proof. exact (no_spin ops). Qed.

(** ============================== Cron, Cancel ============================== *)

(** an invalid expression: the parse error, and NOTHING changes (neither jobKeys nor the queue) *)
Theorem C20_cron_invalid s a recv ref p :
  spin s = false -> is_dead s a = false -> step (OCron a recv ref false p) s = (s, RParseErr).
Proof. exact (thm_cron_invalid s a recv ref p). Qed.

(** Cancel of a reference jobKeys does not know: not-found, nothing changes *)
Theorem C20_cancel_unknown s a ref :
  spin s = false -> is_dead s a = false -> jk_of s a !! ref = None -> step (OCancel a ref) s = (s, RNotFound).
Proof. exact (thm_cancel_unknown s a ref). Qed.

(** but a Once that has fired stays in jobKeys: Exists says true, the first Cancel returns quartz's
    "job not found" (not vivid's not-found), only the second one not-found *)
Theorem C20_fired_once_stays_known :
  run_res w_stale init = [ROk; RUnit; RBool true; RQuartzNotFound; RNotFound].
Proof. exact wit_stale. Qed.

(** ============================== payload ============================== *)

(** whatever a job tells carries the scheduled message to the scheduled receiver (SchedulerMessage wrapping
    and onScheduler unwrapping are the identity on the payload); a dead letter only if the receiver is dead *)
Theorem C20_payload pre o a recv ref p post f :
  is_sched o a recv ref p -> spin (run pre init) = false -> a ∉ dead (run pre init) ->
  In f (fires_of (nid (run pre init)) (run (pre ++ o :: post) init)) ->
  f_owner f = a /\ f_recv f = recv /\ f_ref f = ref /\ f_payload f = p /\
  (f_dead f = true -> recv ∈ dead (run (pre ++ o :: post) init)).
Proof. exact (thm_payload pre o a recv ref p post f). Qed.

(** ============================== death and restart ============================== *)

(** (c) every queued job is registered: its key is path:reference of its owner, the owner's jobKeys maps the
    reference to that key, and the owner is alive. Hence Clear reaches every job of the actor: a job cannot
    survive its owner through a lost jobKeys entry *)
Theorem C20_jobs_are_registered ops k j :
  tbl (run ops init) !! k = Some j ->
  k = job_key (j_owner j) (j_ref j) /\
  jk_of (run ops init) (j_owner j) !! j_ref j = Some k /\
  j_owner j ∉ dead (run ops init).
Proof. exact (thm_registered ops k j). Qed.

Theorem C20_death ops (a : bytes) :
  a ∈ dead (run ops init) ->
  (forall k j, tbl (run ops init) !! k = Some j -> j_owner j <> a) /\ jk_of (run ops init) a = ∅.
Proof. exact (thm_death ops a). Qed.

(** everything a job of the actor ever tells was told before the actor died *)
Theorem C20_death_no_fire pre (a : bytes) post f :
  spin (run pre init) = false ->
  In f (fired (run (pre ++ ODied a :: post) init)) -> f_owner f = a -> In f (fired (run pre init)).
Proof. exact (thm_death_no_fire pre a post f). Qed.

Theorem C20_restart pre (a : bytes) :
  spin (run pre init) = false -> a ∉ dead (run pre init) ->
  (forall k j, tbl (run (pre ++ [ORestarted a]) init) !! k = Some j -> j_owner j <> a) /\
  jk_of (run (pre ++ [ORestarted a]) init) a = ∅.
Proof. exact (thm_restart pre a). Qed.

(** ============================== non-vacuity ============================== *)

(** hypotheses of C20_once_delivered_partial / C20_payload: /b schedules a Once while /a has a Loop and a
    colliding-looking but different key is cancelled by /a; ticks, another actor's Clear and death in between *)
Example C20_once_delivered_example :
  let pre := [OLoop w_a w_b w_r 70 7; OTick 100] in
  let post1 := [OTick 30; OOnce w_a w_a w_c 10 9; OCancel w_a w_c; OClear w_a; OTick 30; ODied w_a] in
  spin (run pre init) = false /\ w_b ∉ dead (run pre init) /\
  tbl (run pre init) !! job_key w_b w_r = None /\ 0 <= 100 /\
  no_stall post1 /\ Forall (fun o => ~ touches (job_key w_b w_r) o) post1 /\
  100 <= elapsed post1 + Z.max 50 0 /\
  spin (run (pre ++ OOnce w_b w_b w_r 100 5 :: post1 ++ OTick 50 :: [OTick 500]) init) = false /\
  map (fun f => (f_payload f, f_time f, f_dead f))
      (fires_of 1 (run (pre ++ OOnce w_b w_b w_r 100 5 :: post1 ++ OTick 50 :: [OTick 500]) init)) = [(5%N, 200, false)].
Proof.
  cbv zeta. split; [reflexivity|]. split; [vm_compute; set_solver|]. split; [reflexivity|]. split; [discriminate|].
  split; [repeat constructor|]. split.
  - repeat constructor; cbn; try tauto; try discriminate; intros (r & H); discriminate.
  - split; [vm_compute; discriminate|]. split; reflexivity.
Qed.

Example C20_loop_example :
  let post := [OTick 250; OOnce w_b w_b w_r 10 2; OTick 100; OCancel w_b w_r; OTick 10] in
  no_stall post /\ Forall (fun o => ~ touches (job_key w_a w_r) o) post /\
  map f_time (fires_of 0 (run (OLoop w_a w_a w_r 100 1 :: post) init)) = [100; 200; 300] /\
  grid 0 100 (Z.to_nat ((now (run (OLoop w_a w_a w_r 100 1 :: post) init) - 0) / 100)) = [100; 200; 300].
Proof.
  cbv zeta. split; [repeat constructor|]. split; [|split; reflexivity].
  repeat constructor; cbn; try tauto; discriminate.
Qed.

(** hypotheses of C20_once_cancelled / C20_cancel_stops: 90 ms < 100 ms, then the owner restarts *)
Example C20_cancelled_example :
  removes w_a w_r (ORestarted w_a) /\ elapsed [OTick 40; OStall 50] < 100 /\
  fired (run (OOnce w_a w_a w_r 100 1 :: [OTick 40; OStall 50] ++ ORestarted w_a :: [OTick 1000]) init) = [] /\
  is_sched (OLoop w_a w_a w_r 30 1) w_a w_a w_r 1 /\
  map f_time (fired (run (OLoop w_a w_a w_r 30 1 :: [OTick 100] ++ OCancel w_a w_r :: [OTick 1000]) init)) = [30; 60; 90].
Proof.
  split; [right; right; right; reflexivity|]. split; [reflexivity|]. split; [reflexivity|].
  split; [right; left; exists 30; reflexivity|reflexivity].
Qed.

(** hypotheses of C20_death / C20_death_no_fire / C20_restart: an actor with a Loop and a Once dies *)
Example C20_death_example :
  let pre := [OLoop w_a w_a w_r 50 1; OOnce w_a w_b w_c 500 2; OTick 120] in
  spin (run pre init) = false /\ w_a ∈ dead (run (pre ++ [ODied w_a]) init) /\
  map f_time (fired (run (pre ++ ODied w_a :: [OTick 5000]) init)) = [50; 100].
Proof. cbv zeta. split; [reflexivity|]. split; [vm_compute; set_solver|reflexivity]. Qed.

Example C20_loops_positive_example : loops_positive [OLoop w_a w_a w_r 1 1; OTick 5; OOnce w_a w_a w_c (-5) 2].
Proof. repeat constructor. Qed.

Print Assumptions C20_once_at_most_once.
Print Assumptions C20_once_not_early.
Print Assumptions C20_once_cancelled.
Print Assumptions C20_once_delivered_partial.
Print Assumptions C20_once_refuted_reuse.
Print Assumptions C20_once_refuted_collision.
Print Assumptions C20_loop_refuted_collision_death.
Print Assumptions C20_once_refuted_stall.
Print Assumptions C20_once_negative_delay_never_fires.
Print Assumptions C20_loop_grid.
Print Assumptions C20_loop_partial.
Print Assumptions C20_cancel_stops.
Print Assumptions C20_loop_refuted_stall.
Print Assumptions C20_loop_nonpositive_spins.
Print Assumptions C20_no_spin.
Print Assumptions C20_cron_invalid.
Print Assumptions C20_cancel_unknown.
Print Assumptions C20_fired_once_stays_known.
Print Assumptions C20_payload.
Print Assumptions C20_jobs_are_registered.
Print Assumptions C20_death.
Print Assumptions C20_death_no_fire.
Print Assumptions C20_restart.
