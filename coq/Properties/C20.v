(** C20 - scheduled messages fire as specified and die with their actor.
    Statements only; every proof is [exact <lemma>] (lemmas in Timer/SchedProofs.v, witnesses in
    Timer/SchedWitness.v).  The model (Timer/SchedModel.v) is the per-actor Scheduler of
    internal/actor/scheduler.go on the go-quartz queue, with a virtual clock in milliseconds:
      [run ops init]      the state after the op sequence [ops] (Once / Loop / Cron / Cancel / Clear / Exists
                          by any actors, termination and restart of any actor, clock steps - in any order)
      [step o s]          (state after op o, its return value); [ROk] = the call returned nil
      [nid s]             the number of successful scheduling calls so far: the call made in state s gets this number
      [fires_of x s]      the Tells done so far by the job of scheduling call x, oldest first; a [firing] has
                          the instant [f_time], the payload, the receiver and [f_dead] (receiver already
                          terminated: the Tell is a dead letter)
      [OTick dt]          dt ms pass and the quartz loop is responsive; [OStall dt]: dt ms pass without it
      [removes a ref o]   o is Cancel(ref) / Clear / termination / restart of actor a. *)
From Coq Require Import List NArith ZArith.
From stdpp Require Import gmap.
From Vivid Require Import Timer.SchedModel Timer.SchedProofs Timer.SchedWitness.
Local Open Scope Z_scope.

(** ============================== Once ============================== *)

(** never twice and never before the delay - for EVERY op sequence before and after the call (many jobs per
    actor, the same reference on other actors, stalls, cancellations included) *)
Theorem C20_once_at_most_once pre a recv ref d p post :
  snd (step (OOnce a recv ref d p) (run pre init)) = ROk ->
  (length (fires_of (nid (run pre init)) (run (pre ++ OOnce a recv ref d p :: post) init)) <= 1)%nat.
Proof. exact (fun H => proj1 (thm_once_safety pre a recv ref d p post H)). Qed.

Theorem C20_once_not_early pre a recv ref d p post f :
  snd (step (OOnce a recv ref d p) (run pre init)) = ROk ->
  In f (fires_of (nid (run pre init)) (run (pre ++ OOnce a recv ref d p :: post) init)) ->
  now (run pre init) + d <= f_time f.
Proof. exact (fun H => proj2 (thm_once_safety pre a recv ref d p post H) f). Qed.

(** cancelled / cleared by its owner, or the owner terminated / restarted, before the firing instant:
    never delivered and no dead letter - for every op sequence *)
Theorem C20_once_cancelled pre a recv ref d p mid c post :
  snd (step (OOnce a recv ref d p) (run pre init)) = ROk -> removes a ref c -> elapsed mid < d ->
  fires_of (nid (run pre init)) (run (pre ++ OOnce a recv ref d p :: mid ++ c :: post) init) = [].
Proof. exact (thm_once_cancelled pre a recv ref d p mid c post). Qed.

(** a Once call that returned nil and whose owner does not Cancel(ref) / Clear / terminate / restart before the
    instant is told exactly once, exactly at t0 + d, with the scheduled payload to the scheduled receiver - for
    every op sequence [pre] before the call, every [post1] up to the instant (whatever any actor does, the
    same reference on other actors included) and every [post2] after it.
    The one remaining exclusion is a STALL of the quartz loop before the instant ([no_stall post1]): see
    C20_once_refuted_stall. *)
Theorem C20_once pre a recv ref d p post1 dt post2 :
  snd (step (OOnce a recv ref d p) (run pre init)) = ROk ->
  no_stall post1 -> Forall (fun o => ~ removes a ref o) post1 ->
  d <= elapsed post1 + Z.max dt 0 ->
  exists f,
    fires_of (nid (run pre init)) (run (pre ++ OOnce a recv ref d p :: post1 ++ OTick dt :: post2) init) = [f] /\
    f_time f = now (run pre init) + d /\ f_payload f = p /\ f_recv f = recv /\ f_owner f = a /\ f_ref f = ref /\
    (recv ∉ dead (run (pre ++ OOnce a recv ref d p :: post1 ++ OTick dt :: post2) init) -> f_dead f = false).
Proof. exact (thm_once_delivered pre a recv ref d p post1 dt post2). Qed.

(** REFUTED without [no_stall] (known finding, third-party rule): quartz's misfire rule. The loop does not run
    from 0 to 700 ms (process suspended, CPU starvation): the Once due at 500 is "outdated" by more than
    OutdatedThreshold = 100 ms when the loop gets to it, its RunOnceTrigger has expired, the job leaves the
    queue without ever firing - and Exists still says true *)
Theorem C20_once_refuted_stall :
  run_res w_stall init = [ROk; RUnit; RUnit; RBool true] /\ fired (run w_stall init) = [] /\
  map_to_list (tbl (run w_stall init)) = [].
Proof. exact wit_stall. Qed.

(** a negative delay is rejected: vivid's illegal-argument error, nothing changes *)
Theorem C20_once_negative_delay_rejected s a recv ref d p :
  is_dead s a = false -> d < 0 -> step (OOnce a recv ref d p) s = (s, RIllegalArg).
Proof. exact (thm_once_negative_rejected s a recv ref d p). Qed.

(** ============================== Loop ============================== *)

(** one delivery per interval, the first at t0 + i, until removed: for every op sequence without a stall the
    delivery instants are an initial segment of t0+i, t0+2i, ... and none lies in the future *)
Theorem C20_loop_grid pre a recv ref i p post :
  snd (step (OLoop a recv ref i p) (run pre init)) = ROk -> no_stall post ->
  exists m : nat,
    map f_time (fires_of (nid (run pre init)) (run (pre ++ OLoop a recv ref i p :: post) init)) = grid (now (run pre init)) i m /\
    now (run pre init) + Z.of_nat m * i <= now (run (pre ++ OLoop a recv ref i p :: post) init).
Proof. exact (thm_loop_grid pre a recv ref i p post). Qed.

(** ... and the segment is complete while the owner does not remove the job: exactly the instants t0 + k*i <= now *)
Theorem C20_loop pre a recv ref i p post :
  snd (step (OLoop a recv ref i p) (run pre init)) = ROk ->
  no_stall post -> Forall (fun o => ~ removes a ref o) post ->
  map f_time (fires_of (nid (run pre init)) (run (pre ++ OLoop a recv ref i p :: post) init)) =
  grid (now (run pre init)) i
       (Z.to_nat ((now (run (pre ++ OLoop a recv ref i p :: post) init) - now (run pre init)) / i)).
Proof. exact (thm_loop_exact pre a recv ref i p post). Qed.

(** after Cancel(ref) / Clear / termination / restart by the owner nothing more is told by that job, whatever
    happens later (Once, Loop and Cron alike; no delivery and no dead letter) - for every op sequence *)
Theorem C20_cancel_stops pre o a recv ref p mid c post :
  is_sched o a recv ref p -> snd (step o (run pre init)) = ROk -> removes a ref c ->
  fires_of (nid (run pre init)) (run (pre ++ o :: mid ++ c :: post) init) =
  fires_of (nid (run pre init)) (run (pre ++ o :: mid) init).
Proof. exact (thm_cancel_stops pre o a recv ref p mid c post). Qed.

(** REFUTED without [no_stall] (same known finding): after a stall of 250 ms the deliveries due at 100 and 200
    are skipped and the phase moves: 350, 450, 550 instead of 100, 200, ..., 500 *)
Theorem C20_loop_refuted_stall :
  map f_time (fired (run w_stall_loop init)) = [350; 450; 550] /\ now (run w_stall_loop init) = 550.
Proof. exact wit_stall_loop. Qed.

(** an interval <= 0 is rejected: illegal argument, nothing changes; hence every queued SimpleTrigger has a
    positive interval (the quartz loop cannot spin on one) *)
Theorem C20_loop_nonpositive_rejected s a recv ref i p :
  is_dead s a = false -> i <= 0 -> step (OLoop a recv ref i p) s = (s, RIllegalArg).
Proof. exact (thm_loop_nonpositive_rejected s a recv ref i p). Qed.

Theorem C20_queued_intervals_positive ops k j i :
  tbl (run ops init) !! k = Some j -> j_trig j = TLoop i -> 0 < i.
Proof. exact (thm_loops_positive ops k j i). Qed.

(** ============================== references and keys ============================== *)

(** job keys of different (actor, reference) pairs never coincide *)
Theorem C20_keys_injective a1 r1 a2 r2 : job_key a1 r1 = job_key a2 r2 -> a1 = a2 /\ r1 = r2.
Proof. exact (job_key_inj a1 r1 a2 r2). Qed.

(** a scheduling call on a reference that is still queued does not return nil and changes nothing; any
    scheduling call that does not return nil changes nothing *)
Theorem C20_live_reference_rejected o a recv ref p s j :
  is_sched o a recv ref p -> tbl s !! job_key a ref = Some j ->
  fst (step o s) = s /\ snd (step o s) <> ROk.
Proof. exact (thm_reuse_rejected o a recv ref p s j). Qed.

Theorem C20_failed_call_changes_nothing o a recv ref p s :
  is_sched o a recv ref p -> snd (step o s) <> ROk -> fst (step o s) = s.
Proof. exact (thm_failed_call o a recv ref p s). Qed.

(** ============================== Cron, Cancel ============================== *)

(** an invalid expression: the parse error, and NOTHING changes (neither jobKeys nor the queue) *)
Theorem C20_cron_invalid s a recv ref p :
  is_dead s a = false -> step (OCron a recv ref false p) s = (s, RParseErr).
Proof. exact (thm_cron_invalid s a recv ref p). Qed.

(** Cancel of a reference jobKeys does not know: not-found, nothing changes *)
Theorem C20_cancel_unknown s a ref :
  is_dead s a = false -> jk_of s a !! ref = None -> step (OCancel a ref) s = (s, RNotFound).
Proof. exact (thm_cancel_unknown s a ref). Qed.

(** but a Once that has fired stays in jobKeys (observation, code as it is): Exists says true, the first
    Cancel returns quartz's "job not found" (not vivid's not-found), only the second one not-found *)
Theorem C20_fired_once_stays_known :
  run_res w_stale init = [ROk; RUnit; RBool true; RQuartzNotFound; RNotFound].
Proof. exact wit_stale. Qed.

(** ============================== payload ============================== *)

(** whatever a job tells carries the scheduled message to the scheduled receiver (SchedulerMessage wrapping
    and onScheduler unwrapping are the identity on the payload); a dead letter only if the receiver is dead *)
Theorem C20_payload pre o a recv ref p post f :
  is_sched o a recv ref p -> snd (step o (run pre init)) = ROk ->
  In f (fires_of (nid (run pre init)) (run (pre ++ o :: post) init)) ->
  f_owner f = a /\ f_recv f = recv /\ f_ref f = ref /\ f_payload f = p /\
  (f_dead f = true -> recv ∈ dead (run (pre ++ o :: post) init)).
Proof. exact (thm_payload pre o a recv ref p post f). Qed.

(** ============================== death and restart ============================== *)

(** every queued job is registered: its key is (path, reference) of its owner, the owner's jobKeys maps the
    reference to that key, and the owner is alive. Hence Clear reaches every job of the actor: a job cannot
    survive its owner through a lost jobKeys entry *)
Theorem C20_jobs_are_registered ops k j :
  tbl (run ops init) !! k = Some j ->
  k = job_key (j_owner j) (j_ref j) /\
  jk_of (run ops init) (j_owner j) !! j_ref j = Some k /\
  j_owner j ∉ dead (run ops init).
Proof. exact (thm_registered ops k j). Qed.

Theorem C20_death ops (a : bytes) :
  a ∈ dead (run ops init) ->
  (forall k j, tbl (run ops init) !! k = Some j -> j_owner j <> a) /\ jk_of (run ops init) a = ∅.
Proof. exact (thm_death ops a). Qed.

(** everything a job of the actor ever tells was told before the actor died *)
Theorem C20_death_no_fire pre (a : bytes) post f :
  In f (fired (run (pre ++ ODied a :: post) init)) -> f_owner f = a -> In f (fired (run pre init)).
Proof. exact (thm_death_no_fire pre a post f). Qed.

Theorem C20_restart pre (a : bytes) :
  a ∉ dead (run pre init) ->
  (forall k j, tbl (run (pre ++ [ORestarted a]) init) !! k = Some j -> j_owner j <> a) /\
  jk_of (run (pre ++ [ORestarted a]) init) a = ∅.
Proof. exact (thm_restart pre a). Qed.

(** ============================== non-vacuity ============================== *)

(** hypotheses of C20_once / C20_payload: /b schedules a Once while /a has a Loop to /b; in between: ticks, /a:b
    uses the formerly colliding reference, /a cancels, clears and dies, a rejected re-use of /b's own live reference *)
Example C20_once_example :
  let pre := [OLoop w_a w_b w_r 70 7; OTick 100] in
  let post1 := [OTick 30; OOnce w_ab w_ab w_c 10 9; OOnce w_a w_a w_bc 10 8; OCancel w_a w_bc; OClear w_a; OOnce w_b w_b w_r 5 6; OTick 30; ODied w_a] in
  snd (step (OOnce w_b w_b w_r 100 5) (run pre init)) = ROk /\
  no_stall post1 /\ Forall (fun o => ~ removes w_b w_r o) post1 /\
  100 <= elapsed post1 + Z.max 50 0 /\
  map (fun f => (f_payload f, f_time f, f_dead f))
      (fires_of 1 (run (pre ++ OOnce w_b w_b w_r 100 5 :: post1 ++ OTick 50 :: [OTick 500]) init)) = [(5%N, 200, false)].
Proof.
  cbv zeta. split; [reflexivity|]. split; [repeat constructor|]. split.
  - repeat constructor; intros [H|[H|[H|H]]]; discriminate.
  - split; [vm_compute; discriminate|reflexivity].
Qed.

Example C20_loop_example :
  let post := [OTick 250; OOnce w_b w_b w_r 10 2; OTick 100; OCancel w_b w_r; OLoop w_a w_a w_r 30 3; OTick 10] in
  snd (step (OLoop w_a w_a w_r 100 1) init) = ROk /\
  no_stall post /\ Forall (fun o => ~ removes w_a w_r o) post /\
  map f_time (fires_of 0 (run (OLoop w_a w_a w_r 100 1 :: post) init)) = [100; 200; 300] /\
  grid 0 100 (Z.to_nat ((now (run (OLoop w_a w_a w_r 100 1 :: post) init) - 0) / 100)) = [100; 200; 300].
Proof.
  cbv zeta. split; [reflexivity|]. split; [repeat constructor|]. split; [|split; reflexivity].
  repeat constructor; intros [H|[H|[H|H]]]; discriminate.
Qed.

(** hypotheses of C20_once_cancelled / C20_cancel_stops: 90 ms < 100 ms, then the owner restarts *)
Example C20_cancelled_example :
  snd (step (OOnce w_a w_a w_r 100 1) init) = ROk /\
  removes w_a w_r (ORestarted w_a) /\ elapsed [OTick 40; OStall 50] < 100 /\
  fired (run (OOnce w_a w_a w_r 100 1 :: [OTick 40; OStall 50] ++ ORestarted w_a :: [OTick 1000]) init) = [] /\
  is_sched (OLoop w_a w_a w_r 30 1) w_a w_a w_r 1 /\
  map f_time (fired (run (OLoop w_a w_a w_r 30 1 :: [OTick 100] ++ OCancel w_a w_r :: [OTick 1000]) init)) = [30; 60; 90].
Proof.
  split; [reflexivity|]. split; [right; right; right; reflexivity|]. split; [reflexivity|]. split; [reflexivity|].
  split; [right; left; exists 30; reflexivity|reflexivity].
Qed.

(** the former weaknesses on the code as it is now: the keys "/a"+"b:c" and "/a:b"+"c" are different - /a:b's
    Cancel leaves /a's job alone; a live reference cannot be scheduled again (quartz's error), after the job
    is gone it can; negative delay, non-positive interval, empty reference are rejected *)
Example C20_fixed_examples :
  (run_res w_collision init = [ROk; ROk; ROk; RUnit] /\
   map (fun f => (f_payload f, f_time f)) (fired (run w_collision init)) = [(1%N, 100)]) /\
  (run_res w_reuse init = [ROk; RExists; RExists; RUnit; ROk; RUnit] /\
   map (fun f => (f_payload f, f_time f)) (fired (run w_reuse init)) = [(1%N, 300); (4%N, 1050)]) /\
  run_res [OOnce w_a w_a w_r (-1) 1; OLoop w_a w_a w_r 0 2; OLoop w_a w_a w_r (-1000) 3; OOnce w_a w_a [] 5 4; OOnce w_a w_a w_r 0 5;
           OCron w_a w_a w_c false 6; OTick 10; ODump [w_a]] init
  = [RIllegalArg; RIllegalArg; RIllegalArg; REmptyRef; ROk; RParseErr; RUnit; RDump [(w_a, [w_r])] []].
Proof. exact (conj wit_no_collision (conj wit_reuse wit_rejected)). Qed.

(** hypotheses of C20_death / C20_death_no_fire / C20_restart: an actor with a Loop and a Once dies *)
Example C20_death_example :
  let pre := [OLoop w_a w_a w_r 50 1; OOnce w_a w_b w_c 500 2; OTick 120] in
  w_a ∈ dead (run (pre ++ [ODied w_a]) init) /\ w_a ∉ dead (run pre init) /\
  map f_time (fired (run (pre ++ ODied w_a :: [OTick 5000]) init)) = [50; 100].
Proof. cbv zeta. split; [vm_compute; set_solver|]. split; [vm_compute; set_solver|reflexivity]. Qed.

Print Assumptions C20_once_at_most_once.
Print Assumptions C20_once_not_early.
Print Assumptions C20_once_cancelled.
Print Assumptions C20_once.
Print Assumptions C20_once_refuted_stall.
Print Assumptions C20_once_negative_delay_rejected.
Print Assumptions C20_loop_grid.
Print Assumptions C20_loop.
Print Assumptions C20_cancel_stops.
Print Assumptions C20_loop_refuted_stall.
Print Assumptions C20_loop_nonpositive_rejected.
Print Assumptions C20_queued_intervals_positive.
Print Assumptions C20_keys_injective.
Print Assumptions C20_live_reference_rejected.
Print Assumptions C20_failed_call_changes_nothing.
Print Assumptions C20_cron_invalid.
Print Assumptions C20_cancel_unknown.
Print Assumptions C20_fired_once_stays_known.
Print Assumptions C20_payload.
Print Assumptions C20_jobs_are_registered.
Print Assumptions C20_death.
Print Assumptions C20_death_no_fire.
Print Assumptions C20_restart.
