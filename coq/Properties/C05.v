(** C05 - lifecycle order per incarnation: OnLaunch first, own OnKilled last; a supervised restart starts a
    new incarnation with an OnLaunch handled by the restarted actor itself; a prelaunch failure creates nothing.

    Model: Actor/Core.v (ActorCore: Context.HandleEnvelop and its handlers, ActorOf, kill / killed chain,
    restart, zombie), tied to the real runtime by lock-step replay (bin/check C05).  User code is data
    (action scripts, decisions, hook outcomes), so "for all s t held sp ..." / "reachable s" quantify over all
    user code, all supervision decisions, all hook outcomes and all schedules.
    Derived notions: Actor/SpecLife.v.  Statements only; proofs in Actor/ProofsLife*.v. *)
From Coq Require Import List NArith ZArith Bool.
From Vivid Require Import Base.Tm Actor.Core Actor.CoreRun Actor.SpecLife Actor.ProofsLife Actor.ProofsLifeInv Actor.ProofsLifeEx.
Import ListNotations.
Local Open Scope N_scope.

(** ============================ (a) ActorOf ============================ *)

(** prelaunch failure: ActorOf returns an error (result code 2 in the caller's log); no context is created,
    nothing is registered, nothing is sent (the instruction list is empty): the actor never receives anything *)
Theorem C05_prelaunch_fail s t held sp x :
  get s (self_of t) = Some x -> a_state x <> Killed -> sp_prelaunch sp = false ->
  exec1 s t held (IAct (ASpawn sp)) = (add_obs s (OSpawn (self_of t) (sp_name sp) 2), []).
Proof. exact (exec1_spawn_prelaunch_fail s t held sp x). Qed.

(** ([add_obs] only appends to the caller-visible log) *)
Theorem C05_prelaunch_fail_creates_nothing s o :
  actors (add_obs s o) = actors s /\ reg (add_obs s o) = reg s /\ gens (add_obs s o) = gens s /\
  subs (add_obs s o) = subs s /\ exts (add_obs s o) = exts s.
Proof. exact (conj eq_refl (conj eq_refl (conj eq_refl (conj eq_refl eq_refl)))). Qed.

(** a successful ActorOf: exactly one new context (Running, behaviour stack [0], empty mailbox), registered under
    parent path ++ [name] with the next generation of that path, entered in the parent's children map; the
    caller's next instructions are: tell the child OnLaunch (system message), finish that Enqueue, publish
    ActorSpawnedEvent, (kill the child if the parent is already stopping,) return the reference *)
Theorem C05_spawn_ok_shape s t held sp x s' front :
  get s (self_of t) = Some x -> a_state x <> Killed -> sp_prelaunch sp = true ->
  alookup (reg s) (a_path x ++ [sp_name sp]) = None ->
  exec1 s t held (IAct (ASpawn sp)) = (s', front) ->
  let self := self_of t in
  let p := a_path x ++ [sp_name sp] in
  let c := length (actors s) in
  let g := match alookup (gens s) p with Some g => g | None => 0 end in
  length (actors s') = S c /\
  get s' c = Some (new_actor p g (Some self) sp) /\
  (forall b, b <> self -> b <> c -> get s' b = get s b) /\
  get s' self = Some (set_children x (aset (a_children x) p c)) /\
  reg s' = reg s ++ [(p, c)] /\ alookup (reg s') p = Some c /\
  gens s' = aset (gens s) p (g + 1) /\
  olog s' = olog s /\ subs s' = subs s /\ err s' = err s /\
  front = [IEnq true (RObj c) (RObj self) MLaunch; IEnqDone; IPub evSpawned (p ++ [g])]
          ++ (if match a_state x with Killing => true | _ => false end
              then [IEnq true (RObj c) (RObj self) (MKill (RObj self) false); IEnqDone] else [])
          ++ [IObs (OSpawn self (sp_name sp) 0)].
Proof. exact (exec1_spawn_ok s t held sp x s' front). Qed.

(** ============================ (c) restart ============================ *)

(** the restart completes (OnRestarted and OnPrelaunch succeed): the actor is Running again under the same
    context (same path, generation, parent, children, watchers, stash, mailbox), the behaviour stack is reset to
    [0] (the actor's OnReceive), the instance counter is incremented iff a provider is configured, the current
    envelope is an OnLaunch from the parent and the handler mode is 0; the remaining instructions are:
    mailbox.Resume, two publications, the behaviour call for OnLaunch BY THIS ACTOR, one publication.
    No instruction of the list sends an OnLaunch envelope to anybody ([IPub] only sends [MEvent], see
    [C05_publish_sends_events_only]) *)
Theorem C05_restart_starts_with_launch s t held x :
  get s (self_of t) = Some x -> hooks_ok x = true ->
  exists x',
    exec1 s t held IRestartFinish =
      (set_actor s (self_of t) x',
       [IResume1; IPub evRestarted (actor_key x); IPub evResumed (actor_key x);
        IBeh MLaunch (sp_launch (a_spec x)) RecFail; IPub evLaunched (actor_key x)]) /\
    a_state x' = Running /\ a_restarting x' = None /\ a_zombie x' = a_zombie x /\
    a_modes x' = [0] /\ a_inst x' = (if sp_provider (a_spec x) then a_inst x + 1 else a_inst x) /\
    a_hooks x' = tl (a_hooks x) /\ a_cons x' = CBusy 0 /\ a_cur x' = Some (launch_env x) /\
    a_path x' = a_path x /\ a_gen x' = a_gen x /\ a_parent x' = a_parent x /\ a_spec x' = a_spec x /\
    a_children x' = a_children x /\ a_watchers x' = a_watchers x /\ a_stash x' = a_stash x /\
    a_decisions x' = a_decisions x /\ a_sq x' = a_sq x /\ a_uq x' = a_uq x /\ a_paused x' = a_paused x /\ a_pend x' = a_pend x.
Proof. exact (exec1_restart_finish_ok s t held x). Qed.

(** the behaviour call of a non-zombie, non-root actor is observed as [OSeen self instance mode message], the mode
    being the one HandleEnvelop peeked ([CBusy mode]): after [C05_restart_starts_with_launch] that is
    [OSeen a (new instance) 0 MLaunch] *)
Theorem C05_behaviour_call_logged s t held x m acts r pa :
  get s (self_of t) = Some x -> a_zombie x = false -> a_parent x = Some pa ->
  fst (exec1 s t held (IBeh m acts r)) =
    add_obs s (OSeen (self_of t) (a_inst x) (match a_cons x with CBusy md => md | _ => mode_top x end) m).
Proof. exact (exec1_IBeh_logs s t held x m acts r pa). Qed.

Theorem C05_publish_sends_events_only s t held x ty pl :
  get s (self_of t) = Some x ->
  exec1 s t held (IPub ty pl) =
    (s, match subscribers s ty with
        | [] => []
        | l => [IEnqAny false (map (fun p => RObj (snd p)) l) root_ref (MEvent ty pl)]
        end).
Proof. exact (exec1_IPub s t held x ty pl). Qed.

(** OnRestarted or OnPrelaunch fails: the actor becomes a zombie (state unchanged = Killed, see C06), nothing
    but mailbox.Resume follows: no OnLaunch, no notification *)
Theorem C05_restart_failed_is_zombie s t held x :
  get s (self_of t) = Some x -> hooks_ok x = false ->
  exists x',
    exec1 s t held IRestartFinish = (set_actor s (self_of t) x', [IResume1]) /\
    a_zombie x' = true /\ a_state x' = a_state x /\ a_restarting x' = a_restarting x /\
    a_modes x' = [0] /\ a_hooks x' = tl (a_hooks x) /\ a_cons x' = a_cons x /\ a_children x' = a_children x /\
    a_path x' = a_path x /\ a_pend x' = a_pend x.
Proof. exact (exec1_restart_finish_fail s t held x). Qed.

(** a zombie's behaviour is never called *)
Theorem C05_zombie_sees_nothing s t held x m acts r :
  get s (self_of t) = Some x -> a_zombie x = true -> exec1 s t held (IBeh m acts r) = (s, []).
Proof. exact (exec1_IBeh_zombie s t held x m acts r). Qed.

(** ============================ (d) OnKill before the own OnKilled ============================ *)

(** doKill: (the kill is passed to the children,) the behaviour sees the current message (the OnKill), THEN
    onKilled(self) runs ... *)
Theorem C05_kill_before_killed s t held x poison :
  get s (self_of t) = Some x ->
  exec1 s t held (IDoKill poison) =
    (s, (match a_children x with
         | [] => []
         | l => [IEnqAny (negb poison) (map (fun p => RObj (snd p)) l) (RObj (self_of t)) (MKill (RObj (self_of t)) poison)]
         end)
        ++ [IBeh (match a_cur x with Some e => e_msg e | None => MKill RNone poison end) (sp_kill (a_spec x)) RecLog;
            IOnKilled (RObj (self_of t))]).
Proof. exact (exec1_IDoKill s t held x poison). Qed.

(** ... which only checks whether the actor can be marked Killed ... *)
Theorem C05_onkilled_self_checks s t held x :
  get s (self_of t) = Some x -> a_zombie x = false ->
  exec1 s t held (IOnKilled (RObj (self_of t))) = (s, [ICheckMark]).
Proof. exact (exec1_IOnKilled_self s t held x). Qed.

(** ... and the behaviour call for the own OnKilled is issued by that check only, when the last child is gone
    and the state is Killing; it is followed by the cleanup or by the end of the restart *)
Theorem C05_own_killed_from_mark s t held x :
  get s (self_of t) = Some x -> a_children x = [] -> a_state x = Killing ->
  exists x',
    exec1 s t held ICheckMark =
      (set_actor s (self_of t) x',
       [IBeh (MKilled (RObj (self_of t))) (sp_killed (a_spec x)) RecLog]
       ++ match a_restarting x with None => [ICleanup] | Some _ => [IRestartFinish] end) /\
    a_state x' = Killed /\ a_children x' = [] /\ a_zombie x' = a_zombie x /\ a_restarting x' = a_restarting x /\
    a_cur x' = Some {| e_sys := true; e_sender := match a_cur x with Some e0 => e_sender e0 | None => RNone end;
                       e_msg := MKilled (RObj (self_of t)) |} /\
    a_pend x' = a_pend x /\ a_cons x' = a_cons x /\ a_path x' = a_path x /\ a_parent x' = a_parent x.
Proof. exact (exec1_ICheckMark_marks s t held x). Qed.

(** the OnKilled of another actor is shown to the behaviour with that actor's reference, which is NOT equal to
    the own one: [OSeen a _ _ (MKilled (RObj a))] always is the own OnKilled *)
Theorem C05_other_killed_is_not_own s a x who :
  get s a = Some x -> ref_eq s who (RObj a) = false -> who <> RObj a.
Proof. exact (other_killed_not_own s a x who). Qed.
