(** C05 - lifecycle order per incarnation: OnLaunch first, own OnKilled last; a supervised restart starts a
    new incarnation with an OnLaunch handled by the restarted actor itself; a prelaunch failure creates nothing.

    Model: Actor/Core.v (ActorCore: Context.HandleEnvelop and its handlers, ActorOf, kill / killed chain,
    restart, zombie), tied to the real runtime by lock-step replay (bin/check C05).  User code is data
    (action scripts, decisions, hook outcomes), so "for all s t held sp ..." / "reachable s" quantify over all
    user code, all supervision decisions, all hook outcomes and all schedules.
    Derived notions: Actor/SpecLife.v.  Statements only; proofs in Actor/ProofsLife*.v. *)
From Coq Require Import List NArith ZArith Bool.
From Vivid Require Import Base.Tm Actor.Core Actor.CoreRun Actor.SpecLife Actor.ProofsLife Actor.ProofsLifeInv Actor.ProofsLifeSum
  Actor.ProofsLifePhase Actor.ProofsLifeGen Actor.ProofsLifeTree Actor.ProofsLifeLog Actor.ProofsLifeFirst Actor.ProofsLifeEx.
Import ListNotations.
Local Open Scope N_scope.

(** ============================ (a) ActorOf ============================ *)

(** prelaunch failure: ActorOf returns an error (result code 2 in the caller's log); no context is created,
    nothing is registered, nothing is sent (the instruction list is empty): the actor never receives anything *)
Theorem C05_prelaunch_fail s t held sp x :
  get s (self_of t) = Some x -> a_state x <> Killed -> sp_prelaunch sp = false ->
  exec1 s t held (IAct (ASpawn sp)) = (add_obs s (OSpawn (self_of t) (sp_name sp) 2), []).
Proof. exact (exec1_spawn_prelaunch_fail s t held sp x). Qed.

(** ([add_obs] only appends to the caller-visible log) *)
Theorem C05_prelaunch_fail_creates_nothing s o :
  actors (add_obs s o) = actors s /\ reg (add_obs s o) = reg s /\ gens (add_obs s o) = gens s /\
  subs (add_obs s o) = subs s /\ exts (add_obs s o) = exts s.
Proof. exact (conj eq_refl (conj eq_refl (conj eq_refl (conj eq_refl eq_refl)))). Qed.

(** a successful ActorOf: exactly one new context (Running, behaviour stack [0], empty mailbox), registered under
    parent path ++ [name] with the next generation of that path, entered in the parent's children map; the
    caller's next instructions are: tell the child OnLaunch (system message), finish that Enqueue, publish
    ActorSpawnedEvent, (kill the child if the parent is already stopping,) return the reference *)
Theorem C05_spawn_ok_shape s t held sp x s' front :
  get s (self_of t) = Some x -> a_state x <> Killed -> sp_prelaunch sp = true ->
  alookup (reg s) (a_path x ++ [sp_name sp]) = None ->
  exec1 s t held (IAct (ASpawn sp)) = (s', front) ->
  let self := self_of t in
  let p := a_path x ++ [sp_name sp] in
  let c := length (actors s) in
  let g := match alookup (gens s) p with Some g => g | None => 0 end in
  length (actors s') = S c /\
  get s' c = Some (new_actor p g (Some self) sp) /\
  (forall b, b <> self -> b <> c -> get s' b = get s b) /\
  get s' self = Some (set_children x (aset (a_children x) p c)) /\
  reg s' = reg s ++ [(p, c)] /\ alookup (reg s') p = Some c /\
  gens s' = aset (gens s) p (g + 1) /\
  olog s' = olog s /\ subs s' = subs s /\ err s' = err s /\
  front = [IEnq true (RObj c) (RObj self) MLaunch; IEnqDone; IPub evSpawned (p ++ [g])]
          ++ (if match a_state x with Killing => true | _ => false end
              then [IEnq true (RObj c) (RObj self) (MKill (RObj self) false); IEnqDone] else [])
          ++ [IObs (OSpawn self (sp_name sp) 0)].
Proof. exact (exec1_spawn_ok s t held sp x s' front). Qed.

(** ============================ (c) restart ============================ *)

(** the restart completes (OnRestarted and OnPrelaunch succeed): the actor is Running again under the same
    context (same path, generation, parent, children, watchers, stash, mailbox), the behaviour stack is reset to
    [0] (the actor's OnReceive), the instance counter is incremented iff a provider is configured, the current
    envelope is an OnLaunch from the parent and the handler mode is 0; the remaining instructions are:
    mailbox.Resume, two publications, the behaviour call for OnLaunch BY THIS ACTOR, one publication.
    No instruction of the list sends an OnLaunch envelope to anybody ([IPub] only sends [MEvent], see
    [C05_publish_sends_events_only]) *)
Theorem C05_restart_starts_with_launch s t held x :
  get s (self_of t) = Some x -> hooks_ok x = true ->
  exists x',
    exec1 s t held IRestartFinish =
      (set_actor s (self_of t) x',
       [IResume1; IPub evRestarted (actor_key x); IPub evResumed (actor_key x);
        IBeh MLaunch (sp_launch (a_spec x)) RecFail; IPub evLaunched (actor_key x)]) /\
    a_state x' = Running /\ a_restarting x' = None /\ a_zombie x' = a_zombie x /\
    a_modes x' = [0] /\ a_inst x' = (if sp_provider (a_spec x) then a_inst x + 1 else a_inst x) /\
    a_hooks x' = tl (a_hooks x) /\ a_cons x' = CBusy 0 /\ a_cur x' = Some (launch_env x) /\
    a_path x' = a_path x /\ a_gen x' = a_gen x /\ a_parent x' = a_parent x /\ a_spec x' = a_spec x /\
    a_children x' = a_children x /\ a_watchers x' = a_watchers x /\ a_stash x' = a_stash x /\
    a_decisions x' = a_decisions x /\ a_sq x' = a_sq x /\ a_uq x' = a_uq x /\ a_paused x' = a_paused x /\ a_pend x' = a_pend x.
Proof. exact (exec1_restart_finish_ok s t held x). Qed.

(** the behaviour call of a non-zombie, non-root actor is observed as [OSeen self instance mode message], the mode
    being the one HandleEnvelop peeked ([CBusy mode]): after [C05_restart_starts_with_launch] that is
    [OSeen a (new instance) 0 MLaunch] *)
Theorem C05_behaviour_call_logged s t held x m acts r pa :
  get s (self_of t) = Some x -> a_zombie x = false -> a_parent x = Some pa ->
  fst (exec1 s t held (IBeh m acts r)) =
    add_obs s (OSeen (self_of t) (a_inst x) (match a_cons x with CBusy md => md | _ => mode_top x end) m).
Proof. exact (exec1_IBeh_logs s t held x m acts r pa). Qed.

Theorem C05_publish_sends_events_only s t held x ty pl :
  get s (self_of t) = Some x ->
  exec1 s t held (IPub ty pl) =
    (s, match subscribers s ty with
        | [] => []
        | l => [IEnqAny false (map (fun p => RObj (snd p)) l) root_ref (MEvent ty pl)]
        end).
Proof. exact (exec1_IPub s t held x ty pl). Qed.

(** OnRestarted or OnPrelaunch fails: the actor becomes a zombie (state unchanged = Killed, see C06), nothing
    but mailbox.Resume follows: no OnLaunch, no notification *)
Theorem C05_restart_failed_is_zombie s t held x :
  get s (self_of t) = Some x -> hooks_ok x = false ->
  exists x',
    exec1 s t held IRestartFinish = (set_actor s (self_of t) x', [IResume1]) /\
    a_zombie x' = true /\ a_state x' = a_state x /\ a_restarting x' = a_restarting x /\
    a_modes x' = [0] /\ a_hooks x' = tl (a_hooks x) /\ a_cons x' = a_cons x /\ a_children x' = a_children x /\
    a_path x' = a_path x /\ a_pend x' = a_pend x.
Proof. exact (exec1_restart_finish_fail s t held x). Qed.

(** a zombie's behaviour is never called *)
Theorem C05_zombie_sees_nothing s t held x m acts r :
  get s (self_of t) = Some x -> a_zombie x = true -> exec1 s t held (IBeh m acts r) = (s, []).
Proof. exact (exec1_IBeh_zombie s t held x m acts r). Qed.

(** ============================ (d) OnKill before the own OnKilled ============================ *)

(** doKill: (the kill is passed to the children,) the behaviour sees the current message (the OnKill), THEN
    onKilled(self) runs ... *)
Theorem C05_kill_before_killed s t held x poison :
  get s (self_of t) = Some x ->
  exec1 s t held (IDoKill poison) =
    (s, (match a_children x with
         | [] => []
         | l => [IEnqAny (negb poison) (map (fun p => RObj (snd p)) l) (RObj (self_of t)) (MKill (RObj (self_of t)) poison)]
         end)
        ++ [IBeh (match a_cur x with Some e => e_msg e | None => MKill RNone poison end) (sp_kill (a_spec x)) RecLog;
            IOnKilled (RObj (self_of t))]).
Proof. exact (exec1_IDoKill s t held x poison). Qed.

(** ... which only checks whether the actor can be marked Killed ... *)
Theorem C05_onkilled_self_checks s t held x :
  get s (self_of t) = Some x -> a_zombie x = false ->
  exec1 s t held (IOnKilled (RObj (self_of t))) = (s, [ICheckMark]).
Proof. exact (exec1_IOnKilled_self s t held x). Qed.

(** ... and the behaviour call for the own OnKilled is issued by that check only, when the last child is gone
    and the state is Killing; it is followed by the cleanup or by the end of the restart *)
Theorem C05_own_killed_from_mark s t held x :
  get s (self_of t) = Some x -> a_children x = [] -> a_state x = Killing ->
  exists x',
    exec1 s t held ICheckMark =
      (set_actor s (self_of t) x',
       [IBeh (MKilled (RObj (self_of t))) (sp_killed (a_spec x)) RecLog]
       ++ match a_restarting x with None => [ICleanup] | Some _ => [IRestartFinish] end) /\
    a_state x' = Killed /\ a_children x' = [] /\ a_zombie x' = a_zombie x /\ a_restarting x' = a_restarting x /\
    a_cur x' = Some {| e_sys := true; e_sender := match a_cur x with Some e0 => e_sender e0 | None => RNone end;
                       e_msg := MKilled (RObj (self_of t)) |} /\
    a_pend x' = a_pend x /\ a_cons x' = a_cons x /\ a_path x' = a_path x /\ a_parent x' = a_parent x.
Proof. exact (exec1_ICheckMark_marks s t held x). Qed.

(** the OnKilled of another actor is shown to the behaviour with that actor's reference, which is NOT equal to
    the own one: [OSeen a _ _ (MKilled (RObj a))] always is the own OnKilled *)
Theorem C05_other_killed_is_not_own s a x who :
  get s a = Some x -> ref_eq s who (RObj a) = false -> who <> RObj a.
Proof. exact (other_killed_not_own s a x who). Qed.

(** ============================ (b) nothing after the own OnKilled ============================ *)

(** [seen_of a (olog s)]: the messages actor a's behaviour has seen so far, in order (Actor/SpecLife.v).
    For every actor but the guard (the root has no behaviour), in every reachable state: whatever the behaviour sees
    directly after its own OnKilled is the OnLaunch of a restart ... *)
Theorem C05_nothing_after_own_killed s a pre m post :
  reachable s -> a <> 0%nat -> seen_of a (olog s) = pre ++ MKilled (RObj a) :: m :: post -> m = MLaunch.
Proof. exact (nothing_after_own_killed s a pre m post). Qed.

(** ... and as long as the own OnKilled is the last thing it saw, the actor is Killed and either a zombie (whose
    behaviour is never called, [C05_zombie_sees_nothing]) or has no behaviour call pending at all - or, after a
    successful restart, the next significant pending instruction is the OnLaunch call.  A Killed non-zombie
    context handles nothing any more ([C05_killed_dead_letters]), so without a restart nothing follows at all *)
Theorem C05_after_own_killed_state s a pre :
  reachable s -> a <> 0%nat -> seen_of a (olog s) = pre ++ [MKilled (RObj a)] ->
  exists x, get s a = Some x /\
    ((a_state x = Killed /\ (a_zombie x = true \/ forallb (fun i => negb (is_beh i)) (a_pend x) = true)) \/
     (a_zombie x = false /\ exists ac r, filter sig (a_pend x) = [IBeh MLaunch ac r; IEndHandler])).
Proof. exact (after_own_killed_state s a pre). Qed.

Theorem C05_killed_dead_letters s a x e :
  a_state x = Killed -> a_zombie x = false ->
  dispatch s a x e =
    match a_parent x with
    | None => (add_ghost s (ODropped (e_msg e)), [IEndHandler])
    | Some _ => (s, [IEnqMb 0 {| e_sys := false; e_sender := root_ref; e_msg := MDeadLetter (e_sys e) (e_msg e) |}; IEnqDone; IEndHandler])
    end.
Proof. exact (dispatch_dead s a x e). Qed.

(** ============================ (e) OnLaunch first ============================ *)

(** "the first message every actor sees is OnLaunch" is FALSE of the model and of the code (known finding
    C05-spawn-race-first-message): ActorOf registers the path, then enqueues OnLaunch (two mailbox operations);
    a message sent through a parsed reference in between is handled first.  Witness: caller 0 spawns /1, caller 1
    tells /1 (by path) the user message 7 before caller 0's OnLaunch is enqueued. *)
Theorem C05_first_is_launch_refuted :
  exists scs evs a m rest,
    let s := run_events evs (init_with scs) in
    err s = false /\ seen_of a (olog s) = m :: rest /\ m <> MLaunch.
Proof. exact first_is_launch_refuted. Qed.

(** the strongest true statement we have: from the moment OnLaunch is first in line - it is at the head of the
    system queue of an actor that has handled nothing yet ([fresh]: Running, no handler active) and whose consumer is
    idle - the first message the behaviour sees is OnLaunch, whatever any thread does afterwards (tells, kills, pauses,
    further spawns; all schedules).  [launch_first] is defined in Actor/ProofsLifeFirst.v:
      launch_first c s := exists x e r, get s c = Some x /\ fresh x /\ a_cons x = C0 /\ a_sq x = e :: r /\
                                        e_msg e = MLaunch /\ seen_of c (olog s) = [].
    What is missing for the full property is exactly the window of the finding: between the registration of the path
    and the insertion of the OnLaunch envelope nothing else may be inserted into the new mailbox (and the consumer must
    not run) - [C05_launch_push_establishes] needs the queue to be still empty at that insertion. *)
Theorem C05_first_is_launch_partial c s evs :
  c <> 0%nat -> reachable s -> launch_first c s -> err (run_events evs s) = false ->
  forall m rest, seen_of c (olog (run_events evs s)) = m :: rest -> m = MLaunch.
Proof. exact (launch_first_stable c s evs). Qed.

(** ActorOf's tell of OnLaunch is addressed to the new context's own mailbox ... *)
Theorem C05_spawn_launch_resolves s c p g pa sp :
  get s c = Some (new_actor p g pa sp) -> alookup (reg s) p = Some c ->
  fst (resolve s (RObj c)) = MbActor c.
Proof. exact (spawn_launch_resolves s c p g pa sp). Qed.

(** ... and its insertion into the still untouched mailbox establishes [launch_first] *)
Theorem C05_launch_push_establishes s t c x sender rest :
  get s c = Some x -> fresh x -> a_cons x = C0 -> a_sq x = [] -> seen_of c (olog s) = [] ->
  pend_of s t = IEnqR true (MbActor c) sender MLaunch :: rest -> t <> TA c ->
  launch_first c (step s (EvPush t 0)).
Proof. exact (launch_push_establishes s t c x sender rest). Qed.

(** ============================ examples ============================ *)

(** a supervised restart (one-for-one, decision Restart, provider configured, all hooks succeed): the child /1/1
    (context 2) sees OnLaunch, the failing user message, OnKill, its own OnKilled, and then - same context, new
    instance 1, behaviour stack reset (mode 0 although it had become 9) - OnLaunch; nobody else sees a second OnLaunch *)
Example C05_ex_restart :
  err rs_final = false /\
  seen_full 2 (olog rs_final) =
    [(0, 0, MLaunch); (0, 0, MUser 5 [ABecome 9 true; APanic]); (0, 9, MKill (RObj 2) false); (0, 9, MKilled (RObj 2)); (1, 0, MLaunch)] /\
  seen_of 1 (olog rs_final) = [MLaunch] /\
  (exists x, get rs_final 2 = Some x /\ a_state x = Running /\ a_modes x = [0] /\ a_inst x = 1 /\ a_gen x = 0).
Proof. vm_compute. repeat split. eexists. repeat split. Qed.

(** the same with a failing OnRestarted: the child ends as a zombie, sees nothing after its own OnKilled *)
Example C05_ex_restart_failed :
  err rz_final = false /\
  seen_of 2 (olog rz_final) = [MLaunch; MUser 5 [APanic]; MKill (RObj 2) false; MKilled (RObj 2)] /\
  (exists x, get rz_final 2 = Some x /\ a_state x = Killed /\ a_zombie x = true).
Proof. vm_compute. repeat split. eexists. repeat split. Qed.

(** hypotheses of the one-step theorems are satisfiable: a prelaunch failure in the initial state *)
Example C05_ex_prelaunch_fail :
  let s := init_with [[]] in
  exists x, get s (self_of (TX 0)) = Some x /\ a_state x <> Killed /\
    fst (exec1 s (TX 0) [] (IAct (ASpawn (Spec 1 [] [] [] 0 [] false [] false)))) = add_obs s (OSpawn 0 1 2).
Proof. cbv zeta. eexists. split; [reflexivity|]. split; [discriminate|reflexivity]. Qed.

(** a reachable state in which an actor's last seen message is its own OnKilled (the killed tree of C06) *)
Example C05_ex_after_own_killed :
  reachable tree_final /\ seen_of 2 (olog tree_final) = [MLaunch; MKill (RObj 1) false] ++ [MKilled (RObj 2)].
Proof. split; [exists tree_scripts, tree_events; split; [reflexivity|vm_compute; reflexivity]|vm_compute; reflexivity]. Qed.

(** [launch_first] holds in a reachable state: right after the OnLaunch of /1 was inserted (no race) *)
Example C05_ex_launch_first :
  let s := run_events [EvStart 0; EvPush (TX 0) 0] (init_with [[ASpawn (leaf 1)]]) in
  reachable s /\ launch_first 1 s.
Proof.
  cbv zeta. split; [eexists _, _; split; [reflexivity|vm_compute; reflexivity]|].
  eexists _, _, _. split; [vm_compute; reflexivity|]. vm_compute. repeat split; try discriminate.
Qed.

Print Assumptions C05_prelaunch_fail.
Print Assumptions C05_prelaunch_fail_creates_nothing.
Print Assumptions C05_spawn_ok_shape.
Print Assumptions C05_restart_starts_with_launch.
Print Assumptions C05_behaviour_call_logged.
Print Assumptions C05_publish_sends_events_only.
Print Assumptions C05_restart_failed_is_zombie.
Print Assumptions C05_zombie_sees_nothing.
Print Assumptions C05_kill_before_killed.
Print Assumptions C05_onkilled_self_checks.
Print Assumptions C05_own_killed_from_mark.
Print Assumptions C05_other_killed_is_not_own.
Print Assumptions C05_nothing_after_own_killed.
Print Assumptions C05_after_own_killed_state.
Print Assumptions C05_killed_dead_letters.
Print Assumptions C05_first_is_launch_refuted.
Print Assumptions C05_first_is_launch_partial.
Print Assumptions C05_spawn_launch_resolves.
Print Assumptions C05_launch_push_establishes.
