(** C01 at the granularity of the ring queue's own synchronisation steps.

    Properties/C01.v is about Mailbox/MbModel.v, where a RingQueue Push / Pop is ONE atomic step - the former
    modelling assumption M4 ("RingQueue is linearizable because every access is under its mutex").  The code does not
    literally satisfy the reason given: [Pop] decides emptiness with [atomic.LoadInt64(&q.len)] outside the mutex, and
    len is changed in the middle of the critical sections.  This file is about Mailbox/MbFine.v, in which NOTHING about
    the queue is assumed: internal/queues/ring.go is inside the model with its exact index arithmetic (head/tail/mod,
    doubling with the rotated copy), its mutex (a Lock step is blocked while the mutex is held), and its len word;
    one step = one synchronisation operation of one goroutine in unbounded_mailbox.go OR ring.go.
    [freachable f] = f is the state after SOME schedule of SOME population of client threads (Enqueue user/system,
    Pause, Resume) on a mailbox created with SOME initial size >= 1; so every theorem holds for all populations, all
    interleavings - including preemptions inside Push and Pop - and all sizes (every growth boundary).

    (0) is the bridge: every execution of the fine machine is an execution of the coarse machine (same threads, the
    schedule with the stuttering steps removed), so M4 is now a theorem - under exactly the discipline the mailbox
    provides (one consumer at a time; see C02_ring_two_consumers_refuted in Properties/C02_mailbox.v for what
    happens without it) - and everything in Properties/C01.v / C02_mailbox.v carries over.  (1)-(9) are those
    consequences stated on the fine machine itself, plus what only exists at this level.
    The model is tied to the real code by lock-step replay of BOTH instrumented files (bin/check C01, component mbfine).
    Statements only; proofs in Mailbox/MbFineQ.v, MbFineSim.v, MbFineThm.v. *)
From Coq Require Import String.
From Coq Require Import List NArith ZArith Bool Permutation.
From Vivid Require Import Queue.Ring Mailbox.MbModel Mailbox.MbSpec Mailbox.MbFine Mailbox.MbFineThm.
From Vivid Require Import Generated.MbSyncOps Mailbox.MbClass Mailbox.MbInventory.
Import ListNotations.
Local Open Scope Z_scope.

(** ============================ (0) refinement: M4 discharged ============================ *)

(** For every size, client population and schedule of the fine machine there are queue contents [ls], [lu] such that
    the coarse machine, started with the abstracted threads ([apc], Mailbox/MbFine.v) and run under the schedule
    [csched_of] (the non-stuttering effective steps), ends in the state with the same status / paused / counters /
    log / abstracted pcs and queues [ls], [lu]; its trace is the fine trace with the stuttering steps removed; each
    ring's len is the length of its content at EVERY micro-step, and whenever a ring's mutex is free the ring
    satisfies the representation invariant of Properties/C02.v for that content. *)
Theorem C01_fine_refines_coarse size ths sched :
  (1 <= size)%nat -> forallb fenv_pc ths = true ->
  let f0 := finit size ths in
  let f := frun sched f0 in
  exists ls lu,
    run (csched_of sched f0) (init (map apc ths)) = absl f ls lu /\
    run_trace (csched_of sched f0) (init (map apc ths)) = ctrace_of (frun_trace sched f0) /\
    qlen (fsq f) = Z.of_nat (length ls) /\ qlen (fuq f) = Z.of_nat (length lu) /\
    (qlock (fsq f) = false -> ring_repr (to_ring (fsq f)) ls /\ qcontent (fsq f) = map Some ls) /\
    (qlock (fuq f) = false -> ring_repr (to_ring (fuq f)) lu /\ qcontent (fuq f) = map Some lu).
Proof. exact (frefines size ths sched). Qed.

(** ============================ (1) one consumer, one handler - also inside Pop ============================ *)

(** [fowner_pc]: from the processing goroutine's creation / the successful CAS up to Store(status, idle), INCLUDING
    the three steps of each Pop (load of len, Lock, the atomic add).  Never two threads there. *)
Theorem C01_fine_one_owner f i j p q :
  freachable f -> i <> j ->
  nth_error (fthr f) i = Some p -> nth_error (fthr f) j = Some q ->
  fowner_pc p = true -> fowner_pc q = true -> False.
Proof. exact (fone_owner f i j p q). Qed.

Theorem C01_fine_one_handler f i j p q :
  freachable f -> i <> j ->
  nth_error (fthr f) i = Some p -> nth_error (fthr f) j = Some q ->
  fhandling_pc p = true -> fhandling_pc q = true -> False.
Proof. exact (fone_handler f i j p q). Qed.

(** ============================ (2) the queue never crashes the mailbox ============================ *)

(** [FCrash] = the process dies: [msg.(vivid.Envelop)] on a nil slot that Pop handed out with ok = true, or
    [% c.mod] with mod = 0.  No thread is ever there. *)
Theorem C01_fine_no_crash f i : freachable f -> nth_error (fthr f) i <> Some FCrash.
Proof. exact (fno_crash f i). Qed.

(** a Pop that passed its emptiness check always reads a real element under the mutex - although other threads ran
    between the check (outside the mutex) and the Lock *)
Theorem C01_fine_pop_hands_out_element f i sys v :
  freachable f -> nth_error (fthr f) i = Some (FQPopAdd sys v) -> exists m, v = Some m.
Proof. exact (fpop_hands_out_element f i sys v). Qed.

(** ============================ (3) the rings at every micro-step ============================ *)

(** for each of the two queues: len is the length of a content list [l] at every moment (so it is never negative and
    [Length()] / [Empty()] never lie by more than the operations in flight); whenever the mutex is free the ring
    represents [l] ([ring_repr], Queue/Ring.v: cursors in range, tail = head + len mod m, cyclic walk reads [l] then
    only nil slots); and the mutex is a mutex: exactly one thread is between Lock and Unlock when it is held, none
    when it is free *)
Theorem C01_fine_ring_safe f sys :
  freachable f ->
  exists l, qlen (getq sys f) = Z.of_nat (length l) /\
            (qlock (getq sys f) = false -> ring_repr (to_ring (getq sys f)) l /\ qcontent (getq sys f) = map Some l) /\
            Z.of_nat (length (filter (in_critical sys) (fthr f))) = (if qlock (getq sys f) then 1 else 0).
Proof. exact (fring_safe f sys). Qed.

(** ============================ (4) no deadlock on the queue mutexes ============================ *)

Theorem C01_fine_no_deadlock f :
  freachable f -> (exists i p, nth_error (fthr f) i = Some p /\ p <> FDone) ->
  exists i f', fstep i f = Some f'.
Proof. exact (fno_deadlock f). Qed.

(** ============================ (5) exactly once ============================ *)

Theorem C01_fine_at_most_once size ths sched :
  (1 <= size)%nat -> forallb fenv_pc ths = true ->
  NoDup (fmsgs_of ths) -> NoDup (flog (frun sched (finit size ths))).
Proof. exact (fat_most_once size ths sched). Qed.

Theorem C01_fine_handled_was_sent size ths sched e :
  (1 <= size)%nat -> forallb fenv_pc ths = true ->
  In e (flog (frun sched (finit size ths))) -> In e (fmsgs_of ths).
Proof. exact (fhandled_was_sent size ths sched e). Qed.

(** ============================ (6) no lost wake-up ============================ *)

(** "accepted" at this granularity = the Push's atomic add has happened (len > 0); the cover thread is one that will
    still attempt CAS(status, idle, processing) unless it sees that it is not needed ([fsys_cover], [fuser_cover]) *)
Theorem C01_fine_no_lost_wakeup f :
  freachable f -> fstatus f = false ->
  (0 < qlen (fsq f) -> exists i p, nth_error (fthr f) i = Some p /\ fsys_cover p = true) /\
  (0 < qlen (fuq f) -> fpaused f = false -> exists i p, nth_error (fthr f) i = Some p /\ fuser_cover p = true).
Proof. exact (fno_lost_wakeup f). Qed.

(** when no thread can step - none is blocked at a mutex either - every goroutine has finished, both mutexes are free,
    the mailbox is idle, the system ring is empty, the user ring is empty unless the mailbox is paused, and the handled
    log is, as a multiset, everything given to Enqueue minus what the paused mailbox still holds: nothing dropped,
    nothing duplicated, no later send needed *)
Theorem C01_fine_terminal size ths sched :
  (1 <= size)%nat -> forallb fenv_pc ths = true ->
  let f := frun sched (finit size ths) in
  fterminal f ->
  fall_done f /\ fstatus f = false /\
  qlock (fsq f) = false /\ qlock (fuq f) = false /\
  qlen (fsq f) = 0 /\ qcontent (fsq f) = [] /\
  exists lu, qcontent (fuq f) = map Some lu /\ qlen (fuq f) = Z.of_nat (length lu) /\
             (lu = [] \/ fpaused f = true) /\
             Permutation (fmsgs_of ths) (map (pair false) lu ++ flog f).
Proof. exact (fterminal_thm size ths sched). Qed.

(** ============================ (7) no spinning, termination ============================ *)

(** every execution - whatever the clients, the schedule and the initial size - has at most
    192 (n+1)^2 + 3 effective steps, the queue's own steps included (3 x the coarse bound of C01_termination + 3) *)
Theorem C01_fine_termination size ths sched :
  (1 <= size)%nat -> forallb fenv_pc ths = true ->
  (feffective_steps sched (finit size ths) <= 192 * (length ths + 1) * (length ths + 1) + 3)%nat.
Proof. exact (ftermination size ths sched). Qed.

(** with no client call in progress, an empty system ring, and an empty user ring or a paused mailbox, at most
    33 steps per live processor goroutine (+3) remain, whatever the schedule *)
Theorem C01_fine_no_spin f :
  freachable f -> fenv_done f -> qlen (fsq f) = 0 -> (qlen (fuq f) = 0 \/ fpaused f = true) ->
  forall sched, (feffective_steps sched f <= 33 * fprocessors f + 3)%nat.
Proof. exact (fno_spin f). Qed.

(** every execution can be continued until every goroutine has finished (then [C01_fine_terminal] applies) *)
Theorem C01_fine_can_finish size ths sched :
  (1 <= size)%nat -> forallb fenv_pc ths = true ->
  exists more, fall_done (frun (sched ++ more) (finit size ths)).
Proof. exact (fcan_finish size ths sched). Qed.

(** ============================ (8) a step for every synchronisation operation of the source ============================ *)

(** [src_sync_classes] (Generated/MbSyncOps.v) is extracted on every run from the CURRENT internal/queues/ring.go and
    internal/mailbox/unbounded_mailbox.go by the translator harness/cmd/syncops: the SET of operation classes (kind of
    operation + field, without the enclosing function and the receiver variable: a refactoring does not change it) of
    every atomic.* call, Lock/Unlock, go statement, channel operation, call through a struct field (queue API,
    handler), method of a sync-typed field, and sync-typed field declaration, each with its kind.
    [inventory_report] (Mailbox/MbInventory.v) = (source classes of a kind other than "load" that the model's table
    [model_sync_classes] does not have, table classes that the source does not have).  Both must be empty: an operation
    the model has no step for (a write, a CAS, a lock, ...) or the disappearance of one it relies on breaks THIS example -
    coqc prints the offending classes - instead of being silently merged into a neighbouring step of the replay.
    (A new read-only class, kind "load", is not an error: the lock-step run treats it as a stuttering step and reports it.) *)
Open Scope string_scope.   (* so that coqc prints the offending classes as "..." when this example breaks *)
Example C01_fine_sync_inventory : inventory_report src_sync_classes = ([], []).
Proof. vm_compute. reflexivity. Qed.
Close Scope string_scope.

(** the table's class names are the names [class_name] of the model's operation classes ... *)
Theorem C01_fine_inventory_table_consistent : table_consistent = true.
Proof. exact table_names_are_class_names. Qed.

(** ... every kind of step of either model is the step of an operation class of the table ... *)
Theorem C01_fine_every_step_has_a_source_op (p : fpc) (q : pc) :
  (class_of_fpc p = KNone \/ In (class_of_fpc p) table_steps) /\ (class_of_pc q = KNone \/ In (class_of_pc q) table_steps).
Proof. exact (conj (every_fine_step_in_table p) (every_coarse_step_in_table q)). Qed.

(** ... and every step class of the table is the class of a pc of one of the two models *)
Theorem C01_fine_every_scheduling_point_is_a_step c :
  In c table_steps -> (exists p : fpc, class_of_fpc p = c) \/ (exists p : pc, class_of_pc p = c).
Proof. exact (every_table_step_is_a_pc c). Qed.

(** ============================ non-vacuity ============================ *)

(** two senders on a mailbox of initial size 1.  Sender 0 finishes its Enqueue (the ring grows 1 -> 2) and starts the
    processor (thread 2), which finds the system ring empty, loads paused = 0, loads len(user) = 1 and is about to
    lock; sender 1 takes the user ring's mutex first and sits between its Lock (the ring has grown 2 -> 4 with the
    rotated copy) and its atomic add.  The consumer is blocked, the sender is not. *)
Definition ex_contended : fstate :=
  frun [0;0;0;0;0; 2;2;2;2; 1;1]%nat (finit 1 [FPushLock false 1%N; FPushLock false 2%N]).
Example C01_fine_ex_contended :
  freachable ex_contended /\
  nth_error (fthr ex_contended) 1 = Some (FPushAdd false 2%N) /\ nth_error (fthr ex_contended) 2 = Some (FQLock false) /\
  qlock (fuq ex_contended) = true /\ qmod (fuq ex_contended) = 4%nat /\ qlen (fuq ex_contended) = 1 /\
  fstep 2 ex_contended = None /\ (exists f', fstep 1 ex_contended = Some f').
Proof.
  split; [exists 1%nat, [FPushLock false 1%N; FPushLock false 2%N], [0;0;0;0;0; 2;2;2;2; 1;1]%nat;
          split; [apply le_n|]; split; [reflexivity|]; unfold ex_contended; reflexivity|].
  vm_compute. repeat split. eexists. reflexivity.
Qed.

(** the same run continued: the consumer gets the mutex, is inside its critical section holding message 1 *)
Example C01_fine_ex_pop_in_progress :
  let f := frun [1; 2]%nat ex_contended in
  freachable f /\ nth_error (fthr f) 2 = Some (FQPopAdd false (Some 1%N)) /\ qlock (fuq f) = true /\ qlen (fuq f) = 2.
Proof.
  cbv zeta. split; [|vm_compute; repeat split].
  exists 1%nat, [FPushLock false 1%N; FPushLock false 2%N], ([0;0;0;0;0; 2;2;2;2; 1;1] ++ [1; 2])%nat.
  split; [apply le_n|]. split; [reflexivity|]. unfold ex_contended. apply MbFineThm.frun_app.
Qed.

(** Pause(); Enqueue(user 7) on a mailbox of size 2: every goroutine finishes, the message stays in the ring *)
Example C01_fine_ex_terminal_paused :
  let f := frun [0;0; 1;1;1;1;1; 2;2;2;2;2;2;2]%nat (finit 2 [FPStore; FPushLock false 7%N]) in
  fterminal f /\ fpaused f = true /\ qcontent (fuq f) = [Some 7%N] /\ flog f = [].
Proof.
  cbv zeta. split; [|vm_compute; repeat split].
  intros i. destruct i as [|[|[|i]]]; vm_compute; try reflexivity. destruct i; reflexivity.
Qed.

(** a quiet state with a live processor (hypotheses of C01_fine_no_spin): one user message handled, the processor has
    stored idle and is about to re-read the counters *)
Example C01_fine_ex_quiet :
  let f := frun [0;0;0;0;0; 1;1;1;1;1;1;1;1;1;1;1]%nat (finit 2 [FPushLock false 1%N]) in
  freachable f /\ fenv_done f /\ qlen (fsq f) = 0 /\ qlen (fuq f) = 0 /\ fprocessors f = 1%nat /\ flog f = [(false, 1%N)].
Proof.
  cbv zeta. split; [exists 2%nat, [FPushLock false 1%N], [0;0;0;0;0; 1;1;1;1;1;1;1;1;1;1;1]%nat;
                    split; [apply le_S, le_n|]; split; reflexivity|].
  split; [|vm_compute; repeat split].
  intros p Hp. vm_compute in Hp. repeat (destruct Hp as [<-|Hp]; [reflexivity|]). destruct Hp.
Qed.

Print Assumptions C01_fine_refines_coarse.
Print Assumptions C01_fine_one_owner.
Print Assumptions C01_fine_one_handler.
Print Assumptions C01_fine_no_crash.
Print Assumptions C01_fine_pop_hands_out_element.
Print Assumptions C01_fine_ring_safe.
Print Assumptions C01_fine_no_deadlock.
Print Assumptions C01_fine_at_most_once.
Print Assumptions C01_fine_handled_was_sent.
Print Assumptions C01_fine_no_lost_wakeup.
Print Assumptions C01_fine_terminal.
Print Assumptions C01_fine_termination.
Print Assumptions C01_fine_no_spin.
Print Assumptions C01_fine_can_finish.
Print Assumptions C01_fine_inventory_table_consistent.
Print Assumptions C01_fine_every_step_has_a_source_op.
Print Assumptions C01_fine_every_scheduling_point_is_a_step.
