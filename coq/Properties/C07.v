(** C07 - System Start/Stop is a clean one-way state machine that never hangs.

    Model: System/Lifecycle.v - a micro-step machine of internal/actor/system.go (Start, Stop/stop, the
    context-guard goroutine) and the first link of system_chains.go: one step = one access to state shared
    between goroutines (statusLock, the status switch, system.Context, clusterContext, Kill(root), cancel,
    the select on guardClosedSignal / time.After, scheduler.Stop).  Threads: ANY number of Start() callers,
    Stop(timeout...) callers and cancellations of the context given to NewSystem; the guard goroutine is
    created by the model's `go` step.  Environment events: ETreeDone (the actor tree terminated and the guard
    actor closed guardClosedSignal; only possible after Kill(root); a run without it = a tree that never
    terminates), ELeaveDone (cluster leave completed), ETick (virtual time).
    [reachable c s] = s is the state after SOME event sequence of SOME population of client threads, so every
    theorem below holds for all call multisets and all interleavings.  Ghost components: [lin] (the
    linearisation log of the status switch executions, newest first), [skipped], [spawned]; the final pc
    [Done kind result] keeps the return value.  Proofs: System/LifecycleProofs.v.  The model is tied to the
    code by bin/check C07 (lock-step replay of the instrumented system.go under the controlled scheduler +
    real-time differential runs on real systems).

    HISTORY: in the code before /repo commit 0843af8 Start released statusLock between its status switch and the
    assignment of system.Context; a Stop landing in that window read s.Context == nil, skipped Kill(root) and
    s.cancel() and returned nil, leaving a running system that could never be stopped (reproduced by this
    check, monitor stop-skipped-kill-and-cancel). Start now runs the switch and the whole chain in ONE critical
    section; the model follows the code and C07_stop_terminates is proved at full strength: the kill is skipped
    only when the creation of the root itself failed (there is nothing to kill; Start returns start-failed). *)
From Coq Require Import List NArith Bool.
From Vivid Require Import System.Lifecycle System.LifecycleProofs System.LifecycleStop.
From Vivid Require System.LockOrder System.LockOrderProofs.
From Vivid Require System.LifeLock System.LifeLockProofs System.LifeLockCluster System.RootSpawn System.RootSpawnProofs.
Import ListNotations.
Local Open Scope N_scope.

(** ============================ (1) no deadlock ============================ *)

(** statusLock is a mutual-exclusion lock in the model: two different threads are never both inside *)
Theorem C07_mutex c s i j p q :
  reachable c s -> nth_error (thr s) i = Some p -> nth_error (thr s) j = Some q ->
  holder_pc p = true -> holder_pc q = true -> i = j.
Proof. exact (mutex c s i j p q). Qed.

(** whoever holds statusLock is never blocked and releases it within four of its OWN default steps (Start: the
    switch, root creation, the rest of the chain, the deferred Unlock - none of them waits for another thread;
    stop: the switch, the deferred Unlock): no thread ever waits for a lock held by a blocked thread *)
Theorem C07_lock_released c s j :
  reachable c s -> lock s = Some j ->
  (exists s1, step c (EStep j 0) s = Some s1) /\
  exists k s', (1 <= k <= 4)%nat /\ steps_of c j k s = Some s' /\ lock s' = None.
Proof. exact (lock_released c s j). Qed.

(** in every reachable state every unfinished thread either can take a step, or waits for statusLock whose
    holder can take a step, or waits for the environment only:
      the guard goroutine for the context to be cancelled,
      the effective stop for leave-completed (clustered systems; NO timeout in the code),
      the effective stop for tree-done-or-timeout, with the kill already issued and the clock before the deadline *)
Theorem C07_no_deadlock c s i p :
  reachable c s -> nth_error (thr s) i = Some p -> is_done p = false ->
  (exists alt s', step c (EStep i alt) s = Some s')
  \/ (lock_pc p = true /\ exists j, j <> i /\ lock s = Some j /\ exists s', step c (EStep j 0) s = Some s')
  \/ env_wait s p.
Proof. exact (progress c s i p). Qed.

(** consequently a state in which no thread can step, however far the clock is advanced, consists of
    finished threads, possibly the guard goroutine waiting for a cancellation that never came (by design:
    neither Stop nor cancel was ever effective), and possibly a stop waiting for the cluster leave *)
Theorem C07_quiescent c s :
  reachable c s -> quiescent c s ->
  forall i p, nth_error (thr s) i = Some p ->
    is_done p = true \/ (p = GWait /\ ctxDone s = false) \/
    (exists w d, p = TLeaveWait w d /\ leaveDone s = false /\ leaveReq s = true).
Proof. exact (quiescent_final c s). Qed.

(** every step of a thread strictly decreases its own rank (at most 20) and leaves the other threads where
    they are: a call finishes within a bounded number of its OWN steps ... *)
Theorem C07_own_steps c i alt s s' p :
  step c (EStep i alt) s = Some s' -> nth_error (thr s) i = Some p ->
  exists p', nth_error (thr s') i = Some p' /\ (rank p' < rank p)%nat /\
             (forall j, j <> i -> (j < length (thr s))%nat -> nth_error (thr s') j = nth_error (thr s) j).
Proof. exact (own_step_rank c i alt s s' p). Qed.

(** ... and whatever the clients and the schedule, an execution contains at most 20 thread steps per call
    (the guard goroutine included): no livelock *)
Theorem C07_termination c ths evs :
  forallb env_pc ths = true -> (thread_steps c evs (init ths) <= 20 * length ths)%nat.
Proof. exact (termination c ths evs). Qed.

(** ============================ (2) return values ============================ *)

(** the linearisation log is well formed: every execution of the status switch saw exactly the status produced
    by the executions before it ([status_after]: Ready until the first Start switch, Started until the first
    stop switch after it, Stopped for ever), and the current status is the one after the whole log *)
Theorem C07_linearisation c s :
  reachable c s -> lin_wf (lin s) /\ status s = status_after (lin s).
Proof. exact (lin_ok c s). Qed.

(** the value a call returns is a function of what its switch saw:
    Start: saw ready -> nil, or start-failed(inner) when the start-up chain failed, inner being the result of
    the Stop it then runs (itself a function of what THAT switch saw); saw start -> already-started;
    saw stop -> already-stopped.
    Stop (and the guard's stop(false)): saw ready -> not-started; saw stop -> already-stopped; saw start ->
    this is the effective stop: nil or stop-failed *)
Theorem C07_returns c s i k r :
  reachable c s -> nth_error (thr s) i = Some (Done k r) ->
  match k with
  | KStart => exists seen, In (i, true, seen) (lin s) /\ start_res_ok seen r /\
                (forall inner, r = RStartFailed inner -> exists seen2, In (i, false, seen2) (lin s) /\ stop_res_ok seen2 inner)
  | KStop | KGuard => exists seen, In (i, false, seen) (lin s) /\ stop_res_ok seen r
  | KCancel => True
  end.
Proof. exact (returns c s i k r). Qed.

(** only one Start ever sees ready, only one stop ever sees start *)
Theorem C07_first_start_unique c s i j :
  reachable c s -> In (i, true, Ready) (lin s) -> In (j, true, Ready) (lin s) -> i = j.
Proof. exact (first_start_unique c s i j). Qed.

Theorem C07_effective_stop_unique c s i j :
  reachable c s -> In (i, false, Started) (lin s) -> In (j, false, Started) (lin s) -> i = j.
Proof. exact (effective_stop_unique c s i j). Qed.

(** the effective stop takes the nil branch only when guardClosedSignal is closed and the stop-failed branch
    only when its deadline (armed when the select was entered: now + timeout) has passed *)
Theorem C07_select c s i w dl :
  nth_error (thr s) i = Some (TSelect w dl) ->
  ((exists s', step c (EStep i 0) s = Some s') <-> guardClosed s = true) /\
  ((exists s', step c (EStep i 1) s = Some s') <-> dl <= now s).
Proof. exact (select_branches c s i w dl). Qed.

(** ============================ (3) one-way ============================ *)

(** a step never moves the status except ready -> start and start -> stop *)
Theorem C07_one_way c e s s' :
  step c e s = Some s' ->
  status s' = status s \/ (status s = Ready /\ status s' = Started) \/ (status s = Started /\ status s' = Stopped).
Proof. exact (one_way_step c e s s'). Qed.

Theorem C07_one_way_run c evs s :
  (st_rank (status s) <= st_rank (status (run c evs s)))%nat.
Proof. exact (one_way_run c evs s). Qed.

(** Stop before Start returns not-started WITHOUT touching the status (there is no ready -> stop edge) *)
Theorem C07_stop_before_start c i alt s s' w d :
  nth_error (thr s) i = Some (TCheck w d) -> status s = Ready -> step c (EStep i alt) s = Some s' ->
  status s' = Ready /\ nth_error (thr s') i = Some (TUnlock w d RNotStarted) /\ kills s' = kills s /\ ctxDone s' = ctxDone s.
Proof. exact (stop_before_start c i alt s s' w d). Qed.

(** ============================ (4) cancel = Stop ============================ *)

(** Kill(root) is issued at most once, whoever stops the system *)
Theorem C07_one_kill c s : reachable c s -> kills s <= 1.
Proof. exact (kills_le_1 c s). Qed.

(** once the context is cancelled and a guard goroutine exists (= some Start got through), a state in which
    nothing can move any more has status stop, exactly one effective stop in its log (uniqueness:
    C07_effective_stop_unique - a Stop racing the cancel gives ONE effective stop), and the guard goroutine
    has returned from stop(false) with nil / stop-failed / already-stopped *)
Theorem C07_cancel_is_stop c s g p :
  reachable c s -> quiescent c s -> ctxDone s = true -> (leaveReq s = true -> leaveDone s = true) ->
  nth_error (thr s) g = Some p -> guard_pc p = true ->
  status s = Stopped /\ (exists j, In (j, false, Started) (lin s)) /\ exists r, p = Done KGuard r /\ r <> RNotStarted.
Proof. exact (cancel_stops c s g p). Qed.

(** Stop terminates the system: whoever ran a stop() that returned nil (Stop(), the guard goroutine after a
    cancel, Start's failure path), if the root context exists - in particular after any successful Start, next
    theorem - then the status is stop, the scheduler is stopped, exactly one Kill(root) was issued, the context
    is cancelled and guardClosedSignal was seen closed *)
Theorem C07_stop_terminates c s i k r :
  reachable c s -> nth_error (thr s) i = Some (Done k r) -> stop_nil k r = true -> hasCtx s = true ->
  status s = Stopped /\ schedStopped s = true /\ kills s = 1 /\ guardClosed s = true /\ ctxDone s = true.
Proof. exact (stop_terminates c s i k r). Qed.

Theorem C07_stop_terminates_after_start c s i k r i0 :
  reachable c s -> nth_error (thr s) i0 = Some (Done KStart RNil) ->
  nth_error (thr s) i = Some (Done k r) -> stop_nil k r = true ->
  status s = Stopped /\ schedStopped s = true /\ kills s = 1 /\ guardClosed s = true /\ ctxDone s = true.
Proof. exact (stop_terminates_after_start c s i k r i0). Qed.

(** the precise general form: the only other way a stop() returns nil is that the creation of the root failed
    (system.Context is nil for ever, no Kill was ever issued, the failing Start is in / has left its failure path
    and returns start-failed): there is nothing to terminate *)
Theorem C07_stop_effect c s i k r :
  reachable c s -> nth_error (thr s) i = Some (Done k r) -> stop_nil k r = true ->
  status s = Stopped /\ schedStopped s = true /\
  ((hasCtx s = true /\ kills s = 1 /\ guardClosed s = true /\ ctxDone s = true)
   \/ (hasCtx s = false /\ kills s = 0 /\ skipped s = true /\ exists j p, nth_error (thr s) j = Some p /\ failing p = true)).
Proof. exact (stop_effect_full c s i k r). Qed.

(** a stop that is inside its select (and may therefore time out) has issued the kill and cancelled the context *)
Theorem C07_stop_failed_effect c s i w dl :
  reachable c s -> nth_error (thr s) i = Some (TSelect w dl) ->
  kills s = 1 /\ ctxDone s = true /\ hasCtx s = true /\ status s = Stopped.
Proof. exact (stop_failed_effect c s i w dl). Qed.

(** ============================ (5) goroutines ============================ *)

(** the only goroutine the state machine creates is the guard goroutine, at most one per system *)
Theorem C07_created c ths evs :
  forallb env_pc ths = true ->
  let s := run c evs (init ths) in
  length (thr s) = (length ths + N.to_nat (spawned s))%nat /\ spawned s <= 1 /\
  forall j p, nth_error (thr s) j = Some p -> (length ths <= j)%nat -> guard_pc p = true.
Proof. exact (created c ths evs). Qed.

(** if the context is (eventually) cancelled - by Stop's own s.cancel() or from outside - then in every state
    in which nothing can move any more EVERY thread, the guard goroutine included, has finished *)
Theorem C07_goroutines c s :
  reachable c s -> quiescent c s -> ctxDone s = true -> (leaveReq s = true -> leaveDone s = true) ->
  forall i p, nth_error (thr s) i = Some p -> is_done p = true.
Proof. exact (all_done c s). Qed.

(** ============================ (6) Start's critical section ============================ *)

(** the Start that got through holds statusLock from its switch until the chain has finished (successfully or
    not), and the status is start all that time: no stop can run its switch in between *)
Theorem C07_start_holds_lock c s i p :
  reachable c s -> nth_error (thr s) i = Some p -> start_hold p = true -> lock s = Some i /\ status s = Started.
Proof. exact (start_holds_lock c s i p). Qed.

(** whenever the status is not ready and system.Context is still nil, either the Start that got through is
    about to create the root - inside its critical section - or root creation failed ([failing]: that Start is
    in / has left its failure path) *)
Theorem C07_root_nil_only_in_start_or_failed c s :
  reachable c s -> status s <> Ready -> hasCtx s = false ->
  exists i p, nth_error (thr s) i = Some p /\
    ((p = SSpawnRoot /\ lock s = Some i /\ status s = Started) \/ failing p = true).
Proof. exact (root_nil_only_in_start_or_failed c s). Qed.

(** the kill is skipped only if root creation failed *)
Theorem C07_skip_only_if_root_failed c s :
  reachable c s -> skipped s = true ->
  hasCtx s = false /\ kills s = 0 /\ exists i p, nth_error (thr s) i = Some p /\ failing p = true.
Proof. exact (skip_only_if_root_failed c s). Qed.

(** ============================ (7) lock order: statusLock before actorOfLock ============================

    The lock view of the same code (System/LockOrder.v; proofs in System/LockOrderProofs.v).  system.go has a
    second mutex, actorOfLock (System.ActorOf).  The start-up chain that Start runs UNDER statusLock spawns
    "@metrics" / "@remoting" / "@cluster" ... through System.ActorOf, i.e. takes actorOfLock while holding
    statusLock; stop takes statusLock alone (and, on a clustered system, actorOfLock later - in Leave() -
    holding nothing); any goroutine may call System.ActorOf.  A thread is a straight-line program of
    Acq / Rel / Wait (for the environment) / Work operations - one program per branch of the code
    ([LockOrder.shape] / [LockOrder.prog_of]; the chain is refined into its k ActorOf calls, k arbitrary) - and
    the machine interleaves ANY population of them.  [LockOrder.reachable progs s]: s is the state after SOME
    interleaving of the threads running [progs].  Locks are numbered by rank: statusLock 0 < actorOfLock 1.
    The lock-step harness checks, per thread of every controlled run (metrics-enabled systems included), that
    the sequence of lock operations it really performed is one of these programs (case kind 3). *)

(** the lock-hierarchy theorem, for EVERY population of programs that respect the hierarchy ([ordered [] p]: p
    acquires only locks ranked strictly above everything it holds, releases only what it holds, never waits for
    the environment while holding a lock, ends holding nothing) and every interleaving: whenever some thread
    wants to run (is neither finished nor waiting for the environment), some thread can execute its next
    operation - no deadlock on locks *)
Theorem C07_lock_hierarchy_sound (progs : list (list LockOrder.op)) (s : list LockOrder.thread) :
  forallb (LockOrder.ordered []) progs = true -> LockOrder.reachable progs s ->
  (exists i t, nth_error s i = Some t /\ LockOrder.wants_cpu t = true) ->
  exists j s', LockOrder.step (LockOrder.EStep j) s = Some s'.
Proof. exact (LockOrderProofs.lo_progress progs s). Qed.

(** every program of system.go respects the hierarchy: first / repeated Start with a chain of k ActorOf calls
    (k arbitrary) succeeding or failing after k calls, effective / repeated stop on plain and clustered systems,
    the guard goroutine, external System.ActorOf callers, cancellation *)
Theorem C07_lock_programs_ordered (sh : LockOrder.shape) :
  LockOrder.ordered [] (LockOrder.prog_of sh) = true.
Proof. exact (LockOrderProofs.prog_ordered sh). Qed.

(** hence, for all populations of Start / Stop / guard / ActorOf / cancel threads and all interleavings:
    deadlock freedom ... *)
Theorem C07_lock_no_deadlock (shapes : list LockOrder.shape) (s : list LockOrder.thread) :
  LockOrder.reachable (map LockOrder.prog_of shapes) s ->
  (exists i t, nth_error s i = Some t /\ LockOrder.wants_cpu t = true) ->
  exists j s', LockOrder.step (LockOrder.EStep j) s = Some s'.
Proof. exact (LockOrderProofs.c07_lock_progress shapes s). Qed.

(** ... mutual exclusion of both locks ... *)
Theorem C07_lock_mutex (shapes : list LockOrder.shape) (s : list LockOrder.thread) i j ti tj l :
  LockOrder.reachable (map LockOrder.prog_of shapes) s ->
  nth_error s i = Some ti -> nth_error s j = Some tj ->
  LockOrder.holds ti l = true -> LockOrder.holds tj l = true -> i = j.
Proof. exact (LockOrderProofs.c07_lock_mutex shapes s i j ti tj l). Qed.

(** ... lock-order acyclicity: a thread standing in front of a lock holds only locks of strictly lower rank
    (along "waits for the holder of" the rank strictly increases: no cycle) ... *)
Theorem C07_lock_order_acyclic (shapes : list LockOrder.shape) (s : list LockOrder.thread) i t l' r l :
  LockOrder.reachable (map LockOrder.prog_of shapes) s ->
  nth_error s i = Some t -> LockOrder.todo t = LockOrder.Acq l' :: r -> LockOrder.holds t l = true -> l < l'.
Proof. exact (LockOrderProofs.c07_lock_acyclic shapes s i t l' r l). Qed.

(** ... in particular whoever waits for statusLock (every stop, every Start) holds nothing, not actorOfLock either *)
Theorem C07_status_waiter_holds_nothing (shapes : list LockOrder.shape) (s : list LockOrder.thread) i t r :
  LockOrder.reachable (map LockOrder.prog_of shapes) s ->
  nth_error s i = Some t -> LockOrder.todo t = LockOrder.Acq LockOrder.statusLock :: r -> LockOrder.held t = [].
Proof. exact (LockOrderProofs.c07_status_waiter_holds_nothing shapes s i t r). Qed.

(** sharpness: the seeded inversion (stop takes actorOfLock BEFORE statusLock) is rejected by [ordered], and
    against a Start whose chain spawns one system actor it reaches a state in which both threads want to run and
    nothing - no thread step, no environment event - is possible any more: Start holds statusLock and stands in
    front of actorOfLock, the stop holds actorOfLock and stands in front of statusLock *)
Theorem C07_lock_inversion_deadlocks :
  LockOrder.ordered [] LockOrder.stop_mutant = false /\
  LockOrder.reachable LockOrderProofs.mutant_progs LockOrderProofs.mutant_dead /\
  (forall t, In t LockOrderProofs.mutant_dead -> LockOrder.wants_cpu t = true) /\
  (forall e, LockOrder.step e LockOrderProofs.mutant_dead = None) /\
  (exists t0 t1 r0 r1,
      nth_error LockOrderProofs.mutant_dead 0 = Some t0 /\ nth_error LockOrderProofs.mutant_dead 1 = Some t1 /\
      LockOrder.held t0 = [LockOrder.statusLock] /\ LockOrder.todo t0 = LockOrder.Acq LockOrder.actorOfLock :: r0 /\
      LockOrder.held t1 = [LockOrder.actorOfLock] /\ LockOrder.todo t1 = LockOrder.Acq LockOrder.statusLock :: r1).
Proof. exact (conj LockOrderProofs.mutant_not_ordered LockOrderProofs.mutant_deadlock). Qed.


(** ============================ (8) ONE machine: life cycle + statusLock + actorOfLock ============================

    System/LifeLock.v merges the micro-step model with the lock view: its state is a Lifecycle state ([LifeLock.base])
    plus actorOfLock; the start-up chain behind the root is refined into its System.ActorOf calls ("@metrics",
    "@remoting", "@cluster", the singleton proxy manager, the singleton manager - [LifeLock.links], from the
    configuration), each of them  actorOfLock.Lock(); Context.ActorOf (may fail); deferred Unlock  executed by the Start
    thread while it holds statusLock; stop's Leave() is refined into its entry, the System.ActorOf call of the helper actor
    (the only one that can ever close leaveWait) and the step to the blocking wait; any number of external goroutines
    call System.ActorOf.  [LifeLock.reachable2 c s]: s is the state after SOME event sequence of SOME population of
    Start / Stop(timeout) / cancel callers and SOME number of external System.ActorOf callers.  The lock-step harness
    replays every controlled run of the real code on THIS machine (every actorOfLock.Lock() is a scheduling point; after
    every step the holders of both locks are compared). *)

(** refinement: every step of the merged machine is a stutter or one step of the micro-step machine on [base], hence the
    abstract part of every reachable state is reachable there - EVERY theorem above holds of [base s] *)
Theorem C07_merged_refines (c : LifeLock.cfg2) (s : LifeLock.st2) :
  LifeLock.reachable2 c s -> reachable (LifeLock.c_base c) (LifeLock.base s).
Proof. exact (LifeLockProofs.refines c s). Qed.

Theorem C07_merged_step_refines (c : LifeLock.cfg2) e (s s' : LifeLock.st2) :
  LifeLock.step2 c e s = Some s' ->
  LifeLock.base s' = LifeLock.base s \/ exists e', step (LifeLock.c_base c) e' (LifeLock.base s) = Some (LifeLock.base s').
Proof. exact (LifeLockProofs.step2_base c e s s'). Qed.

(** for instance: Stop terminates the system, on the merged machine *)
Theorem C07_merged_stop_terminates (c : LifeLock.cfg2) (s : LifeLock.st2) i k r :
  LifeLock.reachable2 c s -> nth_error (thr (LifeLock.base s)) i = Some (Done k r) -> stop_nil k r = true ->
  hasCtx (LifeLock.base s) = true ->
  status (LifeLock.base s) = Stopped /\ schedStopped (LifeLock.base s) = true /\ kills (LifeLock.base s) = 1 /\
  guardClosed (LifeLock.base s) = true /\ ctxDone (LifeLock.base s) = true.
Proof. exact (fun R => stop_terminates (LifeLock.c_base c) (LifeLock.base s) i k r (LifeLockProofs.refines c s R)). Qed.

(** both mutexes are mutual-exclusion locks; [alock] (the lock word) and the program counters agree *)
Theorem C07_merged_actorOf_mutex (c : LifeLock.cfg2) (s : LifeLock.st2) t t' :
  LifeLock.reachable2 c s -> LifeLock.holds_actorOf s t = true -> LifeLock.holds_actorOf s t' = true -> t = t'.
Proof. exact (LifeLockProofs.actorOf_mutex c s t t'). Qed.

Theorem C07_merged_actorOf_holder (c : LifeLock.cfg2) (s : LifeLock.st2) t :
  LifeLock.reachable2 c s -> (LifeLock.alock s = Some t <-> LifeLock.holds_actorOf s t = true).
Proof. exact (LifeLockProofs.alock_holder c s t). Qed.

Theorem C07_merged_status_mutex (c : LifeLock.cfg2) (s : LifeLock.st2) i j :
  LifeLock.reachable2 c s -> LifeLock.holds_status s i = true -> LifeLock.holds_status s j = true -> i = j.
Proof. exact (LifeLockProofs.status_mutex c s i j). Qed.

(** the hierarchy statusLock < actorOfLock: a life-cycle thread inside System.ActorOf is either in the start-up chain -
    then it holds statusLock, taken BEFORE - or in Leave() - then it holds nothing else *)
Theorem C07_merged_lock_hierarchy (c : LifeLock.cfg2) (s : LifeLock.st2) i :
  LifeLock.reachable2 c s -> LifeLock.holds_actorOf s (LifeLock.OLife i) = true ->
  exists p, nth_error (thr (LifeLock.base s)) i = Some p /\
    ((p = SChain /\ lock (LifeLock.base s) = Some i) \/ (exists w d, p = TLeaveReq w d /\ LifeLock.holds_status s i = false)).
Proof. exact (LifeLockProofs.life_holder_where c s i). Qed.

(** whoever stands in front of statusLock holds nothing - not actorOfLock either (no ABBA) ... *)
Theorem C07_merged_status_waiter_holds_nothing (c : LifeLock.cfg2) (s : LifeLock.st2) i :
  LifeLock.reachable2 c s -> LifeLock.wants_status s i = true ->
  LifeLock.holds_actorOf s (LifeLock.OLife i) = false /\ LifeLock.holds_status s i = false.
Proof. exact (LifeLockProofs.status_waiter_holds_nothing c s i). Qed.

(** ... and so does whoever waits for the environment (context cancel / leave / tree-or-timeout) *)
Theorem C07_merged_env_waiter_holds_nothing (c : LifeLock.cfg2) (s : LifeLock.st2) i p :
  LifeLock.reachable2 c s -> nth_error (thr (LifeLock.base s)) i = Some p -> env_wait (LifeLock.base s) p ->
  LifeLock.holds_actorOf s (LifeLock.OLife i) = false /\ LifeLock.holds_status s i = false.
Proof. exact (LifeLockProofs.env_waiter_holds_nothing c s i p). Qed.

(** DEADLOCK FREEDOM with both locks, one theorem about one model: in every reachable state every unfinished thread - a
    Start / Stop / cancel caller, the guard goroutine, an external System.ActorOf caller - can take a step, or stands in
    front of actorOfLock whose holder can take a step, or stands in front of statusLock whose holder can take a step or
    stands in front of actorOfLock whose holder can take a step, or waits for the environment only *)
Theorem C07_merged_no_deadlock (c : LifeLock.cfg2) (s : LifeLock.st2) t :
  LifeLock.reachable2 c s -> LifeLock.unfinished s t ->
  LifeLock.can_step c s t
  \/ LifeLockProofs.blocked_on_actorOf c s t
  \/ (exists i j, t = LifeLock.OLife i /\ LifeLock.wants_status s i = true /\ lock (LifeLock.base s) = Some j /\ j <> i /\
        (LifeLock.can_step c s (LifeLock.OLife j) \/ LifeLockProofs.blocked_on_actorOf c s (LifeLock.OLife j)))
  \/ LifeLock.env_wait2 s t.
Proof. exact (LifeLockProofs.no_deadlock2 c s t). Qed.

(** hence: while some thread is unfinished and does not wait for the environment only, SOME thread can step *)
Theorem C07_merged_some_thread_can_step (c : LifeLock.cfg2) (s : LifeLock.st2) t :
  LifeLock.reachable2 c s -> LifeLock.unfinished s t -> ~ LifeLock.env_wait2 s t -> exists t', LifeLock.can_step c s t'.
Proof. exact (LifeLockProofs.some_thread_can_step c s t). Qed.

(** the holder of actorOfLock is never blocked; the holder of statusLock is blocked at most by the holder of actorOfLock *)
Theorem C07_merged_actorOf_holder_progress (c : LifeLock.cfg2) (s : LifeLock.st2) o :
  LifeLock.reachable2 c s -> LifeLock.alock s = Some o -> LifeLock.can_step c s o.
Proof. exact (LifeLockProofs.actorOf_holder_progress c s o). Qed.

Theorem C07_merged_status_holder_progress (c : LifeLock.cfg2) (s : LifeLock.st2) j :
  LifeLock.reachable2 c s -> lock (LifeLock.base s) = Some j ->
  LifeLock.can_step c s (LifeLock.OLife j) \/ LifeLockProofs.blocked_on_actorOf c s (LifeLock.OLife j).
Proof. exact (LifeLockProofs.status_holder_progress c s j). Qed.

(** every step of a thread strictly decreases its own rank ([LifeLock.rank2]: at most 20 * (3 * #chain calls + 8) for a
    life-cycle call, 4 for an external caller): bounded number of own steps, chain and Leave() included *)
Theorem C07_merged_own_steps (c : LifeLock.cfg2) (s : LifeLock.st2) t alt s' :
  LifeLock.reachable2 c s -> LifeLock.step2 c (LifeLock.ev_of t alt) s = Some s' ->
  (LifeLock.rank2 c s' t < LifeLock.rank2 c s t)%nat.
Proof. exact (LifeLockProofs.own_steps2 c s t alt s'). Qed.


(** the unsynchronised read `if s.clusterContext != nil` of stop: the start-up chain assigns the field in the MIDDLE of
    Start's critical section ([LifeLock.clusterNow]: the field as the code writes it; the lock-step harness compares it with
    the real field after every step); whenever no thread is inside the chain it has its final value ([clusterCtx] of the
    micro-step model) - in particular whenever some stop stands at its read *)
Theorem C07_merged_cluster_field_settled (c : LifeLock.cfg2) (s : LifeLock.st2) :
  LifeLock.reachable2 c s -> (forall i, nth_error (thr (LifeLock.base s)) i <> Some SChain) ->
  LifeLock.clusterNow s = clusterCtx (LifeLock.base s).
Proof. exact (LifeLockCluster.cluster_field_settled c s). Qed.

Theorem C07_merged_cluster_read_consistent (c : LifeLock.cfg2) (s : LifeLock.st2) i w d :
  LifeLock.reachable2 c s -> nth_error (thr (LifeLock.base s)) i = Some (TReadCluster w d) ->
  LifeLock.clusterNow s = clusterCtx (LifeLock.base s).
Proof. exact (LifeLockCluster.cluster_read_consistent c s i w d). Qed.

(** ============================ (9) every stop that gets through cancels the context ============================

    s.cancel() stands BEFORE the select on guardClosedSignal / time.After, whose timeout arm returns early.  (A cancel
    placed after the select is skipped by a timed-out Stop: the status is `stop`, every later Stop answers
    already-stopped, the guard goroutine stays parked for ever - seeded change C07-r3-cancel-after-wait.) *)

(** once an effective stop has RETURNED - nil or stop-failed, from Stop(), the guard's stop(false), Start's failure path -
    the context is cancelled (if a root exists at all; otherwise root creation failed and no guard goroutine exists) *)
Theorem C07_returned_stop_cancelled c s i k r :
  reachable c s -> nth_error (thr s) i = Some (Done k r) -> eff_returned k r = true -> hasCtx s = true -> ctxDone s = true.
Proof. exact (returned_stop_cancelled c s i k r). Qed.

Theorem C07_select_after_cancel c s i w dl :
  reachable c s -> nth_error (thr s) i = Some (TSelect w dl) -> ctxDone s = true.
Proof. exact (select_after_cancel c s i w dl). Qed.

(** every state with status `stop` in which nothing can move any more (whatever the clock; the cluster leave, if requested,
    completed): EVERY thread has finished - the context-guard goroutine included - and the context is cancelled *)
Theorem C07_stopped_system_quiesces c s :
  reachable c s -> quiescent c s -> status s = Stopped -> (leaveReq s = true -> leaveDone s = true) ->
  (forall i p, nth_error (thr s) i = Some p -> is_done p = true) /\ (hasCtx s = true -> ctxDone s = true).
Proof. exact (stopped_system_quiesces c s). Qed.

(** the same in terms of the linearisation log: some stop passed its status switch having seen `start` *)
Theorem C07_effective_stop_quiesces c s j :
  reachable c s -> quiescent c s -> In (j, false, Started) (lin s) -> (leaveReq s = true -> leaveDone s = true) ->
  (forall i p, nth_error (thr s) i = Some p -> is_done p = true) /\ (hasCtx s = true -> ctxDone s = true).
Proof. exact (effective_stop_quiesces c s j). Qed.

(** ============================ (10) System.ActorOf racing Stop ============================

    System/RootSpawn.v: the micro-steps of Context.ActorOf on the root (read of the state; registration of the child; the
    final check that kills the new child when the parent is no longer running) against the root's handling of the OnKill of
    stop's Kill(root) (CAS running -> killing; kill the children of a snapshot of the table; die when the table is empty),
    any number of callers, any interleaving, the OnKill taken at any moment.  [rreachable true]: the code since /repo 6438ab6
    (the final check RE-READS the state after the registration); [rreachable false]: the code before (it used the value
    read at the top) - found by this check: Stop ran into its timeout on an idle system / returned nil with an actor alive. *)

(** once the root has collected its children and every ActorOf call has returned, every child in its table has been sent a kill *)
Theorem C07_actorof_registered_child_is_killed (s : RootSpawn.rs) :
  RootSpawn.rreachable true s -> RootSpawnProofs.all_callers_done s ->
  RootSpawn.rp s = RootSpawn.RWait \/ RootSpawn.rp s = RootSpawn.RDead ->
  forall ch, In ch (RootSpawn.children s) -> In ch (RootSpawn.killSent s).
Proof. exact (RootSpawnProofs.registered_child_is_killed s). Qed.

(** Stop does not wait for a child nobody kills: while the root waits, it dies (empty table) or a child of the table terminates *)
Theorem C07_actorof_root_wait_progress (s : RootSpawn.rs) :
  RootSpawn.rreachable true s -> RootSpawnProofs.all_callers_done s -> RootSpawn.rp s = RootSpawn.RWait ->
  exists e s', RootSpawn.rstep true e s = Some s' /\
    (e = RootSpawn.ERoot \/ exists ch, e = RootSpawn.EDie ch /\ (length (RootSpawn.children s') < length (RootSpawn.children s))%nat).
Proof. exact (RootSpawnProofs.root_wait_progress s). Qed.

(** in every state in which nothing can move any more: every ActorOf call has returned, the root is dead and its table is
    empty - every actor whose ActorOf succeeded has terminated *)
Theorem C07_actorof_quiescent_all_terminated (s : RootSpawn.rs) :
  RootSpawn.rreachable true s -> RootSpawn.rquiescent true s ->
  RootSpawnProofs.all_callers_done s /\ RootSpawn.rp s = RootSpawn.RDead /\ RootSpawn.rst s = RootSpawn.RKilled /\ RootSpawn.children s = [].
Proof. exact (RootSpawnProofs.quiescent_all_terminated s). Qed.

(** sharpness - the stale read: a reachable state in which nothing can move any more, the root waits (killing) for child 0
    that was never sent a kill ... *)
Theorem C07_actorof_stale_read_orphans :
  RootSpawn.rreachable false RootSpawnProofs.stale_orphan /\ RootSpawn.rquiescent false RootSpawnProofs.stale_orphan /\
  RootSpawn.rp RootSpawnProofs.stale_orphan = RootSpawn.RWait /\ RootSpawn.rst RootSpawnProofs.stale_orphan = RootSpawn.RKilling /\
  RootSpawn.children RootSpawnProofs.stale_orphan = [0%nat] /\ RootSpawn.killSent RootSpawnProofs.stale_orphan = [] /\
  RootSpawn.callers RootSpawnProofs.stale_orphan = [RootSpawn.ADone (Some 0%nat)].
Proof. exact RootSpawnProofs.stale_orphan_facts. Qed.

(** ... and one in which the root is dead and child 0 is alive, never sent a kill *)
Theorem C07_actorof_stale_read_survivor :
  RootSpawn.rreachable false RootSpawnProofs.stale_survivor /\ RootSpawn.rquiescent false RootSpawnProofs.stale_survivor /\
  RootSpawn.rp RootSpawnProofs.stale_survivor = RootSpawn.RDead /\ RootSpawn.rst RootSpawnProofs.stale_survivor = RootSpawn.RKilled /\
  RootSpawn.children RootSpawnProofs.stale_survivor = [0%nat] /\ RootSpawn.killSent RootSpawnProofs.stale_survivor = [] /\
  RootSpawn.callers RootSpawnProofs.stale_survivor = [RootSpawn.ADone (Some 0%nat)].
Proof. exact RootSpawnProofs.stale_survivor_facts. Qed.

(** ============================ non-vacuity ============================ *)

Definition ex_cfg : cfg := {| cfg_cluster := false; cfg_timeout := 5 |}.
Fixpoint rep (n : nat) (e : ev) : list ev := match n with O => [] | S k => e :: rep k e end.

(** Start; Stop; Stop; Start, one after the other, the tree terminating in time: nil, nil, already-stopped,
    already-stopped; everything finished, guard goroutine included; hypotheses of C07_goroutines /
    C07_cancel_is_stop / C07_stop_terminates(_after_start) hold *)
Definition ex_seq : st :=
  run ex_cfg (rep 7 (EStep 0 0) ++ rep 8 (EStep 1 0) ++ [ETreeDone] ++ rep 2 (EStep 1 0) ++ rep 5 (EStep 4 0)
              ++ rep 5 (EStep 2 0) ++ rep 4 (EStep 3 0))%nat
      (init [SLock; TLock ByStop None; TLock ByStop (Some 3); SLock]).
Example C07_ex_sequential :
  reachable ex_cfg ex_seq /\
  thr ex_seq = [Done KStart RNil; Done KStop RNil; Done KStop RAlreadyStopped; Done KStart RAlreadyStopped; Done KGuard RAlreadyStopped] /\
  status ex_seq = Stopped /\ kills ex_seq = 1 /\ ctxDone ex_seq = true /\ guardClosed ex_seq = true /\
  schedStopped ex_seq = true /\ skipped ex_seq = false /\ lock ex_seq = None.
Proof. split; [apply reachable_run; reflexivity|vm_compute; repeat split]. Qed.

Example C07_ex_sequential_quiescent : quiescent ex_cfg ex_seq.
Proof.
  intros i alt dt. destruct i as [|[|[|[|[|i]]]]]; vm_compute; try reflexivity. destruct i; reflexivity.
Qed.

(** Stop before Start: not-started, status untouched; then Start; then the tree never terminates and the
    Stop(3) times out after 3 ticks: stop-failed *)
Definition ex_timeout : st :=
  run ex_cfg (rep 5 (EStep 0 0) ++ rep 7 (EStep 1 0) ++ rep 8 (EStep 2 0) ++ [ETick 3; EStep 2 1])%nat
      (init [TLock ByStop None; SLock; TLock ByStop (Some 3)]).
Example C07_ex_timeout :
  reachable ex_cfg ex_timeout /\
  nth_error (thr ex_timeout) 0 = Some (Done KStop RNotStarted) /\ nth_error (thr ex_timeout) 1 = Some (Done KStart RNil) /\
  nth_error (thr ex_timeout) 2 = Some (Done KStop RStopFailed) /\
  status ex_timeout = Stopped /\ kills ex_timeout = 1 /\ guardClosed ex_timeout = false /\ schedStopped ex_timeout = false.
Proof. split; [apply reachable_run; reflexivity|vm_compute; repeat split]. Qed.

(** a state satisfying the hypotheses of C07_lock_released / C07_start_holds_lock / the lock-wait disjunct of
    C07_no_deadlock: thread 0 (Start) holds the lock and is about to create the root, thread 1 (Stop) waits *)
Example C07_ex_lock_wait :
  let s := run ex_cfg [EStep 0 0; EStep 0 0; EStep 0 0; EStep 1 0]%nat (init [SLock; TLock ByStop None]) in
  reachable ex_cfg s /\ lock s = Some 0%nat /\ nth_error (thr s) 0 = Some SSpawnRoot /\ nth_error (thr s) 1 = Some (TLock ByStop None) /\
  status s = Started /\ hasCtx s = false /\ step ex_cfg (EStep 1 0) s = None.
Proof. cbv zeta. split; [apply reachable_run; reflexivity|vm_compute; repeat split]. Qed.

(** the guard goroutine waits for ever, by design, when the system is started and neither stopped nor
    cancelled: a quiescent state with an unfinished thread (the second disjunct of C07_quiescent) *)
Example C07_ex_guard_waits_by_design :
  let s := run ex_cfg (rep 7 (EStep 0 0) ++ [EStep 1 0])%nat (init [SLock]) in
  reachable ex_cfg s /\ thr s = [Done KStart RNil; GWait] /\ ctxDone s = false /\ status s = Started /\
  (forall i alt dt, step ex_cfg (EStep i alt) (set_now s (now s + dt)) = None).
Proof.
  cbv zeta. split; [apply reachable_run; reflexivity|]. split; [vm_compute; reflexivity|]. split; [vm_compute; reflexivity|].
  split; [vm_compute; reflexivity|]. intros i alt dt. destruct i as [|[|i]]; vm_compute; try reflexivity. destruct i; reflexivity.
Qed.

(** external cancel after Start racing a Stop: exactly one effective stop (here the guard's), Stop returns
    already-stopped *)
Example C07_ex_cancel_race :
  let s := run ex_cfg (rep 7 (EStep 0 0) ++ rep 2 (EStep 2 0) ++ rep 9 (EStep 3 0) ++ [ETreeDone] ++ rep 2 (EStep 3 0) ++ rep 5 (EStep 1 0))%nat
               (init [SLock; TLock ByStop None; XCancel]) in
  reachable ex_cfg s /\ thr s = [Done KStart RNil; Done KStop RAlreadyStopped; Done KCancel RNil; Done KGuard RNil] /\
  kills s = 1 /\ status s = Stopped /\ skipped s = false.
Proof. cbv zeta. split; [apply reachable_run; reflexivity|vm_compute; repeat split]. Qed.

(** Start whose chain fails: it stops the system itself and returns start-failed(nil); no guard goroutine *)
Example C07_ex_start_fails :
  let s := run ex_cfg (rep 4 (EStep 0 0) ++ [EStep 0 1] ++ rep 8 (EStep 0 0) ++ [ETreeDone] ++ rep 2 (EStep 0 0))%nat (init [SLock]) in
  reachable ex_cfg s /\ thr s = [Done KStart (RStartFailed RNil)] /\ status s = Stopped /\ kills s = 1 /\ spawned s = 0.
Proof. cbv zeta. split; [apply reachable_run; reflexivity|vm_compute; repeat split]. Qed.

(** root creation fails (e.g. invalid advertise address): Start's own Stop finds nothing to kill and returns nil,
    Start returns start-failed(nil): the second disjunct of C07_stop_effect, the hypothesis of C07_skip_only_if_root_failed *)
Example C07_ex_root_fails :
  let s := run ex_cfg (rep 3 (EStep 0 0) ++ [EStep 0 1] ++ rep 7 (EStep 0 0))%nat (init [SLock]) in
  reachable ex_cfg s /\ thr s = [Done KStart (RStartFailed RNil)] /\ status s = Stopped /\ kills s = 0 /\ hasCtx s = false /\
  skipped s = true /\ schedStopped s = true.
Proof. cbv zeta. split; [apply reachable_run; reflexivity|vm_compute; repeat split]. Qed.

(** the call-level specification used by the differential check (Lifecycle.admissible) on a few vectors *)
Example C07_ex_admissible :
  let sq := {| sc_prefix := 9; sc_start_fails := false; sc_blocks := false |} in
  let cc := {| sc_prefix := 0; sc_start_fails := false; sc_blocks := false |} in
  let pc := {| sc_prefix := 1; sc_start_fails := false; sc_blocks := false |} in
  admissible sq [CStart; CStop false; CStop false] [0; 0; 2] = true /\
  admissible sq [CStart; CStop false; CStop false] [0; 0; 0] = false /\
  admissible sq [CStop false; CStart; CStart; CStop true] [3; 0; 1; 4] = true /\
  admissible cc [CStart; CStop false] [0; 3] = true /\
  admissible cc [CStart; CStop false] [2; 0] = false /\
  admissible sq [CStart; CCancel; CStop false] [0; 0; 2] = true /\
  admissible sq [CStart; CCancel; CStop false] [0; 0; 0] = true /\
  admissible pc [CStart; CStop false; CStop false; CStart] [0; 2; 0; 2] = true /\
  admissible pc [CStart; CStop false; CStop false; CStart] [0; 0; 0; 2] = false /\
  admissible pc [CStart; CStop false; CStop false; CStart] [0; 2; 0; 1] = true.
Proof. vm_compute. repeat split. Qed.

(** lock view: Start (metrics: one chain ActorOf) holds statusLock and stands in front of actorOfLock, which an
    external System.ActorOf caller holds, a Stop stands in front of statusLock - the hypotheses of
    C07_lock_no_deadlock / C07_lock_order_acyclic hold in a reachable state with two blocked threads; the
    ActorOf caller can go on *)
Example C07_ex_lock_order :
  LockOrder.reachable (map LockOrder.prog_of LockOrderProofs.ex_shapes) LockOrderProofs.ex_state /\
  (exists t0 r0, nth_error LockOrderProofs.ex_state 0 = Some t0 /\ LockOrder.held t0 = [LockOrder.statusLock] /\
                 LockOrder.todo t0 = LockOrder.Acq LockOrder.actorOfLock :: r0) /\
  LockOrder.step (LockOrder.EStep 0) LockOrderProofs.ex_state = None /\
  LockOrder.step (LockOrder.EStep 2) LockOrderProofs.ex_state = None /\
  exists s', LockOrder.step (LockOrder.EStep 1) LockOrderProofs.ex_state = Some s'.
Proof. exact LockOrderProofs.ex_state_facts. Qed.

(** what the lock-step harness observes on a metrics-enabled system conforms; the inverted stop does not *)
Example C07_ex_lock_conforms :
  LockOrder.conforms 0 true [LockOrder.Acq 0; LockOrder.Acq 1; LockOrder.Rel 1; LockOrder.Rel 0] = true /\
  LockOrder.conforms 1 true [LockOrder.Acq 0; LockOrder.Rel 0] = true /\
  LockOrder.conforms 0 false [LockOrder.Acq 0] = true /\
  LockOrder.conforms 1 true [LockOrder.Acq 1; LockOrder.Acq 0; LockOrder.Rel 0; LockOrder.Rel 1] = false /\
  LockOrder.ordered_prefix [] [LockOrder.Acq 1; LockOrder.Acq 0] = false.
Proof. vm_compute. repeat split. Qed.


(** merged machine: a metrics-enabled system (one System.ActorOf call in the chain). Start holds statusLock and stands in
    front of actorOfLock, which an external System.ActorOf caller holds; a Stop stands in front of statusLock: a reachable
    state meeting the hypotheses of C07_merged_no_deadlock (third disjunct for the Stop, second for the Start),
    C07_merged_lock_hierarchy / C07_merged_status_waiter_holds_nothing; the external caller can step *)
Definition ex_cfg2 : LifeLock.cfg2 :=
  {| LifeLock.c_base := ex_cfg; LifeLock.c_metrics := true; LifeLock.c_remoting := false; LifeLock.c_singletons := false |}.
Definition ex_blocked_evs : list LifeLock.ev2 :=
  [LifeLock.E2Life 0 0; LifeLock.E2Life 0 0; LifeLock.E2Life 0 0; LifeLock.E2Life 0 0; LifeLock.E2Life 0 0;
   LifeLock.E2Ext 0 0; LifeLock.E2Ext 0 0; LifeLock.E2Life 1 0].
Definition ex_merged_blocked : LifeLock.st2 := LifeLock.run2 ex_cfg2 ex_blocked_evs (LifeLock.init2 [SLock; TLock ByStop None] 1).
Example C07_ex_merged_blocked :
  LifeLock.reachable2 ex_cfg2 ex_merged_blocked /\
  nth_error (thr (LifeLock.base ex_merged_blocked)) 0 = Some SChain /\ LifeLock.getsub ex_merged_blocked 0 = LifeLock.AAcq 0 /\
  lock (LifeLock.base ex_merged_blocked) = Some 0%nat /\ LifeLock.alock ex_merged_blocked = Some (LifeLock.OExt 0) /\
  LifeLock.wants_status ex_merged_blocked 1 = true /\
  LifeLock.step2 ex_cfg2 (LifeLock.E2Life 0 0) ex_merged_blocked = None /\
  LifeLock.step2 ex_cfg2 (LifeLock.E2Life 1 0) ex_merged_blocked = None /\
  exists s', LifeLock.step2 ex_cfg2 (LifeLock.E2Ext 0 0) ex_merged_blocked = Some s'.
Proof.
  split; [apply LifeLockProofs.reachable2_run; reflexivity|].
  repeat (split; [vm_compute; reflexivity|]). eexists. vm_compute. reflexivity.
Qed.

(** ... and the whole run to the end on a single-node cluster with metrics (chain: @metrics, @remoting, @cluster, proxy
    manager; stop goes through Leave()): Start nil, Stop nil, guard already-stopped, both locks free *)
Definition ex_cfg3 : LifeLock.cfg2 :=
  {| LifeLock.c_base := {| cfg_cluster := true; cfg_timeout := 5 |}; LifeLock.c_metrics := true; LifeLock.c_remoting := true; LifeLock.c_singletons := false |}.
Fixpoint rep2 (n : nat) (e : LifeLock.ev2) : list LifeLock.ev2 := match n with O => [] | S k => e :: rep2 k e end.
Definition ex_cluster_evs : list LifeLock.ev2 :=
  (rep2 19 (LifeLock.E2Life 0 0) ++ rep2 9 (LifeLock.E2Life 1 0) ++ [LifeLock.E2Leave] ++
   rep2 4 (LifeLock.E2Life 1 0) ++ [LifeLock.E2Tree] ++ rep2 2 (LifeLock.E2Life 1 0) ++ rep2 5 (LifeLock.E2Life 2 0))%nat.
Definition ex_merged_cluster : LifeLock.st2 := LifeLock.run2 ex_cfg3 ex_cluster_evs (LifeLock.init2 [SLock; TLock ByStop None] 0).
Example C07_ex_merged_cluster :
  LifeLock.reachable2 ex_cfg3 ex_merged_cluster /\ length (LifeLock.links ex_cfg3) = 4%nat /\
  thr (LifeLock.base ex_merged_cluster) = [Done KStart RNil; Done KStop RNil; Done KGuard RAlreadyStopped] /\
  LifeLock.alock ex_merged_cluster = None /\ lock (LifeLock.base ex_merged_cluster) = None /\
  LifeLock.clusterNow ex_merged_cluster = true /\ clusterCtx (LifeLock.base ex_merged_cluster) = true /\
  LifeLock.leaveHelper ex_merged_cluster = true /\ status (LifeLock.base ex_merged_cluster) = Stopped /\
  ctxDone (LifeLock.base ex_merged_cluster) = true.
Proof.
  split; [apply LifeLockProofs.reachable2_run; reflexivity|]. vm_compute. repeat split.
Qed.

(** (9): ex_seq and ex_timeout are states with status stop in which an effective stop has returned (nil / stop-failed) *)
Example C07_ex_stop_cancelled :
  eff_returned KStop RNil = true /\ eff_returned KStop RStopFailed = true /\
  hasCtx ex_seq = true /\ ctxDone ex_seq = true /\ hasCtx ex_timeout = true /\ ctxDone ex_timeout = true /\
  status ex_seq = Stopped /\ (leaveReq ex_seq = true -> leaveDone ex_seq = true).
Proof. vm_compute. repeat split. intros H; discriminate H. Qed.

(** (10): two callers against the root's OnKill on the repaired code - a reachable state in which the root waits, every call
    has returned and both children have been sent a kill; the run goes on to the state in which everything is gone *)
Definition ex_race_evs : list RootSpawn.rsev :=
  [RootSpawn.ECall 0; RootSpawn.ECall 1; RootSpawn.ERoot; RootSpawn.ECall 0; RootSpawn.ERoot;
   RootSpawn.ECall 1; RootSpawn.ECall 0; RootSpawn.ECall 1].
Definition ex_race : RootSpawn.rs := RootSpawn.rrun true ex_race_evs (RootSpawn.rinit 2).
Example C07_ex_actorof_race :
  RootSpawn.rreachable true ex_race /\ RootSpawn.rp ex_race = RootSpawn.RWait /\ RootSpawn.children ex_race = [1; 0]%nat /\
  RootSpawn.callers ex_race = [RootSpawn.ADone (Some 0%nat); RootSpawn.ADone (Some 1%nat)] /\
  (forall ch, In ch (RootSpawn.children ex_race) -> In ch (RootSpawn.killSent ex_race)) /\
  RootSpawn.rp (RootSpawn.rrun true [RootSpawn.EDie 0; RootSpawn.EDie 1; RootSpawn.ERoot] ex_race) = RootSpawn.RDead /\
  RootSpawn.children (RootSpawn.rrun true [RootSpawn.EDie 0; RootSpawn.EDie 1; RootSpawn.ERoot] ex_race) = [].
Proof.
  split; [apply RootSpawnProofs.rreachable_run|]. vm_compute. repeat split.
  intros ch [<-|[<-|[]]]; auto.
Qed.

Print Assumptions C07_mutex.
Print Assumptions C07_lock_released.
Print Assumptions C07_no_deadlock.
Print Assumptions C07_quiescent.
Print Assumptions C07_own_steps.
Print Assumptions C07_termination.
Print Assumptions C07_linearisation.
Print Assumptions C07_returns.
Print Assumptions C07_first_start_unique.
Print Assumptions C07_effective_stop_unique.
Print Assumptions C07_select.
Print Assumptions C07_one_way.
Print Assumptions C07_one_way_run.
Print Assumptions C07_stop_before_start.
Print Assumptions C07_one_kill.
Print Assumptions C07_cancel_is_stop.
Print Assumptions C07_stop_terminates.
Print Assumptions C07_stop_terminates_after_start.
Print Assumptions C07_stop_effect.
Print Assumptions C07_stop_failed_effect.
Print Assumptions C07_created.
Print Assumptions C07_goroutines.
Print Assumptions C07_start_holds_lock.
Print Assumptions C07_root_nil_only_in_start_or_failed.
Print Assumptions C07_skip_only_if_root_failed.
Print Assumptions C07_lock_hierarchy_sound.
Print Assumptions C07_lock_programs_ordered.
Print Assumptions C07_lock_no_deadlock.
Print Assumptions C07_lock_mutex.
Print Assumptions C07_lock_order_acyclic.
Print Assumptions C07_status_waiter_holds_nothing.
Print Assumptions C07_lock_inversion_deadlocks.
Print Assumptions C07_merged_refines.
Print Assumptions C07_merged_step_refines.
Print Assumptions C07_merged_stop_terminates.
Print Assumptions C07_merged_actorOf_mutex.
Print Assumptions C07_merged_actorOf_holder.
Print Assumptions C07_merged_status_mutex.
Print Assumptions C07_merged_lock_hierarchy.
Print Assumptions C07_merged_status_waiter_holds_nothing.
Print Assumptions C07_merged_env_waiter_holds_nothing.
Print Assumptions C07_merged_no_deadlock.
Print Assumptions C07_merged_some_thread_can_step.
Print Assumptions C07_merged_actorOf_holder_progress.
Print Assumptions C07_merged_status_holder_progress.
Print Assumptions C07_merged_own_steps.
Print Assumptions C07_returned_stop_cancelled.
Print Assumptions C07_select_after_cancel.
Print Assumptions C07_stopped_system_quiesces.
Print Assumptions C07_effective_stop_quiesces.
Print Assumptions C07_actorof_registered_child_is_killed.
Print Assumptions C07_actorof_root_wait_progress.
Print Assumptions C07_actorof_quiescent_all_terminated.
Print Assumptions C07_actorof_stale_read_orphans.
Print Assumptions C07_actorof_stale_read_survivor.
Print Assumptions C07_merged_cluster_field_settled.
Print Assumptions C07_merged_cluster_read_consistent.
