(** C17 (parts 2, 3 and 4; one file so that one coqc run checks them).

    PART 2 — every configuration of MergeFromWithOptions: the three VersionConcurrentStrategy
    values, the clock-skew test, the Epoch / Timestamp adoption; IsNewerThan as a strict weak order;
    the counts of recomputeCounts.  Statements only; proofs in Cluster/ViewCfgProofs.v.

    Reading guide (in addition to Properties/C17.v).
      adopts sk st now v o  =  negb (skew_skip sk now (vw_ts o)) &&
                               negb (is_concurrent (vw_vv v) (vw_vv o) && (st =? 1))
        is `!skipEpochTimestamp && adoptEpochTimestamp` of the code: the merge looks at other's
        Epoch/Timestamp at all.  st: 0 TakeMax, 1 PreferLocal, 2 PreferRemote, anything else = the
        `default:` arm.  sk = MaxClockSkew in ns, now = time.Now().UnixNano().
      skew_far sk now ots   =  (0 <? sk) && (sk <? |now - ots|)      the skew test without int64 wrap
      mcfg P e              :  every merge node of the expression e has a configuration satisfying P
      cfg_max_noskew sk st now  =  sk <= 0 /\ st <> 1
      mepoch_max e / mts_max e  :  the largest epoch / view timestamp among the leaves of e
      mleft e               :  the leftmost leaf (the view all others are merged into)
      up_members m          :  the members whose Status is Up
    "Never lowers the epoch" for EVERY configuration is C17_epoch_monotone (Properties/C17.v); here it is
    sharpened to the exact value per configuration. *)
From Coq Require Import List NArith ZArith Lia.
From stdpp Require Import gmap.
From Vivid Require Import Codec.Prim Cluster.VV Cluster.VVProofs Cluster.View Cluster.ViewProofs
  Cluster.ViewCfg Cluster.ViewCfgProofs Cluster.ViewFull Cluster.ViewFullProofs Cluster.ViewHeap Cluster.ViewHeapProofs
  Codec.MsgPrim Cluster.ViewWire.
From Vivid Require Codec.ClusterMsgs.
Local Open Scope N_scope.

(** ** Epoch and view timestamp: the exact result, every strategy, every skew setting, every clock *)

Theorem C17_epoch_exact sk st now v o :
  vw_members o <> ∅ ->
  vw_epoch (fst (view_merge sk st now v o)) =
    (if adopts sk st now v o then Z.max (vw_epoch v) (vw_epoch o) else vw_epoch v) /\
  vw_ts (fst (view_merge sk st now v o)) =
    (if adopts sk st now v o then Z.max (vw_ts v) (vw_ts o) else vw_ts v).
Proof. exact (merge_epoch_ts_exact sk st now v o). Qed.

(** an argument view without members is ignored altogether - epoch, timestamp, vector, flag *)
Theorem C17_empty_argument_ignored sk st now v o :
  vw_members o = ∅ -> view_merge sk st now v o = (v, false).
Proof. exact (merge_empty_arg sk st now v o). Qed.

(** [adopts] per strategy: PreferLocal refuses on concurrent vectors; every other value never refuses *)
Theorem C17_adopts_per_strategy sk st now v o :
  adopts sk st now v o =
  negb (skew_skip sk now (vw_ts o)) &&
  (if (st =? 1)%Z then negb (is_concurrent (vw_vv v) (vw_vv o)) else true).
Proof. exact (adopts_cases sk st now v o). Qed.

(** PreferRemote (2) and every out-of-range strategy value ARE TakeMax: the whole result and the flag
    coincide.  In particular PreferRemote does not "force-adopt" a lower remote epoch - which is what
    keeps "never lowers the epoch" true for it. *)
Theorem C17_strategy_collapse sk st now v o :
  st <> 1%Z -> view_merge sk st now v o = view_merge sk 0 now v o.
Proof. exact (strategy_collapse sk st now v o). Qed.

(** PreferLocal is TakeMax unless the two vectors are concurrent *)
Theorem C17_prefer_local_when_ordered sk now v o :
  is_concurrent (vw_vv v) (vw_vv o) = false -> view_merge sk 1 now v o = view_merge sk 0 now v o.
Proof. exact (prefer_local_when_ordered sk now v o). Qed.

(** what NO configuration can influence: the complete member states, the whole version vector, the
    counts, the protocol version, MaxVersionVectorEntries of the result ... *)
Theorem C17_config_independent sk st now sk' st' now' v o :
  vw_members (fst (view_merge sk st now v o)) = vw_members (fst (view_merge sk' st' now' v o)) /\
  vw_vv (fst (view_merge sk st now v o)) = vw_vv (fst (view_merge sk' st' now' v o)) /\
  vw_healthy (fst (view_merge sk st now v o)) = vw_healthy (fst (view_merge sk' st' now' v o)) /\
  vw_unhealthy (fst (view_merge sk st now v o)) = vw_unhealthy (fst (view_merge sk' st' now' v o)) /\
  vw_quorum (fst (view_merge sk st now v o)) = vw_quorum (fst (view_merge sk' st' now' v o)) /\
  vw_proto (fst (view_merge sk st now v o)) = vw_proto (fst (view_merge sk' st' now' v o)) /\
  vw_maxent (fst (view_merge sk st now v o)) = vw_maxent (fst (view_merge sk' st' now' v o)).
Proof. exact (config_independent sk st now sk' st' now' v o). Qed.

(** ... and `changed` of two configurations differs only if the epoch or the view timestamp does *)
Theorem C17_changed_config_dependence sk st now sk' st' now' v o :
  vw_epoch (fst (view_merge sk st now v o)) = vw_epoch (fst (view_merge sk' st' now' v o)) ->
  vw_ts (fst (view_merge sk st now v o)) = vw_ts (fst (view_merge sk' st' now' v o)) ->
  snd (view_merge sk st now v o) = snd (view_merge sk' st' now' v o).
Proof. exact (changed_config_dependence sk st now sk' st' now' v o). Qed.

(** ** Order (in)sensitivity of the epoch, per kind of configuration *)

(** every configuration, every merge expression: the epoch (view timestamp) lies between the one of the
    view everything is merged into and the maximum over all views, and is the epoch of one of them *)
Theorem C17_epoch_bounds_any_config e :
  (vw_epoch (mleft e) <= vw_epoch (meval e) <= mepoch_max e)%Z /\
  (vw_ts (mleft e) <= vw_ts (meval e) <= mts_max e)%Z /\
  (exists v, v ∈ mleaves e /\ vw_epoch (meval e) = vw_epoch v) /\
  (exists v, v ∈ mleaves e /\ vw_ts (meval e) = vw_ts v).
Proof.
  exact (conj (proj1 (meval_epoch_bounds e)) (conj (proj2 (meval_epoch_bounds e)) (meval_epoch_is_a_leaf e))).
Qed.

(** TakeMax / PreferRemote / out-of-range strategies with the skew test off, views that have members:
    the epoch and the view timestamp of ANY merge expression are the maxima over its leaves ... *)
Theorem C17_epoch_is_max_takemax_noskew e :
  mcfg cfg_max_noskew e -> Forall (fun v => vw_members v <> ∅) (mleaves e) ->
  vw_epoch (meval e) = mepoch_max e /\ vw_ts (meval e) = mts_max e.
Proof. exact (meval_epoch_max e). Qed.

(** ... hence the same for every order and tree shape over the same views *)
Theorem C17_epoch_any_order_takemax_noskew e1 e2 :
  mcfg cfg_max_noskew e1 -> mcfg cfg_max_noskew e2 ->
  Forall (fun v => vw_members v <> ∅) (mleaves e1) -> mleaves e1 ≡ₚ mleaves e2 ->
  vw_epoch (meval e1) = vw_epoch (meval e2) /\ vw_ts (meval e1) = vw_ts (meval e2).
Proof. exact (epoch_order_insensitive_max_noskew e1 e2). Qed.

(** NOT so for PreferLocal (concurrent vectors), NOT so with the skew test on, NOT so when a view has
    no members - each with well-formed witnesses; the membership is order-independent all the same.
    (The property claims order-insensitivity of the membership only; these delimit the claim.) *)
Theorem C17_epoch_order_sensitive_prefer_local :
  exists a b, WF a /\ WF b /\ VVin a /\ VVin b /\ vw_members a <> ∅ /\ vw_members b <> ∅ /\
    vw_epoch (fst (view_merge 0 1 0 a b)) <> vw_epoch (fst (view_merge 0 1 0 b a)) /\
    proj (fst (view_merge 0 1 0 a b)) = proj (fst (view_merge 0 1 0 b a)).
Proof. exact epoch_order_sensitive_prefer_local. Qed.

Theorem C17_epoch_order_sensitive_skew :
  exists a b, WF a /\ WF b /\ VVin a /\ VVin b /\ vw_members a <> ∅ /\ vw_members b <> ∅ /\
    vw_epoch (fst (view_merge 10 0 100 a b)) <> vw_epoch (fst (view_merge 10 0 100 b a)) /\
    proj (fst (view_merge 10 0 100 a b)) = proj (fst (view_merge 10 0 100 b a)).
Proof. exact epoch_order_sensitive_skew. Qed.

Theorem C17_epoch_order_sensitive_empty_view :
  exists a b, WF a /\ WF b /\ VVin a /\ VVin b /\ vw_members a = ∅ /\
    vw_epoch (fst (view_merge 0 0 0 a b)) <> vw_epoch (fst (view_merge 0 0 0 b a)).
Proof. exact epoch_order_sensitive_empty. Qed.

(** ** The clock-skew test *)

(** MaxClockSkew <= 0 switches it off *)
Theorem C17_skew_off sk now ots : (sk <= 0)%Z -> skew_skip sk now ots = false.
Proof. exact (skew_off sk now ots). Qed.

(** without int64 overflow of `now - other.Timestamp` it is exactly 0 < skew < |now - other.Timestamp| *)
Theorem C17_skew_test_exact sk now ots :
  (- two63 < now - ots < two63)%Z -> skew_skip sk now ots = skew_far sk now ots.
Proof. exact (skew_skip_exact sk now ots). Qed.

(** with overflow the farthest possible timestamp counts as near (only a wire-decoded view timestamp
    can be 2^63 away from the clock; the epoch is then merely not protected by the skew test) *)
Theorem C17_skew_test_wraps :
  skew_far 1000 1 (1 - two63) = true /\ skew_skip 1000 1 (1 - two63) = false.
Proof. exact skew_wrap_example. Qed.

(** ** IsNewerThan on the well-formed states of one node: a strict weak order whose indifference is
    "same incarnation" (with C17_isnewer_strict_order: irreflexive, asymmetric, transitive) *)

Theorem C17_isnewer_trichotomy a b :
  ns_id a = ns_id b -> wf_state a -> wf_state b ->
  (isnewer a b = true /\ isnewer b a = false /\ inc_of a <> inc_of b) \/
  (isnewer a b = false /\ isnewer b a = true /\ inc_of a <> inc_of b) \/
  (isnewer a b = false /\ isnewer b a = false /\ inc_of a = inc_of b).
Proof. exact (isnewer_trichotomy a b). Qed.

Theorem C17_isnewer_negatively_transitive a b c :
  ns_id a = ns_id b -> ns_id b = ns_id c -> wf_state a -> wf_state b -> wf_state c ->
  isnewer a b = false -> isnewer b c = false -> isnewer a c = false.
Proof. exact (isnewer_neg_trans a b c). Qed.

(** across node ids it is no order even on well-formed states (the logical clock is skipped, the
    timestamp decides): a 3-cycle.  The merge never compares across ids (one key, and WF makes the key
    the id); IsNewerThan must not be used as an order on NodeState as such. *)
Theorem C17_isnewer_cross_id_cycle :
  exists a b c, wf_state a /\ wf_state b /\ wf_state c /\ ns_id a = ns_id b /\ ns_id b <> ns_id c /\
    isnewer a b = true /\ isnewer b c = true /\ isnewer c a = true.
Proof. exact isnewer_cross_id_cycle. Qed.

(** ** recomputeCounts: after a merge the counts are those of the resulting member map *)
Theorem C17_counts_after_merge sk st now v o :
  vw_members o <> ∅ ->
  vw_healthy (fst (view_merge sk st now v o)) =
    N.of_nat (size (up_members (vw_members (fst (view_merge sk st now v o))))) /\
  vw_healthy (fst (view_merge sk st now v o)) + vw_unhealthy (fst (view_merge sk st now v o)) =
    N.of_nat (size (vw_members (fst (view_merge sk st now v o)))) /\
  vw_quorum (fst (view_merge sk st now v o)) =
    (if 0 <? vw_healthy (fst (view_merge sk st now v o))
     then vw_healthy (fst (view_merge sk st now v o)) / 2 + 1 else 0) /\
  (0 < vw_healthy (fst (view_merge sk st now v o)) ->
     vw_healthy (fst (view_merge sk st now v o)) < 2 * vw_quorum (fst (view_merge sk st now v o)) /\
     vw_quorum (fst (view_merge sk st now v o)) <= vw_healthy (fst (view_merge sk st now v o))).
Proof. exact (merge_counts sk st now v o). Qed.

(** ** Non-vacuity *)

(** the hypotheses of the order-insensitivity theorem are met by a three-leaf expression with PreferRemote,
    TakeMax and an out-of-range strategy, negative and zero skew, and a permutation of it *)
Example C17_epoch_any_order_example :
  let a := w_ept ida 1 100 in let b := w_ept idb 2 300 in let c := w_ept [99] 0 200 in
  vw_epoch (meval (MNode 0 2 5 (MNode (-1) 0 9 (MLeaf a) (MLeaf b)) (MLeaf c))) = 2%Z /\
  vw_epoch (meval (MNode 0 7 1 (MLeaf c) (MNode 0 0 0 (MLeaf b) (MLeaf a)))) = 2%Z /\
  vw_ts (meval (MNode 0 7 1 (MLeaf c) (MNode 0 0 0 (MLeaf b) (MLeaf a)))) = 300%Z.
Proof.
  cbn zeta.
  assert (Hn : Forall (fun v => vw_members v <> ∅) [w_ept ida 1 100; w_ept idb 2 300; w_ept [99] 0 200]).
  { repeat (apply Forall_cons; split; [apply w_ept_wf; discriminate|]). apply Forall_nil. exact I. }
  assert (C1 : mcfg cfg_max_noskew (MNode 0 2 5 (MNode (-1) 0 9 (MLeaf (w_ept ida 1 100)) (MLeaf (w_ept idb 2 300))) (MLeaf (w_ept [99] 0 200)))).
  { cbn. unfold cfg_max_noskew. repeat split; lia. }
  assert (C2 : mcfg cfg_max_noskew (MNode 0 7 1 (MLeaf (w_ept [99] 0 200)) (MNode 0 0 0 (MLeaf (w_ept idb 2 300)) (MLeaf (w_ept ida 1 100))))).
  { cbn. unfold cfg_max_noskew. repeat split; lia. }
  destruct (meval_epoch_max _ C1 Hn) as [E1 _].
  destruct (meval_epoch_max _ C2) as [E2 T2].
  { cbn [mleaves app]. apply Forall_cons; split; [apply w_ept_wf; discriminate|].
    apply Forall_cons; split; [apply w_ept_wf; discriminate|].
    apply Forall_cons; split; [apply w_ept_wf; discriminate|]. apply Forall_nil. exact I. }
  rewrite E1, E2, T2. cbn. auto.
Qed.

(** well-formed states of one node in each of the three trichotomy cases *)
Example C17_isnewer_trichotomy_example :
  let s g l := NState ida [] g 5 0 1 l 0 in
  wf_state (s 2%Z 1) /\ wf_state (s 1%Z 3) /\
  isnewer (s 2%Z 1) (s 1%Z 3) = true /\ isnewer (s 1%Z 3) (s 2%Z 1) = false /\
  isnewer (s 1%Z 3) (s 1%Z 3) = false.
Proof. cbn zeta. split; [split; cbn; lia|]. split; [split; cbn; lia|]. vm_compute. auto. Qed.

(* ====================================================================================== *)

(** PART 3 — the COMPLETE ClusterView / NodeState (all fields, nil maps, nil entries) and the
    mechanism "stored states are clones" at the level of Go pointers.  Statements only; proofs in
    Cluster/ViewFullProofs.v and Cluster/ViewHeapProofs.v; models in Cluster/ViewFull.v, Cluster/ViewHeap.v.

    Reading guide - complete values (ViewFull.v).
      fstate  = NodeState with all 13 fields: fs_core (the 8 fields of View.nstate), ClusterName,
                Unreachable, Metadata, Labels (option smap: None = nil map, Some ∅ = empty non-nil map),
                Checksum.
      fview   = ClusterView with all 10 fields: ViewID, Members : option (gmap id (option fstate))
                (None = nil map, an entry Some None = a nil *NodeState), and the base fields.
      fv_map v          the Members map, ∅ for nil
      f_merge sk st now v o   v.MergeFromWithOptions(o, ..) on complete values, as the code runs it
                (`if otherState == nil {continue}`, IsNewerThan(nil) = true, `if v.Members == nil {make}`,
                 len(other.Members) counting nil entries); f_add / f_remove / f_snapshot / f_recompute likewise
      erase v           the core view of Properties/C17.v: non-nil entries, core fields
      nonil v           Members is a non-nil map without nil entries (what every operation produces from
                        such views, and what the wire reader produces); nonil_entries v allows the nil map
      feval / fleaves / ferase   merge expressions over complete views (as meval / mleaves)
    Pointer level (ViewHeap.v).
      heap              locations -> cells; a cell is a NodeState object (whose Metadata / Labels are
                        locations of map objects or nil) or a map[string]string object; h_next = allocation counter
      hview             a ClusterView whose Members hold locations
      abs_view h v      the complete value the view denotes in heap h
      h_clone / h_merge / h_add / h_snapshot    Clone / MergeFromWithOptions / AddMember / Snapshot on pointers
      hwf h             every allocated location is below h_next;  vclosed h v: every pointer of v is live in h
      hext h h'         h' has every cell of h with the same contents (nothing was written, only allocated)
      vlocs h v l       the view reaches cell l (a member's object, or a map of a member's object)
      vsep h v o        v and o reach no common cell;  vsep_but_empty_maps: only cells holding an empty map
      h_map_insert h l k x   `m[k] = x` on the map object l;  h_set_status h l st   `n.Status = st` on the object l
      no_empty_maps h o no state of o has an empty non-nil map *)

(** ** The complete merge IS the core merge on what recomputeCounts / IsNewerThan can see *)

(** for an argument view without nil entries (a nil Members map is fine): same core view, same `changed`.
    Every theorem of Properties/C17.v and C17_cfg.v about [view_merge] therefore speaks about the complete
    ClusterView, whatever ClusterName / Unreachable / Metadata / Labels / Checksum / ViewID hold and whether
    v has nil entries or a nil map. *)
Theorem C17_full_merge_is_core_merge sk st now v o :
  nonil_entries o ->
  erase (fst (f_merge sk st now v o)) = fst (view_merge sk st now (erase v) (erase o)) /\
  snd (f_merge sk st now v o) = snd (view_merge sk st now (erase v) (erase o)).
Proof. exact (f_merge_erase sk st now v o). Qed.

(** likewise AddMember, RemoveMember, Snapshot, recomputeCounts *)
Theorem C17_full_operations_are_core_operations :
  (forall v s, erase (f_add v s) = view_add (erase v) (fs_core s)) /\
  (forall v k, fv_map v !! k <> Some None -> erase (f_remove v k) = view_remove (erase v) k) /\
  (forall v, erase (f_snapshot v) = view_snapshot (erase v)) /\
  (forall v, erase (f_recompute v) = recompute (erase v)).
Proof. exact (conj f_add_erase (conj f_remove_erase (conj f_snapshot_erase f_recompute_erase))). Qed.

(** the hypothesis is needed: a view holding nothing but nil entries is not ignored by the code
    (len(other.Members) counts them) and its epoch is adopted.  No operation and no wire input builds one. *)
Theorem C17_full_nil_only_view_not_ignored :
  let o := FView [] (Some {[ [97] := None ]}) 7 0 0 0 0 ∅ 1 0 in
  let v := f_new_view [] 0 0 in
  vw_members (erase o) = ∅ /\
  fv_epoch (fst (f_merge 0 0 0 v o)) = 7%Z /\ snd (f_merge 0 0 0 v o) = true /\
  view_merge 0 0 0 (erase v) (erase o) = (erase v, false).
Proof. exact f_merge_only_nil_entries. Qed.

(** ** A merge moves complete states, never parts of them *)

(** every state stored after a merge is - with all 13 fields - the state v had under that id or the
    state the argument view has under that id *)
Theorem C17_full_merge_moves_whole_states sk st now v o k s :
  fv_map (fst (f_merge sk st now v o)) !! k = Some (Some s) ->
  fv_map v !! k = Some (Some s) \/ fv_map o !! k = Some (Some s).
Proof. exact (f_merge_whole_states sk st now v o k s). Qed.

(** every entry of v stays (a nil entry too); it is unchanged or replaced by the argument's complete
    state which IsNewerThan it (always, for a nil entry) *)
Theorem C17_full_merge_keeps_entries sk st now v o k e :
  fv_map v !! k = Some e ->
  exists e', fv_map (fst (f_merge sk st now v o)) !! k = Some e' /\
    (e' = e \/ exists xs, e' = Some xs /\ fv_map o !! k = Some (Some xs) /\ f_isnewer xs e = true).
Proof. exact (f_merge_keeps_entries sk st now v o k e). Qed.

(** a merge creates no nil entry; nil-free stays nil-free; ViewID and MaxVersionVectorEntries are v's *)
Theorem C17_full_merge_nil_and_identity sk st now v o :
  (forall k, fv_map (fst (f_merge sk st now v o)) !! k = Some None -> fv_map v !! k = Some None) /\
  (nonil v -> nonil (fst (f_merge sk st now v o))) /\
  fv_id (fst (f_merge sk st now v o)) = fv_id v /\ fv_maxent (fst (f_merge sk st now v o)) = fv_maxent v.
Proof.
  exact (conj (f_merge_nil_entries sk st now v o)
        (conj (f_merge_nonil sk st now v o) (f_merge_id sk st now v o))).
Qed.

(** Snapshot and AddMember produce / keep nil-free views *)
Theorem C17_full_nonil_invariant :
  (forall i now mx, nonil (f_new_view i now mx)) /\
  (forall v s, nonil v -> nonil (f_add v s)) /\
  (forall v, nonil (f_snapshot v)).
Proof. exact (conj f_new_view_nonil (conj f_add_nonil f_snapshot_nonil)). Qed.

(** ** The property for the complete ClusterView *)

(** whatever order: two merge expressions (any tree shape, options and clock per merge) over the same
    nil-free complete views with well-formed members produce the same membership *)
Theorem C17_full_any_merge_order e1 e2 :
  Forall nonil (fleaves e1) -> Forall (fun v => WF (erase v)) (fleaves e1) -> fleaves e1 ≡ₚ fleaves e2 ->
  proj (erase (feval e1)) = proj (erase (feval e2)).
Proof. exact (f_merge_order_insensitive e1 e2). Qed.

(** the erasure of a complete merge expression is the core merge expression of the erasures *)
Theorem C17_full_merge_expression e :
  Forall nonil (fleaves e) -> erase (feval e) = meval (ferase e) /\ nonil (feval e).
Proof. exact (feval_erase e). Qed.

(** never replaces a member's complete state by one of an older incarnation *)
Theorem C17_full_no_regression sk st now v o k s :
  nonil_entries o -> WF (erase v) -> WF (erase o) ->
  fv_map v !! k = Some (Some s) ->
  exists s', fv_map (fst (f_merge sk st now v o)) !! k = Some (Some s') /\
             inc_lt (inc_of (fs_core s')) (inc_of (fs_core s)) = false.
Proof. exact (f_merge_no_regression sk st now v o k s). Qed.

(** ** Pointers: Clone *)

(** n.Clone(): only allocates; the new object is fresh and denotes the same complete value; each of its
    two maps is a fresh object or - when the map of n is empty and non-nil - the very map object of n *)
Theorem C17_clone_spec h s :
  hwf h -> sclosed h s ->
  hext h (fst (h_clone h s)) /\ hwf (fst (h_clone h s)) /\
  h_next h <= snd (h_clone h s) /\ snd (h_clone h s) < h_next (fst (h_clone h s)) /\
  exists s', h_state (fst (h_clone h s)) (snd (h_clone h s)) = Some s' /\
    abs_state (fst (h_clone h s)) s' = abs_state h s /\ sclosed (fst (h_clone h s)) s' /\
    hs_core s' = hs_core s /\
    (forall l, smaps s' l ->
       (h_next h <= l /\ l < h_next (fst (h_clone h s))) \/ (smaps s l /\ h_map h l = Some ∅)).
Proof. exact (clone_spec h s). Qed.

(** ** Pointers: the three operations compute the value-level ones and write no existing cell *)

Theorem C17_ptr_merge_refines sk st now h v o :
  hwf h -> vclosed h v -> vclosed h o ->
  abs_view (fst (fst (h_merge sk st now h v o))) (snd (fst (h_merge sk st now h v o))) =
    fst (f_merge sk st now (abs_view h v) (abs_view h o)) /\
  snd (h_merge sk st now h v o) = snd (f_merge sk st now (abs_view h v) (abs_view h o)) /\
  hext h (fst (fst (h_merge sk st now h v o))) /\ hwf (fst (fst (h_merge sk st now h v o))) /\
  vclosed (fst (fst (h_merge sk st now h v o))) (snd (fst (h_merge sk st now h v o))).
Proof. exact (merge_refines sk st now h v o). Qed.

(** the argument view - and every other view or snapshot living in the heap - denotes the same complete
    value after the merge ("never modifies its argument", for all fields) *)
Theorem C17_ptr_merge_frame sk st now h v o w :
  hwf h -> vclosed h v -> vclosed h o -> vclosed h w ->
  abs_view (fst (fst (h_merge sk st now h v o))) w = abs_view h w.
Proof. exact (merge_frame sk st now h v o w). Qed.

Theorem C17_ptr_snapshot_refines h v :
  hwf h -> vclosed h v ->
  abs_view (fst (h_snapshot h v)) (snd (h_snapshot h v)) = f_snapshot (abs_view h v) /\
  hext h (fst (h_snapshot h v)) /\ hwf (fst (h_snapshot h v)) /\ vclosed (fst (h_snapshot h v)) (snd (h_snapshot h v)).
Proof. exact (snapshot_refines h v). Qed.

Theorem C17_ptr_add_refines h v l s :
  hwf h -> vclosed h v -> h_state h l = Some s -> sclosed h s ->
  abs_view (fst (h_add h v l)) (snd (h_add h v l)) = f_add (abs_view h v) (abs_state h s) /\
  hext h (fst (h_add h v l)) /\ hwf (fst (h_add h v l)) /\ vclosed (fst (h_add h v l)) (snd (h_add h v l)).
Proof. exact (add_refines h v l s). Qed.

(** ** The mechanism "stored states are clones" - as far as it holds
    (the [_partial] theorems are about this mechanism of the anchors, not about a clause of the property's
    statement; the clause "never modifies / never regresses" is C17_ptr_merge_frame and the value-level theorems) *)

(** after v.MergeFromWithOptions(o): views that shared no cell share nothing but EMPTY maps *)
Theorem C17_stored_states_are_clones_partial sk st now h v o :
  hwf h -> vclosed h v -> vclosed h o -> vsep h v o ->
  vsep_but_empty_maps (fst (fst (h_merge sk st now h v o))) (snd (fst (h_merge sk st now h v o))) o.
Proof. exact (merge_sharing sk st now h v o). Qed.

(** a Snapshot shares nothing but empty maps with the view it was taken from *)
Theorem C17_snapshot_is_deep_copy_partial h v :
  hwf h -> vclosed h v ->
  vsep_but_empty_maps (fst (h_snapshot h v)) (snd (h_snapshot h v)) v.
Proof. exact (snapshot_sharing h v). Qed.

(** after AddMember(member) the view reaches what it reached before, fresh cells, or an empty map of
    the caller's state - never the caller's object, never a non-empty map of it *)
Theorem C17_add_member_stores_clone_partial h v lc s l :
  hwf h -> vclosed h v -> h_state h lc = Some s -> sclosed h s ->
  vlocs (fst (h_add h v lc)) (snd (h_add h v lc)) l ->
  vlocs h v l \/ h_next h <= l \/ (h_map h l = Some ∅ /\ smaps s l).
Proof. exact (add_sharing h v lc s l). Qed.

(** a later write (a map entry, a Status set in place) to a cell a view does not reach does not change
    what the view denotes *)
Theorem C17_write_frame h v l k x st :
  ~ vlocs h v l ->
  abs_view (h_map_insert h l k x) v = abs_view h v /\ abs_view (h_set_status h l st) v = abs_view h v.
Proof. exact (write_frame h v l k x st). Qed.

(** hence: if no state of the argument view has an empty non-nil map, the two views are independent
    after the merge - whatever the owner of one writes later does not show in the other *)
Theorem C17_merge_independent_partial sk st now h v o :
  hwf h -> vclosed h v -> vclosed h o -> vsep h v o -> no_empty_maps h o ->
  vsep (fst (fst (h_merge sk st now h v o))) (snd (fst (h_merge sk st now h v o))) o /\
  forall l k x s,
    (vlocs (fst (fst (h_merge sk st now h v o))) o l ->
       abs_view (h_map_insert (fst (fst (h_merge sk st now h v o))) l k x) (snd (fst (h_merge sk st now h v o))) =
         abs_view (fst (fst (h_merge sk st now h v o))) (snd (fst (h_merge sk st now h v o))) /\
       abs_view (h_set_status (fst (fst (h_merge sk st now h v o))) l s) (snd (fst (h_merge sk st now h v o))) =
         abs_view (fst (fst (h_merge sk st now h v o))) (snd (fst (h_merge sk st now h v o)))) /\
    (vlocs (fst (fst (h_merge sk st now h v o))) (snd (fst (h_merge sk st now h v o))) l ->
       abs_view (h_map_insert (fst (fst (h_merge sk st now h v o))) l k x) o = abs_view (fst (fst (h_merge sk st now h v o))) o /\
       abs_view (h_set_status (fst (fst (h_merge sk st now h v o))) l s) o = abs_view (fst (fst (h_merge sk st now h v o))) o).
Proof. exact (merge_independent_partial sk st now h v o). Qed.

(** ** ... and where the MECHANISM fails (report-only observation, NOT a violation of C17)

    What follows refutes the mechanism "stored states are clones" for empty non-nil maps - a true
    statement about the pointer-level model and the code.  It does not refute the PROPERTY: C17 speaks
    of membership, incarnations, epoch, version-vector entries and `changed`, none of which reads
    Metadata / Labels, and no operation in the property's quantifier (joins, restarts, status changes,
    merges) writes a state's maps after the state entered a view; only user code doing so could
    observe the sharing.  The harness records in its report whether the observation still reproduces
    (info.observations.clone-shares-empty-map); it raises no monitor. *)

(** the guard of C17_merge_independent_partial is necessary and is not met by the very states newNodeState makes (both maps empty and
    non-nil): rx_h is the heap after `s := newNodeState("b", ..)`, rx_o a view holding s, rx_v an empty
    view; they share no cell.  After rx_v.MergeFrom(rx_o) the clone stored in rx_v has the SAME Labels map
    object (cell 1) as s: `Labels["k"] = "x"` on it changes what rx_o denotes. *)
Theorem C17_clone_shares_empty_map_refuted :
  hwf rx_h /\ vclosed rx_h rx_v /\ vclosed rx_h rx_o /\ vsep rx_h rx_v rx_o /\
  vlocs (fst (fst (h_merge 0 0 0 rx_h rx_v rx_o))) (snd (fst (h_merge 0 0 0 rx_h rx_v rx_o))) 1 /\
  vlocs (fst (fst (h_merge 0 0 0 rx_h rx_v rx_o))) rx_o 1 /\
  h_map (fst (fst (h_merge 0 0 0 rx_h rx_v rx_o))) 1 = Some ∅ /\
  rx_labels_size (fst (fst (h_merge 0 0 0 rx_h rx_v rx_o))) rx_o = Some 0%nat /\
  rx_labels_size (h_map_insert (fst (fst (h_merge 0 0 0 rx_h rx_v rx_o))) 1 [107] [120]) rx_o = Some 1%nat /\
  rx_labels_size (h_map_insert (fst (fst (h_merge 0 0 0 rx_h rx_v rx_o))) 1 [107] [120])
                 (snd (fst (h_merge 0 0 0 rx_h rx_v rx_o))) = Some 1%nat /\
  abs_view (h_map_insert (fst (fst (h_merge 0 0 0 rx_h rx_v rx_o))) 1 [107] [120]) rx_o <>
    abs_view (fst (fst (h_merge 0 0 0 rx_h rx_v rx_o))) rx_o.
Proof. exact merge_shares_empty_map. Qed.

(** ** Non-vacuity *)

(** two complete one-member views as the code builds them (newNodeState, Labels set, AddMember): nil-free,
    well formed; the merge adopts b with every field, keeps a, keeps the ViewID, reports the change *)
Example C17_full_hypotheses_satisfiable :
  nonil fx_a /\ nonil fx_b /\ WF (erase fx_a) /\ WF (erase fx_b) /\
  fv_map (fst (f_merge 0 0 0 fx_a fx_b)) !! [98] = Some (Some (fx_state [98] [50])) /\
  fv_map (fst (f_merge 0 0 0 fx_a fx_b)) !! [97] = Some (Some (fx_state [97] [49])) /\
  fv_id (fst (f_merge 0 0 0 fx_a fx_b)) = [1] /\ snd (f_merge 0 0 0 fx_a fx_b) = true.
Proof. exact fx_example. Qed.

(** the hypotheses of C17_merge_independent_partial: a state with nil Metadata and a one-entry Labels
    map; the merge adopts it (changed = true) and the adopted clone has its own one-entry Labels map *)
Example C17_merge_independent_hypotheses_satisfiable :
  hwf px_h /\ vclosed px_h rx_v /\ vclosed px_h px_o /\ vsep px_h rx_v px_o /\ no_empty_maps px_h px_o /\
  snd (h_merge 0 0 0 px_h rx_v px_o) = true /\
  rx_labels_size (fst (fst (h_merge 0 0 0 px_h rx_v px_o))) (snd (fst (h_merge 0 0 0 px_h rx_v px_o))) = Some 1%nat.
Proof. exact px_hyps. Qed.

(* ====================================================================================== *)

(** PART 4 — the serialised form (internal/cluster/serialize.go).  The wire model is C12's
    (Codec/ClusterMsgs.v: [ClusterMsgs.enc_view] = writeClusterView, [ClusterMsgs.dec_view] = readClusterView, byte for byte;
    round trip [ClusterMsgsProofs.view_rt]); Cluster/ViewWire.v converts between C17's complete view and
    the wire-side record ([to_wire] / [of_wire], field by field; the counts are N here, Z there).
      wire_ok o : what serialize.go needs to bring o back unchanged - string lengths below 2^32,
                  Generation / Status / the counts / MaxVersionVectorEntries within int32 (the writer
                  NARROWS them), epoch / timestamps within int64, vector keys valid and at most 65535,
                  Members a non-nil map without nil entries (a nil map comes back empty, a nil entry is
                  dropped), no EMPTY NON-NIL Metadata / Labels map (it comes back nil). *)

(** the bytes written for a wire_ok view are read back as that view, whatever follows in the frame *)
Theorem C17_wire_roundtrip v rest :
  wire_ok v ->
  exists b, ClusterMsgs.enc_view (Some (to_wire v)) = MOk b /\
            drun ClusterMsgs.dec_view (b ++ rest) = MOk (Some (to_wire v), rest).
Proof. exact (wire_roundtrip v rest). Qed.

(** merging commutes with the serialised form: the receiver, merging what it decoded, computes the merge
    with the sender's view - complete states, every configuration, `changed` included; and what it
    decoded is nil-free (the hypothesis of C17_full_merge_is_core_merge) *)
Theorem C17_merge_commutes_with_wire sk st now v o rest :
  wire_ok o ->
  exists b w, ClusterMsgs.enc_view (Some (to_wire o)) = MOk b /\
              drun ClusterMsgs.dec_view (b ++ rest) = MOk (Some w, rest) /\
              of_wire w = o /\
              f_merge sk st now v (of_wire w) = f_merge sk st now v o /\ nonil (of_wire w).
Proof. exact (merge_commutes_with_wire sk st now v o rest). Qed.

(** the conversion loses nothing *)
Theorem C17_wire_conversion_inverse v : of_wire (to_wire v) = v.
Proof. exact (of_to_wire v). Qed.

(** wire_ok is met by a one-member view with a one-entry Labels map and a nil Metadata map *)
Example C17_wire_ok_satisfiable : wire_ok wx_view.
Proof. exact wx_wire_ok. Qed.

Print Assumptions C17_epoch_exact.
Print Assumptions C17_empty_argument_ignored.
Print Assumptions C17_adopts_per_strategy.
Print Assumptions C17_strategy_collapse.
Print Assumptions C17_prefer_local_when_ordered.
Print Assumptions C17_config_independent.
Print Assumptions C17_changed_config_dependence.
Print Assumptions C17_epoch_bounds_any_config.
Print Assumptions C17_epoch_is_max_takemax_noskew.
Print Assumptions C17_epoch_any_order_takemax_noskew.
Print Assumptions C17_epoch_order_sensitive_prefer_local.
Print Assumptions C17_epoch_order_sensitive_skew.
Print Assumptions C17_epoch_order_sensitive_empty_view.
Print Assumptions C17_skew_off.
Print Assumptions C17_skew_test_exact.
Print Assumptions C17_skew_test_wraps.
Print Assumptions C17_isnewer_trichotomy.
Print Assumptions C17_isnewer_negatively_transitive.
Print Assumptions C17_isnewer_cross_id_cycle.
Print Assumptions C17_counts_after_merge.
Print Assumptions C17_full_merge_is_core_merge.
Print Assumptions C17_full_operations_are_core_operations.
Print Assumptions C17_full_nil_only_view_not_ignored.
Print Assumptions C17_full_merge_moves_whole_states.
Print Assumptions C17_full_merge_keeps_entries.
Print Assumptions C17_full_merge_nil_and_identity.
Print Assumptions C17_full_nonil_invariant.
Print Assumptions C17_full_any_merge_order.
Print Assumptions C17_full_merge_expression.
Print Assumptions C17_full_no_regression.
Print Assumptions C17_clone_spec.
Print Assumptions C17_ptr_merge_refines.
Print Assumptions C17_ptr_merge_frame.
Print Assumptions C17_ptr_snapshot_refines.
Print Assumptions C17_ptr_add_refines.
Print Assumptions C17_stored_states_are_clones_partial.
Print Assumptions C17_snapshot_is_deep_copy_partial.
Print Assumptions C17_add_member_stores_clone_partial.
Print Assumptions C17_write_frame.
Print Assumptions C17_merge_independent_partial.
Print Assumptions C17_clone_shares_empty_map_refuted.
Print Assumptions C17_wire_roundtrip.
Print Assumptions C17_merge_commutes_with_wire.
Print Assumptions C17_wire_conversion_inverse.
