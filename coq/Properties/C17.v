(** C17 — Cluster view merge is order-insensitive and never regresses a member.
    Statements only; every proof is [exact <lemma>] (lemmas in Cluster/ViewProofs.v, model in
    Cluster/View.v).

    Reading guide.  [view_merge skew strat now v o] is v.MergeFromWithOptions(o, {MaxClockSkew: skew,
    VersionConcurrentStrategy: strat}) executed at wall-clock [now]; [fst] is the new v, [snd] is
    `changed`.  [proj v] is the membership the property talks about: member id -> (generation,
    logical clock); [inc_lt] is the lexicographic order on incarnations, [inc_max] its maximum.
      WF v    : every key equals its state's ID, generation >= 1, logical clock >= 1
      VVin v  : every version-vector key is a member id
      CapOK v : the member count is within MaxVersionVectorEntries (default 65535)
                (VVin / CapOK only guard the version-vector monotonicity theorems; `changed` needs neither)
      reach v : v is built by newClusterView, AddMember of well-formed states (joins), IncrementVersion
                of a member, in-place status changes, the restart bump of tryJoinSeeds, Snapshot and
                merges of such views (the property's quantifier; no removals).
    [view_merge_before_fix] is the same function with `changed` computed as the code did before commit
    53b1085 (merged vector compared with the already pruned one); it only occurs in the regression Example.
    All theorems are for every skew / strategy / clock value unless a value is written out. *)
From Coq Require Import List NArith ZArith Lia.
From stdpp Require Import gmap.
From Vivid Require Import Codec.Prim Cluster.VV Cluster.VVProofs Cluster.View Cluster.ViewProofs.
Local Open Scope N_scope.

(** ** IsNewerThan: the interplay of its three criteria *)

(** on well-formed states of one node it is exactly "strictly newer incarnation"
    (higher generation wins, then higher logical clock); the timestamp is never consulted *)
Theorem C17_isnewer_is_incarnation_order n o :
  ns_id n = ns_id o -> wf_state n -> wf_state o ->
  isnewer n o = inc_lt (inc_of o) (inc_of n).
Proof. exact (isnewer_wf n o). Qed.

(** irreflexive and asymmetric on all states; transitive on well-formed states of one node *)
Theorem C17_isnewer_strict_order :
  (forall s, isnewer s s = false) /\
  (forall n o, isnewer n o = true -> isnewer o n = false) /\
  (forall a b c, ns_id a = ns_id b -> ns_id b = ns_id c -> wf_state a -> wf_state b -> wf_state c ->
                 isnewer a b = true -> isnewer b c = true -> isnewer a c = true).
Proof. exact isnewer_strict_order. Qed.

(** without well-formedness (a logical clock of 0, which only a wire-decoded state can have) the three
    criteria form a 3-cycle on states of the same node and generation *)
Theorem C17_isnewer_cycle_example :
  exists a b c, ns_id a = ns_id b /\ ns_id b = ns_id c /\
    isnewer a b = true /\ isnewer b c = true /\ isnewer c a = true.
Proof. exact isnewer_cycle_exists. Qed.

(** ** WF and VVin are invariants of everything the code can build *)

Theorem C17_reachable_wf v : reach v -> WF v /\ VVin v.
Proof. exact (reach_wf v). Qed.

(** operation by operation (RemoveMember included) *)
Theorem C17_wf_invariant :
  (forall id addr now, wf_state (new_node_state id addr now)) /\
  (forall s st, wf_state s -> wf_state (ns_set_status s st)) /\
  (forall now maxent, WF (new_view now maxent) /\ VVin (new_view now maxent)) /\
  (forall v s, WF v -> wf_state s -> WF (view_add v s)) /\
  (forall v s, VVin v -> VVin (view_add v s)) /\
  (forall v id, WF v -> WF (view_remove v id)) /\
  (forall v id, VVin v -> vw_members (view_remove v id) <> ∅ -> VVin (view_remove v id)) /\
  (forall v id, WF v -> WF (view_inc v id)) /\
  (forall v id, VVin v -> is_Some (vw_members v !! id) -> VVin (view_inc v id)) /\
  (forall v id st, WF v -> WF (view_set_status v id st)) /\
  (forall v id st, VVin v -> VVin (view_set_status v id st)) /\
  (forall self v now, WF v -> wf_state self ->
      wf_state (fst (view_rejoin self v now)) /\ WF (snd (view_rejoin self v now))) /\
  (forall self v now, VVin v -> VVin (snd (view_rejoin self v now))) /\
  (forall sk st now v o, WF v -> WF o -> WF (fst (view_merge sk st now v o))) /\
  (forall sk st now v o, VVin v -> VVin o -> VVin (fst (view_merge sk st now v o))).
Proof. exact wf_invariant. Qed.

(** ** The membership of a merge = union of members, each at its newest incarnation *)

Theorem C17_proj_merge sk st now v o k :
  WF v -> WF o ->
  proj (fst (view_merge sk st now v o)) !! k =
  match proj v !! k, proj o !! k with
  | Some x, Some y => Some (inc_max x y)
  | Some x, None => Some x
  | None, Some y => Some y
  | None, None => None
  end.
Proof. exact (proj_merge_pointwise sk st now v o k). Qed.

(** commutative, associative, idempotent on the membership — each merge with its own options/clock *)
Theorem C17_merge_comm sk st now sk' st' now' a b :
  WF a -> WF b ->
  proj (fst (view_merge sk st now a b)) = proj (fst (view_merge sk' st' now' b a)).
Proof. exact (proj_merge_comm sk st now sk' st' now' a b). Qed.

Theorem C17_merge_assoc sk1 st1 n1 sk2 st2 n2 sk3 st3 n3 sk4 st4 n4 a b c :
  WF a -> WF b -> WF c ->
  proj (fst (view_merge sk1 st1 n1 (fst (view_merge sk2 st2 n2 a b)) c)) =
  proj (fst (view_merge sk3 st3 n3 a (fst (view_merge sk4 st4 n4 b c)))).
Proof. exact (proj_merge_assoc sk1 st1 n1 sk2 st2 n2 sk3 st3 n3 sk4 st4 n4 a b c). Qed.

Theorem C17_merge_idem sk st now a : WF a -> proj (fst (view_merge sk st now a a)) = proj a.
Proof. exact (proj_merge_idem sk st now a). Qed.

(** whatever order: two merge expressions (any tree shape, any options and clock at every node) over
    the same multiset of well-formed views produce the same membership ... *)
Theorem C17_any_merge_order e1 e2 :
  Forall WF (mleaves e1) -> mleaves e1 ≡ₚ mleaves e2 -> proj (meval e1) = proj (meval e2).
Proof. exact (merge_order_insensitive e1 e2). Qed.

(** ... namely: an id is absent iff it is absent from every view; otherwise its incarnation is one
    that some view has and no view has a newer one *)
Theorem C17_union_at_newest_incarnation e k :
  Forall WF (mleaves e) ->
  (proj (meval e) !! k = None <-> (forall v, v ∈ mleaves e -> proj v !! k = None)) /\
  (forall p, proj (meval e) !! k = Some p ->
     (exists v, v ∈ mleaves e /\ proj v !! k = Some p) /\
     (forall v q, v ∈ mleaves e -> proj v !! k = Some q -> inc_lt p q = false)).
Proof. exact (meval_union_newest e k). Qed.

(** commutativity does NOT extend to the full member states: two reachable views holding the same
    incarnation with a different Status (status flips are in place and do not touch the logical
    clock) each keep their own state, and neither merge reports a change *)
Theorem C17_full_state_comm_refuted :
  exists a b, reach a /\ reach b /\
    vw_members (fst (view_merge 0 0 0 a b)) <> vw_members (fst (view_merge 0 0 0 b a)) /\
    snd (view_merge 0 0 0 a b) = false /\ snd (view_merge 0 0 0 b a) = false.
Proof. exact full_state_comm_refuted. Qed.

(** ** A merge never removes a member, never regresses one *)

(** no WF needed: the stored state is the old one or one of [o] that IsNewerThan it *)
Theorem C17_no_member_removed sk st now v o k s :
  vw_members v !! k = Some s ->
  exists s', vw_members (fst (view_merge sk st now v o)) !! k = Some s' /\
             (s' = s \/ (vw_members o !! k = Some s' /\ isnewer s' s = true)).
Proof. exact (merge_keeps_member sk st now v o k s). Qed.

Theorem C17_no_regression sk st now v o k p :
  WF v -> WF o -> proj v !! k = Some p ->
  exists p', proj (fst (view_merge sk st now v o)) !! k = Some p' /\ inc_lt p' p = false.
Proof. exact (merge_no_regression sk st now v o k p). Qed.

(** WF is needed: a state with logical clock 0 replaces a newer incarnation on timestamp *)
Theorem C17_no_regression_without_wf_refuted :
  WF w_lc5 /\ ~ WF w_lc0 /\
  proj w_lc5 !! ida = Some (1%Z, 5) /\ proj (fst (view_merge 0 0 0 w_lc5 w_lc0)) !! ida = Some (1%Z, 0).
Proof. exact regression_without_wf. Qed.

(** ** Epoch (and view timestamp, protocol version) never lowered — all views, all options *)
Theorem C17_epoch_monotone sk st now v o :
  (vw_epoch v <= vw_epoch (fst (view_merge sk st now v o)))%Z /\
  (vw_ts v <= vw_ts (fst (view_merge sk st now v o)))%Z /\
  vw_proto v <= vw_proto (fst (view_merge sk st now v o)).
Proof. exact (merge_epoch_mono sk st now v o). Qed.

(** TakeMax / PreferRemote without the skew test: the maximum *)
Theorem C17_epoch_max st now v o :
  st <> 1%Z -> vw_members o <> ∅ ->
  vw_epoch (fst (view_merge 0 st now v o)) = Z.max (vw_epoch v) (vw_epoch o).
Proof. exact (merge_epoch_max st now v o). Qed.

(** ** Version vector *)

(** no entry of a member (of the result, hence of the old view) is lowered — guard: the member count
    of the result is within MaxVersionVectorEntries *)
Theorem C17_vv_entry_monotone_partial sk st now v o k :
  CapOK (fst (view_merge sk st now v o)) ->
  is_Some (vw_members (fst (view_merge sk st now v o)) !! k) ->
  vget (vw_vv v) k <= vget (vw_vv (fst (view_merge sk st now v o))) k.
Proof. exact (merge_vv_member_mono sk st now v o k). Qed.

(** with VVin no entry at all is lowered *)
Theorem C17_vv_monotone_partial sk st now v o :
  VVin v -> CapOK (fst (view_merge sk st now v o)) ->
  forall k, vget (vw_vv v) k <= vget (vw_vv (fst (view_merge sk st now v o))) k.
Proof. exact (merge_vv_mono sk st now v o). Qed.

(** the guard can be violated by reachable views: with MaxVersionVectorEntries = 1 and two members the
    prune in recomputeCounts drops a member's entry and the next merge lowers it (that merge reports
    changed = true, see C17_changed_sound_regression; the entry is lowered all the same) *)
Theorem C17_vv_entry_monotone_refuted :
  exists v o k, reach v /\ reach o /\ is_Some (vw_members v !! k) /\
    vget (vw_vv (fst (view_merge 0 0 0 v o))) k < vget (vw_vv v) k.
Proof. exact vv_entry_monotone_refuted. Qed.

(** under the guards the resulting vector is the pointwise maximum, whatever the order, strategy, skew *)
Theorem C17_vv_order_independent sk st now sk' st' now' a b :
  VVin a -> VVin b ->
  CapOK (fst (view_merge sk st now a b)) -> CapOK (fst (view_merge sk' st' now' b a)) ->
  vw_vv (fst (view_merge sk st now a b)) = vw_vv (fst (view_merge sk' st' now' b a)).
Proof. exact (merge_vv_comm sk st now sk' st' now' a b). Qed.

(** ** changed *)

(** sound, for EVERY pair of views (no guard, not even well-formedness): the members map (full states)
    or any version-vector counter differs => changed.  The merged vector is compared with the vector
    as it was before recomputeCounts pruned it, so entries dropped by the prune (keys that are no
    members; truncation to MaxVersionVectorEntries) are reported. *)
Theorem C17_changed_sound sk st now v o :
  vw_members (fst (view_merge sk st now v o)) <> vw_members v \/
  (exists k, vget (vw_vv (fst (view_merge sk st now v o))) k <> vget (vw_vv v) k) ->
  snd (view_merge sk st now v o) = true.
Proof. exact (merge_changed_sound sk st now v o). Qed.

(** and exact, for every pair of views: changed iff members, version vector (as a function id -> counter),
    epoch, view timestamp or protocol version differ.  In particular an entry that the prune drops and
    the argument view brings back with the same counter is, correctly, no change. *)
Theorem C17_changed_exact sk st now v o :
  snd (view_merge sk st now v o) = true <->
  (vw_members (fst (view_merge sk st now v o)) <> vw_members v \/
   ~ (forall k, vget (vw_vv (fst (view_merge sk st now v o))) k = vget (vw_vv v) k) \/
   vw_epoch (fst (view_merge sk st now v o)) <> vw_epoch v \/
   vw_ts (fst (view_merge sk st now v o)) <> vw_ts v \/
   vw_proto (fst (view_merge sk st now v o)) <> vw_proto v).
Proof. exact (merge_changed_exact_vget sk st now v o). Qed.

(** the hypothesis of C17_changed_sound is met by the two views on which the code before commit 53b1085
    failed (regression): [view_merge_before_fix] builds the same view but returned changed = false
    (a) on reachable views when the prune truncates (MaxVersionVectorEntries = 1, two members) and
    (b) for a version-vector key that is no member (RemoveMember(b); IncrementVersion(b)): the entry of
    the NON-member b is dropped - no member's entry is lowered - and the merge now says so. *)
Example C17_changed_sound_regression :
  (forall sk st now v o, fst (view_merge_before_fix sk st now v o) = fst (view_merge sk st now v o)) /\
  (exists v o k, reach v /\ reach o /\
     vget (vw_vv (fst (view_merge 0 0 0 v o))) k <> vget (vw_vv v) k /\
     snd (view_merge 0 0 0 v o) = true /\ snd (view_merge_before_fix 0 0 0 v o) = false) /\
  (WF w_nm /\ WF w_nm_o /\ ~ VVin w_nm /\ vw_members w_nm !! idb = None /\
   vget (vw_vv (fst (view_merge 0 0 0 w_nm w_nm_o))) idb < vget (vw_vv w_nm) idb /\
   snd (view_merge 0 0 0 w_nm w_nm_o) = true /\ snd (view_merge_before_fix 0 0 0 w_nm w_nm_o) = false).
Proof. exact changed_unsound_before_fix. Qed.

(** merging a view with its own snapshot changes neither members, vector, epoch nor timestamp *)
Theorem C17_self_merge sk st now v :
  vw_members (fst (view_merge sk st now v (view_snapshot v))) = vw_members v /\
  (forall k, vget (vw_vv (fst (view_merge sk st now v (view_snapshot v)))) k = vget (vw_vv v) k) /\
  vw_epoch (fst (view_merge sk st now v (view_snapshot v))) = vw_epoch v /\
  vw_ts (fst (view_merge sk st now v (view_snapshot v))) = vw_ts v.
Proof. exact (merge_self sk st now v). Qed.

(** ** Non-vacuity: the hypotheses are met by non-trivial reachable views *)

(** ex_a = {a(1,1), b(1,1)} with vector {a:2}; ex_b = {b restarted to (2,2)} with vector {b:1}:
    reachable, concurrent vectors, within the cap; the merge takes b's newer incarnation and reports it *)
Example C17_hypotheses_satisfiable :
  reach ex_a /\ reach ex_b /\ WF ex_a /\ WF ex_b /\ VVin ex_a /\ VVin ex_b /\
  CapOK (fst (view_merge 0 0 0 ex_a ex_b)) /\
  proj (fst (view_merge 0 0 0 ex_a ex_b)) !! idb = Some (2%Z, 2) /\
  proj (fst (view_merge 0 0 0 ex_a ex_b)) !! ida = Some (1%Z, 1) /\
  snd (view_merge 0 0 0 ex_a ex_b) = true /\
  is_concurrent (vw_vv ex_a) (vw_vv ex_b) = true.
Proof.
  destruct ex_reach as [Ra Rb]. destruct (reach_wf _ Ra) as [Wa Va]. destruct (reach_wf _ Rb) as [Wb Vb].
  destruct ex_merge_values as (H1 & H2 & H3 & H4).
  split; [exact Ra|]. split; [exact Rb|]. split; [exact Wa|]. split; [exact Wb|]. split; [exact Va|]. split; [exact Vb|].
  split; [exact ex_capok|]. auto.
Qed.

(** a three-leaf merge expression and a permutation of it with other options *)
Example C17_any_merge_order_example :
  proj (meval (MNode 0 0 0 (MNode 0 1 5 (MLeaf ex_a) (MLeaf ex_b)) (MLeaf w_suspect))) =
  proj (meval (MNode 7 2 9 (MLeaf w_suspect) (MNode 0 0 0 (MLeaf ex_b) (MLeaf ex_a)))).
Proof.
  apply merge_order_insensitive.
  - cbn [mleaves app]. destruct ex_reach as [Ra Rb]. destruct w_reach as [_ Rs].
    repeat (apply Forall_cons; split; [apply reach_wf; assumption|]). apply Forall_nil. exact I.
  - cbn [mleaves app]. etransitivity; [apply perm_swap|]. symmetry.
    exact (Permutation_cons_append [ex_b; ex_a] w_suspect).
Qed.

(** PreferLocal on concurrent vectors: the epoch (not part of the membership) depends on the order *)
Example C17_epoch_prefer_local_depends_on_order :
  vw_epoch (fst (view_merge 0 1 0 (w_ep ida 1) (w_ep idb 2))) = 1%Z /\
  vw_epoch (fst (view_merge 0 1 0 (w_ep idb 2) (w_ep ida 1))) = 2%Z /\
  vw_epoch (fst (view_merge 0 0 0 (w_ep ida 1) (w_ep idb 2))) = 2%Z.
Proof. exact epoch_not_commutative_prefer_local. Qed.

(** the skew branch: a view timestamp further than MaxClockSkew from now blocks epoch adoption *)
Example C17_skew_blocks_epoch :
  vw_epoch (fst (view_merge 10 0 1000 (w_ep ida 1) (w_ep idb 2))) = 1%Z /\
  vw_epoch (fst (view_merge 10 0 105 (w_ep ida 1) (w_ep idb 2))) = 2%Z.
Proof. vm_compute. auto. Qed.

Print Assumptions C17_isnewer_is_incarnation_order.
Print Assumptions C17_isnewer_strict_order.
Print Assumptions C17_isnewer_cycle_example.
Print Assumptions C17_reachable_wf.
Print Assumptions C17_wf_invariant.
Print Assumptions C17_proj_merge.
Print Assumptions C17_merge_comm.
Print Assumptions C17_merge_assoc.
Print Assumptions C17_merge_idem.
Print Assumptions C17_any_merge_order.
Print Assumptions C17_union_at_newest_incarnation.
Print Assumptions C17_full_state_comm_refuted.
Print Assumptions C17_no_member_removed.
Print Assumptions C17_no_regression.
Print Assumptions C17_no_regression_without_wf_refuted.
Print Assumptions C17_epoch_monotone.
Print Assumptions C17_epoch_max.
Print Assumptions C17_vv_entry_monotone_partial.
Print Assumptions C17_vv_monotone_partial.
Print Assumptions C17_vv_entry_monotone_refuted.
Print Assumptions C17_vv_order_independent.
Print Assumptions C17_changed_sound.
Print Assumptions C17_changed_exact.
Print Assumptions C17_self_merge.
