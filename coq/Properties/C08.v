(** C08 - supervision applies exactly the decided directive to exactly its targets.

    Model: Actor/Core.v (ActorCore; tied to /repo/internal/actor by lock-step replay, bin/check C08).
    [dispatch s a x e] is Context.HandleEnvelop of context [a] (record [x]) for envelope [e]: it returns the
    updated state and the handler's instruction list; [exec1 s t held i] executes one non-yielding
    instruction of thread [t]; [step] is one step of the machine.  User code is data: the decision maker
    of a supervisor is the list [a_decisions] (one element is consumed per consulted failure), behaviours
    are action scripts.  Every theorem below is about ALL states / records / envelopes / scripts /
    decisions; theorems with [reachable s] hold after every event sequence from every initial script set.
    Specification-level definitions: Actor/SpecSup.v ([sup_decide], [sup_targets], [sup_sends],
    [instr_sends], [pick_order], [dead_for], [keeps_mail], ...).  Statements only; proofs in Actor/ProofsSup.v. *)
From Coq Require Import List NArith ZArith Bool Permutation.
From Vivid Require Import Actor.Core Actor.CoreRun Actor.SpecSup Actor.ProofsSup.
Import ListNotations.

(** ============================ (a) the strategy is consulted exactly once ============================ *)

(** a supervision report [MSup c] handled by a live supervisor [x]: with a strategy (1 = one-for-one,
    2 = one-for-all) exactly one decision is consumed (an exhausted decision script answers Stop); without
    a strategy (0) the system default Stop applies and nothing is consumed.  The handler is exactly: pause the
    targets, apply the decision ([ISupPause c d targets []]), end. *)
Theorem C08_consulted_once s a x e c :
  e_msg e = MSup c -> dead_for x e = false ->
  exists d ds targets,
    dispatch s a x e = (set_actor s a (set_decisions (set_cur x e) ds), [ISupPause c d targets []; IEndHandler]) /\
    (sp_strategy (a_spec x) = 0%N -> d = DStop /\ ds = a_decisions x) /\
    (sp_strategy (a_spec x) <> 0%N -> a_decisions x = d :: ds \/ (a_decisions x = [] /\ d = DStop /\ ds = [])) /\
    (sp_strategy (a_spec x) = 2%N -> targets = map (fun p => RObj (snd p)) (a_children x)) /\
    (sp_strategy (a_spec x) <> 2%N -> targets = [sc_child c]).
Proof. exact (consulted_once s a x e c). Qed.

(** a supervisor that is dead (killed, not a zombie) does not supervise: the report is a dead letter *)
Theorem C08_dead_supervisor_no_supervision s a x e p :
  dead_for x e = true -> a_parent x = Some p ->
  dispatch s a x e = (s, [IEnqMb 0 {| e_sys := false; e_sender := root_ref; e_msg := MDeadLetter (e_sys e) (e_msg e) |}; IEnqDone; IEndHandler]).
Proof. exact (dead_supervisor s a x e p). Qed.

(** ============================ (c) the targets ============================ *)

(** whatever order the pauses are issued in ([pick_order] = any sequence of EvPush choices): one-for-one
    pauses exactly the failing child, one-for-all exactly the supervisor's current children (each once),
    whatever the failing child *)
Theorem C08_targets x c order :
  pick_order (sup_targets x c) order ->
  (sp_strategy (a_spec x) <> 2%N -> order = [sc_child c]) /\
  (sp_strategy (a_spec x) = 2%N -> Permutation (map (fun p => RObj (snd p)) (a_children x)) order).
Proof. exact (targets_order x c order). Qed.

(** any complete sequence of picks from a Go slice / map is a permutation of it: each element exactly once *)
Theorem C08_pick_order_permutation (rem order : list rref) : pick_order rem order -> Permutation rem order.
Proof. exact (pick_order_perm rem order). Qed.

(** ============================ (b) pause, then the directive ============================ *)

(** one pause step of the supervision handler (thread [t]): the chosen remaining target [to] is sent
    CommandPauseMailbox as a system message from the supervisor; it moves from [rem] to the end of [done] *)
Theorem C08_pause_step s t k c d rem done rest :
  pend_of s t = ISupPause c d rem done :: rest -> err (step s (EvPush t k)) = false ->
  exists to, nth_error rem k = Some to /\
    step s (EvPush t k) =
      set_pend (fst (deliver (snd (resolve s to)) (fst (resolve s to)) {| e_sys := true; e_sender := RObj (self_of t); e_msg := MCmdPause |}))
               t (IEnqDone :: ISupPause c d (remove_nth k rem) (done ++ [to]) :: rest) /\
    pend_of (step s (EvPush t k)) t = IEnqDone :: ISupPause c d (remove_nth k rem) (done ++ [to]) :: rest.
Proof. exact (step_ISupPause s t k c d rem done rest). Qed.

(** interleaving: a step performed by another thread leaves the handler's instruction list as it is ... *)
Theorem C08_handler_not_disturbed s ev t : ev_thread ev <> t -> pend_of (step s ev) t = pend_of s t.
Proof. exact (step_pend_frame s ev t). Qed.

(** ... so under ANY interleaving the pause phase advances only by the supervisor's own steps: a step leaves
    the phase's instruction list as it is, or it is the queue insertion of the next pause (EvPush t k: the
    chosen target moves from [rem] to the end of [done]), or the end of that Enqueue (EvEnqDone t); when
    nothing remains, the atomic run that follows starts with [ISupPause c d [] done], i.e. it applies the
    decision to [done] (next theorem).  (EvHandle of the own actor is excluded: a handler is entered only
    when none is running.) *)
Theorem C08_pause_phase_interleaved s t c d rem done rest ev :
  (forall a, t = TA a -> ev <> EvHandle a) -> err (step s ev) = false ->
  (pend_of s t = ISupPause c d rem done :: rest -> rem <> [] ->
     pend_of (step s ev) t = ISupPause c d rem done :: rest \/
     exists k to, ev = EvPush t k /\ nth_error rem k = Some to /\
        pend_of (step s ev) t = IEnqDone :: ISupPause c d (remove_nth k rem) (done ++ [to]) :: rest) /\
  (pend_of s t = IEnqDone :: ISupPause c d rem done :: rest ->
     pend_of (step s ev) t = IEnqDone :: ISupPause c d rem done :: rest \/
     (ev = EvEnqDone t /\ step s ev = run_atomic FUEL (set_pend s t (ISupPause c d rem done :: rest)) t /\
      (rem <> [] -> pend_of (step s ev) t = ISupPause c d rem done :: rest))).
Proof. exact (sup_pause_phase_step s t c d rem done rest ev). Qed.

(** when every target has been paused (in the order [order]) the decision is applied: the instruction list
    that replaces [ISupApply] tells exactly [apply_sends], i.e. pauses followed by these tells are exactly
    [sup_sends] for the order chosen; every tell is sent by the supervisor; the supervisor pauses its own
    mailbox iff the decision is an escalation (Escalate or an out-of-range value); the state is untouched *)
Theorem C08_pause_then_directive s t held x c d order :
  get s (self_of t) = Some x ->
  exec1 s t held (ISupPause c d [] order) = (s, [ISupApply c d order]) /\
  exists ins, exec1 s t held (ISupApply c d order) = (s, ins) /\
    map (fun r => (r, true, MCmdPause)) order ++ instr_sends ins = sup_sends (self_of t) x c d order /\
    (forall i, In i ins -> i = IEnqDone \/ i = IPauseSt \/ exists sys to m, i = IEnq sys to (RObj (self_of t)) m) /\
    (In IPauseSt ins <-> is_escalation d = true).
Proof. exact (pause_then_directive s t held x c d order). Qed.

(** what [sup_sends] contains, per decision: Pause (system) to every target; Restart -> RestartMessage
    (system, not graceful) / GracefulRestart -> RestartMessage (user message, poison) to every target;
    Stop -> OnKill (system) / GracefulStop -> OnKill (user message, poison) to every target; the graceful
    directives and Resume -> CommandResumeMailbox (system) to the targets of the whole escalation chain;
    Escalate / invalid -> one supervision report to the supervisor's own parent, carrying the chain *)
Theorem C08_directive_shape self x c d order to sys m :
  In (to, sys, m) (sup_sends self x c d order) ->
  (In to order /\ m = MCmdPause /\ sys = true) \/
  (In to order /\ match d with
                  | DRestart => m = MRestart false /\ sys = true
                  | DGRestart => m = MRestart true /\ sys = false
                  | DStop => m = MKill (RObj self) false /\ sys = true
                  | DGStop => m = MKill (RObj self) true /\ sys = false
                  | _ => False
                  end) \/
  (In to (chain_targets (sc_set_targets c order)) /\ m = MCmdResume /\ sys = true /\
   match d with DGRestart | DGStop | DResume => True | _ => False end) \/
  (to = rref_parent x /\ m = MSup (SupCtx (RObj self) [] (Some (sc_set_targets c order))) /\ sys = true /\ is_escalation d = true).
Proof. exact (sup_sends_shape self x c d order to sys m). Qed.

(** nobody else: every message of the supervision handler goes to a target, to a target of the chain below
    (the actors paused by the lower levels of an escalation), or to the supervisor's parent *)
Theorem C08_no_other_target self x c d order to sys m :
  In (to, sys, m) (sup_sends self x c d order) -> In to (chain_targets (sc_set_targets c order) ++ [rref_parent x]).
Proof. exact (sup_sends_targets self x c d order to sys m). Qed.

(** ============================ (d) the effect of each directive on a target ============================ *)

(** Restart, first half: a RestartMessage at a running actor marks it restarting, enters the stop sequence
    (children are stopped, OnKill runs) with everything else untouched *)
Theorem C08_restart_begins s a x e poison :
  e_msg e = MRestart poison -> a_state x = Running ->
  exists x', dispatch s a x e = (set_actor s a x', [IPub evRestarting (actor_key x); IDoKill poison; IEndHandler]) /\
    stable x x' /\ a_state x' = Killing /\ a_restarting x' = Some poison /\
    a_cur x' = Some {| e_sys := true; e_sender := e_sender e; e_msg := MKill (RObj a) poison |} /\
    a_zombie x' = a_zombie x /\ a_children x' = a_children x /\ a_watchers x' = a_watchers x /\ a_stash x' = a_stash x /\
    a_modes x' = a_modes x /\ a_inst x' = a_inst x /\ a_decisions x' = a_decisions x /\ a_hooks x' = a_hooks x /\
    same_queues x x'.
Proof. exact (dispatch_MRestart_running s a x e poison). Qed.

(** a RestartMessage at an actor that is already stopping (or restarting) is dropped: no restart and no change
    of the actor's data; the mailbox the supervisor paused is resumed (IResume1), and an actor in the middle of a
    stop passes an immediate kill to its remaining children (code after fix a8829bb) *)
Theorem C08_restart_ignored_when_stopping s a x e poison :
  e_msg e = MRestart poison -> a_state x <> Running -> dead_for x e = false ->
  dispatch s a x e =
    (set_actor s a (set_cur x e),
     [IResume1]
     ++ (match a_state x, a_children x with
         | Killing, _ :: _ => [IEnqAny true (map (fun p => RObj (snd p)) (a_children x)) (RObj a) (MKill (RObj a) false)]
         | _, _ => []
         end)
     ++ [IEndHandler]).
Proof. exact (dispatch_MRestart_not_running s a x e poison). Qed.

(** the stop sequence of a restarting actor ends in IRestartFinish instead of ICleanup: no UnsubscribeAll, the
    registry entry stays, neither the parent nor a watcher is told OnKilled *)
Theorem C08_restart_no_cleanup s t held x :
  get s (self_of t) = Some x -> a_children x = [] -> a_state x = Killing ->
  exists x', exec1 s t held ICheckMark =
    (set_actor s (self_of t) x',
     [IBeh (MKilled (RObj (self_of t))) (sp_killed (a_spec x)) RecLog; match a_restarting x with None => ICleanup | Some _ => IRestartFinish end]) /\
    stable x x' /\ a_state x' = Killed /\ a_restarting x' = a_restarting x /\ a_modes x' = a_modes x /\ a_inst x' = a_inst x /\
    a_stash x' = a_stash x /\ same_queues x x'.
Proof. exact (exec1_ICheckMark s t held x). Qed.

(** Restart, second half: the same context (same index = the same reference object, same path, generation,
    parent, spec; [stable]), the behaviour stack is reset, a new actor instance iff the actor was spawned from
    a provider, queued mail / stash / children entries / watchers are kept; if the hooks succeed the actor is
    running again and handles OnLaunch inline, otherwise it becomes a zombie *)
Theorem C08_restart_keeps_ref_resets_state s t held x :
  get s (self_of t) = Some x ->
  exists x' ins, exec1 s t held IRestartFinish = (set_actor s (self_of t) x', ins) /\
    stable x x' /\ a_modes x' = [0%N] /\
    a_inst x' = (if sp_provider (a_spec x) then (a_inst x + 1)%N else a_inst x) /\
    a_hooks x' = tl (a_hooks x) /\ a_stash x' = a_stash x /\ a_children x' = a_children x /\ a_watchers x' = a_watchers x /\
    a_decisions x' = a_decisions x /\ a_sq x' = a_sq x /\ a_uq x' = a_uq x /\ a_paused x' = a_paused x /\
    (restart_hooks_ok x = true ->
       a_state x' = Running /\ a_restarting x' = None /\ a_zombie x' = a_zombie x /\
       ins = [IResume1; IPub evRestarted (actor_key x); IPub evResumed (actor_key x);
              IBeh MLaunch (sp_launch (a_spec x)) RecFail; IPub evLaunched (actor_key x)]) /\
    (restart_hooks_ok x = false ->
       a_state x' = a_state x /\ a_restarting x' = a_restarting x /\ a_zombie x' = true /\ ins = [IResume1]).
Proof. exact (exec1_IRestartFinish s t held x). Qed.

(** Stop: OnKill at a running actor starts the stop sequence ... *)
Theorem C08_stop_begins s a x e k poison :
  e_msg e = MKill k poison -> a_state x = Running -> a_zombie x = false ->
  dispatch s a x e = (set_actor s a (set_state (set_cur x e) Killing), [IDoKill poison; IEndHandler]).
Proof. exact (dispatch_MKill_running s a x e k poison). Qed.

(** ... which passes the kill to every child, runs OnKill, and then tries to confirm the death ... *)
Theorem C08_stop_kills_children s t held x poison :
  get s (self_of t) = Some x ->
  exec1 s t held (IDoKill poison) =
    (s, (match a_children x with
         | [] => []
         | l => [IEnqAny (negb poison) (map (fun p => RObj (snd p)) l) (RObj (self_of t)) (MKill (RObj (self_of t)) poison)]
         end)
        ++ [IBeh (match a_cur x with Some e => e_msg e | None => MKill RNone poison end) (sp_kill (a_spec x)) RecLog;
            IOnKilled (RObj (self_of t))]).
Proof. exact (exec1_IDoKill s t held x poison). Qed.

(** ... and ends (no child left, not restarting) in ICleanup, which tells the parent OnKilled exactly once
    (besides UnsubscribeAll, the removal of the registry entry, OnKilled to the watchers, ActorKilledEvent
    and mailbox.Resume) *)
Theorem C08_stop_notifies_parent s t held x p :
  get s (self_of t) = Some x -> a_parent x = Some p ->
  exec1 s t held ICleanup =
    (set_reg (set_subs s (unsub_all (subs s) (a_path x))) (aremove (reg s) (a_path x)),
     (match a_watchers x with
      | [] => []
      | l => [IEnqAny true (map snd l) (RObj (self_of t)) (MKilled (RObj (self_of t)))]
      end)
     ++ [IEnq true (RObj p) (RObj (self_of t)) (MKilled (RObj (self_of t))); IEnqDone]
     ++ [IPub evKilled (actor_key x); IResume1]) /\
  instr_sends (snd (exec1 s t held ICleanup)) = [(RObj p, true, MKilled (RObj (self_of t)))].
Proof. exact (stop_notifies_parent s t held x p). Qed.

(** Resume: CommandResumeMailbox only resumes the mailbox - the handler is [IResume1] (+ the event), the
    record changes in its current-envelope field only: state, stash, behaviour stack, instance, queues intact *)
Theorem C08_resume_only_resumes s a x e :
  e_msg e = MCmdResume -> dead_for x e = false ->
  dispatch s a x e = (set_actor s a (set_cur x e), [IResume1; IPub evResumed (actor_key x); IEndHandler]) /\
  stable x (set_cur x e) /\ same_user_state x (set_cur x e) /\ same_queues x (set_cur x e) /\ a_cons (set_cur x e) = a_cons x.
Proof. exact (resume_only_resumes s a x e). Qed.

(** the failing message is dropped: it was taken out of the queue before the handler ran (EvUserPop /
    EvSysPop), and no instruction puts an envelope (back) into a queue: [exec1] leaves every queue (and, except
    for the explicit Stash / Unstash actions, every stash) as it is ... *)
Theorem C08_resume_drops_failing_message s t held i :
  keeps_mail (negb (touches_stash i)) s (fst (exec1 s t held i)).
Proof. exact (exec1_keeps_mail s t held i). Qed.

(** ... HandleEnvelop itself leaves every queue and stash as it is ... *)
Theorem C08_dispatch_keeps_mail s a x e : get s a = Some x -> keeps_mail true s (fst (dispatch s a x e)).
Proof. exact (dispatch_keeps_mail s a x e). Qed.

(** ... the only envelopes handed directly to a mailbox are a fresh TellSelf message and envelopes the user
    code had stashed, released by Unstash (every other queue insertion is a tell that builds a new envelope:
    IEnq / IEnqAny / ISupPause), plus HandleEnvelop's dead-letter report to the root *)
Theorem C08_direct_enqueues s t held i x b e :
  get s (self_of t) = Some x -> In (b, e) (instr_direct (snd (exec1 s t held i))) ->
  b = self_of t /\
  ((exists tag acts, i = IAct (ATellSelf tag acts) /\ e = {| e_sys := false; e_sender := RObj (self_of t); e_msg := MUser tag acts |}) \/
   (exists n, i = IAct (AUnstash n) /\ In e (a_stash x))).
Proof. exact (exec1_direct s t held i x b e). Qed.

Theorem C08_dispatch_direct_enqueues s a x e b e' :
  In (b, e') (instr_direct (snd (dispatch s a x e))) ->
  dead_for x e = true /\ b = 0 /\ e' = {| e_sys := false; e_sender := root_ref; e_msg := MDeadLetter (e_sys e) (e_msg e) |}.
Proof. exact (dispatch_direct s a x e b e'). Qed.

(** ============================ (e) failure reports ============================ *)

(** the failure sites: OnLaunch, a user message, an event-stream message run the behaviour with the RecFail
    recovery; another actor's OnKilled goes through IOnKilled (RecKilled, below) *)
Theorem C08_failure_sites s a x e :
  dead_for x e = false ->
  (e_msg e = MLaunch ->
     dispatch s a x e = (set_actor s a (set_cur x e), [IBeh MLaunch (sp_launch (a_spec x)) RecFail; IPub evLaunched (actor_key x); IEndHandler])) /\
  (forall tag acts, e_msg e = MUser tag acts ->
     dispatch s a x e = (set_actor s a (set_cur x e), [IBeh (MUser tag acts) acts RecFail; IEndHandler])) /\
  (forall ty payload, e_msg e = MEvent ty payload ->
     dispatch s a x e = (set_actor s a (set_cur x e), [IBeh (MEvent ty payload) [] RecFail; IEndHandler])) /\
  (forall who, e_msg e = MKilled who ->
     dispatch s a x e = (set_actor s a (set_cur x e), [IOnKilled who; IEndHandler])).
Proof. exact (failure_sites s a x e). Qed.

Theorem C08_child_killed_site s t held x who :
  get s (self_of t) = Some x -> a_zombie x = false -> ref_eq s who (RObj (self_of t)) = false ->
  snd (exec1 s t held (IOnKilled who)) = [IBeh (MKilled who) (sp_killed (a_spec x)) (RecKilled who); ICheckMark].
Proof. exact (exec1_IOnKilled_other s t held x who). Qed.

(** a behaviour run under RecFail: the actions before the first panic (Failed = panic) are performed, then
    exactly one failure report if the script panics, none otherwise *)
Theorem C08_failure_reports_once s t held x p m acts :
  get s (self_of t) = Some x -> a_zombie x = false -> a_parent x = Some p ->
  exec1 s t held (IBeh m acts RecFail) =
    (add_obs s (OSeen (self_of t) (a_inst x) (match a_cons x with CBusy md => md | _ => mode_top x end) m),
     map IAct (fst (take_until_panic acts)) ++ if snd (take_until_panic acts) then [IFailed] else []) /\
  count_failed (snd (exec1 s t held (IBeh m acts RecFail))) = if snd (take_until_panic acts) then 1 else 0.
Proof. exact (failure_reports_once_full s t held x p m acts). Qed.

(** a failure report pauses the own mailbox and sends exactly one supervision report, to the parent *)
Theorem C08_failed_reports_to_parent s t held x :
  get s (self_of t) = Some x ->
  exists ins, exec1 s t held IFailed = (s, IPauseSt :: ins) /\
    instr_sends ins = [(rref_parent x, true, MSup (SupCtx (RObj (self_of t)) [] None))] /\
    count_sup (instr_sends ins) = 1 /\ count_failed ins = 0.
Proof. exact (failed_reports_to_parent s t held x). Qed.

(** no supervision while stopping: OnKill and the actor's own OnKilled run under RecLog, which never reports ... *)
Theorem C08_no_supervision_while_stopping s t held x poison :
  get s (self_of t) = Some x ->
  (forall m acts r, In (IBeh m acts r) (snd (exec1 s t held (IDoKill poison))) -> r = RecLog) /\
  (forall m acts r, In (IBeh m acts r) (snd (exec1 s t held ICheckMark)) -> r = RecLog).
Proof. exact (stop_sequence_recoveries s t held x poison). Qed.

Theorem C08_no_report_under_RecLog s t held m acts : count_failed (snd (exec1 s t held (IBeh m acts RecLog))) = 0.
Proof. exact (no_report_RecLog s t held m acts). Qed.

(** ... and a panic in the OnKilled of another actor reports only in state running (and never for the own death) *)
Theorem C08_no_report_for_killed_while_stopping s t held x m acts who :
  get s (self_of t) = Some x -> a_state x <> Running \/ ref_eq s who (RObj (self_of t)) = true ->
  count_failed (snd (exec1 s t held (IBeh m acts (RecKilled who)))) = 0.
Proof. exact (no_report_RecKilled s t held x m acts who). Qed.

(** the general clause "a failure while an actor is already stopping does not trigger supervision" is FALSE of
    the code: HandleEnvelop lets system messages through in state killing, and OnLaunch (a system message)
    runs the behaviour under the reporting recovery.  Partial: for an actor that is not running (and not a
    zombie) the only handlers that run user code under RecFail are those of system-flagged OnLaunch /
    user-kind messages in state killing (user-kind messages are never sent with the system flag) ... *)
Theorem C08_no_supervision_while_stopping_partial s a x e m acts :
  a_state x <> Running -> a_zombie x = false -> In (IBeh m acts RecFail) (snd (dispatch s a x e)) ->
  a_state x = Killing /\ e_sys e = true /\
  (e_msg e = MLaunch \/ (exists tag acts', e_msg e = MUser tag acts') \/ (exists ty pl, e_msg e = MEvent ty pl) \/
   exists sy inner, e_msg e = MDeadLetter sy inner).
Proof. exact (stopping_recfail_only_launch s a x e m acts). Qed.

(** ... refuted: a reachable state in which an actor in state killing has just produced a failure report (the
    pause of its own mailbox and the supervision report to its parent are its next instructions).  Witness
    ([wit_scripts], [wit_events] in Actor/SpecSup.v): a kill sent through a parsed reference overtakes OnLaunch
    (ActorOf registers the path before it enqueues OnLaunch - known finding C05-spawn-race-first-message),
    OnKill spawns a child, so the actor is still killing when its panicking OnLaunch is handled. *)
Theorem C08_no_supervision_while_stopping_refuted :
  exists s a x rest, reachable s /\ get s a = Some x /\ a_state x = Killing /\ a_zombie x = false /\
    a_pend x = IPauseSt :: IEnq true (rref_parent x) (RObj a) (MSup (SupCtx (RObj a) [] None)) :: rest.
Proof. exact stopping_failure_witness. Qed.

(** escalation ends at the top: the root context (actor 0) has no strategy in every reachable state, so a
    report that reaches it is answered by the system default: Stop, applied to the reporting top-level actor *)
Theorem C08_escalation_reaches_root_default s x e c :
  reachable s -> get s 0 = Some x -> e_msg e = MSup c -> dead_for x e = false ->
  dispatch s 0 x e = (set_actor s 0 (set_decisions (set_cur x e) (a_decisions x)), [ISupPause c DStop [sc_child c] []; IEndHandler]).
Proof. exact (root_decides_stop s x e c). Qed.

Theorem C08_root_is_guard s :
  reachable s -> exists x, get s 0 = Some x /\ a_spec x = root_spec /\ a_parent x = None /\ a_path x = [].
Proof. exact (root_inv s). Qed.

(** ============================ examples (concrete runs, vm_compute) ============================ *)

Local Open Scope N_scope.

Definition ex_child (n : N) : spec := Spec n [] [] [] 0 [] true [] false.

(** one-for-all supervisor [10] with decision script [Restart] and two children [10;1], [10;2]; an external
    caller spawns it and sends a panicking message to child 1 *)
Definition ex_all_sup : spec := Spec 10 [ASpawn (ex_child 1); ASpawn (ex_child 2)] [] [] 2 [DRestart] true [] false.
Definition ex_all_scripts : list (list action) := [[ASpawn ex_all_sup; ATell (XPath [10; 1]) 7 [APanic]]].

(** ... up to the moment the supervisor has handled the report ... *)
Definition ex_all_evs1 : list event :=
  [EvStart 0; EvPush (TX 0) 0; EvSysPop 1; EvHandle 1; EvPush (TA 1) 0; EvEnqDone (TA 1); EvPush (TA 1) 0;
   EvEnqDone (TA 1); EvSysPop 1; EvLoadPaused 1; EvUserPop 1; EvSysPop 2; EvHandle 2; EvSysPop 2; EvLoadPaused 2;
   EvUserPop 2; EvSysPop 3; EvHandle 3; EvSysPop 3; EvLoadPaused 3; EvUserPop 3; EvEnqDone (TX 0); EvPush (TX 0) 0;
   EvSysPop 2; EvLoadPaused 2; EvUserPop 2; EvHandle 2; EvPauseSt (TA 2); EvPush (TA 2) 0; EvSysPop 1]%nat.
Definition ex_all_evs2 : list event :=
  [EvHandle 1; EvPush (TA 1) 0; EvEnqDone (TA 1); EvPush (TA 1) 0; EvEnqDone (TA 1); EvPush (TA 1) 0; EvEnqDone (TA 1);
   EvPush (TA 1) 0; EvEnqDone (TA 1)]%nat.
(** ... and to quiescence *)
Definition ex_all_evs3 : list event :=
  [EvSysPop 1; EvLoadPaused 1; EvUserPop 1; EvEnqDone (TA 2); EvSysPop 2; EvHandle 2; EvPauseSt (TA 2); EvSysPop 2;
   EvHandle 2; EvResume1 (TA 2); EvResume2 (TA 2); EvSysPop 2; EvLoadPaused 2; EvUserPop 2; EvSysPop 3; EvHandle 3;
   EvPauseSt (TA 3); EvSysPop 3; EvHandle 3; EvResume1 (TA 3); EvResume2 (TA 3); EvSysPop 3; EvLoadPaused 3;
   EvUserPop 3; EvEnqDone (TX 0)]%nat.

Definition ex_all_s1 : state := run_events ex_all_evs1 (init_with ex_all_scripts).
Definition ex_all_s2 : state := run_events ex_all_evs2 ex_all_s1.
Definition ex_all_s3 : state := run_events ex_all_evs3 ex_all_s2.

(** the hypotheses of [C08_consulted_once] / [C08_targets] hold in a reachable state: the supervisor (actor 1)
    is about to handle the report of child 1 (actor 2); strategy 2, one decision left, two children *)
Example C08_ex_report_pending :
  reachable ex_all_s1 /\
  exists x e, get ex_all_s1 1 = Some x /\ a_cons x = CH e /\ e_msg e = MSup (SupCtx (RObj 2) [] None) /\ dead_for x e = false /\
    sp_strategy (a_spec x) = 2 /\ a_decisions x = [DRestart] /\ a_children x = [([10; 1], 2%nat); ([10; 2], 3%nat)].
Proof.
  split.
  - exists ex_all_scripts, ex_all_evs1. split; [reflexivity|vm_compute; reflexivity].
  - eexists; eexists. vm_compute. repeat split.
Qed.

(** after the supervisor's handler: the decision is consumed, BOTH children hold exactly Pause then Restart
    (system messages from the supervisor) - the failing child (actor 2, already paused by its own failure)
    and its sibling (actor 3) *)
Example C08_ex_one_for_all_restart :
  err ex_all_s2 = false /\
  (exists x, get ex_all_s2 1 = Some x /\ a_decisions x = [] /\ a_pend x = []) /\
  (exists x, get ex_all_s2 2 = Some x /\ a_paused x = true /\
     a_sq x = [{| e_sys := true; e_sender := RObj 1; e_msg := MCmdPause |}; {| e_sys := true; e_sender := RObj 1; e_msg := MRestart false |}]) /\
  (exists x, get ex_all_s2 3 = Some x /\
     a_sq x = [{| e_sys := true; e_sender := RObj 1; e_msg := MCmdPause |}; {| e_sys := true; e_sender := RObj 1; e_msg := MRestart false |}]).
Proof. vm_compute. repeat split; eexists; repeat split. Qed.

(** at quiescence both children have been restarted in place (same registry entries, running, not paused,
    OnKill / OnKilled / OnLaunch observed again at each of them); the failing message is not seen again *)
Example C08_ex_one_for_all_restarted :
  err ex_all_s3 = false /\
  reg ex_all_s3 = [([10], 1%nat); ([10; 1], 2%nat); ([10; 2], 3%nat)] /\
  map (fun x => (a_state x, a_paused x, a_sq x, a_uq x)) (actors ex_all_s3) =
    [(Running, false, [], []); (Running, false, [], []); (Running, false, [], []); (Running, false, [], [])] /\
  olog ex_all_s3 =
    [OSeen 1 0 0 MLaunch; OSpawn 1 1 0; OSpawn 1 2 0; OSeen 2 0 0 MLaunch; OSeen 3 0 0 MLaunch; OSpawn 0 10 0;
     OSeen 2 0 0 (MUser 7 [APanic]);
     OSeen 2 0 0 (MKill (RObj 2) false); OSeen 2 0 0 (MKilled (RObj 2)); OSeen 2 0 0 MLaunch;
     OSeen 3 0 0 (MKill (RObj 3) false); OSeen 3 0 0 (MKilled (RObj 3)); OSeen 3 0 0 MLaunch].
Proof. vm_compute. repeat split. Qed.

(** escalation to the root: top-level actor [20] (one-for-one, decision script [Escalate]) with child [20;1];
    the child fails, [20] escalates, the root's default stops [20] (and with it the child): both are killed,
    their paths are released, nothing is left paused or queued *)
Definition ex_esc_top : spec := Spec 20 [ASpawn (ex_child 1)] [] [] 1 [DEscalate] true [] false.
Definition ex_esc_scripts : list (list action) := [[ASpawn ex_esc_top; ATell (XPath [20; 1]) 7 [APanic]]].
Definition ex_esc_evs1 : list event :=
  [EvStart 0; EvPush (TX 0) 0; EvSysPop 1; EvHandle 1; EvPush (TA 1) 0; EvEnqDone (TA 1); EvSysPop 1; EvLoadPaused 1;
   EvUserPop 1; EvSysPop 2; EvHandle 2; EvSysPop 2; EvLoadPaused 2; EvUserPop 2; EvEnqDone (TX 0); EvPush (TX 0) 0;
   EvSysPop 2; EvLoadPaused 2; EvUserPop 2; EvHandle 2; EvPauseSt (TA 2); EvPush (TA 2) 0; EvSysPop 1; EvHandle 1;
   EvPush (TA 1) 0; EvEnqDone (TA 1); EvPauseSt (TA 1); EvPush (TA 1) 0; EvSysPop 0]%nat.
Definition ex_esc_evs2 : list event :=
  [EvHandle 0; EvPush (TA 0) 0; EvEnqDone (TA 0); EvPush (TA 0) 0; EvEnqDone (TA 0); EvSysPop 0; EvLoadPaused 0;
   EvUserPop 0; EvEnqDone (TA 1); EvSysPop 1; EvHandle 1; EvPauseSt (TA 1); EvSysPop 1; EvHandle 1; EvPush (TA 1) 0;
   EvEnqDone (TA 1); EvSysPop 1; EvLoadPaused 1; EvEnqDone (TA 2); EvSysPop 2; EvHandle 2; EvPauseSt (TA 2); EvSysPop 2;
   EvHandle 2; EvPush (TA 2) 0; EvSysPop 1; EvHandle 1; EvPush (TA 1) 0; EvSysPop 0; EvHandle 0; EvSysPop 0;
   EvLoadPaused 0; EvUserPop 0; EvEnqDone (TA 1); EvResume1 (TA 1); EvResume2 (TA 1); EvSysPop 1; EvLoadPaused 1;
   EvUserPop 1; EvEnqDone (TA 2); EvResume1 (TA 2); EvResume2 (TA 2); EvSysPop 2; EvLoadPaused 2; EvUserPop 2;
   EvEnqDone (TX 0)]%nat.
Definition ex_esc_s1 : state := run_events ex_esc_evs1 (init_with ex_esc_scripts).
Definition ex_esc_s2 : state := run_events ex_esc_evs2 ex_esc_s1.

(** the escalated report is pending at the root: it names [20] (actor 1) as the failing child and carries the
    original report with its target (the hypotheses of [C08_escalation_reaches_root_default] in a reachable state) *)
Example C08_ex_escalated_report_at_root :
  reachable ex_esc_s1 /\
  exists x e, get ex_esc_s1 0 = Some x /\ a_cons x = CH e /\ dead_for x e = false /\
    e_msg e = MSup (SupCtx (RObj 1) [] (Some (SupCtx (RObj 2) [RObj 2] None))).
Proof.
  split.
  - exists ex_esc_scripts, ex_esc_evs1. split; [reflexivity|vm_compute; reflexivity].
  - eexists; eexists. vm_compute. repeat split.
Qed.

Example C08_ex_escalate_to_root_stops_top :
  err ex_esc_s2 = false /\ reg ex_esc_s2 = [] /\
  map (fun x => (a_path x, a_state x, a_paused x, a_sq x, a_uq x)) (actors ex_esc_s2) =
    [([], Running, false, [], []); ([20], Killed, false, [], []); ([20; 1], Killed, false, [], [])] /\
  olog ex_esc_s2 =
    [OSeen 1 0 0 MLaunch; OSpawn 1 1 0; OSeen 2 0 0 MLaunch; OSpawn 0 20 0; OSeen 2 0 0 (MUser 7 [APanic]);
     OSeen 1 0 0 (MKill (RObj 0) false); OSeen 2 0 0 (MKill (RObj 1) false); OSeen 2 0 0 (MKilled (RObj 2));
     OSeen 1 0 0 (MKilled (RObj 2)); OSeen 1 0 0 (MKilled (RObj 1))].
Proof. vm_compute. repeat split. Qed.

(** [pick_order] is inhabited for every list (e.g. slice order) *)
Example C08_ex_pick_order : pick_order [RObj 2; RObj 3] [RObj 3; RObj 2].
Proof.
  apply (pick_cons [RObj 2; RObj 3] 1 (RObj 3) [RObj 2]); [reflexivity|].
  apply (pick_cons [RObj 2] 0 (RObj 2) []); [reflexivity|]. constructor.
Qed.

Print Assumptions C08_consulted_once.
Print Assumptions C08_dead_supervisor_no_supervision.
Print Assumptions C08_targets.
Print Assumptions C08_pick_order_permutation.
Print Assumptions C08_pause_step.
Print Assumptions C08_handler_not_disturbed.
Print Assumptions C08_pause_phase_interleaved.
Print Assumptions C08_pause_then_directive.
Print Assumptions C08_directive_shape.
Print Assumptions C08_no_other_target.
Print Assumptions C08_restart_begins.
Print Assumptions C08_restart_ignored_when_stopping.
Print Assumptions C08_restart_no_cleanup.
Print Assumptions C08_restart_keeps_ref_resets_state.
Print Assumptions C08_stop_begins.
Print Assumptions C08_stop_kills_children.
Print Assumptions C08_stop_notifies_parent.
Print Assumptions C08_resume_only_resumes.
Print Assumptions C08_resume_drops_failing_message.
Print Assumptions C08_dispatch_keeps_mail.
Print Assumptions C08_direct_enqueues.
Print Assumptions C08_dispatch_direct_enqueues.
Print Assumptions C08_failure_sites.
Print Assumptions C08_child_killed_site.
Print Assumptions C08_failure_reports_once.
Print Assumptions C08_failed_reports_to_parent.
Print Assumptions C08_no_supervision_while_stopping.
Print Assumptions C08_no_report_under_RecLog.
Print Assumptions C08_no_report_for_killed_while_stopping.
Print Assumptions C08_no_supervision_while_stopping_partial.
Print Assumptions C08_no_supervision_while_stopping_refuted.
Print Assumptions C08_escalation_reaches_root_default.
Print Assumptions C08_root_is_guard.
