(** C08 - theorem file under construction *)
From Vivid Require Import Actor.Core.
