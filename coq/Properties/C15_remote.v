(** C15 (remoting part) — location transparency of system messages: a remote Kill / Watch / OnKilled travels in
    the same envelopes over the same frames as a user message.
    Statements only; proofs in Remoting/FrameProofs.v.  What is ASSUMED here and proved elsewhere: the payload
    codecs of OnKill / OnKilled / Watch (message-level round trips, including the (address, path) encoding of the
    ActorRef fields introduced by the fix cecf3e1) are C12's theorems; this file covers the envelope and the wire. *)
From Coq Require Import List NArith ZArith Lia.
From Vivid Require Import Codec.Prim Remoting.Frame Remoting.FrameProofs.
Import ListNotations.
Local Open Scope N_scope.

(** any sequence of envelopes — user or system ([e_system]), any message name, any payload, any sender/receiver
    address and path strings — written by one system is handed to the other system's HandleRemotingEnvelop exactly
    once, in order, with every field intact, for every way TCP cuts the stream *)
Theorem C15_envelopes_exactly_once_in_order :
  forall (es : list env) (chunks : list bytes),
    Forall env_len32 es ->
    Forall (fun e => N.of_nat (length (env_encode e)) <= max_frame) es ->
    concat chunks = concat (map (fun e => frame (env_encode e)) es) ->
    receive env_dec chunks = map RMsg es ++ [REof] /\ delivered (receive env_dec chunks) = es.
Proof. exact envelopes_exactly_once. Qed.

(** the killer / watcher reference the remote actor sees is the one that was written (Reply, OnKilled and the
    dead-watch notification reach the right actor); normaliser idempotence as in C11_sender_ref *)
Theorem C15_system_message_refs :
  forall norm_addr norm_path : bytes -> option bytes,
    (forall a a', norm_addr a = Some a' -> norm_addr a' = Some a') ->
    (forall p p', norm_path p = Some p' -> norm_path p' = Some p') ->
    forall (e : env) (junk a1 p1 a2 p2 : bytes) (s r : bytes * bytes),
      e_system e = true ->
      new_ref norm_addr norm_path a1 p1 = Some s ->
      new_ref norm_addr norm_path a2 p2 = Some r ->
      e_saddr e = fst s -> e_spath e = snd s -> e_raddr e = fst r -> e_rpath e = snd r ->
      env_len32 e ->
      exists e', env_parse (env_encode e ++ junk) = Ok e' /\ e_system e' = true /\
                 handle_refs norm_addr norm_path e' = Some (s, r).
Proof. exact system_refs. Qed.

(** non-vacuity: a system envelope (an OnKill-like message from a:1/w to b:1/t), its frame cut after two bytes *)
Example C15_example :
  let kill := {| e_payload := [0; 0; 0; 1; 97]; e_name := [79; 110; 75; 105; 108; 108]; e_system := true;
                 e_saddr := [97; 58; 49]; e_spath := [47; 119]; e_raddr := [98; 58; 49]; e_rpath := [47; 116] |} in
  env_len32 kill /\ N.of_nat (length (env_encode kill)) <= max_frame /\
  receive env_dec [firstn 2 (frame (env_encode kill)); skipn 2 (frame (env_encode kill))] = [RMsg kill; REof].
Proof. cbn zeta. split; [unfold env_len32; cbn; lia|]. split; [unfold max_frame; cbn; lia|reflexivity]. Qed.

Print Assumptions C15_envelopes_exactly_once_in_order.
Print Assumptions C15_system_message_refs.
