(** C13, generic half — the primitive Writer and Reader of internal/messages are total: bad bytes or
    unsupported values give an error, not a crash.
    Statements only; every proof is [exact <lemma>] (lemmas in Codec/Prim2Proofs.v, ReflectProofs.v).

    The model (Codec/Reflect.v) keeps the crashes of the Go code: an outcome is
      OOk a | OErr e | OPanic why | OFuel | OIll
    ([OFuel]: the model's loop fuel ran out — never a normal value, excluded below; [OIll]: the (type,
    payload) pair is not a Go value), and the reader returns, next to its outcome, a cost meter
      (bytes requested from the allocator, loop iterations)
    which is how "never allocates / loops out of proportion to the input" is stated.  An out-of-memory
    death of the Go runtime is "the meter exceeds the memory there is": the witnesses below make the meter
    2^35 for a 4-byte input; on the real code this is a fatal "out of memory" under a 2-4 GiB limit
    (reproduced by the harness in a child process).
    [okerr o] := (exists a, o = OOk a) \/ (exists e, o = OErr e). *)
From Coq Require Import List NArith ZArith Bool.
From Vivid Require Import Codec.Prim Codec.PrimProofs Codec.Prim2 Codec.Prim2Proofs Codec.Reflect Codec.ReflectProofs.
Import ListNotations.
Local Open Scope N_scope.

(** ** (a) encoding: every Go value, of every kind *)
(** writeReflect (what Write reaches for every nested position: struct fields, elements, pointer targets)
    returns bytes or an error for EVERY value: unsupported kinds, named types, nil pointers, nil interfaces,
    nil fields included *)
Theorem C13_writeReflect_total ty v : has_typeb ty v = true -> okerr (wrefl ty v).
Proof. exact (wrefl_total v ty). Qed.
(** Write itself: bytes, an error, or — exactly for a typed nil pointer to one of the twelve basic types
    at top level — a nil dereference *)
Theorem C13_write_total_partial ty v : has_typeb ty v = true ->
  okerr (write ty v) \/ (exists b, ty = TPtr (TBasic b) /\ v = VNil /\ write ty v = OPanic WNilDeref).
Proof. exact (write_total ty v). Qed.
Example C13_write_total_example : has_typeb ex_ty ex_val = true /\ has_typeb (TPtr (TPtr TIface)) (VPtr VNil) = true.
Proof. split; vm_compute; reflexivity. Qed.
(** REFUTED at full strength: Write(( *T)(nil)) panics for T = byte, int8 ... string (the type switch
    dereferences without a nil check; only *[]byte is checked) *)
Theorem C13_write_nil_pointer_refuted :
  forall b, has_typeb (TPtr (TBasic b)) VNil = true /\ write (TPtr (TBasic b)) VNil = OPanic WNilDeref.
Proof. exact w_write_nil_ptr. Qed.
Theorem C13_write_nil_bytes_pointer : write (TPtr (TSlice false (TBasic BU8))) VNil = OOk [0; 0; 0; 0].
Proof. exact w_write_nil_bytes_ptr. Qed.
(** WriteFrom: the same, for every list of values *)
Theorem C13_write_from_total_partial l : forallb (fun p => has_typeb (fst p) (snd p)) l = true ->
  okerr (write_from l) \/ write_from l = OPanic WNilDeref.
Proof. exact (write_from_total l). Qed.
Theorem C13_write_from_total l :
  forallb (fun p => has_typeb (fst p) (snd p)) l = true -> forallb (fun p => negb (nil_basic_ptr p)) l = true -> okerr (write_from l).
Proof. exact (write_from_okerr l). Qed.
Example C13_write_from_example :
  forallb (fun p => has_typeb (fst p) (snd p)) [(TMap, VOpaque); (ex_ty, ex_val)] = true
  /\ forallb (fun p => negb (nil_basic_ptr p)) [(TMap, VOpaque); (ex_ty, ex_val)] = true.
Proof. split; vm_compute; reflexivity. Qed.
(** the fix commit's claim, complete: int, uint, named basic types, maps, channels, functions, nil interface,
    nested nil pointers are errors (no recursion back into Write: [wrefl] is structurally recursive on the
    value, so there is nothing left that could recurse for ever) *)
Theorem C13_unsupported_is_error :
  (forall b v, basic_ok b v = true -> write (TNamed b) v = OErr EUnsupported /\ forall bs, fst (read (TNamed b) bs) = OErr EUnsupported) /\
  (forall z, write TInt (VZ z) = OErr EUnsupported /\ forall bs, fst (read TInt bs) = OErr EUnsupported) /\
  (forall n, write TUint (VN n) = OErr EUnsupported /\ forall bs, fst (read TUint bs) = OErr EUnsupported) /\
  (forall v, v = VNil \/ v = VOpaque -> write TMap v = OErr EUnsupported /\ write TChan v = OErr EUnsupported /\ write TFunc v = OErr EUnsupported) /\
  write TIface VNil = OErr EUnsupported /\
  (forall t, (forall b, t <> TBasic b) -> t <> TSlice false (TBasic BU8) -> write (TPtr t) VNil = OErr EInvalid) /\
  (forall t bs, fst (read (TPtr t) bs) = OErr EUnsupported) /\ (forall bs, fst (read TIface bs) = OErr EUnsupported).
Proof. exact unsupported_kinds. Qed.

(** ** (b) decoding: every type, EVERY byte string *)
(** Read returns a value and a suffix of the input, or an error — never a panic, never fuel exhaustion
    (the element loop runs with fuel |remaining input|+1, an explicit argument of [rd_elems]); a type that
    occupies bytes on the wire consumes at least one byte per successful read, which is why the fuel suffices *)
Theorem C13_read_total ty bs :
  (exists v r h, fst (read ty bs) = OOk (v, r) /\ bs = h ++ r /\ (wire0 ty = false -> h <> []))
  \/ (exists e, fst (read ty bs) = OErr e).
Proof. exact (read_total ty bs). Qed.
Theorem C13_read_never_crashes ty bs : okerr (fst (read ty bs)).
Proof. exact (read_okerr ty bs). Qed.
Theorem C13_read_into_total tys bs :
  (exists vs r h, fst (read_into tys bs) = OOk (vs, r) /\ bs = h ++ r /\ length vs = length tys)
  \/ (exists e, fst (read_into tys bs) = OErr e).
Proof. exact (read_into_total tys bs). Qed.
(** the varint readers on every byte string: a value, "unexpected EOF" (n = 0) or "overflow" (n < 0) *)
Theorem C13_uvarint_total bs :
  (exists v r, rd_uvarint bs = Ok (v, r)) \/ rd_uvarint bs = Err EEOF \/ rd_uvarint bs = Err EOverflow.
Proof. exact (uv_dec_total bs 0 0 0). Qed.
Theorem C13_varint_total bs :
  (exists v r, rd_varint bs = Ok (v, r)) \/ rd_varint bs = Err EEOF \/ rd_varint bs = Err EOverflow.
Proof. exact (rd_varint_total bs). Qed.
(** n = 0 exactly on at most ten continuation bytes; an eleventh byte after ten continuation bytes overflows;
    a decoded value fits 64 bits and took 1..10 bytes *)
Theorem C13_uvarint_eof bs : rd_uvarint bs = Err EEOF <-> forallb (fun b => 128 <=? b) bs = true /\ (length bs <= 10)%nat.
Proof. exact (rd_uvarint_eof bs). Qed.
Theorem C13_uvarint_overflow h c rest : length h = 10%nat -> forallb (fun b => 128 <=? b) h = true -> rd_uvarint (h ++ c :: rest) = Err EOverflow.
Proof. exact (rd_uvarint_overflow_11 h c rest). Qed.
Example C13_uvarint_overflow_example : length (repeat 128 10) = 10%nat /\ forallb (fun b => 128 <=? b) (repeat 128 10) = true.
Proof. split; reflexivity. Qed.
Theorem C13_uvarint_bound bs v r : wf_bytes bs = true -> rd_uvarint bs = Ok (v, r) -> v < 18446744073709551616.
Proof. exact (rd_uvarint_bound bs v r). Qed.
Example C13_uvarint_bound_example : wf_bytes [255; 255; 255; 255; 255; 255; 255; 255; 255; 1] = true
  /\ rd_uvarint [255; 255; 255; 255; 255; 255; 255; 255; 255; 1] = Ok (18446744073709551615, []).
Proof. split; vm_compute; reflexivity. Qed.

(** Read called with something that is not a non-nil pointer: an error — except a typed nil pointer to a basic
    type or to []byte, where the type switch reads the value and then assigns through the nil pointer *)
Theorem C13_read_call_total_partial tg bs :
  okerr (read_call tg bs) \/ (read_call tg bs = OPanic WNilDeref /\ exists t, tg = TgtNilPtr t).
Proof. exact (read_call_total tg bs). Qed.
Theorem C13_read_nil_target_refuted :
  read_call (TgtNilPtr (TBasic BI8)) [7] = OPanic WNilDeref /\ read_call (TgtNilPtr (TBasic BI8)) [] = OErr EEOF
  /\ read_call (TgtNilPtr (TStruct [])) [7] = OErr EInvalid /\ read_call TgtNonPtr [7] = OErr EInvalid.
Proof. exact w_read_nil_target. Qed.

(** allocation and work.  [cb m L K S] := allocated + 2*remaining <= 2*L + K  /\  iterations <= S.
    For every type WITHOUT a reflective slice (strings and []byte allowed; arrays and structs nested
    arbitrarily) and every input: at most 2 bytes allocated per input byte consumed plus a constant fixed
    by the type (its temporaries), and a number of iterations fixed by the type *)
Theorem C13_cost_partial ty bs : static_ty ty = true -> cb (read ty bs) (N.of_nat (length bs)) (kconst ty) (kconst ty).
Proof. exact (fun H => cost_static ty H bs). Qed.
Example C13_cost_partial_example :
  static_ty (TStruct [(true, TBasic BStr); (true, TArray 3 (TStruct [(true, TSlice false (TBasic BU8)); (false, TSlice false TInt)]))]) = true.
Proof. reflexivity. Qed.
(** REFUTED for reflective slices: reflect.MakeSlice(type, n, n) with the wire's uint32 n runs BEFORE any
    element is read: the meter is at least n * sizeof(element), whatever follows in the input; and when the
    element type occupies no bytes on the wire the loop runs n times without consuming input *)
Theorem C13_slice_alloc_is_wire_supplied nm e bs n t :
  negb nm && match e with TBasic BU8 => true | _ => false end = false -> rd_u32 bs = Ok (n, t) ->
  n * tsize e <= fst (snd (read (TSlice nm e) bs)) /\ (wire0 e = true -> snd (snd (read (TSlice nm e) bs)) = n).
Proof. exact (slice_cost_wire nm e bs n t). Qed.
Example C13_slice_alloc_example :
  negb false && match TBasic BU64 with TBasic BU8 => true | _ => false end = false /\ rd_u32 [0; 1; 0; 0; 9] = Ok (65536, [9]).
Proof. split; reflexivity. Qed.
(** witness: 4 input bytes, []uint64: 32 GiB requested, then "unexpected EOF" *)
Theorem C13_alloc_refuted :
  fst (read (TSlice false (TBasic BU64)) [255; 255; 255; 255]) = OErr EEOF
  /\ fst (snd (read (TSlice false (TBasic BU64)) [255; 255; 255; 255])) = 34359738360.
Proof. exact w_alloc. Qed.
(** witness: 4 input bytes, []struct{}: 2^32-1 iterations *)
Theorem C13_loop_refuted : snd (snd (read (TSlice false (TStruct [])) (put_u32 4294967295))) = 4294967295.
Proof. exact w_loop. Qed.

(** ReadBytes(n)/Skip(n) with a negative caller-supplied n panic (n is not wire data) *)
Theorem C13_readbytes_negative_refuted : rd_bytes_z (-1) [1; 2; 3] = OPanic WSliceBounds.
Proof. exact w_readbytes_negative. Qed.

(** ** (c) the caller's variables *)
(** a failing Read(&x) leaves x unchanged, for every type (primitives are assigned after the read, slices
    after the last element, arrays and structs are read into a temporary) *)
Theorem C13_no_clobber old ty bs : (forall r, snd (read_var old ty bs) <> OOk r) -> fst (read_var old ty bs) = old.
Proof. exact (read_var_fail old ty bs). Qed.
Example C13_no_clobber_example : forall r, snd (read_var (VStruct [VN 7; VN 8]) (TStruct [(true, TBasic BU8); (true, TBasic BU16)]) [1; 2]) <> OOk r.
Proof. intros r. vm_compute. discriminate. Qed.
(** ReadInto(&a, &b, ...): on failure exactly the variables before the failing one hold decoded values,
    the failing one and all later ones are unchanged; on success all hold the decoded values *)
Theorem C13_read_into_vars olds bs vs o : read_into_vars olds bs = (vs, o) ->
  (forall r, o = OOk r -> fst (read_into (map fst olds) bs) = OOk (vs, r)) /\
  ((forall r, o <> OOk r) ->
     exists pre post dec rest, olds = pre ++ post /\ post <> [] /\
       fst (read_into (map fst pre) bs) = OOk (dec, rest) /\ vs = dec ++ map snd post /\
       (forall r, fst (read (fst (hd (TInt, VNil) post)) rest) <> OOk r)).
Proof. exact (read_into_vars_spec olds bs vs o). Qed.
(** REFUTED at full strength ("every previously decoded variable unchanged"): ReadInto's earlier targets
    are overwritten before a later one fails *)
Theorem C13_read_into_clobber_refuted :
  read_into_vars [(TBasic BU8, VN 9); (TBasic BU8, VN 9)] [1] = ([VN 1; VN 9], OErr EEOF).
Proof. exact w_read_into_clobber. Qed.

Print Assumptions C13_writeReflect_total.
Print Assumptions C13_write_total_partial.
Print Assumptions C13_write_nil_pointer_refuted.
Print Assumptions C13_write_nil_bytes_pointer.
Print Assumptions C13_write_from_total_partial.
Print Assumptions C13_write_from_total.
Print Assumptions C13_unsupported_is_error.
Print Assumptions C13_read_total.
Print Assumptions C13_read_never_crashes.
Print Assumptions C13_read_into_total.
Print Assumptions C13_uvarint_total.
Print Assumptions C13_varint_total.
Print Assumptions C13_uvarint_eof.
Print Assumptions C13_uvarint_overflow.
Print Assumptions C13_uvarint_bound.
Print Assumptions C13_read_call_total_partial.
Print Assumptions C13_read_nil_target_refuted.
Print Assumptions C13_cost_partial.
Print Assumptions C13_slice_alloc_is_wire_supplied.
Print Assumptions C13_alloc_refuted.
Print Assumptions C13_loop_refuted.
Print Assumptions C13_readbytes_negative_refuted.
Print Assumptions C13_no_clobber.
Print Assumptions C13_read_into_vars.
Print Assumptions C13_read_into_clobber_refuted.
