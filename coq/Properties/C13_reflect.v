(** C13, generic half — the primitive Writer and Reader of internal/messages are total: bad bytes or
    unsupported values give an error, not a crash.
    Statements only; every proof is [exact <lemma>] (lemmas in Codec/Prim2Proofs.v, ReflectProofs.v).

    The model (Codec/Reflect.v, the code as it is now, i.e. after the fix commits "reader and writer crashed
    on nil pointers of basic types", "readReflect trusted a wire-supplied slice length" and "nested slices of
    zero-size elements made decoding quadratic in the input") keeps the crashes
    the Go code could have: an outcome is
      OOk a | OErr e | OPanic why | OFuel | OIll
    ([OFuel]: the model's loop fuel ran out — never a normal value, excluded below; [OIll]: the (type,
    payload) pair is not a Go value), and the reader returns, next to its outcome, a cost meter
      (bytes requested from the allocator, loop iterations)
    which is how "never allocates / loops out of proportion to the input" is stated; [work m] is their sum.
    A Reader state is (remaining input, elems) with elems = slice elements created so far; [tot] = len(buf);
    [read0 ty bs] is Read on a fresh Reader over bs.
    [okerr o] := (exists a, o = OOk a) \/ (exists e, o = OErr e). *)
From Coq Require Import List NArith ZArith Bool.
From Vivid Require Import Codec.Prim Codec.PrimProofs Codec.Prim2 Codec.Prim2Proofs Codec.Reflect Codec.ReflectProofs.
From Vivid Require Import Codec.PrimO Codec.ReflectO Codec.ReflectOProofs Codec.Buf Codec.BufProofs.
From Coq Require Import Lia.
Import ListNotations.
Local Open Scope N_scope.

(** ** (a) encoding: every Go value, of every kind *)
(** Write returns bytes or an error for EVERY value: unsupported kinds, named types, nil pointers at top level
    and nested, nil interfaces, nil fields included; so does writeReflect (what Write reaches for struct
    fields, elements, pointer targets).  Both are structurally recursive on the value: nothing can recurse
    for ever, the recursion depth is the nesting depth of the value. *)
Theorem C13_write_total ty v : has_typeb ty v = true -> okerr (write ty v).
Proof. exact (write_total ty v). Qed.
Theorem C13_writeReflect_total ty v : has_typeb ty v = true -> okerr (wrefl ty v).
Proof. exact (wrefl_total v ty). Qed.
Example C13_write_total_example :
  has_typeb ex_ty ex_val = true /\ has_typeb (TPtr (TPtr TIface)) (VPtr VNil) = true /\ has_typeb (TPtr (TBasic BI8)) VNil = true.
Proof. repeat split; vm_compute; reflexivity. Qed.
Theorem C13_write_from_total l : forallb (fun p => has_typeb (fst p) (snd p)) l = true -> okerr (write_from l).
Proof. exact (write_from_total l). Qed.
Example C13_write_from_example :
  forallb (fun p => has_typeb (fst p) (snd p)) [(TMap, VOpaque); (ex_ty, ex_val); (TPtr (TBasic BStr), VNil)] = true.
Proof. vm_compute. reflexivity. Qed.
(** which error: int, uint, named basic types, maps, channels, functions, nil interface: "unsupported type";
    a nil pointer of any type (top level or nested): "cannot write nil pointer" — except a nil *[]byte, which
    is written as an empty slice; pointer and interface targets cannot be read *)
Theorem C13_unsupported_is_error :
  (forall b v, basic_ok b v = true -> write (TNamed b) v = OErr EUnsupported /\ forall tot st, fst (read tot (TNamed b) st) = OErr EUnsupported) /\
  (forall z, write TInt (VZ z) = OErr EUnsupported /\ forall tot st, fst (read tot TInt st) = OErr EUnsupported) /\
  (forall n, write TUint (VN n) = OErr EUnsupported /\ forall tot st, fst (read tot TUint st) = OErr EUnsupported) /\
  (forall v, v = VNil \/ v = VOpaque -> write TMap v = OErr EUnsupported /\ write TChan v = OErr EUnsupported /\ write TFunc v = OErr EUnsupported) /\
  write TIface VNil = OErr EUnsupported /\
  (forall t, t <> TSlice false (TBasic BU8) -> write (TPtr t) VNil = OErr EInvalid) /\
  write (TPtr (TSlice false (TBasic BU8))) VNil = OOk [0; 0; 0; 0] /\
  (forall t tot st, fst (read tot (TPtr t) st) = OErr EUnsupported) /\ (forall tot st, fst (read tot TIface st) = OErr EUnsupported).
Proof. exact unsupported_kinds. Qed.

(** ** (b) decoding: every type, EVERY byte string *)
(** Read returns a value and a suffix of the input, or an error — never a panic, never fuel exhaustion
    (the element loop runs with fuel |remaining input|+1, an explicit argument of [rd_elems]); a type that
    occupies bytes on the wire consumes at least one byte per successful read, which is why the fuel suffices *)
Theorem C13_read_total ty bs :
  (exists v r el h, fst (read0 ty bs) = OOk (v, (r, el)) /\ bs = h ++ r /\ (wire0 ty = false -> h <> []))
  \/ (exists e, fst (read0 ty bs) = OErr e).
Proof. exact (read0_total ty bs). Qed.
(** the same for a Reader in ANY state (any budget, any element count) *)
Theorem C13_read_total_any_reader tot ty st :
  (exists v st' h, fst (read tot ty st) = OOk (v, st') /\ fst st = h ++ fst st' /\ (wire0 ty = false -> h <> []) /\ snd st <= snd st')
  \/ (exists e, fst (read tot ty st) = OErr e).
Proof. exact (read_total tot ty st). Qed.
Theorem C13_read_never_crashes tot ty st : okerr (fst (read tot ty st)).
Proof. exact (read_okerr tot ty st). Qed.
Theorem C13_read_into_total tot tys st :
  (exists vs st' h, fst (read_into tot tys st) = OOk (vs, st') /\ fst st = h ++ fst st' /\ length vs = length tys)
  \/ (exists e, fst (read_into tot tys st) = OErr e).
Proof. exact (read_into_total tot tys st). Qed.
(** Read called with a typed nil pointer (of any type), a non-pointer or nil: an error, nothing is read *)
Theorem C13_read_call_total tg bs : okerr (read_call tg bs).
Proof. exact (read_call_total tg bs). Qed.
Theorem C13_read_nil_target ty bs : read_call (TgtNilPtr ty) bs = OErr EInvalid /\ read_call TgtNonPtr bs = OErr EInvalid.
Proof. exact (read_nil_target ty bs). Qed.
(** the varint readers on every byte string: a value, "unexpected EOF" (n = 0) or "overflow" (n < 0) *)
Theorem C13_uvarint_total bs :
  (exists v r, rd_uvarint bs = Ok (v, r)) \/ rd_uvarint bs = Err EEOF \/ rd_uvarint bs = Err EOverflow.
Proof. exact (uv_dec_total bs 0 0 0). Qed.
Theorem C13_varint_total bs :
  (exists v r, rd_varint bs = Ok (v, r)) \/ rd_varint bs = Err EEOF \/ rd_varint bs = Err EOverflow.
Proof. exact (rd_varint_total bs). Qed.
(** n = 0 exactly on at most ten continuation bytes; an eleventh byte after ten continuation bytes overflows;
    a decoded value fits 64 bits *)
Theorem C13_uvarint_eof bs : rd_uvarint bs = Err EEOF <-> forallb (fun b => 128 <=? b) bs = true /\ (length bs <= 10)%nat.
Proof. exact (rd_uvarint_eof bs). Qed.
Theorem C13_uvarint_overflow h c rest : length h = 10%nat -> forallb (fun b => 128 <=? b) h = true -> rd_uvarint (h ++ c :: rest) = Err EOverflow.
Proof. exact (rd_uvarint_overflow_11 h c rest). Qed.
Example C13_uvarint_overflow_example : length (repeat 128 10) = 10%nat /\ forallb (fun b => 128 <=? b) (repeat 128 10) = true.
Proof. split; reflexivity. Qed.
Theorem C13_uvarint_bound bs v r : wf_bytes bs = true -> rd_uvarint bs = Ok (v, r) -> v < 18446744073709551616.
Proof. exact (rd_uvarint_bound bs v r). Qed.
Example C13_uvarint_bound_example : wf_bytes [255; 255; 255; 255; 255; 255; 255; 255; 255; 1] = true
  /\ rd_uvarint [255; 255; 255; 255; 255; 255; 255; 255; 255; 1] = Ok (18446744073709551615, []).
Proof. split; vm_compute; reflexivity. Qed.

(** allocation and work, for EVERY type and EVERY input, in every Reader state.
    [res tot st] = remaining input bytes + remaining element budget (tot - elems): what the Reader can still
    pay with; [cw tot m a L K] := work m + a * (res of the resulting state) <= a * L + K /\ res' <= L.
    The bytes requested from the allocator plus the loop iterations are at most [kA ty] per unit of [res]
    used up plus [kK ty] — two constants of the TYPE (sizes of its temporaries and elements, fixed array
    lengths); on a fresh Reader res = 2 * |input|. *)
Theorem C13_cost_linear tot ty st : cw tot (read tot ty st) (kA ty) (res tot st) (kK ty).
Proof. exact (cost_linear tot ty st). Qed.
Theorem C13_work_linear ty bs : work (read0 ty bs) <= 2 * kA ty * N.of_nat (length bs) + kK ty.
Proof. exact (work_linear ty bs). Qed.
(** hostile length prefixes are rejected before anything is allocated *)
Theorem C13_hostile_length_rejected :
  read0 (TSlice false (TBasic BU64)) [255; 255; 255; 255] = (OErr EEOF, (0, 0))
  /\ read0 (TSlice false (TStruct [])) [255; 255; 255; 255] = (OErr EEOF, (0, 0))
  /\ read0 (TSlice true (TBasic BU8)) [255; 255; 255; 255; 1; 2] = (OErr EEOF, (0, 0)).
Proof. exact w_hostile_length. Qed.
(** arrays: the temporary and the loop count come from the TYPE (part of [kK]); a wire length that differs is
    an error before any element is read *)
Theorem C13_array_cost tot n e st : fst (snd (read tot (TArray n e) st)) >= n * tsize e /\
  (forall m t, rd_u32 (fst st) = Ok (m, t) -> m <> n -> read tot (TArray n e) st = (OErr EInvalid, (n * tsize e, 0))).
Proof. exact (array_cost tot n e st). Qed.
(** the former quadratic case — slices of zero-wire-size elements nested in a slice, every inner slice
    announcing as many elements as bytes remain ([bomb k]: outer length k, inner slice i announces 4*(k-i)) —
    now stops at the first inner slice: 804 input bytes, 4800 bytes requested, no iteration *)
Theorem C13_nested_zero_size_bounded :
  length (bomb 200) = 804%nat
  /\ read0 (TSlice false (TSlice false (TStruct []))) (bomb 200) = (OErr EEOF, (4800, 0))
  /\ read0 (TSlice false (TSlice false (TStruct [(false, TBasic BU64)]))) (bomb 200) = (OErr EEOF, (4800, 0)).
Proof. exact w_nested_wire0. Qed.

(** ReadBytes(n)/Skip(n) with a negative caller-supplied n panic (n is not wire data) *)
Theorem C13_readbytes_negative_refuted : rd_bytes_z (-1) [1; 2; 3] = OPanic WSliceBounds.
Proof. exact w_readbytes_negative. Qed.

(** ** (c) the caller's variables *)
(** a failing Read(&x) leaves x unchanged, for every type (primitives are assigned after the read, slices
    after the last element, arrays and structs are read into a temporary) *)
Theorem C13_no_clobber tot old ty st : (forall r, snd (read_var tot old ty st) <> OOk r) -> fst (read_var tot old ty st) = old.
Proof. exact (read_var_fail tot old ty st). Qed.
Example C13_no_clobber_example : forall r, snd (read_var 2 (VStruct [VN 7; VN 8]) (TStruct [(true, TBasic BU8); (true, TBasic BU16)]) ([1; 2], 0)) <> OOk r.
Proof. intros r. vm_compute. discriminate. Qed.
(** ReadInto(&a, &b, ...): on failure exactly the variables before the failing one hold decoded values,
    the failing one and all later ones are unchanged; on success all hold the decoded values *)
Theorem C13_read_into_vars tot olds st vs o : read_into_vars tot olds st = (vs, o) ->
  (forall r, o = OOk r -> fst (read_into tot (map fst olds) st) = OOk (vs, r)) /\
  ((forall r, o <> OOk r) ->
     exists pre post dec rest, olds = pre ++ post /\ post <> [] /\
       fst (read_into tot (map fst pre) st) = OOk (dec, rest) /\ vs = dec ++ map snd post /\
       (forall r, fst (read tot (fst (hd (TInt, VNil) post)) rest) <> OOk r)).
Proof. exact (read_into_vars_spec tot olds st vs o). Qed.
(** REFUTED at full strength ("every previously decoded variable unchanged"): ReadInto's earlier targets
    are overwritten before a later one fails *)
Theorem C13_read_into_clobber_refuted :
  read_into_vars0 [(TBasic BU8, VN 9); (TBasic BU8, VN 9)] [1] = ([VN 1; VN 9], OErr EEOF).
Proof. exact w_read_into_clobber. Qed.

Print Assumptions C13_write_total.
Print Assumptions C13_writeReflect_total.
Print Assumptions C13_write_from_total.
Print Assumptions C13_unsupported_is_error.
Print Assumptions C13_read_total.
Print Assumptions C13_read_total_any_reader.
Print Assumptions C13_read_never_crashes.
Print Assumptions C13_read_into_total.
Print Assumptions C13_read_call_total.
Print Assumptions C13_read_nil_target.
Print Assumptions C13_uvarint_total.
Print Assumptions C13_varint_total.
Print Assumptions C13_uvarint_eof.
Print Assumptions C13_uvarint_overflow.
Print Assumptions C13_uvarint_bound.
Print Assumptions C13_cost_linear.
Print Assumptions C13_work_linear.
Print Assumptions C13_hostile_length_rejected.
Print Assumptions C13_array_cost.
Print Assumptions C13_nested_zero_size_bounded.
Print Assumptions C13_readbytes_negative_refuted.
Print Assumptions C13_no_clobber.
Print Assumptions C13_read_into_vars.
Print Assumptions C13_read_into_clobber_refuted.

(** * Part II — C13, the Writer and the Reader as STATE MACHINES (Codec/Buf.v) and the order-parametric generic codec
    (Codec/ReflectO.v): every operation, in every state, of either byte order, ends in a value or an error — no panic, no
    loop; the Reader's position never leaves the buffer (Remaining() / the bounds checks cannot slice out of range), also
    after a decode that failed half way; the Writer's capacity is never below its length and never more than twice what was
    written (or what it had).  Lemmas in Codec/ReflectOProofs.v, BufProofs.v.
    Vocabulary: see C12_reflect.v, Part II. *)
(** ** decode: every byte string, every Reader state, either byte order *)
(** Read(&x) for every type: Ok or Err; what was consumed is a prefix of the remaining input ([h]), non-empty unless the
    type occupies no bytes; the element counter grows by exactly what the meter says; and on the FAILURE path the meter
    never claims more than there was — so the position of a Reader after a failed Read is inside its buffer *)
Theorem C13_read_any_order o tot ty st :
  (exists v st' h, fst (readO o tot ty st) = OOk (v, st') /\ fst st = h ++ fst st' /\ (negb (wire0 ty) = true -> h <> [])
                   /\ snd st' = snd st + elemsO (readO o tot ty st) /\ consumedO (readO o tot ty st) = N.of_nat (length h))
  \/ (exists e, fst (readO o tot ty st) = OErr e /\ consumedO (readO o tot ty st) <= N.of_nat (length (fst st))).
Proof. exact (readO_good o tot ty st). Qed.
(** every functional reader the Reader machine runs (the twelve ReadXxx, length-prefixed bytes, Read, ReadInto, the frame
    of ReadMessage) ends in Ok or Err: the machine's "cannot happen" branch is never taken *)
Theorem C13_reader_functions_total :
  (forall o b bs, okerr (fst (rprimO o b bs))) /\
  (forall o k bs, (1 <= k)%nat -> okerr (fst (lpnO o k bs))) /\
  (forall o tot ty st, okerr (fst (readO o tot ty st))) /\
  (forall o tot tys st, okerr (fst (read_intoO o tot tys st))) /\
  (forall o bs, okerr (fst (msg_frame o bs))).
Proof. exact reader_okerr. Qed.
(** every operation on a Reader (incl. Skip, Seek, Reset and ReadMessage through the pool, any registry, any scripts)
    keeps 0 <= Pos() <= len(buf) *)
Theorem C13_reader_position_in_range env op r p : r_ok r -> r_ok (fst (fst (run_rop env op r p))).
Proof. exact (run_rop_inv env op r p). Qed.
Theorem C13_reader_script_position_in_range ops r :
  r_ok r -> r_ok (fst (run_props ops r)) /\ r_buf (fst (run_props ops r)) = r_buf r /\ r_ord (fst (run_props ops r)) = r_ord r.
Proof. exact (run_props_inv ops r). Qed.
(** the sticky error: in the error state every read returns that error and changes nothing — except Seek (which clears
    the error), ReadInto() of nothing and ReadBytesWithLength with an invalid size (which do not look at the Reader) *)
Theorem C13_reader_sticky op r e : r_err r = Some e -> reads op = true -> plain_rop op r = (r, inr (XE e)).
Proof. exact (reader_sticky op r e). Qed.
Theorem C13_seek_clears_error_and_budget p r :
  (0 <= p <= Z.of_N (rlen r))%Z -> plain_rop (RSeek p) r = (mkR (r_buf r) (Z.to_N p) (r_ord r) None 0, inl RVUnit).
Proof. exact (seek_spec p r). Qed.

(** ** encode: every Go value, either byte order *)
Theorem C13_write_any_order o ty v : has_typeb ty v = true -> wokerr (writeC o ty v).
Proof. exact (writeC_total o ty v). Qed.
Theorem C13_write_from_any_order o l : forallb (fun p => has_typeb (fst p) (snd p)) l = true -> wokerr (write_fromC o l).
Proof. exact (write_fromC_total o l). Qed.

(** ** the Writer's buffer *)
(** after ensureCapacity(n) there is room for n bytes: append never reallocates behind ensureCapacity's back *)
Theorem C13_ensure_capacity_room n w : w_ok w -> w_err w = None -> wlen (ensure n w) + n <= w_cap (ensure n w).
Proof. exact (ensure_room n w). Qed.
(** every operation but Reset (nested messages included): the capacity does not shrink and is at most
    max(capacity before, 2 * length after) — or the operation was a failed WriteMessage and the capacity is unchanged *)
Theorem C13_writer_capacity op w p w' p' e :
  w_ok w -> op <> WReset -> run_wop op w p = (w', p', e) ->
  w_cap w <= w_cap w' /\ w_cap w' <= N.max (w_cap w) (2 * wlen w') \/ (w_cap w' = w_cap w /\ e <> None).
Proof. exact (run_wop_cap op w p w' p' e). Qed.

(** ** the hypotheses are satisfiable *)
Example C13_ex_failed_read_position :
  let r := mkR [0; 0; 0; 2; 0; 0; 0; 9; 1] 0 BE None 0 in
  r_ok r /\ plain_rop (RRead (TSlice false (TBasic BStr))) r = (mkR (r_buf r) 8 BE (Some EEOF) 2, inr (XE EEOF)).
Proof. split; [cbv; discriminate|vm_compute; reflexivity]. Qed.
Example C13_ex_sticky : reads (RPrim BU8) = true /\ reads (RReadInto []) = false.
Proof. split; reflexivity. Qed.
Example C13_ex_capacity : let w := mkW [1] 1 BE None in w_ok w /\ w_cap (fst (fst (run_wop (WBytes [2; 3; 4]) w (mkWP [] [])))) = 4.
Proof. split; [cbv; discriminate|reflexivity]. Qed.

Print Assumptions C13_read_any_order.
Print Assumptions C13_reader_functions_total.
Print Assumptions C13_reader_position_in_range.
Print Assumptions C13_reader_script_position_in_range.
Print Assumptions C13_reader_sticky.
Print Assumptions C13_seek_clears_error_and_budget.
Print Assumptions C13_write_any_order.
Print Assumptions C13_write_from_any_order.
Print Assumptions C13_ensure_capacity_room.
Print Assumptions C13_writer_capacity.
