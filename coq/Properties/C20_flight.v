(** C20, second part - the firing of a job is NOT atomic, and the stop sequence of an actor has phases.
    Statements only; every proof is [exact <lemma>] (lemmas in Timer/SchedFlightProofs.v, witnesses in
    Timer/SchedFlightWitness.v).  The machine (Timer/SchedFlight.v) refines the atomic model of Properties/C20.v:

      [frun fops finit]    the state after the step sequence [fops]:
         [FBase o]         an op of the atomic model (any Once / Loop / Cron / Cancel / Clear / Exists, termination, restart,
                           clock step); what go-quartz POPS during a clock step goes into [flight] - the pop is the
                           firing instant ([f_time]); the job function (vivid's Tell) runs in a goroutine of its own
         [FLand n]         the n-th Tell in flight reaches its receiver's behaviour - or the dead-letter stream if the
                           receiver has terminated or is stopping at that moment; ANY Tell in flight may be the next one, at
                           any later time (goroutines and mailboxes are scheduled arbitrarily)
         [FStopping a]     the stop sequence of a begins (Context.doKill: state killing); NOTHING is cleared there; the
                           handlers of the sequence (OnKill, the children's OnKilled, the own OnKilled) are ordinary ops
                           of a that follow; the sequence ends with [FBase (ODied a)] = killedHandler.cleanupScheduler
                           (Clear) after the own OnKilled handler - a restart ends with [FBase (ORestarted a)] at the same
                           place of the chain
      [base s]             the atomic model's state ([fired (base s)] = all pops so far), [fnow s] its clock
      [flight s]           popped, not yet arrived; [landed s] what behaviours / the dead-letter stream have seen:
                           a [landing] has [l_fire] (the pop), [l_time] (arrival) and [l_dead]
      [landings_of x s] / [flight_of x s]   of scheduling call x;  [landed_by P s] / [flight_by P s]  of the pops satisfying P
      [bops fops]          the atomic ops inside fops. *)
From Coq Require Import List NArith ZArith Permutation.
From stdpp Require Import gmap.
From Vivid Require Import Timer.SchedModel Timer.SchedProofs Timer.SchedWitness
                          Timer.SchedFlight Timer.SchedFlightProofs Timer.SchedFlightWitness
                          Timer.SchedKey Timer.SchedKeyProofs.
Local Open Scope Z_scope.

(** ============================== the refinement ============================== *)

(** the atomic model is inside: for EVERY step sequence the base of the flight machine is the atomic model run on
    the atomic ops - every theorem of Properties/C20.v about [fired] is a theorem about the pops of this machine *)
Theorem C20_flight_base_is_atomic_model fops : base (frun fops finit) = run (bops fops) init.
Proof. exact (thm_base_atomic fops). Qed.

(** conservation: every pop is either in flight or has arrived exactly once; nothing arrives that was not popped *)
Theorem C20_flight_conservation fops :
  Permutation (map l_fire (landed (frun fops finit)) ++ flight (frun fops finit)) (fired (base (frun fops finit))).
Proof. exact (thm_conservation fops). Qed.

(** whatever arrives was popped, arrives not before its firing instant, and is a dead letter only if its receiver
    has terminated or is stopping *)
Theorem C20_flight_landing_sound fops l :
  In l (landed (frun fops finit)) ->
  In (l_fire l) (fired (base (frun fops finit))) /\ f_time (l_fire l) <= l_time l /\ l_time l <= fnow (frun fops finit) /\
  (l_dead l = true -> f_recv (l_fire l) ∈ dead (base (frun fops finit)) \/ f_recv (l_fire l) ∈ stopping (frun fops finit)).
Proof. exact (landing_sound fops l). Qed.

(** the atomic model IS the prompt schedule of this machine: when no receiver is busy and no goroutine is suspended,
    the driver (the scheduler the correspondence check runs against the code) lands every Tell in the step that pops it,
    and what arrives is exactly [fired] of the atomic model, with the same dead-letter flags *)
Theorem C20_atomic_is_prompt_flight ops :
  flight (fs (drun (map DBase ops) dinit)) = [] /\
  map l_fire (landed (fs (drun (map DBase ops) dinit))) = fired (run ops init) /\
  Forall (fun l => l_dead l = f_dead (l_fire l)) (landed (fs (drun (map DBase ops) dinit))).
Proof. exact (thm_atomic_is_prompt ops). Qed.

(** every run of the driver - long handlers ([DBlock]/[DUnblock]), suspended Tell goroutines ([DHold]/[DRelease]), stop
    sequences ([DStopping]) - is a run of the general machine: all theorems below hold of what the check compares *)
Theorem C20_driver_is_flight_run dops :
  exists fops, fs (drun dops dinit) = frun fops finit /\ bops fops = dbops dops.
Proof. exact (drun_is_frun dops). Qed.

(** ============================== Once ============================== *)

(** never twice - not even counting what is still in flight - and never before the delay, for EVERY step sequence
    before and after the call: at most one Tell of a Once is ever in flight *)
Theorem C20_flight_once_at_most_once pre a recv ref d p post :
  snd (step (OOnce a recv ref d p) (base (frun pre finit))) = ROk ->
  (length (landings_of (nid (base (frun pre finit))) (frun (pre ++ FBase (OOnce a recv ref d p) :: post) finit)) +
   length (flight_of (nid (base (frun pre finit))) (frun (pre ++ FBase (OOnce a recv ref d p) :: post) finit)) <= 1)%nat.
Proof. exact (fun H => proj1 (flight_once_safety pre a recv ref d p post H)). Qed.

Theorem C20_flight_once_not_early pre a recv ref d p post l :
  snd (step (OOnce a recv ref d p) (base (frun pre finit))) = ROk ->
  In l (landings_of (nid (base (frun pre finit))) (frun (pre ++ FBase (OOnce a recv ref d p) :: post) finit)) ->
  fnow (frun pre finit) + d <= f_time (l_fire l) /\ f_time (l_fire l) <= l_time l.
Proof. exact (fun H => proj2 (flight_once_safety pre a recv ref d p post H) l). Qed.

(** removed by its owner (Cancel, Clear, termination, restart) before the firing instant: nothing is ever popped, so
    nothing arrives - however late - and nothing is in flight *)
Theorem C20_flight_once_cancelled pre a recv ref d p mid c post :
  snd (step (OOnce a recv ref d p) (base (frun pre finit))) = ROk -> removes a ref c -> elapsed (bops mid) < d ->
  landings_of (nid (base (frun pre finit))) (frun (pre ++ FBase (OOnce a recv ref d p) :: mid ++ FBase c :: post) finit) = [] /\
  flight_of (nid (base (frun pre finit))) (frun (pre ++ FBase (OOnce a recv ref d p) :: mid ++ FBase c :: post) finit) = [].
Proof. exact (flight_once_cancelled pre a recv ref d p mid c post). Qed.

(** not removed before the instant, no stall of the quartz loop: popped exactly once, exactly at t0 + d; from then on
    the Tell is in flight or has arrived - exactly one of the two - with the scheduled payload for the scheduled
    receiver; it is delivered (not dead-lettered) if the receiver is neither dead nor stopping.  When the goroutine
    and the receiver's mailbox run is the only thing left open (Go's scheduler is fair; not modelled) *)
Theorem C20_flight_once pre a recv ref d p post1 dt post2 :
  snd (step (OOnce a recv ref d p) (base (frun pre finit))) = ROk ->
  no_stall (bops post1) -> Forall (fun o => ~ removes a ref o) (bops post1) ->
  d <= elapsed (bops post1) + Z.max dt 0 ->
  exists f,
    f_time f = fnow (frun pre finit) + d /\ f_payload f = p /\ f_recv f = recv /\ f_owner f = a /\ f_ref f = ref /\
    ((landings_of (nid (base (frun pre finit))) (frun (pre ++ FBase (OOnce a recv ref d p) :: post1 ++ FBase (OTick dt) :: post2) finit) = [] /\
      flight_of (nid (base (frun pre finit))) (frun (pre ++ FBase (OOnce a recv ref d p) :: post1 ++ FBase (OTick dt) :: post2) finit) = [f]) \/
     (exists l,
        landings_of (nid (base (frun pre finit))) (frun (pre ++ FBase (OOnce a recv ref d p) :: post1 ++ FBase (OTick dt) :: post2) finit) = [l] /\
        flight_of (nid (base (frun pre finit))) (frun (pre ++ FBase (OOnce a recv ref d p) :: post1 ++ FBase (OTick dt) :: post2) finit) = [] /\
        l_fire l = f /\ f_time f <= l_time l /\
        (recv ∉ dead (base (frun (pre ++ FBase (OOnce a recv ref d p) :: post1 ++ FBase (OTick dt) :: post2) finit)) ->
         recv ∉ stopping (frun (pre ++ FBase (OOnce a recv ref d p) :: post1 ++ FBase (OTick dt) :: post2) finit) ->
         l_dead l = false))).
Proof. exact (flight_once_delivered pre a recv ref d p post1 dt post2). Qed.

(** ============================== Loop ============================== *)

(** one Tell per interval, each either arrived or still in flight: the firing instants of what has arrived and of what
    is in flight are together exactly t0+i, t0+2i, ... up to now (not removed, no stall) *)
Theorem C20_flight_loop pre a recv ref i p post :
  snd (step (OLoop a recv ref i p) (base (frun pre finit))) = ROk ->
  no_stall (bops post) -> Forall (fun o => ~ removes a ref o) (bops post) ->
  Permutation
    (map (fun l => f_time (l_fire l)) (landings_of (nid (base (frun pre finit))) (frun (pre ++ FBase (OLoop a recv ref i p) :: post) finit)) ++
     map f_time (flight_of (nid (base (frun pre finit))) (frun (pre ++ FBase (OLoop a recv ref i p) :: post) finit)))
    (grid (fnow (frun pre finit)) i
          (Z.to_nat ((fnow (frun (pre ++ FBase (OLoop a recv ref i p) :: post) finit) - fnow (frun pre finit)) / i))).
Proof. exact (flight_loop_exact pre a recv ref i p post). Qed.

(** ... and an initial segment of them whatever the owner does (no stall) *)
Theorem C20_flight_loop_grid pre a recv ref i p post :
  snd (step (OLoop a recv ref i p) (base (frun pre finit))) = ROk -> no_stall (bops post) ->
  exists m : nat,
    Permutation
      (map (fun l => f_time (l_fire l)) (landings_of (nid (base (frun pre finit))) (frun (pre ++ FBase (OLoop a recv ref i p) :: post) finit)) ++
       map f_time (flight_of (nid (base (frun pre finit))) (frun (pre ++ FBase (OLoop a recv ref i p) :: post) finit)))
      (grid (fnow (frun pre finit)) i m) /\
    fnow (frun pre finit) + Z.of_nat m * i <= fnow (frun (pre ++ FBase (OLoop a recv ref i p) :: post) finit).
Proof. exact (flight_loop_grid pre a recv ref i p post). Qed.

(** "at most one Tell in flight per job" is FALSE of a Loop: after 250 ms without the goroutines running two are in
    flight; Cancel returns nil; both arrive afterwards, the later one first; the instants after the Cancel never fire *)
Theorem C20_loop_one_in_flight_refuted :
  frun_res wf_late_loop finit = [FR ROk; FR RUnit; FR ROk; FR RUnit; FLanded 0 false; FLanded 0 false; FR RUnit] /\
  map f_time (flight (frun [FBase (OLoop w_a w_a w_r 100 1); FBase (OTick 250)] finit)) = [100; 200] /\
  arrivals (frun wf_late_loop finit) = [(0%N, 200, 1250, false); (0%N, 100, 1250, false)] /\
  fired (base (frun wf_late_loop finit)) = fired (base (frun [FBase (OLoop w_a w_a w_r 100 1); FBase (OTick 250)] finit)).
Proof. exact wit_late_loop. Qed.

(** ============================== Cancel / Clear while a Tell is in flight ============================== *)

(** what Cancel(ref) / Clear / termination / restart by the owner guarantee, for Once, Loop and Cron alike and for EVERY
    step sequence: (1) no message whose firing instant lies after the removal ever arrives, or is ever in flight;
    (2) exactly the Tells that were in flight at the removal may still arrive - their number does not grow *)
Theorem C20_flight_removed pre o a recv ref p mid c post :
  is_sched o a recv ref p -> snd (step o (base (frun pre finit))) = ROk -> removes a ref c ->
  (forall l, In l (landings_of (nid (base (frun pre finit))) (frun (pre ++ FBase o :: mid ++ FBase c :: post) finit)) ->
             f_time (l_fire l) <= fnow (frun (pre ++ FBase o :: mid) finit)) /\
  (forall f, In f (flight_of (nid (base (frun pre finit))) (frun (pre ++ FBase o :: mid ++ FBase c :: post) finit)) ->
             f_time f <= fnow (frun (pre ++ FBase o :: mid) finit)) /\
  (length (landings_of (nid (base (frun pre finit))) (frun (pre ++ FBase o :: mid ++ FBase c :: post) finit)) +
   length (flight_of (nid (base (frun pre finit))) (frun (pre ++ FBase o :: mid ++ FBase c :: post) finit)) =
   length (landings_of (nid (base (frun pre finit))) (frun (pre ++ FBase o :: mid) finit)) +
   length (flight_of (nid (base (frun pre finit))) (frun (pre ++ FBase o :: mid) finit)))%nat.
Proof. exact (fun Hs Hok R => flight_removed pre o a recv ref p Hs Hok mid c post R). Qed.

(** REFUTED: "after Cancel has returned no message of the job arrives".  The Tell of a Once is in flight when Cancel is
    called: Exists says true, Cancel answers quartz's "job not found" - and the message arrives 300 ms later.  (The
    property as stated - no firing INSTANT after the Cancel - holds: C20_flight_removed.)  Reproduced on the code by
    the hold scenarios of the harness *)
Theorem C20_no_arrival_after_cancel_refuted :
  frun_res wf_late_once finit = [FR ROk; FR RUnit; FR (RBool true); FR RQuartzNotFound; FR RUnit; FLanded 0 false; FR RUnit] /\
  arrivals (frun wf_late_once finit) = [(0%N, 100, 400, false)] /\ flight (frun wf_late_once finit) = [].
Proof. exact wit_late_once. Qed.

(** whatever arrives carries the scheduled message for the scheduled receiver, also when it arrives late *)
Theorem C20_flight_payload pre o a recv ref p post l :
  is_sched o a recv ref p -> snd (step o (base (frun pre finit))) = ROk ->
  In l (landings_of (nid (base (frun pre finit))) (frun (pre ++ FBase o :: post) finit)) ->
  f_owner (l_fire l) = a /\ f_recv (l_fire l) = recv /\ f_ref (l_fire l) = ref /\ f_payload (l_fire l) = p /\
  f_time (l_fire l) <= l_time l /\
  (l_dead l = true -> recv ∈ dead (base (frun (pre ++ FBase o :: post) finit)) \/ recv ∈ stopping (frun (pre ++ FBase o :: post) finit)).
Proof. exact (fun Hs Hok => flight_payload pre o a recv ref p Hs Hok post l). Qed.

(** ============================== the stop sequence: termination ============================== *)

(** For EVERY step sequence [pre], every sequence [killing] of steps between the beginning of a's stop sequence and its
    end - in particular any Once / Loop / Cron / Cancel calls that a's OnKill handler, its handlers of the children's
    OnKilled, and its own OnKilled handler make - and every [post]:
    (1) no job of a - whenever it was scheduled, the killing phase included - fires at an instant after the termination:
        everything of a that ever arrives or is in flight was popped before;
    (2) exactly the Tells of a's jobs in flight at the termination may still arrive;
    (3) from the beginning of the sequence on, whatever arrives FOR a is a dead letter *)
Theorem C20_stop_sequence pre (a : bytes) killing post :
  (forall l, In l (landed_by (owned_by a) (frun (pre ++ FStopping a :: killing ++ FBase (ODied a) :: post) finit)) ->
             f_time (l_fire l) <= fnow (frun (pre ++ FStopping a :: killing) finit)) /\
  (forall f, In f (flight_by (owned_by a) (frun (pre ++ FStopping a :: killing ++ FBase (ODied a) :: post) finit)) ->
             f_time f <= fnow (frun (pre ++ FStopping a :: killing) finit)) /\
  (length (landed_by (owned_by a) (frun (pre ++ FStopping a :: killing ++ FBase (ODied a) :: post) finit)) +
   length (flight_by (owned_by a) (frun (pre ++ FStopping a :: killing ++ FBase (ODied a) :: post) finit)) =
   length (landed_by (owned_by a) (frun (pre ++ FStopping a :: killing) finit)) +
   length (flight_by (owned_by a) (frun (pre ++ FStopping a :: killing) finit)))%nat /\
  (exists new, landed (frun (pre ++ FStopping a :: killing ++ FBase (ODied a) :: post) finit) = landed (frun pre finit) ++ new /\
     forall l, In l new -> f_recv (l_fire l) = a -> l_dead l = true).
Proof. exact (flight_stop_sequence pre a killing post). Qed.

(** the same from the termination on, without the marker (a dies after any history) *)
Theorem C20_flight_death pre (a : bytes) post :
  (forall l, In l (landed_by (owned_by a) (frun (pre ++ FBase (ODied a) :: post) finit)) -> f_time (l_fire l) <= fnow (frun pre finit)) /\
  (forall f, In f (flight_by (owned_by a) (frun (pre ++ FBase (ODied a) :: post) finit)) -> f_time f <= fnow (frun pre finit)) /\
  (length (landed_by (owned_by a) (frun (pre ++ FBase (ODied a) :: post) finit)) +
   length (flight_by (owned_by a) (frun (pre ++ FBase (ODied a) :: post) finit)) =
   length (landed_by (owned_by a) (frun pre finit)) + length (flight_by (owned_by a) (frun pre finit)))%nat /\
  (exists new, landed (frun (pre ++ FBase (ODied a) :: post) finit) = landed (frun pre finit) ++ new /\
     forall l, In l new -> fnow (frun pre finit) <= l_time l /\ (f_recv (l_fire l) = a -> l_dead l = true)).
Proof. exact (flight_death pre a post). Qed.

(** the calls of the killing phase are real calls: accepted (refused on a live reference like any call), queued, the
    actor's jobs keep firing while it waits for its child (into dead letters when addressed to itself) - and at the end
    of the sequence the queue holds nothing of the actor and nothing fires any more *)
Theorem C20_stop_sequence_calls_are_real :
  frun_res wf_stop finit =
    [FR ROk; FR ROk; FR RUnit; FR RUnit; FR ROk; FR RExists; FR RUnit; FLanded 1 false; FLanded 0 true; FR ROk; FR ROk; FR ROk;
     FR (RDump [(w_a, [w_bc; w_l; w_r; w_w])] [(w_a, w_bc); (w_a, w_l); (w_a, w_r); (w_a, w_w)]);
     FR RUnit; FR (RDump [(w_a, [])] []); FR RUnit] /\
  arrivals (frun wf_stop finit) = [(1%N, 100, 150, false); (0%N, 100, 150, true)] /\
  flight (frun wf_stop finit) = [] /\ length (fired (base (frun wf_stop finit))) = 2%nat.
Proof. exact wit_stop. Qed.

(** ============================== the stop sequence: restart ============================== *)

(** For EVERY [pre], every [killing] (the steps of the restart's stop sequence, the scheduling calls of a's OnKill /
    children's OnKilled / own OnKilled handlers included) and every [post]: the jobs of the OLD incarnation - every
    successful scheduling call of a before the restart completed - never fire at an instant after the restart; exactly
    their Tells in flight at the restart may still arrive; after the restart the queue holds no job of a *)
Theorem C20_restart_sequence pre (a : bytes) killing post :
  (forall l, In l (landed_by (old_job_of a (nid (base (frun (pre ++ killing) finit)))) (frun (pre ++ killing ++ FBase (ORestarted a) :: post) finit)) ->
             f_time (l_fire l) <= fnow (frun (pre ++ killing) finit)) /\
  (forall f, In f (flight_by (old_job_of a (nid (base (frun (pre ++ killing) finit)))) (frun (pre ++ killing ++ FBase (ORestarted a) :: post) finit)) ->
             f_time f <= fnow (frun (pre ++ killing) finit)) /\
  (length (landed_by (old_job_of a (nid (base (frun (pre ++ killing) finit)))) (frun (pre ++ killing ++ FBase (ORestarted a) :: post) finit)) +
   length (flight_by (old_job_of a (nid (base (frun (pre ++ killing) finit)))) (frun (pre ++ killing ++ FBase (ORestarted a) :: post) finit)) =
   length (landed_by (old_job_of a (nid (base (frun (pre ++ killing) finit)))) (frun (pre ++ killing) finit)) +
   length (flight_by (old_job_of a (nid (base (frun (pre ++ killing) finit)))) (frun (pre ++ killing) finit)))%nat /\
  (forall k j, tbl (base (frun (pre ++ killing ++ [FBase (ORestarted a)]) finit)) !! k = Some j -> j_owner j <> a).
Proof. exact (flight_restart_sequence pre a killing post). Qed.

(** which messages "survive" a restart (observation, code as it is): a Tell of the old incarnation's job that was in
    flight at the restart - popped before, not yet handled - is DELIVERED to the new incarnation (same path, same
    mailbox); the reference is free again (Exists false, a new Once under it is accepted) *)
Theorem C20_in_flight_survives_restart :
  frun_res wf_restart finit = [FR ROk; FR ROk; FR RUnit; FR RUnit; FR (RBool false); FR ROk; FLanded 1 false; FLanded 0 false; FR RUnit] /\
  arrivals (frun wf_restart finit) = [(1%N, 100, 100, false); (0%N, 100, 100, false)] /\
  flight (frun wf_restart finit) = [(mkFiring 2 w_a w_a w_r 3 200 false)].
Proof. exact wit_restart. Qed.

(** in flight when the owner terminates: to the owner itself a dead letter, to another actor a delivery *)
Theorem C20_in_flight_at_death :
  map (fun e => (fst (fst (fst e)), snd (fst e), snd e)) (arrivals (frun wf_death finit)) = [(1%N, 150, false); (0%N, 150, true)] /\
  flight (frun wf_death finit) = [].
Proof. exact wit_death. Qed.

(** ============================== the job key as the code builds it ============================== *)

(** [unique_job_key path ref] = quartz.NewJobKeyWithGroup(ref, path) as the pair (group, name) the queue compares
    ([JobKey.Equals]); go-quartz replaces an EMPTY group by "default".  For every actor path (it begins with "/") the key
    is the pair (path, reference) of the model, for ALL byte strings as path remainder and reference - ':' and "::"
    included - so keys of different (actor, reference) pairs never coincide *)
Theorem C20_job_key_of_a_path a r : is_path a -> unique_job_key a r = job_key a r.
Proof. exact (unique_key_path a r). Qed.

Theorem C20_job_keys_injective_on_paths a1 r1 a2 r2 :
  is_path a1 -> is_path a2 -> unique_job_key a1 r1 = unique_job_key a2 r2 -> a1 = a2 /\ r1 = r2.
Proof. exact (unique_key_inj_paths a1 r1 a2 r2). Qed.

(** REFUTED for arbitrary strings (not reachable through an actor: no path is empty): the empty group and the group
    "default" give the same key; and the printed form group::name (log lines only) is not injective at all *)
Theorem C20_job_key_empty_group_refuted r :
  unique_job_key [] r = unique_job_key default_group r /\ [] <> default_group.
Proof. exact (unique_key_empty_group_collides r). Qed.

(** ============================== non-vacuity ============================== *)

(** hypotheses of C20_flight_once / C20_flight_removed / C20_flight_payload with landings in between *)
Example C20_flight_once_example :
  let pre := [FBase (OLoop w_a w_b w_r 70 7); FBase (OTick 100); FLand 0] in
  let post1 := [FBase (OTick 30); FBase (OOnce w_ab w_ab w_c 10 9); FLand 0; FBase (OCancel w_a w_bc); FBase (OTick 30); FStopping w_a; FBase (ODied w_a)] in
  snd (step (OOnce w_b w_b w_r 100 5) (base (frun pre finit))) = ROk /\
  no_stall (bops post1) /\ Forall (fun o => ~ removes w_b w_r o) (bops post1) /\ 100 <= elapsed (bops post1) + Z.max 50 0 /\
  map (fun l => (f_payload (l_fire l), f_time (l_fire l), l_time l, l_dead l))
      (landings_of 1 (frun (pre ++ FBase (OOnce w_b w_b w_r 100 5) :: post1 ++ FBase (OTick 50) :: [FBase (OTick 500); FLand 0; FLand 0; FLand 0]) finit)) = [(5%N, 200, 710, false)].
Proof.
  cbv zeta. split; [reflexivity|]. split; [vm_compute; repeat constructor|]. split.
  - vm_compute. repeat constructor; intros [H|[H|[H|H]]]; discriminate.
  - split; [vm_compute; discriminate|reflexivity].
Qed.

Example C20_job_key_example :
  is_path w_ab /\ is_path w_a /\ unique_job_key w_a w_bc <> unique_job_key w_ab w_c.
Proof. split; [eexists; reflexivity|]. split; [eexists; reflexivity|discriminate]. Qed.

Example C20_flight_removed_example :
  is_sched (OLoop w_a w_a w_r 100 1) w_a w_a w_r 1 /\ snd (step (OLoop w_a w_a w_r 100 1) (base (frun [] finit))) = ROk /\
  removes w_a w_r (OCancel w_a w_r) /\
  arrivals (frun ([] ++ FBase (OLoop w_a w_a w_r 100 1) :: [FBase (OTick 250); FLand 0] ++ FBase (OCancel w_a w_r) :: [FBase (OTick 500); FLand 0]) finit)
  = [(0%N, 100, 250, false); (0%N, 200, 750, false)].
Proof. split; [right; left; exists 100; reflexivity|]. split; [reflexivity|]. split; [left; reflexivity|reflexivity]. Qed.

(** the driver: a receiver in a long handler, a suspended Tell goroutine across Cancel and the owner's termination *)
Example C20_driver_example :
  drun_res wd_block dinit = [ROk; RUnit; RUnit; RUnit; ROk; RUnit; RUnit] /\
  arrivals (fs (drun wd_block dinit)) = [(0%N, 100, 250, false); (0%N, 200, 250, false)] /\
  drun_res wd_hold dinit = [RUnit; ROk; ROk; RUnit; RQuartzNotFound; RUnit; RUnit; RUnit; RUnit; RUnit] /\
  arrivals (fs (drun wd_hold dinit)) = [(1%N, 100, 150, false); (0%N, 100, 300, true)].
Proof. exact wit_driver. Qed.

Print Assumptions C20_flight_base_is_atomic_model.
Print Assumptions C20_flight_conservation.
Print Assumptions C20_flight_landing_sound.
Print Assumptions C20_atomic_is_prompt_flight.
Print Assumptions C20_driver_is_flight_run.
Print Assumptions C20_flight_once_at_most_once.
Print Assumptions C20_flight_once_not_early.
Print Assumptions C20_flight_once_cancelled.
Print Assumptions C20_flight_once.
Print Assumptions C20_flight_loop.
Print Assumptions C20_flight_loop_grid.
Print Assumptions C20_loop_one_in_flight_refuted.
Print Assumptions C20_flight_removed.
Print Assumptions C20_no_arrival_after_cancel_refuted.
Print Assumptions C20_flight_payload.
Print Assumptions C20_stop_sequence.
Print Assumptions C20_flight_death.
Print Assumptions C20_stop_sequence_calls_are_real.
Print Assumptions C20_restart_sequence.
Print Assumptions C20_in_flight_survives_restart.
Print Assumptions C20_in_flight_at_death.
Print Assumptions C20_job_key_of_a_path.
Print Assumptions C20_job_keys_injective_on_paths.
Print Assumptions C20_job_key_empty_group_refuted.
