(** The core invariant of Future/FutModel.v: definitions, initial state, clock tick. *)
From Coq Require Import List NArith Bool Lia Arith Permutation.
From Coq Require Import ZifyN ZifyNat ZifyBool.
From RecordUpdate Require Import RecordSet.
From Vivid Require Import Future.FutModel Future.FutSpec Future.FutBase.
Import ListNotations RecordSetNotations.
Local Open Scope N_scope.

(** ------------------------------------------------------------------ the core invariant *)

Definition AllThr (P : nat -> pc -> Prop) (l : list pc) : Prop := forall j p, nth_error l j = Some p -> P j p.

Lemma AllThr_upd (P Q : nat -> pc -> Prop) l i q :
  AllThr P l ->
  (forall j p, j <> i -> nth_error l j = Some p -> P j p -> Q j p) ->
  Q i q ->
  AllThr Q (upd l i q).
Proof.
  intros H Hst Hq j p Hj. apply nth_error_upd_inv in Hj as [[-> ->]|[N Hj]]; auto.
Qed.

Lemma AllThr_snoc (P : nat -> pc -> Prop) l x : AllThr P l -> P (length l) x -> AllThr P (l ++ [x]).
Proof. intros H Hx j p Hj. apply nth_error_snoc_inv in Hj as [Hj|[-> ->]]; auto. Qed.

Definition ask_pc (p : pc) : bool :=
  match p with Start (ANew _) | ANew _ | AAppend | ACheck => true | _ => false end.
Definition timer_pc (p : pc) : bool :=
  match p with Start TFire | TFire => true | CCas (VErr e) => e =? E_TIMEOUT | _ => false end.

(** what a thread's pc says about the shared state *)
Definition await_ok (k : pc) : Prop :=
  match k with RLookup _ _ | CCas _ | PLock _ | WRecv _ | Done => True | _ => False end.
Definition L (s : st) (j : nat) (p : pc) : Prop :=
  match p with
  | Start (ANew _) | ANew _ => j = 0%nat /\ created s = false
  | AAppend | ACheck => j = 0%nat /\ created s = true /\ sent s = false
  | Start TFire | TFire => created s = true /\ armed s <> None
  | Start (RLookup q _) => q <> fpath
  | Start (Await k) | Await k => await_ok k
  | Start DLookup => True
  | Start (FReg q id) | FReg q id => q <> fpath /\ id <> fid
  | Start (FUnreg q) | FUnreg q => q <> fpath
  | Start _ => False
  | RLookup q _ => q = fpath -> sent s = true
  | CCas _ => created s = true
  | CAssign _ | CDone _ | CCloser _ | CLock _ | CTell _ _ => winners s = [j]
  | PLoad _ => mu s = Some j
  | PAppend fs raw => mu s = Some j /\ raw = fwd s ++ fs /\ taken s = false
  | PWaitDone _ => closed s = true
  | PTell _ r => exists v, final s = Some v /\ r = vpair v
  | _ => True
  end.

Definition holder_pc (p : pc) : bool := match p with PLoad _ | PAppend _ _ => true | _ => false end.
Definition wl (w : nat) (v : val) : list (nat * bool) := match v with VNil => [] | _ => [(w, false)] end.
Definition stopped_ok (s : st) : Prop := tstopped s = match armed s with Some _ => true | None => false end.

(** the stage of the thread that won the CAS *)
Definition wphase (s : st) (w : nat) (v : val) (p : pc) : Prop :=
  match p with
  | CAssign v' => v' = v /\ v <> VNil /\ assigned s = false /\ err s = None /\ msg s = None /\ done s = false /\
                  wlog s = [] /\ closer_ran s = false /\ tstopped s = false /\ taken s = false
  | CDone v' => v' = v /\ assigned s = true /\ res_of s = vpair v /\ done s = false /\ wlog s = wl w v /\
                closer_ran s = false /\ tstopped s = false /\ taken s = false
  | CCloser v' => v' = v /\ assigned s = true /\ res_of s = vpair v /\ done s = true /\ wlog s = wl w v /\
                  closer_ran s = false /\ stopped_ok s /\ taken s = false
  | CLock v' => v' = v /\ assigned s = true /\ res_of s = vpair v /\ done s = true /\ wlog s = wl w v /\
                closer_ran s = true /\ stopped_ok s /\ taken s = false
  | CTell _ r => r = vpair v /\ assigned s = true /\ res_of s = vpair v /\ done s = true /\ wlog s = wl w v /\
                 closer_ran s = true /\ stopped_ok s /\ fwd s = [] /\ taken s = true
  | Done => assigned s = true /\ res_of s = vpair v /\ done s = true /\ wlog s = wl w v /\
            closer_ran s = true /\ stopped_ok s /\ fwd s = [] /\ taken s = true
  | _ => False
  end.

Record Inv (s : st) : Prop := {
  i_loc : AllThr (L s) (thr s);
  i_new : created s = false ->
          closed s = false /\ sent s = false /\ armed s = None /\ fired s = None /\ rlookup fpath (reg s) = None;
  i_open : closed s = false ->
           winners s = [] /\ final s = None /\ assigned s = false /\ err s = None /\ msg s = None /\ done s = false /\
           wlog s = [] /\ closer_ran s = false /\ tstopped s = false /\ attempts s = [] /\ taken s = false;
  i_win : closed s = true ->
          exists w v p, winners s = [w] /\ final s = Some v /\ nth_error (thr s) w = Some p /\ wphase s w v p;
  i_mu : forall j, mu s = Some j -> exists p, nth_error (thr s) j = Some p /\ holder_pc p = true;
  i_route : forall q id, rlookup q (reg s) = Some id -> (q = fpath <-> id = fid);
  i_reg : rlookup fpath (reg s) <> None -> nth_error (thr s) 0 = Some ACheck \/ closer_ran s = false;
  i_ask : sent s = false -> exists j p, nth_error (thr s) j = Some p /\ ask_pc p = true;
  i_timer : armed s <> None -> closed s = true \/ exists j p, nth_error (thr s) j = Some p /\ timer_pc p = true;
  i_fired : forall t, fired s = Some t -> exists t0, armed s = Some t0 /\ t0 + tmo s <= t;
  i_rets : forall j full r, In (j, full, r) (rets s) -> done s = true /\ r = (if full then msg s else None, err s);
  i_tells : forall x r, In (x, r) (tells s) -> exists v, final s = Some v /\ r = vpair v
}.

Lemma init_inv t progs : forallb prog_ok progs = true -> Inv (init t progs).
Proof.
  intros Hok. split; cbn; try congruence; try tauto.
  - intros j p Hj. destruct j as [|j]; cbn in Hj.
    + injection Hj as <-. cbn. auto.
    + apply nth_error_In in Hj. apply in_map_iff in Hj as [g [<- Hg]].
      rewrite forallb_forall in Hok. specialize (Hok _ Hg).
      destruct g as [q v|e| |fs|full|q id|q]; cbn in *; auto.
      * destruct (q =? 0) eqn:E; cbn; auto. apply N.eqb_neq in E. exact E.
      * destruct fs; cbn; auto.
      * apply andb_true_iff in Hok as [A B]. apply negb_true_iff in A, B. apply N.eqb_neq in A, B. auto.
      * apply negb_true_iff in Hok. apply N.eqb_neq in Hok. auto.
  - intros _. exists 0%nat, (Start (ANew t)). auto.
Qed.

Lemma tick_inv s : Inv s -> Inv (tick s).
Proof.
  intros [].
  split; cbn; auto.
Qed.

Ltac destr_pc_match :=
  repeat match goal with
  | H : context [match ?k with Start _ => _ | _ => _ end] |- _ => is_var k; destruct k
  | |- context [match ?k with Start _ => _ | _ => _ end] => is_var k; destruct k
  end.

Ltac mp :=
  repeat match goal with
  | H : ?a = ?b, H2 : ?a = ?b -> _ |- _ => specialize (H2 H)
  | H2 : ?a = ?a -> _ |- _ => specialize (H2 eq_refl)
  | H2 : true = false -> _ |- _ => clear H2
  | H2 : false = true -> _ |- _ => clear H2
  end.

Ltac stab :=
  let j := fresh "j" in let p := fresh "p" in let Nj := fresh "Nj" in let Hj := fresh "Hj" in let HL := fresh "HL" in
  intros j p Nj Hj HL; destruct p; cbn in HL |- *; destr_pc_match; cbn in *;
  try solve [intuition (try congruence; try lia)];
  try solve [destruct HL as [? [? ?]]; intuition congruence];
  try solve [destruct HL as [? [? ?]]; eexists; split; [eassumption || congruence | congruence]].

Lemma sent_created s : Inv s -> sent s = true -> created s = true.
Proof. intros HI H. destruct (created s) eqn:E; auto. destruct (i_new _ HI E) as (_ & ? & _). congruence. Qed.

Lemma reg_created s : Inv s -> rlookup fpath (reg s) <> None -> created s = true.
Proof. intros HI H. destruct (created s) eqn:E; auto. destruct (i_new _ HI E) as (_ & _ & _ & _ & ?). congruence. Qed.

Lemma done_final s : Inv s -> done s = true -> exists v, final s = Some v /\ res_of s = vpair v /\ closed s = true.
Proof.
  intros HI Hd. destruct (closed s) eqn:Hc.
  - destruct (i_win _ HI Hc) as (w & v & p & Hw & Hf & Hp & Hph).
    exists v. split; auto. split; auto.
    destruct p; cbn in Hph; try tauto; intuition congruence.
  - destruct (i_open _ HI Hc) as (_ & _ & _ & _ & _ & ? & _). congruence.
Qed.

