(** Replay entry point.  Input = (timeout programs schedule); output = per-step (label, projected state),
    the PipeResults told, the values returned by Result/Wait, the routing log, and how the run ended.
    The schedule names threads only; when the chosen thread is the timer at its fire step the replay first
    advances the virtual clock to the deadline with [Tick]s (the controlled scheduler's "the timer fires
    now" = "the clock has passed the deadline"). *)
From Coq Require Import List NArith Bool.
From Vivid Require Import Base.Tm Future.FutModel.
Import ListNotations.
Local Open Scope N_scope.

Definition get_val (t : tm) : option val :=
  match t with
  | TL [TN 0; TN m] => Some (VMsg m)
  | TL [TN 1; TN e] => Some (VErr e)
  | TL [TN 2] => Some VNil
  | _ => None
  end.

Definition get_prog (t : tm) : option prog :=
  match t with
  | TL [TN 0; TN p; v] => match get_val v with Some v => Some (PReply p v) | None => None end
  | TL [TN 1; TN e] => Some (PClose e)
  | TL [TN 2] => Some PDeath
  | TL [TN 3; fs] => match get_list get_n fs with Some fs => Some (PPipe fs) | None => None end
  | TL [TN 4; TN full] => Some (PWait (negb (full =? 0)))
  | TL [TN 5; TN p; TN id] => Some (PForeignReg p id)
  | TL [TN 6; TN p] => Some (PForeignUnreg p)
  | _ => None
  end.

Definition label_code (l : label) : N :=
  match l with
  | LStart => 1 | LAwait => 2 | LNew => 3 | LAppend => 4 | LFire => 5 | LLookup => 6 | LDeath => 7 | LCas => 8
  | LAssignErr => 9 | LAssignMsg => 10 | LCloseDone => 11 | LCloser => 12 | LLockClose => 13 | LTell => 14
  | LLockPipe => 15 | LLoad => 16 | LRecv => 17 | LForeign => 18 | LCheck => 19 | LPipeWait => 20 | LAppendFwd => 21 | LNone => 0
  end.

(** The tie identifies a step by WHAT it does - the operation and the field it acts on - not by the function that contains
    it: the same operation executed at different places of the code has one class ("Lock f.mu" in close and in PipeTo,
    "closed.Load" in PipeTo and in Closed(), "<-done" in Result/Wait and in PipeTo).  Which of the places it is follows from
    the thread's pc in the model; the per-step comparison of the projected state keeps the correspondence tight. *)
Definition class_code (l : label) : N :=
  match l with
  | LLockPipe => label_code LLockClose
  | LCheck => label_code LLoad
  | LPipeWait => label_code LRecv
  | _ => label_code l
  end.

Definition tval (v : val) : tm :=
  match v with VMsg m => TL [TN 0; TN m] | VErr e => TL [TN 1; TN e] | VNil => TL [TN 2] end.
Definition tres (r : res) : list tm := [topt TN (fst r); topt TN (snd r)].

(** While [ask] has not returned the future is reachable only from ask's frame and the timer callback: the
    harness cannot read its fields, so they are masked on both sides until [sent]. *)
Definition proj (s : st) : list tm :=
  let v := sent s in
  [tbool (v && closed s); (if v then topt TN (err s) else TL []); (if v then topt TN (msg s) else TL []);
   tbool (v && done s); TN (if v then N.of_nat (length (fwd s)) else 0);
   tbool (v && opt_eqb (rlookup 0 (reg s)) 0); TN (N.of_nat (length (reg s)));
   TN (N.of_nat (length (tells s))); TN (N.of_nat (length (rets s))); TN (N.of_nat (length (routed s)));
   tbool v].

(** Ticks needed before thread [i] (if it is the timer at its fire step) is enabled *)
Definition ticks_for (s : st) (i : nat) : N :=
  match nth_error (thr s) i with
  | Some TFire => match armed s with Some t0 => (t0 + tmo s) - now s | None => 0 end
  | _ => 0
  end.
Definition advance (s : st) (i : nat) : st := N.iter (ticks_for s i) tick s.

Fixpoint replay (sched : list nat) (s : st) : list tm * st :=
  match sched with
  | [] => ([], s)
  | i :: r =>
      let s1 := advance s i in
      let lab := match nth_error (thr s1) i with Some p => label_of p | None => LNone end in
      match step i s1 with
      | Some s' => let (out, sf) := replay r s' in (TL (TN (class_code lab) :: proj s') :: out, sf)
      | None => ([TL [TN 99; TN (N.of_nat i)]], s1)
      end
  end.

(** the schedule as a list of model actions (what [replay] executes) *)
Fixpoint acts_of (sched : list nat) (s : st) : list act :=
  match sched with
  | [] => []
  | i :: r =>
      let s1 := advance s i in
      repeat Tick (N.to_nat (ticks_for s i)) ++
      match step i s1 with
      | Some s' => Run i :: acts_of r s'
      | None => []
      end
  end.

Definition is_done (p : pc) : bool := match p with Done => true | _ => false end.
Definition is_some {A} (o : option A) : bool := match o with Some _ => true | None => false end.

(** 0 = every goroutine finished; 1 = some goroutine is blocked for ever; 2 = somebody can still move *)
Definition end_kind (s : st) : N :=
  if forallb is_done (thr s) then 0
  else if existsb (fun i => is_some (step i (advance s i))) (seq 0 (length (thr s))) then 2
  else 1.

Definition run_future (t : tm) : tm :=
  match t with
  | TL [TN timeout; progs; sched] =>
      match get_list get_prog progs, get_list get_n sched with
      | Some progs, Some sched =>
          let (out, sf) := replay (map N.to_nat sched) (init timeout progs) in
          TL [TL out;
              tlist (fun e => TL (TN (fst e) :: tres (snd e))) (tells sf);
              tlist (fun e => TL (TN (N.of_nat (fst (fst e))) :: tres (snd e))) (rets sf);
              tlist (fun e => TL [TN (fst (fst e)); tval (snd (fst e)); topt TN (snd e)]) (routed sf);
              TN (end_kind sf)]
      | _, _ => tm_err 1
      end
  | _ => tm_err 0
  end.
