(** Micro-step model of MANY concurrent Asks sharing the future tables of one actor system: internal/actor/context.go
    [ask], internal/future/future.go ([NewFuture], [close], [Close], [Enqueue], [Closed], [Result], [Wait]) and the
    future tables of internal/actor/system.go at THEIR OWN granularity - as the code is in /repo now:

      appendFuture              = [actorContexts.Store(path, f)]                 then  [futureLock section: futureAgents[asker][path] = ref]
      removeFuture              = [actorContexts.Delete(path)]                   then  [futureLock section: delete inner entry; delete the
                                                                                        asker's inner map when it became empty]
      removeFuturesByAgentPath  = [futureLock section: copy the keys of futureAgents[asker]]  then, per copied key in map-iteration
                                  order,  [actorContexts.Load(key)] -> f.Close(ErrorActorDeaded) (the whole close sequence)
      findMailbox (reply)       = [actorContexts.Load(path)] -> Enqueue = close(v), or the dead-letter mailbox (TellSelf of the root:
                                  no further table access)

    One step = what one goroutine does between two scheduling points of the instrumented code (harness/instr profile
    "futsys": every sync.Map operation, every futureLock / f.mu acquisition, the CAS / Load of [closed], the assignment of
    err / message, close(done), NewFuture, every <-done).

    Futures are created dynamically: the n-th executed NewFuture creates future n (a fresh object registered under a fresh
    agent path "<asker>/@future@<uuid>", assumption M7); its asker path and timeout come from the Ask that created it.
    Several futures may have the same asker path: several Asks of one actor, of the root context from many goroutines
    ([System.Ask]), or of successive incarnations of a re-used actor name.

    Threads run SCRIPTS (lists of operations executed one after the other on one goroutine): an actor goroutine is e.g.
    [OAsk a t1; OAsk a t2; ODeath a ord; OAsk a t3] - two Asks from message handlers, the actor's kill processing
    (doKill: removeFuturesByAgentPath(a)), and one more Ask issued by the OnKill / OnKilled handler that doKill runs AFTER
    the clean-up.  Repliers, Close callers and Result/Wait callers are scripts too; the timer goroutine of a future is
    spawned by its NewFuture.  [ord] of a death is the iteration order of the Go map (any order; environment); every key
    of the asker's inner map is copied whatever [ord] says ([dcopy_keys]).
    Since /repo 3f0f6ad the kill chain of an incarnation cleans up TWICE: doKill first, and once more after the
    incarnation's last handler (killedHandler.cleanupScheduler) - an actor goroutine is
    [asks ...; ODeath a _; asks of the OnKill / OnKilled handlers ...; ODeath a _] ([incarnation] in Future/SysCover.v).

    PipeTo / forwarders are not part of this model (they are per future and never touch the tables: Future/FutModel.v). *)
From Coq Require Import List NArith Bool Arith.
From RecordUpdate Require Import RecordSet.
From Vivid Require Import Future.FutModel.
Import ListNotations RecordSetNotations.
Local Open Scope N_scope.

(** operations of a script *)
Inductive sop : Type :=
| OAsk (a : N) (t : N)               (* the actor at path a calls Ask with timeout t (0 = no timer) *)
| OReply (k : nat) (v : val)         (* someone who received request k tells v to its sender (the agent path of future k) *)
| OClose (k : nat) (e : N)           (* a holder of future k calls Close(err e) *)
| OWait (k : nat) (full : bool)      (* a holder of future k calls Result() / Wait() *)
| OSync (k : nat)                    (* the goroutine waits until Ask k has returned (program order between goroutines) *)
| ODeath (a : N) (ord : list nat).   (* doKill of the actor at path a: removeFuturesByAgentPath(a, ErrorActorDeaded) *)

Inductive spc : Type :=
| SStart                              (* goroutine created, has not run yet *)
| SIdle                               (* between two operations of the script (finished when the script is empty) *)
| SAwait (k : nat) (q : spc)          (* holds future k / request k: waits until Ask k has returned *)
(* Context.ask *)
| SNew (a t : N)                      (* future.NewFuture (arms the timer when t > 0) *)
| SStore (k : nat)                    (* appendFuture: actorContexts.Store *)
| SAgents (k : nat)                   (* appendFuture: futureLock section *)
| SCheck (k : nat)                    (* futureIns.Closed(); open: send the request, return *)
| SRemCtx (k : nat)                   (* ... closed: removeFuture: actorContexts.Delete *)
| SRemAg (k : nat)                    (*             removeFuture: futureLock section; send the request, return *)
(* the time.AfterFunc goroutine of future k *)
| STStart (k : nat)
| STFire (k : nat)
(* a reply: Context.tell -> findMailbox *)
| SRLoad (k : nat) (v : val)          (* actorContexts.Load(agent path of k) *)
(* removeFuturesByAgentPath *)
| SDCopy (a : N) (ord : list nat)     (* futureLock section: copy the keys *)
| SDLoad (l : list nat)               (* actorContexts.Load(head of l) *)
(* Future.close(v); [rest] = keys still to visit when the caller is removeFuturesByAgentPath *)
| SCas (k : nat) (v : val) (rest : list nat)
| SAssign (k : nat) (v : val) (rest : list nat)
| SDone (k : nat) (v : val) (rest : list nat)       (* close(done) + timer.Stop *)
| SCRemCtx (k : nat) (rest : list nat)              (* closer() = removeFuture: actorContexts.Delete *)
| SCRemAg (k : nat) (rest : list nat)               (*                          futureLock section *)
| SLock (k : nat) (rest : list nat)                 (* f.mu: take the forwarders (none in this model) *)
(* Result / Wait *)
| SWRecv (k : nat) (full : bool).

(** one future *)
Record fut : Type := mkfut {
  f_asker : N;                       (* path of the asking actor (static) *)
  f_tmo : N;                         (* timeout (static) *)
  f_owner : nat;                     (* the thread that runs its Ask (static, ghost) *)
  f_armed : option N;                (* Some t0: the timer was armed at t0 *)
  f_tstopped : bool;
  f_closed : bool;
  f_err : option N;
  f_msg : option N;
  f_done : bool;
  f_inctx : bool;                    (* actorContexts maps the agent path to this future *)
  f_sent : bool;                     (* Ask has returned (the request was enqueued at the recipient) *)
  (* ghost history *)
  f_stored : bool;                   (* appendFuture's Store has run *)
  f_winners : list nat;              (* threads that passed the CAS *)
  f_attempts : list nat;             (* threads that executed the CAS *)
  f_final : option val;              (* the value of the winning close *)
  f_wlog : list (nat * bool);        (* writes of err/message: (thread, was done already closed?) *)
  f_fired : option N;                (* time at which the timer callback ran *)
  f_crem : bool;                     (* closer(): Delete has run *)
  f_arem : bool                      (* closer(): futureLock section has run *)
}.
#[export] Instance eta_fut : Settable _ :=
  settable! mkfut <f_asker; f_tmo; f_owner; f_armed; f_tstopped; f_closed; f_err; f_msg; f_done; f_inctx; f_sent;
                   f_stored; f_winners; f_attempts; f_final; f_wlog; f_fired; f_crem; f_arem>.

Definition new_fut (a t : N) (owner : nat) (now : N) : fut :=
  {| f_asker := a; f_tmo := t; f_owner := owner; f_armed := if 0 <? t then Some now else None; f_tstopped := false;
     f_closed := false; f_err := None; f_msg := None; f_done := false; f_inctx := false; f_sent := false;
     f_stored := false; f_winners := []; f_attempts := []; f_final := None; f_wlog := []; f_fired := None;
     f_crem := false; f_arem := false |}.

(** futureAgents: asker path -> set of future ids, as a two-level association list (M2).  The asker's entry is
    created by the first insertion and deleted when its set becomes empty, as the code does. *)
Notation agmap := (list (N * list nat)) (only parsing).
Fixpoint ag_get (a : N) (ag : agmap) : list nat :=
  match ag with
  | [] => []
  | (b, l) :: r => if b =? a then l else ag_get a r
  end.
Fixpoint ag_set (a : N) (l : list nat) (ag : agmap) : agmap :=
  match ag with
  | [] => [(a, l)]
  | (b, l0) :: r => if b =? a then (a, l) :: r else (b, l0) :: ag_set a l r
  end.
Definition ag_drop (a : N) (ag : agmap) : agmap := filter (fun e => negb (fst e =? a)) ag.
Fixpoint memb (k : nat) (l : list nat) : bool :=
  match l with [] => false | x :: r => Nat.eqb x k || memb k r end.
Fixpoint rem (k : nat) (l : list nat) : list nat :=
  match l with [] => [] | x :: r => if Nat.eqb x k then rem k r else x :: rem k r end.
(** the keys a kill clean-up copies: EVERY key of the asker's inner map (the map iteration visits all of them), in the
    order [ord] for the keys that [ord] lists, the others afterwards *)
Definition dcopy_keys (ord inner : list nat) : list nat :=
  filter (fun k => memb k inner) ord ++ filter (fun k => negb (memb k ord)) inner.
Definition ag_add (a : N) (k : nat) (ag : agmap) : agmap := ag_set a (k :: rem k (ag_get a ag)) ag.
Definition ag_del (a : N) (k : nat) (ag : agmap) : agmap :=
  match rem k (ag_get a ag) with
  | [] => ag_drop a ag
  | l => ag_set a l ag
  end.

Record sst : Type := mksst {
  y_now : N;                                   (* virtual clock *)
  y_futs : list fut;                           (* future k = nth k *)
  y_agents : agmap;                            (* System.futureAgents *)
  y_rets : list (nat * nat * bool * res);      (* (thread, future, Result?, value returned) *)
  y_routed : list (nat * val * bool);          (* replies: (addressed future, value, was it registered in actorContexts?) *)
  y_dcopies : list (nat * N * list nat);       (* ghost: (thread, asker path, keys copied) of every removeFuturesByAgentPath *)
  y_thr : list (spc * list sop)                (* thread i: (pc, rest of its script) *)
}.
#[export] Instance eta_sst : Settable _ := settable! mksst <y_now; y_futs; y_agents; y_rets; y_routed; y_dcopies; y_thr>.

Definition first_pc (o : sop) : spc :=
  match o with
  | OAsk a t => SNew a t
  | OReply k v => SAwait k (SRLoad k v)
  | OClose k e => SAwait k (SCas k (VErr e) [])
  | OWait k full => SAwait k (SWRecv k full)
  | OSync k => SAwait k SIdle
  | ODeath a ord => SDCopy a ord
  end.

(** where a thread goes when a close / a lookup of the death loop is finished *)
Definition fin (rest : list nat) : spc := match rest with [] => SIdle | _ => SDLoad rest end.

Definition getf (s : sst) (k : nat) : option fut := nth_error (y_futs s) k.

Inductive slabel : Type :=
| YStart | YOp | YAwait | YNew | YStore | YAgents | YCheck | YRemCtx | YRemAg | YFire | YLoadReply
| YCopy | YLoadDeath | YCas | YAssignErr | YAssignMsg | YCloseDone | YLockMu | YRecv | YNone.

Definition slabel_of (p : spc) : slabel :=
  match p with
  | SStart | STStart _ => YStart
  | SIdle => YOp
  | SAwait _ _ => YAwait
  | SNew _ _ => YNew
  | SStore _ => YStore
  | SAgents _ => YAgents
  | SRemAg _ | SCRemAg _ _ => YRemAg
  | SCheck _ => YCheck
  | SRemCtx _ | SCRemCtx _ _ => YRemCtx
  | STFire _ => YFire
  | SRLoad _ _ => YLoadReply
  | SDCopy _ _ => YCopy
  | SDLoad _ => YLoadDeath
  | SCas _ _ _ => YCas
  | SAssign _ (VErr _) _ => YAssignErr
  | SAssign _ _ _ => YAssignMsg
  | SDone _ _ _ => YCloseDone
  | SLock _ _ => YLockMu
  | SWRecv _ _ => YRecv
  end.

Definition sstep (i : nat) (s : sst) : option sst :=
  match nth_error (y_thr s) i with
  | None => None
  | Some (p, sc) =>
    let goto (s' : sst) (q : spc) := Some (s' <| y_thr := upd (y_thr s) i (q, sc) |>) in
    let setf (k : nat) (f : fut) := s <| y_futs := upd (y_futs s) k f |> in
    match p with
    | SStart => goto s SIdle
    | SIdle =>
        match sc with
        | [] => None
        | o :: sc' => Some (s <| y_thr := upd (y_thr s) i (first_pc o, sc') |>)
        end
    | SAwait k q =>
        match getf s k with
        | Some f => if f_sent f then goto s q else None
        | None => None
        end
    | SNew a t =>
        let k := length (y_futs s) in
        let f := new_fut a t i (y_now s) in
        if 0 <? t
        then Some (s <| y_futs := y_futs s ++ [f] |> <| y_thr := upd (y_thr s) i (SStore k, sc) ++ [(STStart k, [])] |>)
        else Some (s <| y_futs := y_futs s ++ [f] |> <| y_thr := upd (y_thr s) i (SStore k, sc) |>)
    | SStore k =>
        match getf s k with
        | Some f => goto (setf k (f <| f_inctx := true |> <| f_stored := true |>)) (SAgents k)
        | None => None
        end
    | SAgents k =>
        match getf s k with
        | Some f => goto (s <| y_agents := ag_add (f_asker f) k (y_agents s) |>) (SCheck k)
        | None => None
        end
    | SCheck k =>
        match getf s k with
        | Some f => if f_closed f then goto s (SRemCtx k) else goto (setf k (f <| f_sent := true |>)) SIdle
        | None => None
        end
    | SRemCtx k =>
        match getf s k with
        | Some f => goto (setf k (f <| f_inctx := false |>)) (SRemAg k)
        | None => None
        end
    | SRemAg k =>
        match getf s k with
        | Some f => goto (setf k (f <| f_sent := true |>) <| y_agents := ag_del (f_asker f) k (y_agents s) |>) SIdle
        | None => None
        end
    | STStart k => goto s (STFire k)
    | STFire k =>
        match getf s k with
        | Some f =>
            match f_armed f with
            | Some t0 =>
                if t0 + f_tmo f <=? y_now s
                then if f_tstopped f then goto s SIdle
                     else goto (setf k (f <| f_fired := Some (y_now s) |>)) (SCas k (VErr E_TIMEOUT) [])
                else None
            | None => None
            end
        | None => None
        end
    | SRLoad k v =>
        match getf s k with
        | Some f => goto (s <| y_routed := y_routed s ++ [(k, v, f_inctx f)] |>) (if f_inctx f then SCas k v [] else SIdle)
        | None => None
        end
    | SDCopy a ord =>
        let l := dcopy_keys ord (ag_get a (y_agents s)) in
        goto (s <| y_dcopies := y_dcopies s ++ [(i, a, l)] |>) (fin l)
    | SDLoad l =>
        match l with
        | [] => goto s SIdle
        | k :: l' =>
            match getf s k with
            | Some f => goto s (if f_inctx f then SCas k (VErr E_DEAD) l' else fin l')
            | None => None
            end
        end
    | SCas k v rest =>
        match getf s k with
        | Some f =>
            if f_closed f then goto (setf k (f <| f_attempts := f_attempts f ++ [i] |>)) (fin rest)
            else goto (setf k (f <| f_closed := true |> <| f_attempts := f_attempts f ++ [i] |>
                                 <| f_winners := f_winners f ++ [i] |> <| f_final := Some v |>))
                      (match v with VNil => SDone k v rest | _ => SAssign k v rest end)
        | None => None
        end
    | SAssign k v rest =>
        match getf s k with
        | Some f => goto (setf k (f <| f_msg := fst (vpair v) |> <| f_err := snd (vpair v) |>
                                    <| f_wlog := f_wlog f ++ [(i, f_done f)] |>)) (SDone k v rest)
        | None => None
        end
    | SDone k v rest =>
        match getf s k with
        | Some f => goto (setf k (f <| f_done := true |>
                                    <| f_tstopped := match f_armed f with Some _ => true | None => f_tstopped f end |>))
                         (SCRemCtx k rest)
        | None => None
        end
    | SCRemCtx k rest =>
        match getf s k with
        | Some f => goto (setf k (f <| f_inctx := false |> <| f_crem := true |>)) (SCRemAg k rest)
        | None => None
        end
    | SCRemAg k rest =>
        match getf s k with
        | Some f => goto (setf k (f <| f_arem := true |>) <| y_agents := ag_del (f_asker f) k (y_agents s) |>) (SLock k rest)
        | None => None
        end
    | SLock k rest => goto s (fin rest)
    | SWRecv k full =>
        match getf s k with
        | Some f =>
            if f_done f
            then goto (s <| y_rets := y_rets s ++ [(i, k, full, (if full then f_msg f else None, f_err f))] |>) SIdle
            else None
        | None => None
        end
    end
  end.

Definition stick (s : sst) : sst := s <| y_now := y_now s + 1 |>.

Definition sinit (progs : list (list sop)) : sst :=
  {| y_now := 0; y_futs := []; y_agents := []; y_rets := []; y_routed := []; y_dcopies := [];
     y_thr := map (fun sc => (SStart, sc)) progs |}.

(** schedules: a choice that cannot step (finished, blocked or non-existent thread) is skipped *)
Inductive sact : Type := STick | SRun (i : nat).
Definition sdo (s : sst) (a : sact) : sst :=
  match a with
  | STick => stick s
  | SRun i => match sstep i s with Some s' => s' | None => s end
  end.
Definition srun (sched : list sact) (s : sst) : sst := fold_left sdo sched s.

Definition sreach (progs : list (list sop)) (s : sst) : Prop := exists sched, srun sched (sinit progs) = s.

(** nothing can ever move again, however far the clock advances *)
Definition sterminal (s : sst) : Prop := forall n i, sstep i (N.iter n stick s) = None.

(** every goroutine has run its whole script *)
Definition sfinished (s : sst) : Prop := forall i p sc, nth_error (y_thr s) i = Some (p, sc) -> p = SIdle /\ sc = [].

(** derived notions used by the statements *)
Definition all_ops (progs : list (list sop)) : list sop := concat progs.
Definition fres (f : fut) : res := (f_msg f, f_err f).
Definition in_agents (s : sst) (k : nat) : Prop := exists a, In k (ag_get a (y_agents s)).
Definition copied (s : sst) (k : nat) : Prop := exists d a l, In (d, a, l) (y_dcopies s) /\ In k l.

(** where the completing value of future k can come from: a reply addressed to ITS agent path, a Close(err) by a holder,
    its own timer callback, or the death clean-up of ITS asker's path that found it registered *)
Definition sorigin (progs : list (list sop)) (s : sst) (k : nat) (f : fut) (v : val) : Prop :=
  In (OReply k v) (all_ops progs) \/
  (exists e, v = VErr e /\ In (OClose k e) (all_ops progs)) \/
  (v = VErr E_TIMEOUT /\ f_fired f <> None) \/
  (v = VErr E_DEAD /\ exists d l, In (d, f_asker f, l) (y_dcopies s) /\ In k l).

