(** Basic lemmas and tactics for the proofs about Future/SysModel.v: the two-level map futureAgents, the clock,
    step inversion. *)
From Coq Require Import List NArith Bool Lia Arith.
From Coq Require Import ZifyN ZifyNat ZifyBool.
From RecordUpdate Require Import RecordSet.
From Vivid Require Import Future.FutModel Future.FutSpec Future.FutBase Future.SysModel.
Import ListNotations RecordSetNotations.
Local Open Scope N_scope.

(** ------------------------------------------------------------------ small sets of future ids *)

Lemma memb_In k l : memb k l = true <-> In k l.
Proof.
  induction l as [|x l IH]; cbn; [split; [discriminate|tauto]|].
  rewrite orb_true_iff, IH, Nat.eqb_eq. tauto.
Qed.

Lemma rem_In k j l : In j (rem k l) <-> In j l /\ j <> k.
Proof.
  induction l as [|x l IH]; cbn; [tauto|].
  destruct (Nat.eqb x k) eqn:E.
  - apply Nat.eqb_eq in E. subst x. rewrite IH. split; [tauto|]. intros [[->|H] N]; tauto.
  - apply Nat.eqb_neq in E. cbn. rewrite IH. split.
    + intros [->|[H N]]; auto.
    + intros [[->|H] N]; auto.
Qed.

Lemma dcopy_keys_In k ord inner : In k (dcopy_keys ord inner) <-> In k inner.
Proof.
  unfold dcopy_keys. rewrite in_app_iff, !filter_In, memb_In. split.
  - tauto.
  - intros H. destruct (memb k ord) eqn:E; [left; split; auto; apply memb_In; auto|right; split; auto].
Qed.

(** ------------------------------------------------------------------ futureAgents *)

Definition ag_wf (ag : list (N * list nat)) : Prop :=
  NoDup (map fst ag) /\ forall b l, In (b, l) ag -> l <> [].

Lemma ag_get_set b a l ag : ag_get b (ag_set a l ag) = if a =? b then l else ag_get b ag.
Proof.
  induction ag as [|[c l0] ag IH]; cbn.
  - destruct (a =? b); reflexivity.
  - destruct (c =? a) eqn:E1; cbn.
    + apply N.eqb_eq in E1. subst c. destruct (a =? b); reflexivity.
    + rewrite IH. destruct (c =? b) eqn:E2; auto.
      apply N.eqb_eq in E2. subst c. apply N.eqb_neq in E1.
      destruct (a =? b) eqn:E3; auto. apply N.eqb_eq in E3. congruence.
Qed.

Lemma ag_get_drop b a ag : ag_get b (ag_drop a ag) = if a =? b then [] else ag_get b ag.
Proof.
  unfold ag_drop. induction ag as [|[c l0] ag IH]; cbn.
  - destruct (a =? b); reflexivity.
  - destruct (c =? a) eqn:E1; cbn.
    + apply N.eqb_eq in E1. subst c. rewrite IH. destruct (a =? b); reflexivity.
    + rewrite IH. destruct (c =? b) eqn:E2; auto.
      apply N.eqb_eq in E2. subst c. rewrite N.eqb_sym, E1. reflexivity.
Qed.

Lemma ag_get_In a l ag : NoDup (map fst ag) -> In (a, l) ag -> ag_get a ag = l.
Proof.
  induction ag as [|[c l0] ag IH]; cbn; [tauto|].
  intros Hnd [E|H].
  - injection E as -> ->. rewrite N.eqb_refl. reflexivity.
  - inversion Hnd as [|? ? Hn Hnd']; subst.
    destruct (c =? a) eqn:E1; auto.
    apply N.eqb_eq in E1. subst c. exfalso. apply Hn. change a with (fst (a, l)). apply in_map. exact H.
Qed.

Lemma ag_set_keys a l ag x : In x (map fst (ag_set a l ag)) <-> x = a \/ In x (map fst ag).
Proof.
  induction ag as [|[c l0] ag IH]; cbn; [intuition|].
  destruct (c =? a) eqn:E1; cbn.
  - apply N.eqb_eq in E1. subst c. intuition.
  - rewrite IH. intuition.
Qed.

Lemma ag_set_In a l ag b m : In (b, m) (ag_set a l ag) -> (b = a /\ m = l) \/ In (b, m) ag.
Proof.
  induction ag as [|[c l0] ag IH]; cbn.
  - intros [E|[]]. injection E as <- <-. auto.
  - destruct (c =? a) eqn:E1; cbn.
    + intros [E|H]; [injection E as <- <-; auto|auto].
    + intros [E|H]; auto. destruct (IH H); auto.
Qed.

Lemma ag_wf_set a l ag : ag_wf ag -> l <> [] -> ag_wf (ag_set a l ag).
Proof.
  intros [Hnd Hne] Hl. split.
  - clear Hne. induction ag as [|[c l0] ag IH]; cbn.
    + constructor; [tauto|constructor].
    + inversion Hnd as [|? ? Hn Hnd']; subst. destruct (c =? a) eqn:E1; cbn.
      * apply N.eqb_eq in E1. subst c. constructor; auto.
      * constructor; auto. rewrite ag_set_keys. intros [->|H]; [rewrite N.eqb_refl in E1; discriminate|tauto].
  - intros b m H. destruct (ag_set_In _ _ _ _ _ H) as [[-> ->]|H']; eauto.
Qed.

Lemma ag_wf_drop a ag : ag_wf ag -> ag_wf (ag_drop a ag).
Proof.
  intros [Hnd Hne]. unfold ag_drop. split.
  - clear Hne. induction ag as [|[c l0] ag IH]; cbn; [constructor|].
    inversion Hnd as [|? ? Hn Hnd']; subst. destruct (c =? a); cbn; auto.
    constructor; auto. intros H. apply Hn. apply in_map_iff in H as [[x y] [<- H]]. apply filter_In in H as [H _].
    change x with (fst (x, y)). apply in_map. exact H.
  - intros b m H. apply filter_In in H as [H _]. eauto.
Qed.

Lemma ag_wf_add a k ag : ag_wf ag -> ag_wf (ag_add a k ag).
Proof. intros H. apply ag_wf_set; auto. discriminate. Qed.

Lemma ag_wf_del a k ag : ag_wf ag -> ag_wf (ag_del a k ag).
Proof.
  intros H. unfold ag_del. destruct (rem k (ag_get a ag)) eqn:E.
  - apply ag_wf_drop; auto.
  - apply ag_wf_set; auto. discriminate.
Qed.

Lemma ag_get_add b j a k ag : In j (ag_get b (ag_add a k ag)) <-> (b = a /\ j = k) \/ In j (ag_get b ag).
Proof.
  unfold ag_add. rewrite ag_get_set. destruct (a =? b) eqn:E.
  - apply N.eqb_eq in E. subst b. cbn. rewrite rem_In. split.
    + intros [<-|[H _]]; auto.
    + intros [[_ ->]|H]; auto. destruct (Nat.eq_dec j k) as [->|N]; auto.
  - apply N.eqb_neq in E. split; [auto|intros [[-> _]|H]; [congruence|auto]].
Qed.

Lemma ag_get_del b j a k ag : In j (ag_get b (ag_del a k ag)) <-> In j (ag_get b ag) /\ ~ (b = a /\ j = k).
Proof.
  unfold ag_del. destruct (rem k (ag_get a ag)) eqn:E.
  - rewrite ag_get_drop. destruct (a =? b) eqn:E1.
    + apply N.eqb_eq in E1. subst b. cbn. split; [tauto|]. intros [H N].
      assert (Hr : In j (rem k (ag_get a ag))) by (apply rem_In; split; auto; intro; subst; tauto).
      rewrite E in Hr. destruct Hr.
    + apply N.eqb_neq in E1. split; [intros H; split; auto; intros [-> _]; congruence|tauto].
  - rewrite ag_get_set. destruct (a =? b) eqn:E1.
    + apply N.eqb_eq in E1. subst b. rewrite <- E, rem_In. split; [intros [H N]; split; auto; tauto|].
      intros [H N]. split; auto; try (intro; subst; tauto).
    + apply N.eqb_neq in E1. split; [intros H; split; auto; intros [-> _]; congruence|tauto].
Qed.

Lemma ag_wf_nonempty ag : ag_wf ag -> ag <> [] -> exists a k, In k (ag_get a ag).
Proof.
  intros [Hnd Hne] H. destruct ag as [|[a l] ag]; [congruence|].
  exists a. destruct l as [|k l]; [exfalso; apply (Hne a []); [left; reflexivity|reflexivity]|].
  exists k. cbn. rewrite N.eqb_refl. left. reflexivity.
Qed.

(** ------------------------------------------------------------------ the clock *)

Lemma stick_iter n s : N.iter n stick s = s <| y_now := y_now s + n |>.
Proof.
  induction n as [|n IH] using N.peano_ind.
  - cbn [N.iter]. rewrite N.add_0_r. destruct s; reflexivity.
  - rewrite N.iter_succ, IH. unfold stick. destruct s; cbn. rewrite N.add_succ_r, N.add_1_r. reflexivity.
Qed.

(** ------------------------------------------------------------------ lists *)

Lemma nth_error_snoc_len {A} (l : list A) x : nth_error (l ++ [x]) (length l) = Some x.
Proof. rewrite nth_error_app2 by lia. rewrite Nat.sub_diag. reflexivity. Qed.

Lemma nth_error_upd_none {A} (l : list A) i x : nth_error l i = None -> upd l i x = l.
Proof. revert i; induction l as [|a l IH]; intros [|i] H; cbn in *; try discriminate; auto. f_equal. auto. Qed.

(** ------------------------------------------------------------------ step inversion *)

Ltac sdestr_cond H :=
  repeat match type of H with
  | (if ?b then _ else _) = Some _ => let E := fresh "Hc" in destruct b eqn:E
  | match getf ?s ?k with Some _ => _ | None => _ end = Some _ => let E := fresh "Hf" in let f := fresh "f" in destruct (getf s k) as [f|] eqn:E
  | match ?o with Some _ => _ | None => _ end = Some _ => let E := fresh "Hc" in destruct o eqn:E
  | match ?v with VMsg _ => _ | VErr _ => _ | VNil => _ end = Some _ => let E := fresh "Hv" in destruct v eqn:E
  | match ?l with [] => _ | _ :: _ => _ end = Some _ => let E := fresh "Hl" in destruct l eqn:E
  end.

(** [sstep_inv H] : H : sstep i s = Some s'.  Leaves one goal per (pc, branch) with
    Hp : nth_error (y_thr s) i = Some (<pc>, sc) *)
Ltac sstep_inv H :=
  unfold sstep in H;
  match type of H with
  | match nth_error (y_thr ?s) ?i with _ => _ end = Some _ =>
      let p := fresh "p" in let sc := fresh "sc" in let Hp := fresh "Hp" in
      destruct (nth_error (y_thr s) i) as [[p sc]|] eqn:Hp; [|discriminate H];
      destruct p; sdestr_cond H; try discriminate H;
      injection H as H; subst
  end.
