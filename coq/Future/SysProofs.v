(** Proofs of the system-level C04 statements from the invariant of Future/SysModel.v (Future/SysInv.v). *)
From Coq Require Import List NArith Bool Lia Arith.
From Coq Require Import ZifyN ZifyNat ZifyBool.
From RecordUpdate Require Import RecordSet.
From Vivid Require Import Future.FutModel Future.FutSpec Future.FutBase Future.SysModel Future.SysBase Future.SysInvDef Future.SysInv.
Import ListNotations RecordSetNotations.
Local Open Scope N_scope.

(** ------------------------------------------------------------------ one shot, per future *)

Lemma sys_one_winner progs s k f : Inv progs s -> getf s k = Some f ->
  (length (f_winners f) <= 1)%nat /\ (f_closed f = true <-> f_winners f <> []).
Proof.
  intros HI Hg. pose proof (i_fut _ _ HI _ _ Hg) as HF. destruct (f_closed f) eqn:Hc.
  - destruct (f_win _ _ _ _ HF Hc) as (w & v & Hw & _). rewrite Hw. cbn. split; [lia|]. split; congruence.
  - destruct (f_open _ _ _ _ HF Hc) as (Hw & _). rewrite Hw. cbn. split; [lia|]. split; congruence.
Qed.

Lemma sys_past_cas progs s i p sc k : Inv progs s -> nth_error (y_thr s) i = Some (p, sc) ->
  stage_of k p <> StFin -> exists f, getf s k = Some f /\ f_winners f = [i].
Proof.
  intros HI Hp Hst. pose proof (proj1 (i_loc _ _ HI _ _ _ Hp)) as HL.
  destruct p; cbn in Hst; try congruence;
    match type of Hst with (if Nat.eqb ?a ?b then _ else _) <> _ => destruct (Nat.eqb_spec a b); [subst|congruence] end;
    cbn in HL; destruct HL as [(f & Hg & HL) _]; exists f; split; auto; tauto.
Qed.

Lemma sys_writes_once progs s k f : Inv progs s -> getf s k = Some f ->
  (length (f_wlog f) <= 1)%nat /\ forall i d, In (i, d) (f_wlog f) -> f_winners f = [i] /\ d = false.
Proof.
  intros HI Hg. pose proof (i_fut _ _ HI _ _ Hg) as HF. destruct (f_closed f) eqn:Hc.
  - destruct (f_win _ _ _ _ HF Hc) as (w & v & Hw & _ & (p & sc & Hp & Hws)).
    assert (Hwl : f_wlog f = [] \/ f_wlog f = [(w, false)]).
    { destruct (stage_of k p); cbn in Hws; destruct v; cbn in Hws; intuition. }
    destruct Hwl as [-> | ->]; cbn; split; try lia; try tauto.
    intros i d [E|[]]. injection E as <- <-. auto.
  - destruct (f_open _ _ _ _ HF Hc) as (_ & _ & _ & _ & -> & _). cbn. split; [lia|tauto].
Qed.

Lemma sys_done_final progs s k f : Inv progs s -> getf s k = Some f -> f_done f = true ->
  exists v, f_final f = Some v /\ fres f = vpair v /\ f_closed f = true.
Proof.
  intros HI Hg Hd. pose proof (i_fut _ _ HI _ _ Hg) as HF. destruct (f_closed f) eqn:Hc.
  - destruct (f_win _ _ _ _ HF Hc) as (w & v & Hw & Hfin & (p & sc & Hp & Hws)).
    exists v. split; auto. split; auto. destruct (stage_of k p); cbn in Hws; try tauto; intuition congruence.
  - destruct (f_open _ _ _ _ HF Hc) as (_ & _ & _ & ? & _). congruence.
Qed.

(** a written result is the value of the winning close; before the write it is (nil, nil) *)
Lemma sys_result_is_final progs s k f : Inv progs s -> getf s k = Some f ->
  fres f = (None, None) \/ exists v, f_final f = Some v /\ fres f = vpair v.
Proof.
  intros HI Hg. pose proof (i_fut _ _ HI _ _ Hg) as HF. destruct (f_closed f) eqn:Hc.
  - destruct (f_win _ _ _ _ HF Hc) as (w & v & Hw & Hfin & (p & sc & Hp & Hws)).
    destruct (stage_of k p); cbn in Hws; try (right; exists v; tauto). left. tauto.
  - left. apply (f_open _ _ _ _ HF Hc).
Qed.

(** ------------------------------------------------------------------ monotonicity along runs *)

Record fut_mono (f f' : fut) : Prop := {
  m_asker : f_asker f' = f_asker f;
  m_closed : f_closed f = true -> f_closed f' = true;
  m_done : f_done f = true -> f_done f' = true /\ fres f' = fres f;
  m_sent : f_sent f = true -> f_sent f' = true
}.

Lemma sdo_mono progs s a k f : Inv progs s -> getf s k = Some f ->
  exists f', getf (sdo s a) k = Some f' /\ fut_mono f f'.
Proof.
  intros HI Hg. destruct a as [|i]; cbn.
  - exists f. split; auto. split; auto.
  - destruct (sstep i s) as [s'|] eqn:E; [|exists f; split; auto; split; auto].
    destruct (proj2 (step_frame _ _ _ _ HI E) _ _ Hg) as (f' & Hg' & []). exists f'. split; auto. split; auto.
Qed.

Lemma srun_mono progs sched s k f : Inv progs s -> getf s k = Some f ->
  exists f', getf (srun sched s) k = Some f' /\ fut_mono f f'.
Proof.
  revert s f; induction sched as [|a l IH]; intros s f HI Hg; cbn.
  - exists f. split; auto. split; auto.
  - destruct (sdo_mono _ _ a _ _ HI Hg) as (f1 & Hg1 & []).
    destruct (IH _ _ (sdo_inv _ _ a HI) Hg1) as (f2 & Hg2 & []). exists f2. split; auto.
    split; try congruence; auto.
    intros Hd. destruct (m_done0 Hd) as [Hd1 Hr1]. destruct (m_done1 Hd1) as [Hd2 Hr2]. split; congruence.
Qed.

Lemma step_dcopies_mono s s' i x : sstep i s = Some s' -> In x (y_dcopies s) -> In x (y_dcopies s').
Proof. intros H Hx. sstep_inv H; cbn; auto. apply in_or_app. auto. Qed.

Lemma srun_copied sched s k : copied s k -> copied (srun sched s) k.
Proof.
  revert s; induction sched as [|a l IH]; intros s H; cbn; auto. apply IH.
  destruct a as [|i]; cbn; auto. destruct (sstep i s) eqn:E; auto.
  destruct H as (d & a0 & l0 & Hin & Hk). exists d, a0, l0. split; auto. eapply step_dcopies_mono; eauto.
Qed.

(** ------------------------------------------------------------------ terminal states *)

Definition sblocked (s : sst) (p : spc) (sc : list sop) : Prop :=
  match p with
  | SIdle => sc = []
  | SAwait k _ => match getf s k with Some f => f_sent f = false | None => True end
  | SWRecv k _ => match getf s k with Some f => f_done f = false | None => True end
  | STFire k => match getf s k with Some f => f_armed f = None | None => True end
  | SStart | STStart _ | SNew _ _ | SDCopy _ _ | SDLoad [] | SLock _ _ => False
  | SStore k | SAgents k | SCheck k | SRemCtx k | SRemAg k | SRLoad k _ | SDLoad (k :: _) | SCas k _ _ | SAssign k _ _
  | SDone k _ _ | SCRemCtx k _ | SCRemAg k _ => getf s k = None
  end.

Lemma sterminal_blocked s i p sc : sterminal s -> nth_error (y_thr s) i = Some (p, sc) -> sblocked s p sc.
Proof.
  intros Ht Hp.
  assert (H0 : sstep i s = None) by (specialize (Ht 0 i); cbn [N.iter] in Ht; exact Ht).
  unfold sstep in H0; rewrite Hp in H0.
  destruct p; cbn [sblocked]; cbn in H0; try discriminate H0.
  all: try (destruct sc; [reflexivity|discriminate H0]).
  all: try match goal with |- match ?l with [] => False | _ => _ end => destruct l as [|k l]; [discriminate H0|] end.
  all: try match type of H0 with context [getf ?s0 ?k] => destruct (getf s0 k) as [f|] eqn:Hg; [|auto] end.
  all: try match goal with |- f_armed _ = None => fail 1 | _ =>
           match type of H0 with context [if ?b then _ else _] => destruct b eqn:Eb; try discriminate H0; auto end end.
  all: try discriminate H0.
  (* STFire: advance the clock to the deadline *)
  destruct (f_armed f) as [t0|] eqn:Ea; auto. exfalso.
  specialize (Ht (t0 + f_tmo f) i). rewrite stick_iter in Ht. unfold sstep, getf in *. cbn -[N.add N.leb] in Ht.
  rewrite Hp, Hg, Ea in Ht.
  assert (E : (t0 + f_tmo f <=? y_now s + (t0 + f_tmo f)) = true) by (apply N.leb_le; lia).
  rewrite E in Ht. destruct (f_tstopped f); discriminate.
Qed.

(** a thread at a pc that is never blocked cannot exist in a terminal state *)
Lemma terminal_not_at progs s j (P : spc -> Prop) :
  Inv progs s -> sterminal s -> thr_at s j P ->
  (forall p sc, P p -> L progs s j p -> sblocked s p sc -> False) -> False.
Proof.
  intros HI Ht (p & sc & Hj & HP) Hno. apply (Hno p sc HP).
  - apply (i_loc _ _ HI _ _ _ Hj).
  - eapply sterminal_blocked; eauto.
Qed.

Ltac noexf :=
  repeat match goal with
  | H : exf _ _ _ |- _ => destruct H as (? & ? & ?)
  | H : exf _ _ _ /\ _ |- _ => destruct H as [(? & ? & ?) ?]
  | H : _ /\ exf _ _ _ |- _ => destruct H as [? (? & ? & ?)]
  end; try congruence.

Lemma sys_terminal_closed progs s k f : Inv progs s -> sterminal s -> getf s k = Some f -> f_closed f = true ->
  f_done f = true /\ f_inctx f = false /\ ~ In k (ag_get (f_asker f) (y_agents s)) /\
  exists v, f_final f = Some v /\ fres f = vpair v.
Proof.
  intros HI Ht Hg Hc. pose proof (i_fut _ _ HI _ _ Hg) as HF.
  destruct (f_win _ _ _ _ HF Hc) as (w & v & Hw & Hfin & (p & sc & Hp & Hws)).
  pose proof (sterminal_blocked _ _ _ _ Ht Hp) as Hb. pose proof (proj1 (i_loc _ _ HI _ _ _ Hp)) as HL.
  assert (Hst : wstage f w v StFin).
  { destruct p; cbn in Hws, Hb, HL; try exact Hws; try tauto; noexf. }
  cbn in Hst. destruct Hst as (Hr & Hd & _ & Hcr & Har & _).
  split; auto. split; [|split; [|eauto]].
  - destruct (f_inctx f) eqn:Ei; auto. exfalso.
    destruct (f_ctx _ _ _ _ HF Ei) as [?|Hat]; [congruence|].
    apply (terminal_not_at _ _ _ _ HI Ht Hat). intros q scq HP HLq Hbq.
    destruct q; cbn in HP; try discriminate; cbn in HLq, Hbq; noexf.
  - intros Hin. destruct (f_ag _ _ _ _ HF Hin) as [?|Hat]; [congruence|].
    apply (terminal_not_at _ _ _ _ HI Ht Hat). intros q scq HP HLq Hbq.
    destruct q; cbn in HP; try discriminate; cbn in HLq, Hbq; noexf.
Qed.

Lemma sys_completes progs s k f : Inv progs s -> sterminal s -> getf s k = Some f ->
  (f_attempts f <> [] \/ f_armed f <> None \/ copied s k) -> f_done f = true.
Proof.
  intros HI Ht Hg H. pose proof (i_fut _ _ HI _ _ Hg) as HF.
  assert (Hc : f_closed f = true).
  { destruct (f_closed f) eqn:Hc; auto. exfalso. destruct H as [H|[H|H]].
    - destruct (f_open _ _ _ _ HF Hc) as (_ & _ & _ & _ & _ & Ha & _). congruence.
    - destruct (f_timer _ _ _ _ HF H) as [?|[j Hat]]; [congruence|].
      apply (terminal_not_at _ _ _ _ HI Ht Hat). intros q scq HP HLq Hbq.
      destruct q; cbn in HP; try discriminate; cbn in HLq, Hbq; auto.
      + apply Nat.eqb_eq in HP. subst. destruct HLq as (f1 & Hg1 & Ha1). rewrite Hg1 in Hbq. congruence.
      + destruct v; try discriminate. noexf.
    - destruct H as (d & a & l & Hin & Hk).
      destruct (i_cp _ _ HI _ _ _ _ Hin Hk) as (f1 & Hg1 & _ & _ & [Hcl|Hat]).
      + rewrite Hg in Hg1. injection Hg1 as <-. congruence.
      + apply (terminal_not_at _ _ _ _ HI Ht Hat). intros q scq HP HLq Hbq.
        destruct q; cbn in HP; try tauto; cbn in HLq, Hbq; auto; noexf.
        destruct l0 as [|k1 l1]; [destruct HP|].
        destruct (HLq k1 (or_introl eq_refl)) as (a1 & l2 & Hin1 & Hk1).
        destruct (i_cp _ _ HI _ _ _ _ Hin1 Hk1) as (f2 & Hg2 & _). congruence. }
  apply (sys_terminal_closed _ _ _ _ HI Ht Hg Hc).
Qed.

Lemma sys_no_registration_left progs s k f : Inv progs s -> sterminal s -> getf s k = Some f -> f_done f = true ->
  f_inctx f = false /\ forall a, ~ In k (ag_get a (y_agents s)).
Proof.
  intros HI Ht Hg Hd. destruct (sys_done_final _ _ _ _ HI Hg Hd) as (_ & _ & _ & Hc).
  destruct (sys_terminal_closed _ _ _ _ HI Ht Hg Hc) as (_ & Hi & Ha & _). split; auto.
  intros a Hin. destruct (proj2 (i_ag _ _ HI) _ _ Hin) as (f1 & Hg1 & Ha1 & _).
  rewrite Hg in Hg1. injection Hg1 as <-. subst a. auto.
Qed.

(** when every future is completed, the registry is empty: no inner entry and no asker key left *)
Lemma sys_tables_empty progs s : Inv progs s -> sterminal s ->
  (forall k f, getf s k = Some f -> f_done f = true) ->
  y_agents s = [] /\ forall k f, getf s k = Some f -> f_inctx f = false.
Proof.
  intros HI Ht Hall. split.
  - destruct (y_agents s) as [|e ag] eqn:E; auto. exfalso.
    destruct (ag_wf_nonempty (y_agents s)) as (a & k & Hin); [apply (i_ag _ _ HI)|rewrite E; discriminate|].
    destruct (proj2 (i_ag _ _ HI) _ _ Hin) as (f & Hg & _).
    apply (proj2 (sys_no_registration_left _ _ _ _ HI Ht Hg (Hall _ _ Hg)) a). exact Hin.
  - intros k f Hg. apply (sys_no_registration_left _ _ _ _ HI Ht Hg (Hall _ _ Hg)).
Qed.

(** nobody is blocked except holders waiting for an Ask that was never issued and Result/Wait callers of a future that
    nothing completed (no reply / Close / death reached it, no timer, no kill clean-up copied it) *)
Lemma sys_no_deadlock progs s i p sc : Inv progs s -> sterminal s -> nth_error (y_thr s) i = Some (p, sc) ->
  (p = SIdle /\ sc = []) \/
  (exists k q, p = SAwait k q /\ getf s k = None) \/
  (exists k full f, p = SWRecv k full /\ getf s k = Some f /\ f_done f = false /\ f_closed f = false /\
                    f_attempts f = [] /\ f_armed f = None /\ ~ copied s k).
Proof.
  intros HI Ht Hp. pose proof (sterminal_blocked _ _ _ _ Ht Hp) as Hb. pose proof (proj1 (i_loc _ _ HI _ _ _ Hp)) as HL.
  destruct p; cbn in Hb, HL; try tauto; auto.
  all: try solve [exfalso; noexf].
  - (* SAwait *)
    right; left. destruct (getf s k) as [f|] eqn:Hg; [|eauto]. exfalso.
    apply (terminal_not_at _ _ _ _ HI Ht (f_snt _ _ _ _ (i_fut _ _ HI _ _ Hg) Hb)). intros q scq HP HLq Hbq.
    destruct q; cbn in HP; try discriminate; cbn in HLq, Hbq; noexf.
  - (* STFire *)
    exfalso. destruct HL as (f & Hg & Ha). rewrite Hg in Hb. congruence.
  - (* SDLoad *)
    exfalso. destruct l as [|k1 l1]; [exact Hb|].
    destruct (HL k1 (or_introl eq_refl)) as (a1 & l2 & Hin1 & Hk1).
    destruct (i_cp _ _ HI _ _ _ _ Hin1 Hk1) as (f2 & Hg2 & _). congruence.
  - (* SWRecv *)
    right; right. destruct HL as (f & Hg & _). rewrite Hg in Hb. exists k, full, f. split; auto. split; auto. split; auto.
    assert (Hc : f_closed f = false).
    { destruct (f_closed f) eqn:Hc; auto. destruct (sys_terminal_closed _ _ _ _ HI Ht Hg Hc) as (? & _). congruence. }
    split; auto. split; [apply (f_open _ _ _ _ (i_fut _ _ HI _ _ Hg) Hc)|].
    split.
    + destruct (f_armed f) eqn:Ea; auto. assert (f_done f = true) by (eapply sys_completes; eauto; right; left; congruence). congruence.
    + intros Hcp. assert (f_done f = true) by (eapply sys_completes; eauto). congruence.
Qed.

(** ------------------------------------------------------------------ own reply, own timeout, own death *)

Lemma sys_reply_value progs s k f m : Inv progs s -> getf s k = Some f -> f_msg f = Some m ->
  In (OReply k (VMsg m)) (all_ops progs).
Proof.
  intros HI Hg Hm. pose proof (i_fut _ _ HI _ _ Hg) as HF.
  destruct (sys_result_is_final _ _ _ _ HI Hg) as [Hr|(v & Hfin & Hr)].
  - unfold fres in Hr. congruence.
  - unfold fres in Hr. destruct v as [m'|e|]; cbn in Hr; try congruence.
    injection Hr as Hm' _. rewrite Hm in Hm'. injection Hm' as <-.
    destruct (f_orig _ _ _ _ HF _ Hfin) as [H|[(e & E & _)|[[E _]|[E _]]]]; auto; discriminate.
Qed.

(** what the error of a completed future says about where it came from: the timeout error needs the future's own timer
    to have fired (not early), the actor-dead error a kill clean-up of ITS asker that found it registered - unless a
    holder's Close / an error-valued reply addressed to it carried that very error *)
Lemma sys_error_origin progs s k f e : Inv progs s -> getf s k = Some f -> f_err f = Some e ->
  In (OReply k (VErr e)) (all_ops progs) \/ In (OClose k e) (all_ops progs) \/
  (e = E_TIMEOUT /\ exists t t0, f_fired f = Some t /\ f_armed f = Some t0 /\ t0 + f_tmo f <= t) \/
  (e = E_DEAD /\ exists d l, In (d, f_asker f, l) (y_dcopies s) /\ In k l).
Proof.
  intros HI Hg He. pose proof (i_fut _ _ HI _ _ Hg) as HF.
  destruct (sys_result_is_final _ _ _ _ HI Hg) as [Hr|(v & Hfin & Hr)].
  - unfold fres in Hr. congruence.
  - unfold fres in Hr. destruct v as [m'|e'|]; cbn in Hr; try congruence.
    injection Hr as _ He'. rewrite He in He'. injection He' as <-.
    destruct (f_orig _ _ _ _ HF _ Hfin) as [H|[(e1 & E & H)|[[E H]|[E H]]]]; auto.
    + injection E as <-. auto.
    + injection E as ->. right; right; left. split; auto.
      destruct (f_fired f) as [t|] eqn:Ef; [|congruence]. destruct (f_fire _ _ _ _ HF _ Ef) as (t0 & Ha & Hle). eauto 6.
    + injection E as ->. right; right; right. auto.
Qed.

(** ------------------------------------------------------------------ death of the asking actor *)

(** the key copy of a kill clean-up of path a catches every Ask of that asker that has returned and is not yet being
    completed (and that the map iteration visits) *)
Lemma sys_death_copy_step progs s s' i a ord sc k f :
  Inv progs s -> nth_error (y_thr s) i = Some (SDCopy a ord, sc) -> sstep i s = Some s' ->
  getf s k = Some f -> f_asker f = a -> f_sent f = true ->
  f_closed f = true \/ copied s' k.
Proof.
  intros HI Hp H Hg Ha Hs. destruct (f_closed f) eqn:Hc; auto. right.
  destruct (f_reg _ _ _ _ (i_fut _ _ HI _ _ Hg) Hs Hc) as [_ Hin]. rewrite Ha in Hin.
  unfold sstep in H. rewrite Hp in H. injection H as <-.
  exists i, a, (dcopy_keys ord (ag_get a (y_agents s))). split.
  - cbn. apply in_or_app. right. left. reflexivity.
  - apply dcopy_keys_In. auto.
Qed.

Lemma sys_death_completes progs s s' i a ord sc k f sched :
  Inv progs s -> nth_error (y_thr s) i = Some (SDCopy a ord, sc) -> sstep i s = Some s' ->
  getf s k = Some f -> f_asker f = a -> f_sent f = true ->
  sterminal (srun sched s') ->
  exists f', getf (srun sched s') k = Some f' /\ f_done f' = true.
Proof.
  intros HI Hp H Hg Ha Hs Ht.
  pose proof (step_inv _ _ _ _ HI H) as HI'. pose proof (srun_inv _ sched _ HI') as HI''.
  destruct (proj2 (step_frame _ _ _ _ HI H) _ _ Hg) as (f1 & Hg1 & Hle).
  destruct (srun_mono _ sched _ _ _ HI' Hg1) as (f2 & Hg2 & Hm).
  exists f2. split; auto.
  destruct (sys_death_copy_step _ _ _ _ _ _ _ _ _ HI Hp H Hg Ha Hs) as [Hc|Hcp].
  - apply (sys_terminal_closed _ _ _ _ HI'' Ht Hg2). apply (m_closed _ _ Hm). apply (le_closed _ _ _ _ _ _ Hle). exact Hc.
  - eapply sys_completes; eauto. right; right. apply srun_copied. exact Hcp.
Qed.

(** ------------------------------------------------------------------ finished runs are terminal *)

Lemma sfinished_terminal s : sfinished s -> sterminal s.
Proof.
  intros H n i. rewrite stick_iter. unfold sstep. cbn.
  destruct (nth_error (y_thr s) i) as [[p sc]|] eqn:E; auto.
  destruct (H _ _ _ E) as [-> ->]. reflexivity.
Qed.

Definition thr_fin (t : spc * list sop) : bool := match t with (SIdle, []) => true | _ => false end.

Lemma sfinished_dec s : forallb thr_fin (y_thr s) = true -> sfinished s.
Proof.
  intros H i p sc Hi. rewrite forallb_forall in H. specialize (H _ (nth_error_In _ _ Hi)).
  destruct p; try discriminate. destruct sc; try discriminate. auto.
Qed.

(** ------------------------------------------------------------------ a kill chain WITHOUT the second clean-up *)

(** one actor goroutine as the code was before /repo 3f0f6ad: doKill's clean-up of path 5, then an Ask of path 5 without
    timer (issued by the OnKill handler), no clean-up afterwards *)
Definition dying_asker_progs : list (list sop) := [[ODeath 5 [0%nat]; OAsk 5 0]].
Definition dying_asker_state : sst := srun (map SRun (repeat 0%nat 10)) (sinit dying_asker_progs).

Lemma dying_asker_witness :
  sreach dying_asker_progs dying_asker_state /\ sterminal dying_asker_state /\ sfinished dying_asker_state /\
  exists f, getf dying_asker_state 0 = Some f /\ f_asker f = 5 /\ f_owner f = 0%nat /\ f_sent f = true /\
            f_done f = false /\ f_closed f = false /\ f_armed f = None /\
            f_inctx f = true /\ In 0%nat (ag_get 5 (y_agents dying_asker_state)) /\
            y_dcopies dying_asker_state = [(0%nat, 5, [])].
Proof.
  split; [exists (map SRun (repeat 0%nat 10)); unfold dying_asker_state; reflexivity|].
  assert (Hf : sfinished dying_asker_state) by (apply sfinished_dec; vm_compute; reflexivity).
  split; [apply sfinished_terminal; exact Hf|]. split; [exact Hf|].
  vm_compute. eexists. repeat split; auto.
Qed.
