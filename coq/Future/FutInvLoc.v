(** The core invariant: preservation of the per-thread part. *)
From Coq Require Import List NArith Bool Lia Arith Permutation.
From Coq Require Import ZifyN ZifyNat ZifyBool.
From RecordUpdate Require Import RecordSet.
From Vivid Require Import Future.FutModel Future.FutSpec Future.FutBase Future.FutInvDef.
Import ListNotations RecordSetNotations.
Local Open Scope N_scope.

Lemma step_loc i s s' : Inv s -> step i s = Some s' -> AllThr (L s') (thr s').
Proof.
  intros HI H.
  pose proof (i_new _ HI) as Hnew. pose proof (i_open _ HI) as Hopen. pose proof (i_win _ HI) as Hwin.
  pose proof (sent_created _ HI) as Hsc. pose proof (reg_created _ HI) as Hrc.
  step_inv H; pose proof (i_loc _ HI _ _ Hp) as HLi; cbn in HLi; cbn [thr set]; mp.
  all: try (apply AllThr_upd with (P := L s); [exact (i_loc _ HI) | stab | ]).
  all: try solve [cbn in *; destr_pc_match; cbn in *; intuition congruence].
  - (* Await *) destruct p; cbn in *; tauto.
  - (* ANew, timer armed *)
    apply AllThr_snoc.
    + apply AllThr_upd with (P := L s); [exact (i_loc _ HI) | stab | cbn; intuition congruence].
    + cbn. split; congruence.
  - (* RLookup *)
    destruct (opt_eqb (rlookup p (reg s)) 0) eqn:E; cbn; auto.
    apply Hrc. destruct (rlookup p (reg s)) eqn:E2; cbn in E; try discriminate.
    apply N.eqb_eq in E; subst n. apply (i_route _ HI) in E2 as E3. assert (p = 0) by (apply E3; reflexivity). subst p. congruence.
  - destruct (opt_eqb (rlookup 0 (reg s)) 0) eqn:E; cbn; auto.
    apply Hrc. destruct (rlookup 0 (reg s)); cbn in E; congruence.
  - cbn. destruct Hopen as (-> & _). reflexivity.
  - cbn. destruct Hopen as (-> & _). reflexivity.
  - cbn. destruct Hopen as (-> & _). reflexivity.
  - destruct (fwd s); cbn; auto.
  - destruct l0; cbn; auto.
  - destruct fs; cbn; auto. destruct (done_final _ HI Hc) as (v & Hf & Hr & _). exists v. split; auto.
  - destruct l0; cbn; auto.
Qed.
