(** The replay of Future/SysRun.v only ever executes model actions: the state it reaches is [srun] of the action list
    [sacts_of] (thread steps, with [STick]s in front of a timer fire), hence reachable. *)
From Coq Require Import List NArith Bool Lia.
From Coq Require Import ZifyN ZifyNat.
From RecordUpdate Require Import RecordSet.
From Vivid Require Import Base.Tm Future.FutModel Future.SysModel Future.SysRun.
Import ListNotations RecordSetNotations.
Local Open Scope N_scope.

Lemma srun_app a b s : srun (a ++ b) s = srun b (srun a s).
Proof. unfold srun. apply fold_left_app. Qed.

Lemma srun_ticks k s : srun (repeat STick k) s = N.iter (N.of_nat k) stick s.
Proof.
  revert s; induction k as [|k IH]; intros s; [reflexivity|].
  cbn [repeat]. change (srun (STick :: repeat STick k) s) with (srun (repeat STick k) (stick s)). rewrite IH.
  rewrite Nat2N.inj_succ, N.iter_succ_r. reflexivity.
Qed.

Lemma sadvance_run s i : sadvance s i = srun (repeat STick (N.to_nat (sticks_for s i))) s.
Proof. unfold sadvance. rewrite srun_ticks, N2Nat.id. reflexivity. Qed.

Theorem sreplay_is_run sched s : snd (sreplay sched s) = srun (sacts_of sched s) s.
Proof.
  revert s; induction sched as [|i r IH]; intros s; [reflexivity|].
  cbn [sreplay sacts_of]. rewrite srun_app, <- sadvance_run.
  destruct (sstep i (sadvance s i)) as [s'|] eqn:E.
  - specialize (IH s'). destruct (sreplay r s') as [out sf]. cbn [snd] in *. rewrite IH.
    change (srun (SRun i :: sacts_of r s') (sadvance s i)) with (srun (sacts_of r s') (sdo (sadvance s i) (SRun i))).
    cbn [sdo]. rewrite E. reflexivity.
  - reflexivity.
Qed.

Corollary sreplay_reach progs sched : sreach progs (snd (sreplay sched (sinit progs))).
Proof. exists (sacts_of sched (sinit progs)). symmetry. apply sreplay_is_run. Qed.
