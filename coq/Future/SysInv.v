(** The invariant of Future/SysModel.v is inductive: preservation by every step of every thread. *)
From Coq Require Import List NArith Bool Lia Arith.
From Coq Require Import ZifyN ZifyNat ZifyBool.
From RecordUpdate Require Import RecordSet.
From Vivid Require Import Future.FutModel Future.FutSpec Future.FutBase Future.SysModel Future.SysBase Future.SysInvDef.
Import ListNotations RecordSetNotations.
Local Open Scope N_scope.

(** ------------------------------------------------------------------ futures after a step *)

Lemma exf_upd (futs : list fut) k f f' k' (P Q : fut -> Prop) :
  nth_error futs k = Some f ->
  (exists f0, nth_error futs k' = Some f0 /\ P f0) ->
  (k' = k -> P f -> Q f') ->
  (forall f0, k' <> k -> P f0 -> Q f0) ->
  exists f1, nth_error (upd futs k f') k' = Some f1 /\ Q f1.
Proof.
  intros Hk (f0 & H0 & HP) H1 H2. destruct (Nat.eq_dec k' k) as [->|N].
  - rewrite Hk in H0. injection H0 as <-. exists f'. split; auto. eapply nth_error_upd_eq; eauto.
  - exists f0. split; auto. rewrite nth_error_upd_ne; auto.
Qed.

Lemma exf_snoc (futs : list fut) f k' (P Q : fut -> Prop) :
  (exists f0, nth_error futs k' = Some f0 /\ P f0) ->
  (forall f0, P f0 -> Q f0) ->
  exists f1, nth_error (futs ++ [f]) k' = Some f1 /\ Q f1.
Proof. intros (f0 & H0 & HP) H. exists f0. split; auto. apply nth_error_snoc_old; auto. Qed.

Lemma exf_same (futs : list fut) k' (P Q : fut -> Prop) :
  (exists f0, nth_error futs k' = Some f0 /\ P f0) ->
  (forall f0, P f0 -> Q f0) ->
  exists f1, nth_error futs k' = Some f1 /\ Q f1.
Proof. intros (f0 & H0 & HP) H. eauto. Qed.

Lemma winners_closed progs s k f j : Inv progs s -> getf s k = Some f -> f_winners f = [j] -> f_closed f = true.
Proof.
  intros HI Hk Hw. destruct (f_closed f) eqn:E; auto.
  destruct (f_open _ _ _ _ (i_fut _ _ HI _ _ Hk) E) as (? & _). congruence.
Qed.

Lemma sorigin_mono progs s s' k f f' v :
  f_asker f' = f_asker f -> (f_fired f <> None -> f_fired f' <> None) ->
  (forall x, In x (y_dcopies s) -> In x (y_dcopies s')) ->
  sorigin progs s k f v -> sorigin progs s' k f' v.
Proof.
  intros Ha Hf Hd [H|[H|[[-> H]|[-> (d & l & H & Hl)]]]]; unfold sorigin; auto.
  - right; right; left. auto.
  - right; right; right. split; auto. exists d, l. rewrite Ha. auto.
Qed.

Lemma rest_ok_mono s s' i rest :
  (forall x, In x (y_dcopies s) -> In x (y_dcopies s')) -> rest_ok s i rest -> rest_ok s' i rest.
Proof. intros Hd H k Hk. destruct (H k Hk) as (a & l0 & H1 & H2). eauto. Qed.

Lemma rest_ok_nil s i : rest_ok s i [].
Proof. intros k []. Qed.

Lemma rest_ok_tail s i k l : rest_ok s i (k :: l) -> rest_ok s i l.
Proof. intros H x Hx. apply H. right; auto. Qed.

(** ------------------------------------------------------------------ what any step of thread i may change in a future *)

Record fut_le (s s' : sst) (i k : nat) (f f' : fut) : Prop := {
  le_asker : f_asker f' = f_asker f;
  le_tmo : f_tmo f' = f_tmo f;
  le_owner : f_owner f' = f_owner f;
  le_armed : f_armed f' = f_armed f;
  le_stored : f_stored f = true -> f_stored f' = true;
  le_closed : f_closed f = true -> f_closed f' = true;
  le_done : f_done f = true -> f_done f' = true /\ fres f' = fres f;
  le_fired : f_fired f <> None -> f_fired f' <> None;
  le_sent : f_owner f <> i -> f_sent f' = f_sent f;
  le_sent_mono : f_sent f = true -> f_sent f' = true;
  le_inctx : f_inctx f = true -> f_inctx f' = true \/ f_closed f' = true;
  le_ag : In k (ag_get (f_asker f) (y_agents s)) -> In k (ag_get (f_asker f) (y_agents s')) \/ f_closed f' = true;
  le_win : f_winners f <> [] -> f_winners f' = f_winners f /\ f_final f' = f_final f
}.

Lemma fut_le_ag s s' i k f :
  (In k (ag_get (f_asker f) (y_agents s)) -> In k (ag_get (f_asker f) (y_agents s')) \/ f_closed f = true) ->
  fut_le s s' i k f f.
Proof. intros H. split; auto. Qed.

(** the stepping thread's local knowledge *)
Ltac use_L HI Hp :=
  let HL := fresh "HL" in
  pose proof (proj1 (i_loc _ _ HI _ _ _ Hp)) as HL; cbn [L] in HL; unfold exf in HL.

Ltac same_fut Hf :=
  repeat match goal with
  | H : exists f, getf _ _ = Some f /\ _ |- _ => let f0 := fresh "f0" in let Hg := fresh "Hg" in destruct H as (f0 & Hg & H)
  | H : (exists f, getf _ _ = Some f /\ _) /\ _ |- _ => let Hr := fresh "Hr" in destruct H as [H Hr]
  end;
  repeat match goal with
  | Hg : getf ?s ?k = Some ?f0, Hf' : getf ?s ?k = Some ?f |- _ =>
      first [constr_eq f0 f; fail 1 | rewrite Hf' in Hg; injection Hg as <-]
  end.

Lemma open_facts progs s k f : Inv progs s -> getf s k = Some f -> f_closed f = false ->
  f_winners f = [] /\ f_done f = false.
Proof. intros HI Hk Hc. destruct (f_open _ _ _ _ (i_fut _ _ HI _ _ Hk) Hc) as (? & _ & _ & ? & _). auto. Qed.

Lemma assign_not_done progs s i k v rest sc f : Inv progs s ->
  nth_error (y_thr s) i = Some (SAssign k v rest, sc) -> getf s k = Some f -> f_done f = false.
Proof.
  intros HI Hp Hk. pose proof (proj1 (i_loc _ _ HI _ _ _ Hp)) as HL. cbn in HL. destruct HL as [(f0 & Hg & Hw & Hfin) _].
  rewrite Hk in Hg. injection Hg as <-.
  pose proof (winners_closed _ _ _ _ _ HI Hk Hw) as Hc.
  destruct (f_win _ _ _ _ (i_fut _ _ HI _ _ Hk) Hc) as (w & v0 & Hw' & _ & (p & sc0 & Hpw & Hst)).
  rewrite Hw in Hw'. injection Hw' as <-. rewrite Hp in Hpw. injection Hpw as <- <-.
  cbn in Hst. rewrite Nat.eqb_refl in Hst. cbn in Hst. tauto.
Qed.

Lemma step_frame progs s s' i : Inv progs s -> sstep i s = Some s' ->
  (forall x, In x (y_dcopies s) -> In x (y_dcopies s')) /\
  forall k f, getf s k = Some f -> exists f', getf s' k = Some f' /\ fut_le s s' i k f f'.
Proof.
  intros HI H.
  sstep_inv H; use_L HI Hp;
    try (pose proof (assign_not_done _ _ _ _ _ _ _ _ HI Hp Hf) as Hnd);
    same_fut Hf; (split; [cbn; intros x Hx; try apply in_or_app; auto|]); intros k0 g Hg0;
    unfold getf in *; cbn [y_futs y_agents set] in *.
  all: try solve [exists g; split; [auto|apply fut_le_ag; cbn; auto]].
  all: try solve [exists g; split; [apply nth_error_snoc_old; auto|apply fut_le_ag; cbn; auto]].
  all: try (match goal with
       | Hf : nth_error (y_futs ?s0) ?k = Some ?f |- exists f', nth_error (upd (y_futs ?s0) ?k ?fn) ?k1 = Some f' /\ _ =>
           destruct (Nat.eq_dec k1 k) as [->|Nk];
           [rewrite Hf in Hg0; injection Hg0 as <-; exists fn; split; [eapply nth_error_upd_eq; eauto|]
           |exists g; split; [rewrite nth_error_upd_ne; auto|]]
       end).
  all: try solve [apply fut_le_ag; cbn; auto].
  all: try solve [apply fut_le_ag; cbn; intros Hin; left; apply ag_get_del; split; auto; intros [_ ?]; congruence].
  all: try solve [exists g; split; auto; apply fut_le_ag; cbn; intros Hin; left; apply ag_get_add; auto].
  all: try solve [split; cbn; auto; try tauto; try congruence; intuition congruence].
  - (* SCas wins *)
    destruct (open_facts _ _ _ _ HI Hg Hc) as [Hw Hd]. split; cbn; auto; try congruence; intuition congruence.
  - (* SCRemCtx *)
    pose proof (winners_closed _ _ _ _ _ HI Hg HL) as Hcl. split; cbn; auto.
  - (* SCRemAg *)
    pose proof (winners_closed _ _ _ _ _ HI Hg HL) as Hcl. split; cbn; auto.
Qed.

(** ------------------------------------------------------------------ threads after a step *)

Lemma step_thr_other s s' i j x :
  sstep i s = Some s' -> j <> i -> nth_error (y_thr s) j = Some x -> nth_error (y_thr s') j = Some x.
Proof.
  intros H Nj Hj. sstep_inv H; cbn; try (rewrite nth_error_upd_ne by auto; exact Hj).
  apply nth_error_snoc_old. rewrite nth_error_upd_ne by auto; exact Hj.
Qed.

Lemma step_thr_inv s s' i j x :
  sstep i s = Some s' -> nth_error (y_thr s') j = Some x ->
  j = i \/ nth_error (y_thr s) j = Some x \/
  (j = length (y_thr s) /\ x = (STStart (length (y_futs s)), []) /\
   exists a t sc, nth_error (y_thr s) i = Some (SNew a t, sc) /\ (0 <? t) = true).
Proof.
  intros H Hj. destruct (Nat.eq_dec j i) as [->|Nj]; auto. right.
  sstep_inv H; cbn in Hj; try (rewrite nth_error_upd_ne in Hj by auto; auto).
  apply nth_error_snoc_inv in Hj as [Hj|[-> ->]].
  - rewrite nth_error_upd_ne in Hj by auto; auto.
  - right. rewrite upd_length. split; auto. split; auto. eauto.
Qed.

Lemma L_stable progs s s' i j p sc :
  Inv progs s -> sstep i s = Some s' -> j <> i -> nth_error (y_thr s) j = Some (p, sc) -> L progs s' j p.
Proof.
  intros HI H Nj Hj.
  pose proof (proj1 (i_loc _ _ HI _ _ _ Hj)) as HL.
  destruct (step_frame _ _ _ _ HI H) as [Hdc Hfr].
  assert (Hro : forall rest, rest_ok s j rest -> rest_ok s' j rest) by (intros; eapply rest_ok_mono; eauto).
  destruct p; cbn [L] in *; unfold exf in *; auto.
  all: repeat match goal with
       | H : (exists f, _) /\ _ |- _ => destruct H as [H Hrx]
       | H : _ /\ (exists f, _) |- _ => destruct H as [Hrx H]
       end.
  all: match goal with
       | H : exists f, getf _ ?k = Some f /\ _ |- _ =>
           destruct H as (fx & Hgx & HL);
           destruct (Hfr _ _ Hgx) as (fx' & Hgx' & Hle); destruct Hle
       end.
  all: try solve [repeat split; auto; exists fx'; repeat split; auto; try congruence;
                  try (rewrite le_sent0 by congruence; tauto); intuition congruence].
  - (* SAgents *)
    exists fx'. destruct HL as (Ho & Hs & Hst & Hin). repeat split; auto; try congruence.
    + rewrite le_sent0 by congruence. auto.
    + intros Hc'. destruct (f_closed fx) eqn:Ec; [rewrite le_closed0 in Hc' by auto; discriminate|].
      destruct (le_inctx0 (Hin eq_refl)); congruence.
  - (* SCheck *)
    exists fx'. destruct HL as (Ho & Hs & Hst & Hin). repeat split; auto; try congruence.
    + rewrite le_sent0 by congruence. auto.
    + destruct (f_closed fx) eqn:Ec; [rewrite le_closed0 in H0 by auto; discriminate|].
      destruct (Hin eq_refl) as [Hi _]. destruct (le_inctx0 Hi); congruence.
    + destruct (f_closed fx) eqn:Ec; [rewrite le_closed0 in H0 by auto; discriminate|].
      destruct (Hin eq_refl) as [_ Ha]. rewrite le_asker0. destruct (le_ag0 Ha); congruence.
  - (* SCas *)
    split; auto. exists fx'. split; auto. eapply sorigin_mono; eauto.
Qed.

Lemma exf_here (futs : list fut) k f f' (P : fut -> Prop) :
  nth_error futs k = Some f -> P f' -> exists f1, nth_error (upd futs k f') k = Some f1 /\ P f1.
Proof. intros H HP. exists f'. split; auto. eapply nth_error_upd_eq; eauto. Qed.

Lemma fin_L progs s i rest : rest_ok s i rest -> L progs s i (fin rest).
Proof. destruct rest; cbn; auto. Qed.

Lemma first_pc_L progs s i o : In o (all_ops progs) -> L progs s i (first_pc o).
Proof. destruct o; cbn; auto. Qed.

Ltac here Hg := unfold exf, getf; cbn [y_futs y_agents y_dcopies set]; eapply exf_here; [exact Hg|]; cbn.

Lemma L_self progs s s' i p' sc' :
  Inv progs s -> sstep i s = Some s' -> nth_error (y_thr s') i = Some (p', sc') ->
  L progs s' i p' /\ incl sc' (all_ops progs).
Proof.
  intros HI H Hi'.
  assert (Hsame : forall s2 r, rest_ok s i r -> y_dcopies s2 = y_dcopies s -> rest_ok s2 i r).
  { intros s2 r Hr E k Hk. rewrite E. auto. }
  sstep_inv H; use_L HI Hp; pose proof (proj2 (i_loc _ _ HI _ _ _ Hp)) as Hsc; same_fut Hf;
    cbn [y_thr set] in Hi';
    try (rewrite (nth_error_upd_eq _ _ _ _ Hp) in Hi'; injection Hi' as <- <-);
    try (rewrite (nth_error_snoc_old _ _ _ _ (nth_error_upd_eq _ _ _ _ Hp)) in Hi'; injection Hi' as <- <-).
  all: try solve [split; [cbn; auto|auto]].
  all: try solve [split; [apply fin_L; apply Hsame; auto|auto]].
  - (* SIdle *)
    split; [apply first_pc_L; apply Hsc; left; auto|intros o Ho; apply Hsc; right; auto].
  - (* SAwait *)
    split; auto. destruct p; cbn in HL; try tauto; cbn [L]; auto.
    + destruct HL as [-> Hin]. split; auto. exists f. auto.
    + destruct v; try tauto. destruct rest; try tauto. destruct HL as [-> Hin]. split; [|apply rest_ok_nil].
      exists f. split; auto. right; left. eauto.
    + subst. exists f. auto.
  - (* SNew, timer *)
    split; auto. cbn [L]. unfold exf, getf. cbn. exists (new_fut a t i (y_now s)). split; [apply nth_error_snoc_len|auto].
  - split; auto. cbn [L]. unfold exf, getf. cbn. exists (new_fut a t i (y_now s)). split; [apply nth_error_snoc_len|auto].
  - (* SStore *)
    split; auto. cbn [L]. here Hg. tauto.
  - (* SAgents *)
    split; auto. cbn [L]. unfold exf, getf. cbn. exists f0. split; auto. destruct HL as (? & ? & ? & Hin). repeat split; auto.
    apply ag_get_add. auto.
  - (* SCheck closed *)
    split; auto. cbn [L]. exists f0. unfold getf in *. cbn. tauto.
  - (* SRemCtx *)
    split; auto. cbn [L]. here Hg. tauto.
  - (* STStart *)
    split; auto. cbn [L]. exists f0. auto.
  - (* STFire *)
    split; auto. cbn [L]. split; [|apply rest_ok_nil]. here Hg. right; right; left. split; auto. discriminate.
  - (* SRLoad *)
    split; auto. destruct (f_inctx f); cbn [L]; auto. destruct HL as [Hin _]. split; [|apply rest_ok_nil].
    exists f. split; [exact Hf|]. left. exact Hin.
  - (* SDCopy *)
    split; auto. apply fin_L. intros k Hk. exists a, (dcopy_keys ord (ag_get a (y_agents s))).
    split; auto. cbn. apply in_or_app. right. left. reflexivity.
  - (* SDLoad *)
    split; auto. destruct (f_inctx f).
    + cbn [L]. split; [|apply (Hsame _ l0); [eapply rest_ok_tail; eauto|reflexivity]].
      exists f. split; [exact Hf|]. right; right; right. split; auto.
      destruct (HL n (or_introl eq_refl)) as (a & l1 & Hin & Hn).
      destruct (i_cp _ _ HI _ _ _ _ Hin Hn) as (f1 & Hg1 & Ha & _). rewrite Hf in Hg1. injection Hg1 as <-.
      exists i, l1. rewrite Ha. auto.
    + apply fin_L. apply (Hsame _ l0); [eapply rest_ok_tail; eauto|reflexivity].
  - (* SCas wins *)
    split; auto. destruct (open_facts _ _ _ _ HI Hg Hc) as [Hw _].
    destruct v; cbn [L]; (split; [here Hg; rewrite Hw; auto|apply Hsame; auto]).
  - (* SAssign *)
    split; auto. cbn [L]. split; [here Hg; auto|apply Hsame; auto].
  - (* SDone *)
    split; auto. cbn [L]. split; [here Hg; tauto|apply Hsame; auto].
  - (* SCRemCtx *)
    split; auto. cbn [L]. split; [here Hg; auto|apply Hsame; auto].
  - (* SCRemAg *)
    split; auto. cbn [L]. split; [here Hg; auto|apply Hsame; auto].
Qed.

Lemma step_loc progs s s' i : Inv progs s -> sstep i s = Some s' ->
  forall j p sc, nth_error (y_thr s') j = Some (p, sc) -> L progs s' j p /\ incl sc (all_ops progs).
Proof.
  intros HI H j p sc Hj.
  destruct (step_thr_inv _ _ _ _ _ H Hj) as [->|[Hold|(-> & E & a & t & sc0 & Hp & Ht)]].
  - eapply L_self; eauto.
  - destruct (Nat.eq_dec j i) as [->|Nj]; [eapply L_self; eauto|].
    split; [eapply L_stable; eauto|apply (i_loc _ _ HI _ _ _ Hold)].
  - injection E as -> ->. split; [|intros ? []].
    unfold sstep in H. rewrite Hp, Ht in H. injection H as <-. cbn [L]. unfold exf, getf. cbn.
    exists (new_fut a t i (y_now s)). split; [apply nth_error_snoc_len|]. cbn. rewrite Ht. discriminate.
Qed.

Lemma step_ag progs s s' i : Inv progs s -> sstep i s = Some s' ->
  ag_wf (y_agents s') /\
  forall a k, In k (ag_get a (y_agents s')) -> exf s' k (fun f => f_asker f = a /\ f_stored f = true).
Proof.
  intros HI H. destruct (i_ag _ _ HI) as [Hwf Hag].
  destruct (step_frame _ _ _ _ HI H) as [_ Hfr].
  assert (Hold : forall a k, In k (ag_get a (y_agents s)) -> exf s' k (fun f => f_asker f = a /\ f_stored f = true)).
  { intros a k Hin. destruct (Hag _ _ Hin) as (f & Hg & Ha & Hs). destruct (Hfr _ _ Hg) as (f' & Hg' & []).
    exists f'. split; auto. split; [congruence|auto]. }
  sstep_inv H; use_L HI Hp; same_fut Hf; cbn [y_agents set]; try (split; [exact Hwf|exact Hold]).
  - (* SAgents *)
    split; [apply ag_wf_add; auto|]. intros a0 k0 Hin. apply ag_get_add in Hin as [[-> ->]|Hin]; [|apply Hold; auto].
    destruct (Hfr _ _ Hg) as (f' & Hg' & []). exists f'. split; auto. split; [congruence|tauto].
  - (* SRemAg *)
    split; [apply ag_wf_del; auto|]. intros a0 k0 Hin. apply ag_get_del in Hin as [Hin _]. apply Hold; auto.
  - (* SCRemAg *)
    split; [apply ag_wf_del; auto|]. intros a0 k0 Hin. apply ag_get_del in Hin as [Hin _]. apply Hold; auto.
Qed.

Lemma step_rets progs s s' i : Inv progs s -> sstep i s = Some s' ->
  forall j k full r, In (j, k, full, r) (y_rets s') ->
  exf s' k (fun f => f_done f = true /\ r = (if full then f_msg f else None, f_err f)).
Proof.
  intros HI H. destruct (step_frame _ _ _ _ HI H) as [_ Hfr].
  assert (Hold : forall j k full r, In (j, k, full, r) (y_rets s) ->
                 exf s' k (fun f => f_done f = true /\ r = (if full then f_msg f else None, f_err f))).
  { intros j k full r Hin. destruct (i_rets _ _ HI _ _ _ _ Hin) as (f & Hg & Hd & Hr).
    destruct (Hfr _ _ Hg) as (f' & Hg' & []). destruct (le_done0 Hd) as [Hd' Hres]. exists f'. split; auto. split; auto.
    unfold fres in Hres. injection Hres as Hm He. rewrite Hm, He. exact Hr. }
  sstep_inv H; cbn [y_rets set]; try exact Hold.
  intros j k0 full0 r Hin. apply in_app_or in Hin as [Hin|[E|[]]]; [eapply Hold; eauto|].
  injection E as <- <- <- <-. exists f. split; [exact Hf|]. auto.
Qed.

Lemma fin_pending k rest : In k rest -> pending k (fin rest).
Proof. destruct rest; cbn; auto. Qed.

Lemma step_dcopies s s' i x : sstep i s = Some s' -> In x (y_dcopies s') ->
  In x (y_dcopies s) \/
  exists a ord sc, nth_error (y_thr s) i = Some (SDCopy a ord, sc) /\
                   x = (i, a, dcopy_keys ord (ag_get a (y_agents s))).
Proof.
  intros H Hx. sstep_inv H; cbn [y_dcopies set] in Hx; auto.
  apply in_app_or in Hx as [Hx|[<-|[]]]; auto. right. eauto.
Qed.

Lemma thr_at_other s s' i j P : sstep i s = Some s' -> j <> i -> thr_at s j P -> thr_at s' j P.
Proof. intros H Nj (p & sc & Hj & HP). exists p, sc. split; auto. eapply step_thr_other; eauto. Qed.

(** the stepping thread keeps every pending key, except the one it is just dealing with *)
Lemma pending_self progs s s' i k p sc :
  Inv progs s -> sstep i s = Some s' -> nth_error (y_thr s) i = Some (p, sc) -> pending k p ->
  thr_at s' i (pending k) \/
  (exists f, getf s k = Some f /\ (f_inctx f = false \/ exists v rest, p = SCas k v rest)).
Proof.
  intros HI H Hp Hpen.
  unfold sstep in H. rewrite Hp in H.
  assert (Hnew : forall q s1, thr_at (s1 <| y_thr := upd (y_thr s) i (q, sc) |>) i (fun p0 => p0 = q)).
  { intros q s1. exists q, sc. split; auto. cbn. eapply nth_error_upd_eq; eauto. }
  destruct p; cbn in Hpen; try tauto; sdestr_cond H; try discriminate H; injection H as <-.
  all: try solve [left; exists (fin rest), sc; split; [cbn; eapply nth_error_upd_eq; eauto|apply fin_pending; auto]].
  all: try solve [left; eexists _, sc; split; [cbn; eapply nth_error_upd_eq; eauto|cbn; auto]].
  - (* SDLoad *)
    destruct (f_inctx f) eqn:Ei.
    + left. exists (SCas n (VErr E_DEAD) l0), sc. split; [cbn; eapply nth_error_upd_eq; eauto|].
      cbn. destruct Hpen as [->|Hin]; auto.
    + destruct Hpen as [->|Hin].
      * right. exists f. split; auto.
      * left. exists (fin l0), sc. split; [cbn; eapply nth_error_upd_eq; eauto|apply fin_pending; auto].
  - (* SCas closed *)
    destruct Hpen as [[-> ->]|Hin].
    + right. exists f. split; eauto.
    + left. exists (fin rest), sc. split; [cbn; eapply nth_error_upd_eq; eauto|apply fin_pending; auto].
  - (* SCas wins *)
    destruct Hpen as [[-> ->]|Hin].
    + right. exists f. split; eauto.
    + left. eexists _, sc. split; [cbn; eapply nth_error_upd_eq; eauto|]. destruct v; cbn; auto.
Qed.

Lemma cas_closes s s' i k v rest sc :
  nth_error (y_thr s) i = Some (SCas k v rest, sc) -> sstep i s = Some s' ->
  exists f', getf s' k = Some f' /\ f_closed f' = true.
Proof.
  intros Hp H. unfold sstep in H. rewrite Hp in H. destruct (getf s k) as [f|] eqn:Hf; [|discriminate].
  unfold getf in *. destruct (f_closed f) eqn:Hc; injection H as <-; cbn; eexists; (split; [eapply nth_error_upd_eq; eauto|]); cbn; auto.
Qed.

Lemma step_cp progs s s' i : Inv progs s -> sstep i s = Some s' ->
  forall d a l k, In (d, a, l) (y_dcopies s') -> In k l ->
  exf s' k (fun f => f_asker f = a /\ f_stored f = true /\ (f_closed f = true \/ thr_at s' d (pending k))).
Proof.
  intros HI H d a l k Hin Hk.
  destruct (step_frame _ _ _ _ HI H) as [_ Hfr].
  destruct (step_dcopies _ _ _ _ H Hin) as [Hold|(a0 & ord & sc & Hp & E)].
  - destruct (i_cp _ _ HI _ _ _ _ Hold Hk) as (f & Hg & Ha & Hst & Hcl).
    destruct (Hfr _ _ Hg) as (f' & Hg' & Hle). destruct Hle.
    exists f'. split; auto. split; [congruence|]. split; auto.
    destruct Hcl as [Hc|Hpen]; auto.
    destruct (Nat.eq_dec d i) as [->|Nd]; [|right; eapply thr_at_other; eauto].
    destruct Hpen as (p & sc & Hp & Hpen).
    destruct (pending_self _ _ _ _ _ _ _ HI H Hp Hpen) as [?|(f1 & Hg1 & [Hi|(v & rest & ->)])]; auto.
    + rewrite Hg in Hg1. injection Hg1 as <-. left. apply le_closed0. apply (f_sto _ _ _ _ (i_fut _ _ HI _ _ Hg)); auto.
    + destruct (cas_closes _ _ _ _ _ _ _ Hp H) as (f2 & Hg2 & Hc2). rewrite Hg' in Hg2. injection Hg2 as <-. auto.
  - injection E as -> -> ->. pose proof Hk as Hk0. apply dcopy_keys_In in Hk. pose proof Hk as Hm.
    destruct (proj2 (i_ag _ _ HI) _ _ Hm) as (f & Hg & Ha & Hst).
    destruct (Hfr _ _ Hg) as (f' & Hg' & Hle). destruct Hle.
    exists f'. split; auto. split; [congruence|]. split; auto. right.
    unfold sstep in H. rewrite Hp in H. injection H as <-.
    eexists _, sc. split; [cbn; eapply nth_error_upd_eq; eauto|]. apply fin_pending. exact Hk0.
Qed.

(** ------------------------------------------------------------------ per-future invariants *)

(** split [getf s' k0 = Some f'] into: the future the step wrote / an untouched one / the one just created *)
Ltac fut_cases Hg' :=
  unfold getf in Hg'; cbn [y_futs set] in Hg';
  match type of Hg' with
  | nth_error (upd _ _ _) _ = Some _ =>
      apply nth_error_upd_inv in Hg' as [[-> ->]|[Nk Hg']]
  | nth_error (_ ++ [_]) _ = Some _ =>
      apply nth_error_snoc_inv in Hg' as [Hg'|[-> ->]]
  | _ => idtac
  end.

Ltac old_inv HI Hg' :=
  let HF := fresh "HF" in pose proof (i_fut _ _ HI _ _ Hg') as HF.

Lemma step_open progs s s' i : Inv progs s -> sstep i s = Some s' ->
  forall k f', getf s' k = Some f' -> f_closed f' = false ->
  f_winners f' = [] /\ f_final f' = None /\ fres f' = (None, None) /\ f_done f' = false /\ f_wlog f' = [] /\
  f_attempts f' = [] /\ f_tstopped f' = false /\ f_crem f' = false /\ f_arem f' = false.
Proof.
  intros HI H k0 f' Hg'.
  sstep_inv H; use_L HI Hp; same_fut Hf; fut_cases Hg'.
  all: try solve [apply (f_open _ _ _ _ (i_fut _ _ HI _ _ Hg'))].
  all: try solve [cbn; auto].
  all: try solve [cbn; intros Hc'; apply (f_open _ _ _ _ (i_fut _ _ HI _ _ Hg)); auto].
  all: try solve [cbn; intros Hc';
                  match goal with Hw : f_winners _ = [_] |- _ => rewrite (winners_closed _ _ _ _ _ HI Hg Hw) in Hc'; discriminate
                  | Hw : f_winners _ = [_] /\ _ |- _ => rewrite (winners_closed _ _ _ _ _ HI Hg (proj1 Hw)) in Hc'; discriminate end].
  all: try solve [cbn; intros Hc'; congruence].
  all: intros _; unfold new_fut, fres; cbn; repeat split; auto.
Qed.

Lemma step_sto progs s s' i : Inv progs s -> sstep i s = Some s' ->
  forall k f', getf s' k = Some f' -> f_inctx f' = false -> f_stored f' = true -> f_closed f' = true.
Proof.
  intros HI H k0 f' Hg'.
  sstep_inv H; use_L HI Hp; same_fut Hf; fut_cases Hg'.
  all: try solve [apply (f_sto _ _ _ _ (i_fut _ _ HI _ _ Hg'))].
  all: try solve [cbn; auto; try congruence; try tauto].
  all: try solve [cbn; apply (f_sto _ _ _ _ (i_fut _ _ HI _ _ Hg))].
  all: try solve [cbn; intros _ _;
                  match goal with Hw : f_winners _ = [_] |- _ => apply (winners_closed _ _ _ _ _ HI Hg Hw)
                  | Hw : f_winners _ = [_] /\ _ |- _ => apply (winners_closed _ _ _ _ _ HI Hg (proj1 Hw)) end].
Qed.

Lemma step_fire progs s s' i : Inv progs s -> sstep i s = Some s' ->
  forall k f', getf s' k = Some f' -> forall t, f_fired f' = Some t -> exists t0, f_armed f' = Some t0 /\ t0 + f_tmo f' <= t.
Proof.
  intros HI H k0 f' Hg'.
  sstep_inv H; use_L HI Hp; same_fut Hf; fut_cases Hg'.
  all: try solve [apply (f_fire _ _ _ _ (i_fut _ _ HI _ _ Hg'))].
  all: try solve [cbn; apply (f_fire _ _ _ _ (i_fut _ _ HI _ _ Hg))].
  all: try solve [cbn; intros ? ?; discriminate].
  - cbn. intros t0 E. injection E as <-. exists n. split; auto. apply N.leb_le. auto.
Qed.

Lemma step_orig progs s s' i : Inv progs s -> sstep i s = Some s' ->
  forall k f', getf s' k = Some f' -> forall v, f_final f' = Some v -> sorigin progs s' k f' v.
Proof.
  intros HI H k0 f' Hg'.
  destruct (step_frame _ _ _ _ HI H) as [Hdc _].
  assert (Hm : forall k f v, getf s k = Some f -> f_final f = Some v -> forall f2, f_asker f2 = f_asker f ->
               (f_fired f <> None -> f_fired f2 <> None) -> sorigin progs s' k f2 v).
  { intros k f v Hg Hfin f2 Ha Hfi. eapply sorigin_mono; eauto. apply (f_orig _ _ _ _ (i_fut _ _ HI _ _ Hg)); auto. }
  sstep_inv H; use_L HI Hp; same_fut Hf; fut_cases Hg'.
  all: try solve [intros v0 Hv0; eapply Hm; eauto].
  all: try solve [cbn; intros v0 Hv0; eapply Hm; eauto; cbn; congruence].
  all: try solve [cbn; intros ? ?; discriminate].
  - (* SCas wins *)
    cbn. intros v0 E. injection E as <-. eapply sorigin_mono; eauto.
Qed.

Lemma step_reg progs s s' i : Inv progs s -> sstep i s = Some s' ->
  forall k f', getf s' k = Some f' -> f_sent f' = true -> f_closed f' = false ->
  f_inctx f' = true /\ In k (ag_get (f_asker f') (y_agents s')).
Proof.
  intros HI H k0 f' Hg' Hs' Hc'.
  destruct (step_frame _ _ _ _ HI H) as [_ Hfr].
  assert (Hold : forall f, getf s k0 = Some f -> f_sent f = true -> f_inctx f' = true /\ In k0 (ag_get (f_asker f') (y_agents s'))).
  { intros f Hg Hs. destruct (Hfr _ _ Hg) as (f2 & Hg2 & Hle). rewrite Hg' in Hg2. injection Hg2 as <-. destruct Hle.
    assert (Hc : f_closed f = false) by (destruct (f_closed f) eqn:E; auto; rewrite le_closed0 in Hc'; auto).
    destruct (f_reg _ _ _ _ (i_fut _ _ HI _ _ Hg) Hs Hc) as [Hi Ha].
    split; [destruct (le_inctx0 Hi); congruence|rewrite le_asker0; destruct (le_ag0 Ha); congruence]. }
  sstep_inv H; use_L HI Hp; same_fut Hf; fut_cases Hg'.
  all: try solve [eapply Hold; eauto].
  all: try solve [cbn in *; congruence].
  all: try solve [cbn in *; eapply (Hold _ Hg); eauto].
  - (* SCheck, open *) cbn in *. tauto.
  - (* SRemAg *) cbn in *. destruct HL as (_ & _ & ?). congruence.
Qed.

(** [thr_at s' i P] for the stepping thread: its new pc is explicit after step inversion *)
Ltac self_at Hp :=
  eexists _, _; split;
  [cbn [y_thr set]; first [eapply nth_error_upd_eq; exact Hp | apply nth_error_snoc_old; eapply nth_error_upd_eq; exact Hp]
  |cbn; rewrite ?Nat.eqb_refl; auto].

(** transport [thr_at s j P] of another thread, or refute it when j is the stepping thread whose pc is about another future *)
Ltac carry H0 Hp Hat i :=
  let p0 := fresh "p0" in let sc0 := fresh "sc0" in let Hj := fresh "Hj" in let HP := fresh "HP" in
  let Ej := fresh "Ej" in let Nj := fresh "Nj" in
  destruct Hat as (p0 & sc0 & Hj & HP);
  match type of Hj with
  | nth_error _ ?j = _ =>
      destruct (Nat.eq_dec j i) as [Ej|Nj];
      [ (* j is the stepping thread *)
        rewrite Ej in Hj; rewrite Hp in Hj; injection Hj as <- <-; cbn in HP; try rewrite Ej in HP;
        try discriminate HP;
        try (apply Nat.eqb_eq in HP; subst; try congruence)
      | exists p0, sc0; split; [eapply step_thr_other; eauto|exact HP] ]
  end.

Lemma step_snt progs s s' i : Inv progs s -> sstep i s = Some s' ->
  forall k f', getf s' k = Some f' -> f_sent f' = false -> thr_at s' (f_owner f') (fun p => ask_of k p = true).
Proof.
  intros HI H k0 f' Hg'. pose proof H as H0.
  sstep_inv H; use_L HI Hp; same_fut Hf; fut_cases Hg'.
  all: try solve [intros Hs'; pose proof (f_snt _ _ _ _ (i_fut _ _ HI _ _ Hg') Hs') as Hat;
                  carry H0 Hp Hat i].
  all: try solve [cbn; intros Hs'; pose proof (f_snt _ _ _ _ (i_fut _ _ HI _ _ Hg) Hs') as Hat;
                  carry H0 Hp Hat i; rewrite ?Ej; self_at Hp].
  all: try solve [cbn; intros; discriminate].
  all: try solve [intros Hs'; pose proof (f_snt _ _ _ _ (i_fut _ _ HI _ _ Hg') Hs') as Hat;
                  carry H0 Hp Hat i; rewrite ?Ej; self_at Hp].
  all: cbn [f_owner new_fut]; self_at Hp.
Qed.

Lemma step_ctx progs s s' i : Inv progs s -> sstep i s = Some s' ->
  forall k f', getf s' k = Some f' -> f_inctx f' = true ->
  f_crem f' = false \/ thr_at s' (f_owner f') (fun p => own_ctx k p = true).
Proof.
  intros HI H k0 f' Hg'. pose proof H as H0.
  sstep_inv H; use_L HI Hp; same_fut Hf; fut_cases Hg'.
  (* untouched futures *)
  all: try solve [intros Hi'; destruct (f_ctx _ _ _ _ (i_fut _ _ HI _ _ Hg') Hi') as [Hcr|Hat]; [left; exact Hcr|right];
                  carry H0 Hp Hat i; rewrite ?Ej; self_at Hp].
  (* the future the step wrote *)
  all: try solve [cbn; intros; discriminate].
  all: try solve [cbn; intros Hi'; destruct (f_ctx _ _ _ _ (i_fut _ _ HI _ _ Hg) Hi') as [Hcr|Hat]; [left; exact Hcr|right];
                  carry H0 Hp Hat i; rewrite ?Ej; self_at Hp].
  - (* SStore *) intros _. right. cbn. destruct HL as [<- _]. self_at Hp.
  - (* SCheck, open *) intros _. left. cbn. apply (f_open _ _ _ _ (i_fut _ _ HI _ _ Hg)). auto.
Qed.

Lemma step_fag progs s s' i : Inv progs s -> sstep i s = Some s' ->
  forall k f', getf s' k = Some f' -> In k (ag_get (f_asker f') (y_agents s')) ->
  f_arem f' = false \/ thr_at s' (f_owner f') (fun p => own_ag k p = true).
Proof.
  intros HI H k0 f' Hg'. pose proof H as H0.
  sstep_inv H; use_L HI Hp; same_fut Hf; fut_cases Hg'; cbn [y_agents set].
  (* untouched futures *)
  all: try solve [intros Hi'; destruct (f_ag _ _ _ _ (i_fut _ _ HI _ _ Hg') Hi') as [Hcr|Hat]; [left; exact Hcr|right];
                  carry H0 Hp Hat i; rewrite ?Ej; self_at Hp].
  all: try solve [intros Hi'; apply ag_get_del in Hi' as [Hi' _];
                  destruct (f_ag _ _ _ _ (i_fut _ _ HI _ _ Hg') Hi') as [Hcr|Hat]; [left; exact Hcr|right];
                  carry H0 Hp Hat i; rewrite ?Ej; self_at Hp].
  (* the future the step wrote *)
  all: try solve [cbn; intros Hi'; destruct (f_ag _ _ _ _ (i_fut _ _ HI _ _ Hg) Hi') as [Hcr|Hat]; [left; exact Hcr|right];
                  carry H0 Hp Hat i; rewrite ?Ej; self_at Hp].
  all: try solve [cbn; intros Hi'; apply ag_get_del in Hi' as [_ Hi']; exfalso; apply Hi'; auto].
  - intros _. left. reflexivity.
  - intros _. left. reflexivity.
  - (* SAgents *)
    intros Hi'. apply ag_get_add in Hi' as [[Ha ->]|Hi'].
    + right. unfold getf in Hg. rewrite Hg in Hg'. injection Hg' as <-. destruct HL as [<- _]. self_at Hp.
    + destruct (f_ag _ _ _ _ (i_fut _ _ HI _ _ Hg') Hi') as [Hcr|Hat]; [left; exact Hcr|right].
      carry H0 Hp Hat i; rewrite ?Ej; self_at Hp.
  - (* SCheck, open *) intros _. left. cbn. apply (f_open _ _ _ _ (i_fut _ _ HI _ _ Hg)). auto.
Qed.

Lemma step_timer progs s s' i : Inv progs s -> sstep i s = Some s' ->
  forall k f', getf s' k = Some f' -> f_armed f' <> None ->
  f_closed f' = true \/ exists j, thr_at s' j (fun p => timer_of k p = true).
Proof.
  intros HI H k0 f' Hg'. pose proof H as H0.
  sstep_inv H; use_L HI Hp; same_fut Hf; fut_cases Hg'.
  (* untouched futures *)
  all: try solve [intros Ha'; destruct (f_timer _ _ _ _ (i_fut _ _ HI _ _ Hg') Ha') as [Hcl|[j Hat]]; [left; exact Hcl|right; exists j];
                  carry H0 Hp Hat i; rewrite ?Ej; self_at Hp].
  (* the future the step wrote *)
  all: try solve [cbn; intros Ha'; destruct (f_timer _ _ _ _ (i_fut _ _ HI _ _ Hg) Ha') as [Hcl|[j Hat]]; [left; exact Hcl|right; exists j];
                  carry H0 Hp Hat i; rewrite ?Ej; self_at Hp].
  all: try solve [cbn; auto].
  - (* SNew with timer *)
    intros _. right. exists (length (y_thr s)). exists (STStart (length (y_futs s))), []. split; [|cbn; apply Nat.eqb_refl].
    cbn. rewrite <- (upd_length (y_thr s) i (SStore (length (y_futs s)), sc)). apply nth_error_snoc_len.
  - (* SNew without timer *)
    unfold new_fut; cbn. rewrite Hc. tauto.
  - (* STFire, stopped *)
    intros Ha'. destruct (Nat.eq_dec k0 k) as [->|Nk].
    + left. unfold getf in Hg. rewrite Hg in Hg'. injection Hg' as <-.
      destruct (f_closed f0) eqn:Ec; auto. destruct (f_open _ _ _ _ (i_fut _ _ HI _ _ Hg) Ec) as (_ & _ & _ & _ & _ & _ & ? & _). congruence.
    + destruct (f_timer _ _ _ _ (i_fut _ _ HI _ _ Hg') Ha') as [Hcl|[j Hat]]; [left; exact Hcl|right; exists j].
      carry H0 Hp Hat i.
  - (* SCas, lost: untouched future *)
    intros Ha'. destruct (f_timer _ _ _ _ (i_fut _ _ HI _ _ Hg') Ha') as [Hcl|[j Hat]]; [left; exact Hcl|right; exists j].
    carry H0 Hp Hat i. destruct v; try discriminate. apply andb_true_iff in HP as [HP _]. apply Nat.eqb_eq in HP. congruence.
  - intros Ha'. destruct (f_timer _ _ _ _ (i_fut _ _ HI _ _ Hg') Ha') as [Hcl|[j Hat]]; [left; exact Hcl|right; exists j].
    carry H0 Hp Hat i. destruct v; try discriminate. apply andb_true_iff in HP as [HP _]. apply Nat.eqb_eq in HP. congruence.
Qed.

Definition same_w (f f' : fut) : Prop :=
  f_winners f' = f_winners f /\ f_final f' = f_final f /\ fres f' = fres f /\ f_done f' = f_done f /\
  f_wlog f' = f_wlog f /\ f_crem f' = f_crem f /\ f_arem f' = f_arem f /\ f_tstopped f' = f_tstopped f /\
  f_armed f' = f_armed f.

Lemma same_w_refl f : same_w f f.
Proof. repeat split. Qed.

Lemma wstage_same f f' w v st : same_w f f' -> wstage f w v st -> wstage f' w v st.
Proof.
  intros (E1 & E2 & E3 & E4 & E5 & E6 & E7 & E8 & E9) H.
  destruct st; cbn in *; unfold fstopped_ok in *; rewrite ?E3, ?E4, ?E5, ?E6, ?E7, ?E8, ?E9; exact H.
Qed.

Lemma stage_first k o : stage_of k (first_pc o) = StFin.
Proof. destruct o; reflexivity. Qed.

Lemma stage_fin k rest : stage_of k (fin rest) = StFin.
Proof. destruct rest; reflexivity. Qed.

(** a closed future keeps its winner record across a step that is not one of the winner's own close steps on it *)
Lemma win_carry progs s s' i p sc p' sc' k0 f f' :
  Inv progs s -> sstep i s = Some s' ->
  nth_error (y_thr s) i = Some (p, sc) -> nth_error (y_thr s') i = Some (p', sc') ->
  getf s k0 = Some f -> same_w f f' ->
  (stage_of k0 p' = stage_of k0 p \/ ((stage_of k0 p = StLock \/ stage_of k0 p = StFin) /\ stage_of k0 p' = StFin)) ->
  f_closed f = true ->
  exists w v, f_winners f' = [w] /\ f_final f' = Some v /\ thr_at s' w (fun q => wstage f' w v (stage_of k0 q)).
Proof.
  intros HI H Hp Hp' Hg Hsw Hst Hc.
  destruct (f_win _ _ _ _ (i_fut _ _ HI _ _ Hg) Hc) as (w & v & Hw & Hfin & (q & scq & Hq & Hws)).
  pose proof Hsw as (E1 & E2 & _).
  exists w, v. split; [congruence|]. split; [congruence|].
  destruct (Nat.eq_dec w i) as [->|Nw].
  - rewrite Hp in Hq. injection Hq as <- <-. exists p', sc'. split; auto.
    apply (wstage_same f); auto.
    destruct Hst as [->|[[E|E] ->]]; auto; rewrite E in Hws; exact Hws.
  - exists q, scq. split; [eapply step_thr_other; eauto|]. apply (wstage_same f); auto.
Qed.

Lemma winner_stage progs s i k f p sc :
  Inv progs s -> nth_error (y_thr s) i = Some (p, sc) -> getf s k = Some f -> f_winners f = [i] ->
  exists v, f_final f = Some v /\ wstage f i v (stage_of k p) /\ f_closed f = true.
Proof.
  intros HI Hp Hg Hw. pose proof (winners_closed _ _ _ _ _ HI Hg Hw) as Hc.
  destruct (f_win _ _ _ _ (i_fut _ _ HI _ _ Hg) Hc) as (w & v & Hw' & Hfin & (q & scq & Hq & Hws)).
  rewrite Hw in Hw'. injection Hw' as <-. rewrite Hp in Hq. injection Hq as <- <-. eauto.
Qed.

Ltac new_self Hp := cbn [y_thr set]; first [eapply nth_error_upd_eq; exact Hp | apply nth_error_snoc_old; eapply nth_error_upd_eq; exact Hp].

Ltac stage_goal :=
  cbn [stage_of]; rewrite ?stage_first, ?stage_fin;
  repeat match goal with
  | |- context [Nat.eqb ?a ?b] => destruct (Nat.eqb_spec a b); try congruence
  end; auto.

Lemma step_win progs s s' i : Inv progs s -> sstep i s = Some s' ->
  forall k f', getf s' k = Some f' -> f_closed f' = true ->
  exists w v, f_winners f' = [w] /\ f_final f' = Some v /\ thr_at s' w (fun p => wstage f' w v (stage_of k p)).
Proof.
  intros HI H k0 f' Hg'. pose proof H as H0.
  sstep_inv H; use_L HI Hp; same_fut Hf; fut_cases Hg'.
  (* futures the step did not write *)
  all: try solve [intros Hc'; eapply (win_carry _ _ _ _ _ _ _ _ _ _ _ HI H0 Hp); [new_self Hp|exact Hg'|apply same_w_refl|stage_goal|exact Hc']].
  (* written, but not by its winner's close sequence *)
  all: try solve [cbn [f_closed set]; intros Hc'; eapply (win_carry _ _ _ _ _ _ _ _ _ _ _ HI H0 Hp);
                  [new_self Hp|exact Hg|repeat split|stage_goal|exact Hc']].
  all: try solve [cbn; intros; discriminate].
  - (* SAwait *)
    intros Hc'. eapply (win_carry _ _ _ _ _ _ _ _ _ _ _ HI H0 Hp); [new_self Hp|exact Hg'|apply same_w_refl| |exact Hc'].
    left. destruct p; cbn in HL; try tauto; try reflexivity.
  - (* SRLoad *)
    intros Hc'. eapply (win_carry _ _ _ _ _ _ _ _ _ _ _ HI H0 Hp); [new_self Hp|exact Hg'|apply same_w_refl| |exact Hc'].
    left. destruct (f_inctx f); reflexivity.
  - (* SDLoad *)
    intros Hc'. eapply (win_carry _ _ _ _ _ _ _ _ _ _ _ HI H0 Hp); [new_self Hp|exact Hg'|apply same_w_refl| |exact Hc'].
    left. destruct (f_inctx f); cbn [stage_of]; rewrite ?stage_fin; reflexivity.
  - (* SCas wins: the new winner *)
    intros _. destruct (f_open _ _ _ _ (i_fut _ _ HI _ _ Hg) Hc) as (Hw & _ & Hrs & Hd & Hwl & _ & Hts & Hcr & Har).
    exists i, v. cbn. rewrite Hw. split; auto. split; auto.
    eexists _, sc. split; [new_self Hp|].
    unfold fres, fstopped_ok in *. injection Hrs as Hm He.
    destruct v; cbn; rewrite ?Nat.eqb_refl; cbn; unfold fres; cbn; rewrite ?Hm, ?He; repeat split; auto; discriminate.
  - (* SCas wins: another future *)
    intros Hc'. eapply (win_carry _ _ _ _ _ _ _ _ _ _ _ HI H0 Hp); [new_self Hp|exact Hg'|apply same_w_refl| |exact Hc'].
    left. destruct v; stage_goal.
  - (* SAssign *)
    intros _. destruct HL as [Hw Hfin].
    destruct (winner_stage _ _ _ _ _ _ _ HI Hp Hg Hw) as (v0 & Hfin' & Hws & Hcl).
    rewrite Hfin in Hfin'. injection Hfin' as <-. cbn in Hws. rewrite Nat.eqb_refl in Hws. cbn in Hws.
    destruct Hws as (Hnn & Hrs & Hd & Hwl & Hcr & Har & Hts).
    exists i, v. cbn. split; auto. split; auto. eexists _, sc. split; [new_self Hp|].
    cbn. rewrite Nat.eqb_refl. cbn. unfold fres; cbn. rewrite Hwl, Hd.
    repeat split; auto; try (destruct (vpair v); reflexivity). destruct v; cbn; congruence.
  - (* SDone *)
    intros _. destruct HL as [Hw Hfin].
    destruct (winner_stage _ _ _ _ _ _ _ HI Hp Hg Hw) as (v0 & Hfin' & Hws & Hcl).
    rewrite Hfin in Hfin'. injection Hfin' as <-. cbn in Hws. rewrite Nat.eqb_refl in Hws. cbn in Hws.
    destruct Hws as (Hrs & Hd & Hwl & Hcr & Har & Hts).
    exists i, v. cbn. split; auto. split; auto. eexists _, sc. split; [new_self Hp|].
    cbn. rewrite Nat.eqb_refl. cbn. unfold fres, fstopped_ok in *; cbn. rewrite Hts.
    repeat split; auto; destruct (f_armed f0); reflexivity.
  - (* SCRemCtx *)
    intros _. destruct (winner_stage _ _ _ _ _ _ _ HI Hp Hg HL) as (v0 & Hfin' & Hws & Hcl).
    cbn in Hws. rewrite Nat.eqb_refl in Hws. cbn in Hws.
    exists i, v0. cbn. split; auto. split; auto. eexists _, sc. split; [new_self Hp|].
    cbn. rewrite Nat.eqb_refl. cbn. unfold fres, fstopped_ok in *; cbn. tauto.
  - (* SCRemAg *)
    intros _. destruct (winner_stage _ _ _ _ _ _ _ HI Hp Hg HL) as (v0 & Hfin' & Hws & Hcl).
    cbn in Hws. rewrite Nat.eqb_refl in Hws. cbn in Hws.
    exists i, v0. cbn. split; auto. split; auto. eexists _, sc. split; [new_self Hp|].
    cbn. rewrite Nat.eqb_refl. cbn. unfold fres, fstopped_ok in *; cbn. tauto.
Qed.

(** ------------------------------------------------------------------ the invariant is inductive *)

Theorem step_inv progs s s' i : Inv progs s -> sstep i s = Some s' -> Inv progs s'.
Proof.
  intros HI H. split.
  - apply (step_loc _ _ _ _ HI H).
  - intros k f' Hg'. split.
    + apply (step_open _ _ _ _ HI H _ _ Hg').
    + apply (step_win _ _ _ _ HI H _ _ Hg').
    + apply (step_ctx _ _ _ _ HI H _ _ Hg').
    + apply (step_fag _ _ _ _ HI H _ _ Hg').
    + apply (step_sto _ _ _ _ HI H _ _ Hg').
    + apply (step_reg _ _ _ _ HI H _ _ Hg').
    + apply (step_timer _ _ _ _ HI H _ _ Hg').
    + apply (step_fire _ _ _ _ HI H _ _ Hg').
    + apply (step_snt _ _ _ _ HI H _ _ Hg').
    + apply (step_orig _ _ _ _ HI H _ _ Hg').
  - apply (step_ag _ _ _ _ HI H).
  - apply (step_rets _ _ _ _ HI H).
  - apply (step_cp _ _ _ _ HI H).
Qed.

Lemma sdo_inv progs s a : Inv progs s -> Inv progs (sdo s a).
Proof.
  intros HI. destruct a as [|i]; cbn; [apply tick_inv; auto|].
  destruct (sstep i s) eqn:E; auto. eapply step_inv; eauto.
Qed.

Lemma srun_inv progs sched s : Inv progs s -> Inv progs (srun sched s).
Proof. revert s; induction sched as [|a l IH]; intros s HI; cbn; auto. apply IH. apply sdo_inv. auto. Qed.

Theorem sreach_inv progs s : sreach progs s -> Inv progs s.
Proof. intros [sched <-]. apply srun_inv. apply init_inv. Qed.
