(** Micro-step model of one Ask: internal/actor/context.go [ask], internal/future/future.go
    ([NewFuture], [close], [Close], [Enqueue], [PipeTo], [tellForwarders], [Result], [Wait]) and the future
    table of internal/actor/system.go ([appendFuture], [removeFuture], [removeFuturesByAgentPath],
    [findMailbox]) — as the code is in /repo now.

    One step = what one goroutine does between two scheduling points of the instrumented code
    (harness/instr profile "future"): the CAS on [closed]; the assignment of [err] / [message];
    [close(done)] (+ [timer.Stop], which has no scheduling point of its own); [closer()] (= [removeFuture]);
    [mu.Lock] + take and clear [forwarders] + [Unlock] in [close]; one [liaison.Tell] per forwarder;
    in [PipeTo]: [mu.Lock], then [closed.Load] (+ open branch: the read of [forwarders], i.e. the evaluation of
    append(f.forwarders, fs...)), then the write of [forwarders] (+ Unique) + [Unlock], resp. (closed branch) the
    receive on [done] + the read of the result; in [ask]: [NewFuture] (arms the timer), then [appendFuture],
    then [Closed()] (= closed.Load) + the conditional [removeFuture] + the send of the request + return.

    The model follows ONE future (the "focus" future, registered under path [fpath] with identity [fid]);
    every other Ask / actor of the system appears as environment traffic on the shared registry
    ([FReg]/[FUnreg] on other paths, replies addressed to other paths).  Freshness of the uuid in the
    agent path (assumption M7) is the side condition [prog_ok]: nobody else registers anything under
    [fpath], and the focus future is registered under no other path.

    Time: [now] is a virtual clock advanced by the action [Tick]; the timer's fire step is enabled only
    when [now >= armed_at + timeout] (assumption M6: time.AfterFunc fires no earlier than its duration). *)
From Coq Require Import List NArith Bool.
From RecordUpdate Require Import RecordSet.
Import ListNotations RecordSetNotations.
Local Open Scope N_scope.

Notation fpath := 0%N (only parsing).     (* agent path of the focus future: asker path + "/@future@" + uuid *)
Notation fid := 0%N (only parsing).       (* identity of the focus future in the registry *)

(** the [v any] argument of [close]: a message, an [error], or nil *)
Inductive val : Type := VMsg (m : N) | VErr (e : N) | VNil.
Definition E_TIMEOUT : N := 1.     (* vivid.ErrorFutureTimeout *)
Definition E_DEAD : N := 2.        (* vivid.ErrorActorDeaded *)
Notation res := (option N * option N)%type.      (* (message, err) as read by Result / carried by a PipeResult *)
Definition vpair (v : val) : res :=
  match v with VMsg m => (Some m, None) | VErr e => (None, Some e) | VNil => (None, None) end.

Inductive pc : Type :=
| Start (k : pc)                      (* goroutine created, has not run yet *)
| Await (k : pc)                      (* holds the future returned by Ask / the request envelope: waits for [ask] to return *)
(* Context.ask *)
| ANew (timeout : N)                  (* future.NewFuture: arms the timer when timeout > 0 *)
| AAppend                             (* system.appendFuture *)
| ACheck                              (* futureIns.Closed() -> removeFuture; recipient mailbox Enqueue(request); return *)
(* the time.AfterFunc goroutine *)
| TFire
(* a reply: Context.tell -> system.findMailbox(path) -> Enqueue *)
| RLookup (p : N) (v : val)
(* asker death: system.removeFuturesByAgentPath *)
| DLookup
(* Future.close(v) *)
| CCas (v : val)
| CAssign (v : val)
| CDone (v : val)
| CCloser (v : val)
| CLock (v : val)
| CTell (l : list N) (r : res)
(* Future.PipeTo(forwarders) *)
| PLock (fs : list N)
| PLoad (fs : list N)
| PAppend (fs raw : list N)           (* open branch: raw = append(f.forwarders, fs...) was read under mu; next: write + Unlock *)
| PWaitDone (fs : list N)             (* closed branch: <-f.done, then read f.message / f.err *)
| PTell (l : list N) (r : res)
(* Result (full = true) / Wait (full = false) *)
| WRecv (full : bool)
(* other users of the registry *)
| FReg (p id : N)
| FUnreg (p : N)
| Done.

Record st : Type := mkst {
  now : N;                           (* virtual clock *)
  tmo : N;                           (* the timeout passed to NewFuture *)
  armed : option N;                  (* Some t0: f.timer was armed at time t0 *)
  tstopped : bool;                   (* timer.Stop() was called *)
  closed : bool;                     (* f.closed *)
  err : option N;                    (* f.err (error code) *)
  msg : option N;                    (* f.message *)
  done : bool;                       (* f.done is closed *)
  fwd : list N;                      (* f.forwarders *)
  mu : option nat;                   (* holder of f.mu *)
  reg : list (N * N);                (* actorContexts / futureAgents: path -> identity of what is registered there *)
  sent : bool;                       (* the request was enqueued at the recipient and ask returned *)
  tells : list (N * res);            (* PipeResults told so far: (forwarder, (message, error)) *)
  rets : list (nat * bool * res);    (* values returned by Result (true) / Wait (false): (thread, Result?, (message, error)) *)
  routed : list (N * val * option N);(* replies: (addressed path, value, identity of the mailbox that got it; None = root mailbox) *)
  (* ghost history (never read by the code's steps) *)
  created : bool;                    (* NewFuture has run *)
  winners : list nat;                (* threads that passed the CAS *)
  attempts : list nat;               (* threads that executed the CAS (a reply / timeout / Close reached the future) *)
  final : option val;                (* the value of the winning close *)
  assigned : bool;                   (* the winner is past its assignment *)
  wlog : list (nat * bool);          (* writes of err/message: (thread, was done already closed?) *)
  fired : option N;                  (* time at which the timer callback ran *)
  closer_ran : bool;                 (* closer() = removeFuture has run *)
  taken : bool;                      (* close has taken (and cleared) the forwarders *)
  thr : list pc                      (* thread i is at [nth i thr] *)
}.
#[export] Instance eta_st : Settable _ :=
  settable! mkst <now; tmo; armed; tstopped; closed; err; msg; done; fwd; mu; reg; sent; tells; rets; routed;
                  created; winners; attempts; final; assigned; wlog; fired; closer_ran; taken; thr>.

Fixpoint upd {A} (l : list A) (i : nat) (x : A) : list A :=
  match l, i with
  | [], _ => []
  | _ :: r, O => x :: r
  | y :: r, S i' => y :: upd r i' x
  end.

(** registry = finite map as an association list (M2) *)
Fixpoint rlookup (p : N) (r : list (N * N)) : option N :=
  match r with
  | [] => None
  | (q, id) :: r' => if q =? p then Some id else rlookup p r'
  end.
Definition rremove (p : N) (r : list (N * N)) : list (N * N) := filter (fun e => negb (fst e =? p)) r.
Definition rinsert (p id : N) (r : list (N * N)) : list (N * N) := (p, id) :: rremove p r.

(** ActorRefs.Unique: first occurrences, order kept *)
Fixpoint uniq (seen l : list N) : list N :=
  match l with
  | [] => []
  | x :: r => if existsb (N.eqb x) seen then uniq seen r else x :: uniq (x :: seen) r
  end.

Definition opt_eqb (a : option N) (b : N) : bool := match a with Some x => x =? b | None => false end.

(** labels = what the instrumented Go code reports at the scheduling point in front of the step *)
Inductive label : Type :=
| LStart | LAwait | LNew | LAppend | LFire | LLookup | LDeath | LCas | LAssignErr | LAssignMsg | LCloseDone
| LCloser | LLockClose | LTell | LLockPipe | LLoad | LRecv | LForeign | LCheck | LPipeWait | LAppendFwd | LNone.

Definition label_of (p : pc) : label :=
  match p with
  | Start _ => LStart
  | Await _ => LAwait
  | ANew _ => LNew
  | AAppend => LAppend
  | ACheck => LCheck
  | TFire => LFire
  | RLookup _ _ => LLookup
  | DLookup => LDeath
  | CCas _ => LCas
  | CAssign (VErr _) => LAssignErr
  | CAssign _ => LAssignMsg
  | CDone _ => LCloseDone
  | CCloser _ => LCloser
  | CLock _ => LLockClose
  | CTell _ _ | PTell _ _ => LTell
  | PLock _ => LLockPipe
  | PLoad _ => LLoad
  | PAppend _ _ => LAppendFwd
  | PWaitDone _ => LPipeWait
  | WRecv _ => LRecv
  | FReg _ _ | FUnreg _ => LForeign
  | Done => LNone
  end.

Definition step (i : nat) (s : st) : option st :=
  match nth_error (thr s) i with
  | None => None
  | Some p =>
    let goto (s' : st) (q : pc) := Some (s' <| thr := upd (thr s) i q |>) in
    match p with
    | Done => None
    | Start k => goto s k
    | Await k => if sent s then goto s k else None
    | ANew t =>
        if 0 <? t
        then Some (s <| tmo := t |> <| armed := Some (now s) |> <| created := true |> <| thr := upd (thr s) i AAppend ++ [Start TFire] |>)
        else goto (s <| tmo := t |> <| created := true |>) AAppend
    | AAppend => goto (s <| reg := rinsert fpath fid (reg s) |>) ACheck
    | ACheck =>
        goto (s <| reg := if closed s then rremove fpath (reg s) else reg s |> <| sent := true |>) Done
    | TFire =>
        match armed s with
        | Some t0 =>
            if t0 + tmo s <=? now s
            then if tstopped s then goto s Done
                 else goto (s <| fired := Some (now s) |>) (CCas (VErr E_TIMEOUT))
            else None
        | None => None
        end
    | RLookup p v =>
        let d := rlookup p (reg s) in
        goto (s <| routed := routed s ++ [(p, v, d)] |>) (if opt_eqb d fid then CCas v else Done)
    | DLookup => goto s (if opt_eqb (rlookup fpath (reg s)) fid then CCas (VErr E_DEAD) else Done)
    | CCas v =>
        if closed s then goto (s <| attempts := attempts s ++ [i] |>) Done
        else match v with
             | VNil => goto (s <| closed := true |> <| attempts := attempts s ++ [i] |> <| winners := winners s ++ [i] |>
                               <| final := Some v |> <| assigned := true |>) (CDone v)
             | _ => goto (s <| closed := true |> <| attempts := attempts s ++ [i] |> <| winners := winners s ++ [i] |>
                            <| final := Some v |>) (CAssign v)
             end
    | CAssign v =>
        goto (s <| msg := fst (vpair v) |> <| err := snd (vpair v) |> <| assigned := true |>
                <| wlog := wlog s ++ [(i, done s)] |>) (CDone v)
    | CDone v =>
        goto (s <| done := true |> <| tstopped := match armed s with Some _ => true | None => tstopped s end |>) (CCloser v)
    | CCloser v => goto (s <| reg := rremove fpath (reg s) |> <| closer_ran := true |>) (CLock v)
    | CLock v =>
        match mu s with
        | Some _ => None
        | None => goto (s <| fwd := [] |> <| taken := true |>) (match fwd s with [] => Done | l => CTell l (msg s, err s) end)
        end
    | CTell l r =>
        match l with
        | [] => goto s Done
        | x :: l' => goto (s <| tells := tells s ++ [(x, r)] |>) (match l' with [] => Done | _ => CTell l' r end)
        end
    | PLock fs =>
        match mu s with
        | Some _ => None
        | None => goto (s <| mu := Some i |>) (PLoad fs)
        end
    | PLoad fs =>
        if closed s
        then goto (s <| mu := None |>) (PWaitDone fs)
        else goto s (PAppend fs (fwd s ++ fs))
    | PAppend _ raw => goto (s <| mu := None |> <| fwd := uniq [] raw |>) Done
    | PWaitDone fs =>
        if done s then goto s (match fs with [] => Done | _ => PTell fs (msg s, err s) end) else None
    | PTell l r =>
        match l with
        | [] => goto s Done
        | x :: l' => goto (s <| tells := tells s ++ [(x, r)] |>) (match l' with [] => Done | _ => PTell l' r end)
        end
    | WRecv full =>
        if done s then goto (s <| rets := rets s ++ [(i, full, (if full then msg s else None, err s))] |>) Done else None
    | FReg p id => goto (s <| reg := rinsert p id (reg s) |>) Done
    | FUnreg p => goto (s <| reg := rremove p (reg s) |>) Done
    end
  end.

Definition tick (s : st) : st := s <| now := now s + 1 |>.

(** environment thread programs *)
Inductive prog : Type :=
| PReply (p : N) (v : val)            (* some actor replies [v] to the sender path [p] of an envelope it handled *)
| PClose (e : N)                      (* the holder of the future calls Close(err) *)
| PDeath                              (* the asking actor is killed: doKill -> removeFuturesByAgentPath *)
| PPipe (fs : list N)                 (* the holder calls PipeTo(fs) *)
| PWait (full : bool)                 (* the holder calls Result() / Wait() *)
| PForeignReg (p id : N)              (* another actor / future is registered under p *)
| PForeignUnreg (p : N).

(** the agent path contains a fresh uuid (M7): a reply can only be addressed to it by someone who got the
    request, nobody else registers under it, and the future is registered under no other path *)
Definition first_pc (g : prog) : pc :=
  match g with
  | PReply p v => if p =? fpath then Await (RLookup p v) else RLookup p v
  | PClose e => Await (CCas (VErr e))
  | PDeath => DLookup
  | PPipe fs => Await (match fs with [] => Done | _ => PLock fs end)
  | PWait full => Await (WRecv full)
  | PForeignReg p id => FReg p id
  | PForeignUnreg p => FUnreg p
  end.
Definition prog_ok (g : prog) : bool :=
  match g with
  | PForeignReg p id => negb (p =? fpath) && negb (id =? fid)
  | PForeignUnreg p => negb (p =? fpath)
  | _ => true
  end.

Definition init (timeout : N) (progs : list prog) : st :=
  {| now := 0; tmo := 0; armed := None; tstopped := false; closed := false; err := None; msg := None; done := false;
     fwd := []; mu := None; reg := []; sent := false; tells := []; rets := []; routed := [];
     created := false; winners := []; attempts := []; final := None; assigned := false; wlog := []; fired := None;
     closer_ran := false; taken := false;
     thr := Start (ANew timeout) :: map (fun g => Start (first_pc g)) progs |}.

(** schedules: a choice that cannot step (finished, blocked or non-existent thread) is skipped *)
Inductive act : Type := Tick | Run (i : nat).
Definition do_act (s : st) (a : act) : st :=
  match a with
  | Tick => tick s
  | Run i => match step i s with Some s' => s' | None => s end
  end.
Definition run (sched : list act) (s : st) : st := fold_left do_act sched s.

Definition reach (timeout : N) (progs : list prog) (s : st) : Prop := exists sched, run sched (init timeout progs) = s.
Definition reachable (s : st) : Prop :=
  exists timeout progs, forallb prog_ok progs = true /\ reach timeout progs s.
