(** The replay of Future/FutRun.v only ever executes model actions: the state it reaches is [run] of the
    action list [acts_of] (thread steps, with [Tick]s in front of a timer fire), hence reachable. *)
From Coq Require Import List NArith Bool Lia.
From Coq Require Import ZifyN ZifyNat.
From RecordUpdate Require Import RecordSet.
From Vivid Require Import Base.Tm Future.FutModel Future.FutBase Future.FutRun.
Import ListNotations RecordSetNotations.
Local Open Scope N_scope.

Lemma run_app a b s : run (a ++ b) s = run b (run a s).
Proof. unfold run. apply fold_left_app. Qed.

Lemma run_ticks k s : run (repeat Tick k) s = N.iter (N.of_nat k) tick s.
Proof.
  revert s; induction k as [|k IH]; intros s; [reflexivity|].
  cbn [repeat]. change (run (Tick :: repeat Tick k) s) with (run (repeat Tick k) (tick s)). rewrite IH.
  rewrite Nat2N.inj_succ, N.iter_succ_r. reflexivity.
Qed.

Lemma advance_run s i : advance s i = run (repeat Tick (N.to_nat (ticks_for s i))) s.
Proof. unfold advance. rewrite run_ticks, N2Nat.id. reflexivity. Qed.

Theorem replay_is_run sched s : snd (replay sched s) = run (acts_of sched s) s.
Proof.
  revert s; induction sched as [|i r IH]; intros s; [reflexivity|].
  cbn [replay acts_of]. rewrite run_app, <- advance_run.
  destruct (step i (advance s i)) as [s'|] eqn:E.
  - specialize (IH s'). destruct (replay r s') as [out sf]. cbn [snd] in *. rewrite IH.
    change (run (Run i :: acts_of r s') (advance s i)) with (run (acts_of r s') (do_act (advance s i) (Run i))).
    cbn [do_act]. rewrite E. reflexivity.
  - reflexivity.
Qed.

Corollary replay_reach timeout progs sched :
  reach timeout progs (snd (replay sched (init timeout progs))).
Proof. exists (acts_of sched (init timeout progs)). symmetry. apply replay_is_run. Qed.
