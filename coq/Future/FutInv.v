(** The core invariant is inductive: preservation by every step of every thread. *)
From Coq Require Import List NArith Bool Lia Arith Permutation.
From Coq Require Import ZifyN ZifyNat ZifyBool.
From RecordUpdate Require Import RecordSet.
From Vivid Require Import Future.FutModel Future.FutSpec Future.FutBase Future.FutInvDef Future.FutInvLoc.
Import ListNotations RecordSetNotations.
Local Open Scope N_scope.


Ltac eqb_cases :=
  repeat match goal with
  | H : context [?a =? ?b] |- _ => let E := fresh "E" in destruct (a =? b) eqn:E; [apply N.eqb_eq in E | apply N.eqb_neq in E]
  | |- context [?a =? ?b] => let E := fresh "E" in destruct (a =? b) eqn:E; [apply N.eqb_eq in E | apply N.eqb_neq in E]
  end.

Ltac fin :=
  cbn -[N.eqb N.leb N.add] in *; mp; rewrite ?rlookup_rinsert, ?rlookup_rremove in *; eqb_cases; subst;
  try solve [intuition (try congruence; try lia)].

Lemma step_new i s s' : Inv s -> step i s = Some s' ->
  created s' = false ->
  closed s' = false /\ sent s' = false /\ armed s' = None /\ fired s' = None /\ rlookup fpath (reg s') = None.
Proof.
  intros HI H.
  pose proof (i_new _ HI) as Hnew. pose proof (i_open _ HI) as Hopen.
  step_inv H; pose proof (i_loc _ HI _ _ Hp) as HLi; cbn in HLi; fin.
Qed.

Lemma step_open i s s' : Inv s -> step i s = Some s' ->
  closed s' = false ->
  winners s' = [] /\ final s' = None /\ assigned s' = false /\ err s' = None /\ msg s' = None /\ done s' = false /\
  wlog s' = [] /\ closer_ran s' = false /\ tstopped s' = false /\ attempts s' = [] /\ taken s' = false.
Proof.
  intros HI H.
  pose proof (i_new _ HI) as Hnew. pose proof (i_open _ HI) as Hopen.
  step_inv H; pose proof (i_loc _ HI _ _ Hp) as HLi; cbn in HLi; fin.
Qed.

Lemma winner_closed s j : Inv s -> winners s = [j] -> closed s = true.
Proof.
  intros HI Hw. destruct (closed s) eqn:E; auto. destruct (i_open _ HI E) as (? & _). congruence.
Qed.

(** a thread whose pc is not in the close sequence (and not Done) is not the winner *)
Ltac other_thread HI Hp i :=
  let Hc' := fresh "Hc'" in
  intros Hc'; cbn in Hc';
  let w := fresh "w" in let v := fresh "v" in let p := fresh "pw" in
  let Hw := fresh "Hw" in let Hf := fresh "Hf" in let Hpw := fresh "Hpw" in let Hph := fresh "Hph" in
  destruct (i_win _ HI Hc') as (w & v & p & Hw & Hf & Hpw & Hph);
  assert (w <> i) by (intro; subst w; rewrite Hp in Hpw; injection Hpw as <-; cbn in Hph; tauto);
  exists w, v, p; cbn;
  try (rewrite nth_error_upd_ne by auto);
  (split; [exact Hw|split; [exact Hf|split; [try exact Hpw|destruct p; cbn in *; tauto]]]).

Lemma step_win i s s' : Inv s -> step i s = Some s' ->
  closed s' = true ->
  exists w v p, winners s' = [w] /\ final s' = Some v /\ nth_error (thr s') w = Some p /\ wphase s' w v p.
Proof.
  intros HI H.
  pose proof (i_new _ HI) as Hnew. pose proof (i_open _ HI) as Hopen.
  step_inv H; pose proof (i_loc _ HI _ _ Hp) as HLi; cbn in HLi.
  all: try solve [other_thread HI Hp i].
  all: try solve [intros Hx; cbn in Hx; congruence].
  all: try (pose proof (winner_closed _ _ HI HLi) as Hcl;
            destruct (i_win _ HI Hcl) as (w & v0 & pw & Hw & Hf & Hpw & Hph);
            rewrite HLi in Hw; injection Hw as <-; rewrite Hp in Hpw; injection Hpw as <-; cbn in Hph; intros _).
  - (* ANew with timer *)
    intros Hx; cbn in Hx. destruct (i_new _ HI) as (Hcf & _); [tauto|]. congruence.
  - (* CCas wins, VMsg *)
    mp. intros _. exists i, (VMsg m), (CAssign (VMsg m)). cbn. rewrite (nth_error_upd_eq _ _ _ _ Hp).
    destruct Hopen as (-> & ?). intuition congruence.
  - mp. intros _. exists i, (VErr e), (CAssign (VErr e)). cbn. rewrite (nth_error_upd_eq _ _ _ _ Hp).
    destruct Hopen as (-> & ?). intuition congruence.
  - mp. intros _. exists i, VNil, (CDone VNil). cbn. rewrite (nth_error_upd_eq _ _ _ _ Hp).
    destruct Hopen as (-> & ?). unfold res_of. cbn. intuition congruence.
  - (* CAssign *)
    exists i, v0, (CDone v). cbn. rewrite (nth_error_upd_eq _ _ _ _ Hp).
    destruct Hph as (-> & Hnn & ? & ? & ? & Hd & Hwl & ? & ? & ?). unfold res_of; cbn. rewrite Hwl, Hd.
    repeat split; auto; try (destruct (vpair v0); reflexivity); destruct v0; cbn; congruence.
  - (* CDone *)
    exists i, v0, (CCloser v). cbn. rewrite (nth_error_upd_eq _ _ _ _ Hp).
    destruct Hph as (-> & ? & ? & ? & ? & ? & Hts & ?). unfold stopped_ok, res_of in *; cbn. rewrite Hts.
    repeat split; auto; destruct (armed s); reflexivity.
  - (* CCloser *)
    exists i, v0, (CLock v). cbn. rewrite (nth_error_upd_eq _ _ _ _ Hp).
    unfold stopped_ok, res_of in *; cbn. intuition congruence.
  - (* CLock *)
    destruct Hph as (-> & ? & Hr & ? & ? & ? & ? & ?).
    exists i, v0, (match fwd s with [] => Done | n :: l0 => CTell (n :: l0) (msg s, err s) end).
    cbn. rewrite (nth_error_upd_eq _ _ _ _ Hp).
    unfold stopped_ok, res_of in *; cbn. destruct (fwd s); cbn; intuition congruence.
  - (* CTell [] *)
    exists i, v0, Done. cbn. rewrite (nth_error_upd_eq _ _ _ _ Hp).
    unfold stopped_ok, res_of in *; cbn. intuition congruence.
  - (* CTell *)
    exists i, v0, (match l0 with [] => Done | _ :: _ => CTell l0 r end). cbn. rewrite (nth_error_upd_eq _ _ _ _ Hp).
    unfold stopped_ok, res_of in *; cbn. destruct l0; cbn; intuition congruence.
  - (* PAppend: the holder of mu writes forwarders; the winner cannot have taken them yet *)
    intros Hc'; cbn in Hc'.
    destruct (i_win _ HI Hc') as (w & v & pw & Hw & Hf & Hpw & Hph).
    assert (w <> i) by (intro; subst w; rewrite Hp in Hpw; injection Hpw as <-; cbn in Hph; tauto).
    exists w, v, pw; cbn. rewrite nth_error_upd_ne by auto.
    split; [exact Hw|split; [exact Hf|split; [exact Hpw|]]].
    destruct HLi as (_ & _ & Htk). destruct pw; cbn in *; try tauto; intuition congruence.
Qed.

Lemma winner_phase s i p : Inv s -> nth_error (thr s) i = Some p -> close_pc p = true ->
  exists v, final s = Some v /\ wphase s i v p /\ closed s = true.
Proof.
  intros HI Hp Hcp. pose proof (i_loc _ HI _ _ Hp) as HLi.
  assert (Hw : winners s = [i]) by (destruct p; cbn in *; try discriminate; auto).
  pose proof (winner_closed _ _ HI Hw) as Hcl.
  destruct (i_win _ HI Hcl) as (w & v0 & pw & Hw' & Hf & Hpw & Hph).
  rewrite Hw in Hw'; injection Hw' as <-. rewrite Hp in Hpw; injection Hpw as <-. eauto.
Qed.

Lemma step_mu i s s' : Inv s -> step i s = Some s' ->
  forall j, mu s' = Some j -> exists p, nth_error (thr s') j = Some p /\ holder_pc p = true.
Proof.
  intros HI H.
  step_inv H; pose proof (i_loc _ HI _ _ Hp) as HLi; cbn in HLi; intros j Hm; cbn in Hm; try discriminate.
  all: try (destruct (i_mu _ HI _ Hm) as (pj & Hj & Hh);
            assert (j <> i) by (intro; subst j; rewrite Hp in Hj; injection Hj as <-; cbn in Hh; discriminate);
            exists pj; split; auto; cbn;
            try (apply nth_error_snoc_old); rewrite nth_error_upd_ne by auto; exact Hj).
  - (* PLock *) injection Hm as <-. exists (PLoad fs). split; auto. cbn. apply (nth_error_upd_eq _ _ _ _ Hp).
  - (* PLoad, open *) assert (j = i) by congruence. subst j.
    eexists. split; [cbn; apply (nth_error_upd_eq _ _ _ _ Hp)|reflexivity].
Qed.

Lemma step_route i s s' : Inv s -> step i s = Some s' ->
  forall q id, rlookup q (reg s') = Some id -> (q = fpath <-> id = fid).
Proof.
  intros HI H. pose proof (i_route _ HI) as Hr.
  step_inv H; pose proof (i_loc _ HI _ _ Hp) as HLi; cbn in HLi; intros q0 id0 Hq; cbn -[N.eqb] in Hq; try (apply Hr; exact Hq).
  all: try destruct (closed s).
  all: rewrite ?rlookup_rinsert, ?rlookup_rremove in Hq; eqb_cases; subst; try discriminate; try (apply Hr; exact Hq).
  all: injection Hq as <-; intuition congruence.
Qed.

Lemma step_reg i s s' : Inv s -> step i s = Some s' ->
  rlookup fpath (reg s') <> None -> nth_error (thr s') 0 = Some ACheck \/ closer_ran s' = false.
Proof.
  intros HI H. pose proof (i_reg _ HI) as Hr. pose proof (i_open _ HI) as Hopen.
  step_inv H; pose proof (i_loc _ HI _ _ Hp) as HLi; cbn in HLi; intros Hq; cbn -[N.eqb nth_error] in Hq |- *.
  all: try match goal with Hq : context [if closed ?s then _ else _] |- _ => destruct (closed s) eqn:Hcl end.
  all: rewrite ?rlookup_rinsert, ?rlookup_rremove in Hq; eqb_cases; subst; try congruence.
  all: try (destruct (Hr Hq) as [H0|H0]; [left|right; exact H0];
            assert (i <> 0%nat) by congruence; try (apply nth_error_snoc_old); rewrite nth_error_upd_ne by auto; exact H0).
  - left. destruct HLi as (-> & _). apply (nth_error_upd_eq _ _ _ _ Hp).
  - right. mp. tauto.
  - tauto.
Qed.

Lemma step_ask i s s' : Inv s -> step i s = Some s' ->
  sent s' = false -> exists j p, nth_error (thr s') j = Some p /\ ask_pc p = true.
Proof.
  intros HI H. pose proof (i_ask _ HI) as Ha.
  step_inv H; pose proof (i_loc _ HI _ _ Hp) as HLi; cbn in HLi; intros Hq; cbn -[nth_error] in Hq |- *; try discriminate.
  all: try (destruct (Ha Hq) as (j & pj & Hj & Hpj);
            assert (j <> i) by (intro; subst j; rewrite Hp in Hj; injection Hj as <-; cbn in Hpj; discriminate);
            exists j, pj; split; auto; try (apply nth_error_snoc_old); rewrite nth_error_upd_ne by auto; exact Hj).
  - (* Start p *)
    destruct (Ha Hq) as (j & pj & Hj & Hpj). destruct (Nat.eq_dec j i) as [->|N].
    + rewrite Hp in Hj; injection Hj as <-. exists i, p. split; [apply (nth_error_upd_eq _ _ _ _ Hp)|].
      destruct p; cbn in *; try discriminate; auto.
    + exists j, pj. split; auto. rewrite nth_error_upd_ne by auto; exact Hj.
  - congruence.
  - exists i, AAppend. split; auto. apply nth_error_snoc_old. apply (nth_error_upd_eq _ _ _ _ Hp).
  - exists i, AAppend. split; auto. apply (nth_error_upd_eq _ _ _ _ Hp).
  - exists i, ACheck. split; auto. apply (nth_error_upd_eq _ _ _ _ Hp).
Qed.

Lemma closed_mono i s s' : step i s = Some s' -> closed s = true -> closed s' = true.
Proof. intros H Hc. step_inv H; cbn; congruence. Qed.

Lemma step_timer i s s' : Inv s -> step i s = Some s' ->
  armed s' <> None -> closed s' = true \/ exists j p, nth_error (thr s') j = Some p /\ timer_pc p = true.
Proof.
  intros HI H. pose proof (i_timer _ HI) as Ha. pose proof (closed_mono _ _ _ H) as Hm.
  pose proof (i_new _ HI) as Hnew. pose proof (i_open _ HI) as Hopen.
  step_inv H; pose proof (i_loc _ HI _ _ Hp) as HLi; cbn in HLi; intros Hq; cbn -[nth_error] in Hq, Hm |- *.
  all: try solve [left; reflexivity].
  all: try (destruct (Ha Hq) as [Hcl|(j & pj & Hj & Hpj)]; [left; auto|];
            assert (j <> i) by (intro; subst j; rewrite Hp in Hj; injection Hj as <-; cbn in Hpj; discriminate);
            right; exists j, pj; split; auto; try (apply nth_error_snoc_old); rewrite nth_error_upd_ne by auto; exact Hj).
  - (* Start p *)
    destruct (Ha Hq) as [Hcl|(j & pj & Hj & Hpj)]; [left; auto|]. right. destruct (Nat.eq_dec j i) as [->|N].
    + rewrite Hp in Hj; injection Hj as <-. exists i, p. split; [apply (nth_error_upd_eq _ _ _ _ Hp)|].
      destruct p; cbn in *; try discriminate; auto.
    + exists j, pj. split; auto. rewrite nth_error_upd_ne by auto; exact Hj.
  - right. exists (length (upd (thr s) i AAppend)), (Start TFire). split; auto.
    rewrite nth_error_app2 by lia. rewrite Nat.sub_diag. reflexivity.
  - left. destruct (closed s) eqn:E; auto. mp. intuition congruence.
  - right. exists i, (CCas (VErr E_TIMEOUT)). split; auto. apply (nth_error_upd_eq _ _ _ _ Hp).
  - left; auto.
Qed.

Lemma step_fired i s s' : Inv s -> step i s = Some s' ->
  forall t, fired s' = Some t -> exists t0, armed s' = Some t0 /\ t0 + tmo s' <= t.
Proof.
  intros HI H. pose proof (i_fired _ HI) as Hf. pose proof (i_new _ HI) as Hnew.
  step_inv H; pose proof (i_loc _ HI _ _ Hp) as HLi; cbn in HLi; intros t Ht; cbn -[N.add N.leb] in Ht |- *; auto.
  - destruct HLi as (_ & Hcr). destruct (Hnew Hcr) as (_ & _ & _ & ? & _). congruence.
  - destruct HLi as (_ & Hcr). destruct (Hnew Hcr) as (_ & _ & _ & ? & _). congruence.
  - destruct (Hf _ Ht) as (t0 & E & ?). exists t0. split; [congruence|auto].
  - injection Ht as <-. exists n. split; auto. apply N.leb_le in Hc0. exact Hc0.
Qed.

Lemma step_rets i s s' : Inv s -> step i s = Some s' ->
  forall j full r, In (j, full, r) (rets s') -> done s' = true /\ r = (if full then msg s' else None, err s').
Proof.
  intros HI H. pose proof (i_rets _ HI) as Hr.
  step_inv H; pose proof (i_loc _ HI _ _ Hp) as HLi; cbn in HLi; intros j0 fl0 r0 Hin; cbn in Hin |- *; try (apply (Hr _ _ _ Hin)).
  - destruct (winner_phase _ _ _ HI Hp eq_refl) as (v0 & _ & Hph & _). cbn in Hph.
    destruct (Hr _ _ _ Hin) as (Hd & _). intuition congruence.
  - split; auto. apply (Hr _ _ _ Hin).
  - destruct (Hr _ _ _ Hin) as (? & ?); split; auto.
  - apply in_app_or in Hin as [Hin|[Hin|[]]].
    + destruct (Hr _ _ _ Hin) as (? & ?); split; auto.
    + injection Hin as <- <- <-. auto.
Qed.

Lemma step_tells i s s' : Inv s -> step i s = Some s' ->
  forall x r, In (x, r) (tells s') -> exists v, final s' = Some v /\ r = vpair v.
Proof.
  intros HI H. pose proof (i_tells _ HI) as Hr. pose proof (i_open _ HI) as Hopen.
  step_inv H; pose proof (i_loc _ HI _ _ Hp) as HLi; cbn in HLi; intros x0 r0 Hin; cbn in Hin |- *; try (apply (Hr _ _ Hin)).
  1-3: mp; destruct (Hr _ _ Hin) as (v0 & Hf & _); intuition congruence.
  - (* CTell *)
    apply in_app_or in Hin as [Hin|[Hin|[]]]; [apply (Hr _ _ Hin)|]. injection Hin as <- <-.
    destruct (winner_phase _ _ _ HI Hp eq_refl) as (v0 & Hf & Hph & _). cbn in Hph. exists v0. intuition.
  - (* PTell *)
    apply in_app_or in Hin as [Hin|[Hin|[]]]; [apply (Hr _ _ Hin)|]. injection Hin as <- <-. exact HLi.
Qed.

Theorem step_inv_thm i s s' : Inv s -> step i s = Some s' -> Inv s'.
Proof.
  intros HI H. split.
  - exact (step_loc _ _ _ HI H).
  - exact (step_new _ _ _ HI H).
  - exact (step_open _ _ _ HI H).
  - exact (step_win _ _ _ HI H).
  - exact (step_mu _ _ _ HI H).
  - exact (step_route _ _ _ HI H).
  - exact (step_reg _ _ _ HI H).
  - exact (step_ask _ _ _ HI H).
  - exact (step_timer _ _ _ HI H).
  - exact (step_fired _ _ _ HI H).
  - exact (step_rets _ _ _ HI H).
  - exact (step_tells _ _ _ HI H).
Qed.

Lemma do_act_inv s a : Inv s -> Inv (do_act s a).
Proof.
  intros HI. destruct a as [|i]; cbn.
  - apply tick_inv; auto.
  - destruct (step i s) eqn:E; auto. eapply step_inv_thm; eauto.
Qed.

Lemma run_inv sched s : Inv s -> Inv (run sched s).
Proof. revert s; induction sched as [|a l IH]; intros s HI; cbn; auto. apply IH, do_act_inv, HI. Qed.

Theorem reach_inv t progs s : forallb prog_ok progs = true -> reach t progs s -> Inv s.
Proof. intros Hok [sched <-]. apply run_inv, init_inv, Hok. Qed.

Theorem reachable_inv s : reachable s -> Inv s.
Proof. intros (t & progs & Hok & Hr). eapply reach_inv; eauto. Qed.
