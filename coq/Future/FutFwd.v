(** Where the result comes from, reply routing, and the forwarder accounting (all populations, all schedules). *)
From Coq Require Import List NArith Bool Lia Arith Permutation.
From Coq Require Import ZifyN ZifyNat ZifyBool.
From RecordUpdate Require Import RecordSet.
From Vivid Require Import Future.FutModel Future.FutSpec Future.FutBase Future.FutInvDef Future.FutInvLoc Future.FutInv Future.FutProofs.
Import ListNotations RecordSetNotations.
Local Open Scope N_scope.

(** ------------------------------------------------------------------ where the result comes from; routing *)

Section Origin.
Variable progs : list prog.

Definition V0 (s : st) (p : pc) : Prop :=
  match p with
  | RLookup q v => q = fpath -> In (PReply fpath v) progs
  | DLookup => In PDeath progs
  | CCas v => origin progs s v
  | _ => True
  end.
Definition V (s : st) (p : pc) : Prop :=
  match p with
  | Start (Await k) => V0 s k
  | Start k => V0 s k
  | Await k => V0 s k
  | _ => V0 s p
  end.

Record Inv2 (s : st) : Prop := {
  o_thr : AllThr (fun _ p => V s p) (thr s);
  o_final : forall v, final s = Some v -> origin progs s v;
  o_routed : forall q v d id, In (q, v, d) (routed s) -> d = Some id -> (q = fpath <-> id = fid)
}.

Lemma origin_mono s s' v : (fired s <> None -> fired s' <> None) -> origin progs s v -> origin progs s' v.
Proof. unfold origin. intros Hm H. intuition. Qed.

Lemma V0_mono s s' p : (fired s <> None -> fired s' <> None) -> V0 s p -> V0 s' p.
Proof. intros Hm. destruct p; cbn; auto. apply origin_mono; auto. Qed.

Lemma V_mono s s' p : (fired s <> None -> fired s' <> None) -> V s p -> V s' p.
Proof.
  intros Hm. destruct p; try exact (V0_mono s s' _ Hm).
  destruct p; exact (V0_mono s s' _ Hm).
Qed.

Lemma fired_mono i s s' : step i s = Some s' -> fired s <> None -> fired s' <> None.
Proof. intros H. step_inv H; cbn; auto; congruence. Qed.

Lemma step_inv2 i s s' : Inv s -> Inv2 s -> step i s = Some s' -> Inv2 s'.
Proof.
  intros HI [Ho Hf Hr] H. pose proof (fired_mono _ _ _ H) as Hm. split.
  - (* threads *)
    pose proof (i_route _ HI) as Hrt. pose proof (i_open _ HI) as Hopen.
    step_inv H; pose proof (i_loc _ HI _ _ Hp) as HLi; cbn in HLi; pose proof (Ho _ _ Hp) as HVi; cbn [thr set].
    all: try (apply AllThr_upd with (P := fun _ p => V s p); [exact Ho | intros j p0 _ _ HV; revert HV; apply V_mono; exact Hm | ]).
    all: try solve [cbn; auto].
    all: try solve [destruct (fwd s); cbn; auto].
    all: try solve [destruct l0; cbn; auto].
    all: try solve [destruct fs; cbn; auto].
    + (* Start p *) cbn in HVi. destruct p; cbn in *; auto; try tauto.
    + (* Await p *) cbn in HVi. destruct p; cbn in *; auto; try tauto.
    + (* ANew with timer *)
      apply AllThr_snoc; [|cbn; auto].
      apply AllThr_upd with (P := fun _ p => V s p); [exact Ho | intros j p0 _ _ HV; revert HV; apply V_mono; exact Hm | cbn; auto].
    + (* TFire fires *) cbn. unfold origin. cbn. right. right. right. split; congruence.
    + (* RLookup *)
      cbn in HVi. destruct (rlookup p (reg s)) as [id|] eqn:E; cbn; auto.
      destruct (id =? 0) eqn:E2; cbn; auto. apply N.eqb_eq in E2; subst id.
      left. apply HVi. apply (Hrt _ _ E). reflexivity.
    + (* DLookup *)
      cbn in HVi. destruct (opt_eqb (rlookup 0 (reg s)) 0); cbn; auto. unfold origin. auto.
  - (* final *)
    pose proof (i_open _ HI) as Hopen.
    step_inv H; pose proof (Ho _ _ Hp) as HVi; cbn in HVi; intros v0 Hv0; cbn in Hv0;
      try (apply (origin_mono s); [exact Hm | apply Hf; exact Hv0]).
    all: injection Hv0 as <-; revert HVi; apply origin_mono; exact Hm.
  - (* routed *)
    pose proof (i_route _ HI) as Hrt.
    step_inv H; intros q0 v0 d0 id0 Hin Hd; cbn in Hin; try (apply (Hr _ _ _ _ Hin Hd)).
    apply in_app_or in Hin as [Hin|[Hin|[]]]; [apply (Hr _ _ _ _ Hin Hd)|].
    injection Hin as <- <- <-. apply (Hrt _ _ Hd).
Qed.

Lemma init_inv2 t : Inv2 (init t progs).
Proof.
  split; cbn; try congruence; try tauto.
  intros j p Hj. destruct j as [|j]; cbn in Hj.
  - injection Hj as <-. cbn. auto.
  - apply nth_error_In in Hj. apply in_map_iff in Hj as [g [<- Hg]].
    destruct g as [q v|e| |fs|full|q id|q]; cbn; auto.
    + destruct (q =? 0) eqn:E; cbn.
      * apply N.eqb_eq in E; subst q. auto.
      * apply N.eqb_neq in E. tauto.
    + unfold origin. right. left. eauto.
    + destruct fs; cbn; auto.
Qed.

Lemma tick_inv2 s : Inv2 s -> Inv2 (tick s).
Proof. intros []. split; cbn; auto. Qed.

Lemma run_inv2 sched s : Inv s -> Inv2 s -> Inv2 (run sched s).
Proof.
  revert s; induction sched as [|a l IH]; intros s HI H2; [exact H2|].
  change (run (a :: l) s) with (run l (do_act s a)). apply IH; [apply do_act_inv; auto|].
  destruct a as [|i]; cbn; [apply tick_inv2; auto|].
  destruct (step i s) eqn:E; auto. eapply step_inv2; eauto.
Qed.

Theorem reach_inv2 t s : forallb prog_ok progs = true -> reach t progs s -> Inv2 s.
Proof. intros Hok [sched <-]. apply run_inv2; [apply init_inv, Hok|apply init_inv2]. Qed.
End Origin.


(** ------------------------------------------------------------------ forwarders: every named forwarder is in exactly one place *)

Fixpoint pend_of (p : pc) : list N :=
  match p with Start k | Await k => pend_of k | PLock fs | PLoad fs | PAppend fs _ | PWaitDone fs => fs | _ => [] end.
Fixpoint tell_of (p : pc) : list N :=
  match p with Start k | Await k => tell_of k | CTell l _ | PTell l _ => l | _ => [] end.

Notation cnt x l := (count_occ N.eq_dec l x).

Lemma cnt_flat_upd (f : pc -> list N) l i p q x : nth_error l i = Some p ->
  (cnt x (flat_map f (upd l i q)) + cnt x (f p) = cnt x (flat_map f l) + cnt x (f q))%nat.
Proof.
  revert i; induction l as [|a l IH]; intros [|i] H; cbn in *; try discriminate.
  - injection H as ->. rewrite !count_occ_app. lia.
  - specialize (IH _ H). rewrite !count_occ_app. lia.
Qed.

Lemma cnt_flat_snoc (f : pc -> list N) l y x : cnt x (flat_map f (l ++ [y])) = (cnt x (flat_map f l) + cnt x (f y))%nat.
Proof. rewrite flat_map_app, count_occ_app. cbn. rewrite app_nil_r. reflexivity. Qed.

Lemma cnt_flat_le (f : pc -> list N) l i p x : nth_error l i = Some p -> (cnt x (f p) <= cnt x (flat_map f l))%nat.
Proof.
  revert i; induction l as [|a l IH]; intros [|i] H; cbn in *; try discriminate.
  - injection H as ->. rewrite count_occ_app. lia.
  - specialize (IH _ H). rewrite count_occ_app. lia.
Qed.

Lemma uniq_nodup seen l : NoDup l -> (forall x, In x l -> ~ In x seen) -> uniq seen l = l.
Proof.
  revert seen; induction l as [|a l IH]; intros seen Hn Hd; cbn; auto.
  inversion Hn as [|? ? Ha Hl]; subst.
  destruct (existsb (N.eqb a) seen) eqn:E.
  - apply existsb_exists in E as (y & Hy & Ey). apply N.eqb_eq in Ey; subst y. exfalso. apply (Hd a); cbn; auto.
  - f_equal. apply IH; auto. intros x Hx [<-|Hs]; [tauto|]. apply (Hd x); cbn; auto.
Qed.

Definition Inv3 (progs : list prog) (s : st) : Prop :=
  forall x, cnt x (all_fwds progs) =
            (cnt x (flat_map pend_of (thr s)) + cnt x (fwd s) + cnt x (flat_map tell_of (thr s)) + cnt x (map fst (tells s)))%nat.

Lemma step_inv3 progs i s s' : NoDup (all_fwds progs) -> Inv s -> Inv3 progs s -> step i s = Some s' -> Inv3 progs s'.
Proof.
  intros Hnd HI H3 H.
  step_inv H; intros x; pose proof (H3 x) as H3x;
    pose proof (cnt_flat_upd pend_of _ _ _ Done x Hp) as Ep0; pose proof (cnt_flat_upd tell_of _ _ _ Done x Hp) as Et0;
    cbn [thr fwd tells set].
  all: try match goal with |- context [if opt_eqb ?a ?b then _ else _] => destruct (opt_eqb a b) end.
  all: try match goal with |- context [match ?l with [] => _ | _ :: _ => _ end] => destruct l eqn:El end.
  all: try match goal with |- context [upd (thr ?s) ?i ?q] =>
         pose proof (cnt_flat_upd pend_of _ _ _ q x Hp) as Ep; pose proof (cnt_flat_upd tell_of _ _ _ q x Hp) as Et end.
  all: rewrite ?cnt_flat_snoc, ?map_app, ?count_occ_app; cbn [pend_of tell_of map fst count_occ] in *.
  all: try lia.
  all: try solve [repeat match goal with
                  | H : context [N.eq_dec ?a ?b] |- _ => destruct (N.eq_dec a b)
                  | |- context [N.eq_dec ?a ?b] => destruct (N.eq_dec a b)
                  end; lia].
  (* PAppend: Unique is the identity because all forwarders are distinct; raw is still forwarders ++ fs *)
  destruct (i_loc _ HI _ _ Hp) as (_ & -> & _).
  rewrite uniq_nodup; [rewrite count_occ_app; lia| |intros ? _ []].
  apply (NoDup_count_occ N.eq_dec). intros y.
  pose proof (H3 y) as H3y. pose proof (cnt_flat_le pend_of _ _ _ y Hp) as Hle. cbn [pend_of] in Hle.
  pose proof (proj1 (NoDup_count_occ N.eq_dec _) Hnd y). rewrite count_occ_app. lia.
Qed.

Lemma init_inv3 t progs : Inv3 progs (init t progs).
Proof.
  intros x. cbn. rewrite !Nat.add_0_r.
  assert (E : forall l, flat_map tell_of (map (fun g => Start (first_pc g)) l) = []).
  { induction l as [|g l IH]; cbn; auto. rewrite IH, app_nil_r. destruct g as [q v|e| |fs|full|q id|q]; cbn; auto.
    - destruct (q =? 0); reflexivity.
    - destruct fs; reflexivity. }
  rewrite E. cbn. rewrite Nat.add_0_r. f_equal.
  unfold all_fwds. induction progs as [|g l IH]; cbn; auto. rewrite IH. f_equal.
  destruct g as [q v|e| |fs|full|q id|q]; cbn; auto.
  - destruct (q =? 0); reflexivity.
  - destruct fs; reflexivity.
Qed.

Lemma tick_inv3 progs s : Inv3 progs s -> Inv3 progs (tick s).
Proof. intros H x. exact (H x). Qed.

Lemma run_inv3 progs sched s : NoDup (all_fwds progs) -> Inv s -> Inv3 progs s -> Inv3 progs (run sched s).
Proof.
  intros Hnd. revert s; induction sched as [|a l IH]; intros s HI H3; [exact H3|].
  change (run (a :: l) s) with (run l (do_act s a)). apply IH; [apply do_act_inv; auto|].
  destruct a as [|i]; cbn; [apply tick_inv3; auto|].
  destruct (step i s) eqn:E; auto. eapply step_inv3; eauto.
Qed.

Theorem reach_inv3 t progs s : forallb prog_ok progs = true -> NoDup (all_fwds progs) -> reach t progs s -> Inv3 progs s.
Proof. intros Hok Hnd [sched <-]. apply run_inv3; auto; [apply init_inv, Hok|apply init_inv3]. Qed.


Lemma all_done_flat (f : pc -> list N) l : f Done = [] -> (forall i p, nth_error l i = Some p -> p = Done) -> flat_map f l = [].
Proof.
  intros Hf. induction l as [|a l IH]; intros H; cbn; auto.
  rewrite (H 0%nat a eq_refl), Hf. cbn. apply IH. intros i p Hi. apply (H (S i) p Hi).
Qed.

Lemma told_length x l : length (map snd (filter (fun e : N * res => fst e =? x) l)) = cnt x (map fst l).
Proof.
  induction l as [|[a r] l IH]; cbn; auto.
  destruct (N.eq_dec a x) as [->|Hn].
  - rewrite N.eqb_refl. cbn. rewrite IH. reflexivity.
  - apply N.eqb_neq in Hn. rewrite Hn. exact IH.
Qed.

Lemma tell_final s x r : Inv s -> done s = true -> In (x, r) (tells s) -> r = res_of s.
Proof.
  intros HI Hd Hin. destruct (i_tells _ HI _ _ Hin) as (v & Hf & ->).
  destruct (done_final _ HI Hd) as (v' & Hf' & Hr & _). congruence.
Qed.

Lemma terminal_all_done s : Inv s -> terminal s -> done s = true -> forall i p, nth_error (thr s) i = Some p -> p = Done.
Proof.
  intros HI Ht Hd i p Hp. destruct (no_deadlock _ HI Ht _ _ Hp) as [?|(_ & Hd' & _)]; auto. congruence.
Qed.

Theorem forwarders_once t progs s :
  forallb prog_ok progs = true -> NoDup (all_fwds progs) -> reach t progs s -> terminal s -> done s = true ->
  forall x, In x (all_fwds progs) -> told x s = [res_of s].
Proof.
  intros Hok Hnd Hr Ht Hd x Hx.
  pose proof (reach_inv _ _ _ Hok Hr) as HI. pose proof (reach_inv3 _ _ _ Hok Hnd Hr x) as H3.
  pose proof (terminal_all_done _ HI Ht Hd) as Had.
  rewrite (all_done_flat pend_of _ eq_refl Had), (all_done_flat tell_of _ eq_refl Had) in H3.
  destruct (done_final _ HI Hd) as (_ & _ & _ & Hc).
  destruct (terminal_closed _ HI Ht Hc) as (_ & _ & Hfw & _). rewrite Hfw in H3. cbn in H3.
  rewrite (proj1 (NoDup_count_occ' N.eq_dec _) Hnd x Hx) in H3.
  assert (Hall : forall r, In r (told x s) -> r = res_of s).
  { intros r Hin. unfold told in Hin. apply in_map_iff in Hin as ([x' r'] & <- & Hin). apply filter_In in Hin as [Hin _].
    apply (tell_final _ _ _ HI Hd Hin). }
  pose proof (told_length x (tells s)) as Hl. fold (told x s) in Hl. rewrite <- H3 in Hl.
  destruct (told x s) as [|a [|b l]]; cbn in Hl; try lia. f_equal. apply Hall. left. reflexivity.
Qed.

Theorem told_only_named t progs s x :
  forallb prog_ok progs = true -> NoDup (all_fwds progs) -> reach t progs s -> told x s <> [] -> In x (all_fwds progs).
Proof.
  intros Hok Hnd Hr Hne. pose proof (reach_inv3 _ _ _ Hok Hnd Hr x) as H3.
  pose proof (told_length x (tells s)) as Hl. fold (told x s) in Hl.
  apply (count_occ_In N.eq_dec). destruct (told x s); [congruence|]. cbn in Hl. lia.
Qed.

Lemma msg_final s m : Inv s -> msg s = Some m -> final s = Some (VMsg m).
Proof.
  intros HI Hm. destruct (closed s) eqn:Hc.
  - destruct (i_win _ HI Hc) as (w & v & p & _ & Hf & _ & Hph). rewrite Hf. f_equal.
    assert (Hr : res_of s = vpair v \/ msg s = None) by (destruct p; cbn in Hph; try tauto; intuition).
    destruct Hr as [Hr|Hr]; [|congruence]. unfold res_of in Hr. destruct v; cbn in Hr; congruence.
  - destruct (i_open _ HI Hc) as (_ & _ & _ & _ & ? & _). congruence.
Qed.

Theorem reply_value_addressed t progs s m :
  forallb prog_ok progs = true -> reach t progs s -> msg s = Some m -> In (PReply fpath (VMsg m)) progs.
Proof.
  intros Hok Hr Hm. pose proof (reach_inv _ _ _ Hok Hr) as HI.
  pose proof (o_final _ _ (reach_inv2 progs _ _ Hok Hr) _ (msg_final _ _ HI Hm)) as Ho.
  destruct Ho as [?|[(e & ? & _)|[(? & _)|(? & _)]]]; auto; discriminate.
Qed.

(** ------------------------------------------------------------------ a decidable sufficient condition for [terminal] (used by the Examples) *)

Definition quiet (s : st) : bool :=
  forallb (fun p => match p with Done => true | WRecv _ => negb (done s) | _ => false end) (thr s).

Lemma quiet_terminal s : quiet s = true -> terminal s.
Proof.
  intros Hq k i. rewrite tick_iter. unfold step. cbn.
  destruct (nth_error (thr s) i) as [p|] eqn:E; auto.
  unfold quiet in Hq. rewrite forallb_forall in Hq. specialize (Hq p (nth_error_In _ _ E)).
  destruct p; try discriminate; auto. destruct (done s); [discriminate|reflexivity].
Qed.

(** ------------------------------------------------------------------ the routing theorems depend on M7 *)

(** without freshness of the agent path (here: the focus future is also reachable under another request's path 7)
    a reply addressed to that other request completes this future with a message nobody replied to it *)
Lemma routing_needs_M7 :
  exists progs sched m,
    ~ M7_agent_path_fresh progs /\ msg (run sched (init 0 progs)) = Some m /\ ~ In (PReply fpath (VMsg m)) progs.
Proof.
  exists [PForeignReg 7 0; PReply 7 (VMsg 9)], (map Run [0;0;0;0;1;1;2;2;2;2]%nat), 9.
  split; [unfold M7_agent_path_fresh; cbn; discriminate|]. split; [vm_compute; reflexivity|].
  cbn. intros [H|[H|[]]]; discriminate.
Qed.
