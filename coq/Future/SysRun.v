(** Replay entry point of Future/SysModel.v.  Input = (scripts schedule); output = per step (label, projected state),
    the values returned by Result/Wait, the routing log, and how the run ended.
    The schedule names threads only; when the chosen thread is a timer at its fire step the replay first advances the
    virtual clock to the deadline with [STick]s (the controlled scheduler's "the timer fires now"). *)
From Coq Require Import List NArith Bool Arith.
From Vivid Require Import Base.Tm Future.FutModel Future.FutRun Future.SysModel.
Import ListNotations.
Local Open Scope N_scope.

Definition get_nat (t : tm) : option nat := match t with TN n => Some (N.to_nat n) | _ => None end.

Definition get_sop (t : tm) : option sop :=
  match t with
  | TL [TN 0; TN a; TN tmo] => Some (OAsk a tmo)
  | TL [TN 1; TN k; v] => match get_val v with Some v => Some (OReply (N.to_nat k) v) | None => None end
  | TL [TN 2; TN k; TN e] => Some (OClose (N.to_nat k) e)
  | TL [TN 3; TN k; TN full] => Some (OWait (N.to_nat k) (negb (full =? 0)))
  | TL [TN 5; TN k] => Some (OSync (N.to_nat k))
  | TL [TN 4; TN a; ord] => match get_list get_nat ord with Some ord => Some (ODeath a ord) | None => None end
  | _ => None
  end.

Definition slabel_code (l : slabel) : N :=
  match l with
  | YStart => 1 | YOp => 2 | YAwait => 3 | YNew => 4 | YStore => 5 | YAgents => 6 | YCheck => 7 | YRemCtx => 8
  | YRemAg => 9 | YFire => 10 | YLoadReply => 11 | YCopy => 13 | YLoadDeath => 14 | YCas => 15
  | YAssignErr => 16 | YAssignMsg => 17 | YCloseDone => 18 | YLockMu => 19 | YRecv => 20 | YNone => 0
  end.

(** The tie identifies a step by WHAT it does (operation + the table / field it acts on), not by the function that contains
    it: every futureLock section is one class (the registration, the de-registration and the key copy of a kill clean-up),
    every actorContexts.Load is one class (a reply's findMailbox and the clean-up's loop), every actorContexts.Delete is one
    class.  Which of them it is follows from the thread's pc in the model; the per-step state comparison keeps it tight. *)
Definition sclass_code (l : slabel) : N :=
  match l with
  | YRemAg | YCopy => slabel_code YAgents
  | YLoadDeath => slabel_code YLoadReply
  | _ => slabel_code l
  end.

Definition tnat (n : nat) : tm := TN (N.of_nat n).

(** A future is visible to the harness when Ask has returned it or while actorContexts maps its path to it; the
    other futures (between NewFuture and Store, or completed by the timer before being returned) are masked. *)
Definition proj_fut (s : sst) (k : nat) (f : fut) : tm :=
  if f_sent f || f_inctx f
  then TL [TN 1; tbool (f_closed f); topt TN (f_err f); topt TN (f_msg f); tbool (f_done f); tbool (f_inctx f);
           tbool (memb k (ag_get (f_asker f) (y_agents s)))]
  else TL [TN 0].

Fixpoint proj_futs (s : sst) (k : nat) (l : list fut) : list tm :=
  match l with
  | [] => []
  | f :: r => proj_fut s k f :: proj_futs s (S k) r
  end.

Definition sproj (s : sst) : list tm :=
  [tnat (length (y_agents s));
   tnat (fold_right (fun e n => (length (snd e) + n)%nat) 0%nat (y_agents s));
   tnat (length (filter f_inctx (y_futs s)));
   tnat (length (y_rets s)); tnat (length (y_routed s));
   TL (proj_futs s 0 (y_futs s))].

Definition sticks_for (s : sst) (i : nat) : N :=
  match nth_error (y_thr s) i with
  | Some (STFire k, _) =>
      match getf s k with
      | Some f => match f_armed f with Some t0 => (t0 + f_tmo f) - y_now s | None => 0 end
      | None => 0
      end
  | _ => 0
  end.
Definition sadvance (s : sst) (i : nat) : sst := N.iter (sticks_for s i) stick s.

Fixpoint sreplay (sched : list nat) (s : sst) : list tm * sst :=
  match sched with
  | [] => ([], s)
  | i :: r =>
      let s1 := sadvance s i in
      let lab := match nth_error (y_thr s1) i with Some (p, _) => slabel_of p | None => YNone end in
      match sstep i s1 with
      | Some s' => let (out, sf) := sreplay r s' in (TL (TN (sclass_code lab) :: sproj s') :: out, sf)
      | None => ([TL [TN 99; tnat i]], s1)
      end
  end.

(** the schedule as a list of model actions (what [sreplay] executes) *)
Fixpoint sacts_of (sched : list nat) (s : sst) : list sact :=
  match sched with
  | [] => []
  | i :: r =>
      let s1 := sadvance s i in
      repeat STick (N.to_nat (sticks_for s i)) ++
      match sstep i s1 with
      | Some s' => SRun i :: sacts_of r s'
      | None => []
      end
  end.

Definition thr_finished (t : spc * list sop) : bool :=
  match t with (SIdle, []) => true | _ => false end.

(** 0 = every goroutine finished; 1 = some goroutine is blocked for ever; 2 = somebody can still move *)
Definition send_kind (s : sst) : N :=
  if forallb thr_finished (y_thr s) then 0
  else if existsb (fun i => is_some (sstep i (sadvance s i))) (seq 0 (length (y_thr s))) then 2
  else 1.

Definition run_futsys (t : tm) : tm :=
  match t with
  | TL [progs; sched] =>
      match get_list (get_list get_sop) progs, get_list get_nat sched with
      | Some progs, Some sched =>
          let (out, sf) := sreplay sched (sinit progs) in
          TL [TL out;
              tlist (fun e => match e with (j, k, full, r) => TL (tnat j :: tnat k :: tbool full :: tres r) end) (y_rets sf);
              tlist (fun e => match e with (k, v, hit) => TL [tnat k; tval v; tbool hit] end) (y_routed sf);
              TN (send_kind sf)]
      | _, _ => tm_err 1
      end
  | _ => tm_err 0
  end.
