(** The invariant of Future/SysModel.v: definitions, initial state, clock tick. *)
From Coq Require Import List NArith Bool Lia Arith.
From Coq Require Import ZifyN ZifyNat ZifyBool.
From RecordUpdate Require Import RecordSet.
From Vivid Require Import Future.FutModel Future.FutSpec Future.FutBase Future.SysModel Future.SysBase.
Import ListNotations RecordSetNotations.
Local Open Scope N_scope.

(** ------------------------------------------------------------------ what a pc means *)

Definition ask_of (k : nat) (p : spc) : bool :=
  match p with SStore k' | SAgents k' | SCheck k' | SRemCtx k' | SRemAg k' => Nat.eqb k' k | _ => false end.
Definition own_ctx (k : nat) (p : spc) : bool :=
  match p with SAgents k' | SCheck k' | SRemCtx k' => Nat.eqb k' k | _ => false end.
Definition own_ag (k : nat) (p : spc) : bool :=
  match p with SCheck k' | SRemCtx k' | SRemAg k' => Nat.eqb k' k | _ => false end.
Definition timer_of (k : nat) (p : spc) : bool :=
  match p with
  | STStart k' | STFire k' => Nat.eqb k' k
  | SCas k' (VErr e) _ => Nat.eqb k' k && (e =? E_TIMEOUT)
  | _ => false
  end.

(** the stage of the close sequence of future k that a pc is in *)
Inductive stage : Type := StAssign | StDone | StRemCtx | StRemAg | StLock | StFin.
Definition stage_of (k : nat) (p : spc) : stage :=
  match p with
  | SAssign k' _ _ => if Nat.eqb k' k then StAssign else StFin
  | SDone k' _ _ => if Nat.eqb k' k then StDone else StFin
  | SCRemCtx k' _ => if Nat.eqb k' k then StRemCtx else StFin
  | SCRemAg k' _ => if Nat.eqb k' k then StRemAg else StFin
  | SLock k' _ => if Nat.eqb k' k then StLock else StFin
  | _ => StFin
  end.

Definition swl (w : nat) (v : val) : list (nat * bool) := match v with VNil => [] | _ => [(w, false)] end.
Definition fstopped_ok (f : fut) : Prop := f_tstopped f = match f_armed f with Some _ => true | None => false end.

Definition wstage (f : fut) (w : nat) (v : val) (st : stage) : Prop :=
  match st with
  | StAssign => v <> VNil /\ fres f = (None, None) /\ f_done f = false /\ f_wlog f = [] /\ f_crem f = false /\
                f_arem f = false /\ f_tstopped f = false
  | StDone => fres f = vpair v /\ f_done f = false /\ f_wlog f = swl w v /\ f_crem f = false /\ f_arem f = false /\
              f_tstopped f = false
  | StRemCtx => fres f = vpair v /\ f_done f = true /\ f_wlog f = swl w v /\ f_crem f = false /\ f_arem f = false /\
                fstopped_ok f
  | StRemAg => fres f = vpair v /\ f_done f = true /\ f_wlog f = swl w v /\ f_crem f = true /\ f_arem f = false /\
               fstopped_ok f
  | StLock | StFin => fres f = vpair v /\ f_done f = true /\ f_wlog f = swl w v /\ f_crem f = true /\ f_arem f = true /\
                      fstopped_ok f
  end.

(** the keys a death loop still has to visit were copied by this thread *)
Definition rest_ok (s : sst) (i : nat) (rest : list nat) : Prop :=
  forall k, In k rest -> exists a l0, In (i, a, l0) (y_dcopies s) /\ In k l0.

Definition exf (s : sst) (k : nat) (P : fut -> Prop) : Prop := exists f, getf s k = Some f /\ P f.

Definition await_ok (progs : list (list sop)) (k : nat) (q : spc) : Prop :=
  match q with
  | SRLoad k' v => k' = k /\ In (OReply k v) (all_ops progs)
  | SCas k' (VErr e) [] => k' = k /\ In (OClose k e) (all_ops progs)
  | SWRecv k' _ => k' = k
  | SIdle => True
  | _ => False
  end.

Definition L (progs : list (list sop)) (s : sst) (i : nat) (p : spc) : Prop :=
  match p with
  | SStart | SIdle | SNew _ _ | SDCopy _ _ => True
  | SAwait k q => await_ok progs k q
  | SStore k => exf s k (fun f => f_owner f = i /\ f_sent f = false)
  | SAgents k => exf s k (fun f => f_owner f = i /\ f_sent f = false /\ f_stored f = true /\
                                   (f_closed f = false -> f_inctx f = true))
  | SCheck k => exf s k (fun f => f_owner f = i /\ f_sent f = false /\ f_stored f = true /\
                                  (f_closed f = false -> f_inctx f = true /\ In k (ag_get (f_asker f) (y_agents s))))
  | SRemCtx k | SRemAg k => exf s k (fun f => f_owner f = i /\ f_sent f = false /\ f_closed f = true)
  | STStart k | STFire k => exf s k (fun f => f_armed f <> None)
  | SRLoad k v => In (OReply k v) (all_ops progs) /\ exf s k (fun _ => True)
  | SDLoad l => rest_ok s i l
  | SCas k v rest => exf s k (fun f => sorigin progs s k f v) /\ rest_ok s i rest
  | SAssign k v rest | SDone k v rest => exf s k (fun f => f_winners f = [i] /\ f_final f = Some v) /\ rest_ok s i rest
  | SCRemCtx k rest | SCRemAg k rest | SLock k rest => exf s k (fun f => f_winners f = [i]) /\ rest_ok s i rest
  | SWRecv k _ => exf s k (fun _ => True)
  end.

(** key k of a death's copy is still going to be visited by thread pc p *)
Definition pending (k : nat) (p : spc) : Prop :=
  match p with
  | SDLoad l => In k l
  | SCas k' v rest => (k' = k /\ v = VErr E_DEAD) \/ In k rest
  | SAssign _ _ rest | SDone _ _ rest | SCRemCtx _ rest | SCRemAg _ rest | SLock _ rest => In k rest
  | _ => False
  end.

Definition thr_at (s : sst) (j : nat) (P : spc -> Prop) : Prop :=
  exists p sc, nth_error (y_thr s) j = Some (p, sc) /\ P p.

(** per future *)
Record FInv (progs : list (list sop)) (s : sst) (k : nat) (f : fut) : Prop := {
  f_open : f_closed f = false ->
           f_winners f = [] /\ f_final f = None /\ fres f = (None, None) /\ f_done f = false /\ f_wlog f = [] /\
           f_attempts f = [] /\ f_tstopped f = false /\ f_crem f = false /\ f_arem f = false;
  f_win : f_closed f = true ->
          exists w v, f_winners f = [w] /\ f_final f = Some v /\ thr_at s w (fun p => wstage f w v (stage_of k p));
  f_ctx : f_inctx f = true -> f_crem f = false \/ thr_at s (f_owner f) (fun p => own_ctx k p = true);
  f_ag : In k (ag_get (f_asker f) (y_agents s)) -> f_arem f = false \/ thr_at s (f_owner f) (fun p => own_ag k p = true);
  f_sto : f_inctx f = false -> f_stored f = true -> f_closed f = true;
  f_reg : f_sent f = true -> f_closed f = false -> f_inctx f = true /\ In k (ag_get (f_asker f) (y_agents s));
  f_timer : f_armed f <> None -> f_closed f = true \/ exists j, thr_at s j (fun p => timer_of k p = true);
  f_fire : forall t, f_fired f = Some t -> exists t0, f_armed f = Some t0 /\ t0 + f_tmo f <= t;
  f_snt : f_sent f = false -> thr_at s (f_owner f) (fun p => ask_of k p = true);
  f_orig : forall v, f_final f = Some v -> sorigin progs s k f v
}.

Record Inv (progs : list (list sop)) (s : sst) : Prop := {
  i_loc : forall j p sc, nth_error (y_thr s) j = Some (p, sc) -> L progs s j p /\ incl sc (all_ops progs);
  i_fut : forall k f, getf s k = Some f -> FInv progs s k f;
  i_ag : ag_wf (y_agents s) /\
         forall a k, In k (ag_get a (y_agents s)) -> exf s k (fun f => f_asker f = a /\ f_stored f = true);
  i_rets : forall j k full r, In (j, k, full, r) (y_rets s) ->
           exf s k (fun f => f_done f = true /\ r = (if full then f_msg f else None, f_err f));
  i_cp : forall d a l k, In (d, a, l) (y_dcopies s) -> In k l ->
         exf s k (fun f => f_asker f = a /\ f_stored f = true /\ (f_closed f = true \/ thr_at s d (pending k)))
}.

Lemma init_inv progs : Inv progs (sinit progs).
Proof.
  split; cbn.
  - intros j p sc Hj. apply nth_error_In in Hj. apply in_map_iff in Hj as [sc0 [E Hin]].
    injection E as <- <-. cbn. split; auto.
    intros o Ho. unfold all_ops. apply in_concat. eauto.
  - intros k f Hk. unfold getf in Hk. cbn in Hk. destruct k; discriminate.
  - split; [split; [constructor|intros ? ? []]|intros ? ? []].
  - intros ? ? ? ? [].
  - intros ? ? ? ? [].
Qed.

(** the clock only matters to a timer's fire step: no invariant mentions [y_now] *)
Lemma tick_L progs s i p : L progs s i p -> L progs (stick s) i p.
Proof. destruct p; cbn; auto. Qed.

Lemma tick_inv progs s : Inv progs s -> Inv progs (stick s).
Proof.
  intros [Hl Hf Ha Hr Hc]. split; cbn; auto.
  intros k f Hk. destruct (Hf k f Hk). split; auto.
Qed.
