(** Proofs about Future/FutModel.v: inductive invariants over all populations and schedules. *)
From Coq Require Import List NArith Bool Lia Arith Permutation.
From Coq Require Import ZifyN ZifyNat ZifyBool.
From RecordUpdate Require Import RecordSet.
From Vivid Require Import Future.FutModel Future.FutSpec.
Import ListNotations RecordSetNotations.
Local Open Scope N_scope.

(** ------------------------------------------------------------------ lists of threads *)

Lemma upd_length {A} (l : list A) i x : length (upd l i x) = length l.
Proof. revert i; induction l as [|a l IH]; intros [|i]; cbn; auto. Qed.

Lemma nth_error_upd_eq {A} (l : list A) i x p : nth_error l i = Some p -> nth_error (upd l i x) i = Some x.
Proof. revert i; induction l as [|a l IH]; intros [|i] H; cbn in *; try discriminate; auto. Qed.

Lemma nth_error_upd_ne {A} (l : list A) i j x : i <> j -> nth_error (upd l i x) j = nth_error l j.
Proof.
  revert i j; induction l as [|a l IH]; intros [|i] [|j] H; cbn; auto; try congruence.
Qed.

Lemma nth_error_upd_inv {A} (l : list A) i j x p :
  nth_error (upd l i x) j = Some p -> (j = i /\ p = x) \/ (j <> i /\ nth_error l j = Some p).
Proof.
  intros H. destruct (Nat.eq_dec j i) as [->|N].
  - left. split; auto.
    destruct (nth_error l i) as [q|] eqn:E.
    + rewrite (nth_error_upd_eq _ _ _ _ E) in H. congruence.
    + apply nth_error_None in E. assert (nth_error (upd l i x) i = None) by (apply nth_error_None; rewrite upd_length; auto). congruence.
  - right. split; auto. rewrite nth_error_upd_ne in H by auto. exact H.
Qed.

Lemma nth_error_snoc_inv {A} (l : list A) x j p :
  nth_error (l ++ [x]) j = Some p -> nth_error l j = Some p \/ (j = length l /\ p = x).
Proof.
  intros H. destruct (Nat.lt_ge_cases j (length l)) as [Hl|Hl].
  - left. rewrite nth_error_app1 in H; auto.
  - right. rewrite nth_error_app2 in H by auto.
    destruct (j - length l)%nat as [|k] eqn:E; cbn in H.
    + split; [lia|congruence].
    + destruct k; discriminate.
Qed.

Lemma nth_error_snoc_old {A} (l : list A) x j p : nth_error l j = Some p -> nth_error (l ++ [x]) j = Some p.
Proof. intros H. rewrite nth_error_app1; auto. apply nth_error_Some. congruence. Qed.

(** ------------------------------------------------------------------ registry lemmas *)

Lemma rlookup_rremove q p r : rlookup q (rremove p r) = if p =? q then None else rlookup q r.
Proof.
  unfold rremove. induction r as [|[a id] r IH]; cbn [filter rlookup fst].
  - destruct (p =? q); reflexivity.
  - destruct (a =? p) eqn:E1; cbn [negb rlookup].
    + apply N.eqb_eq in E1; subst a. rewrite IH. destruct (p =? q); reflexivity.
    + rewrite IH. destruct (a =? q) eqn:E2; auto.
      apply N.eqb_eq in E2; subst a. rewrite N.eqb_sym, E1. reflexivity.
Qed.

Lemma rlookup_rinsert q p id r : rlookup q (rinsert p id r) = if p =? q then Some id else rlookup q r.
Proof. unfold rinsert. cbn [rlookup]. rewrite rlookup_rremove. destruct (p =? q); reflexivity. Qed.

(** ------------------------------------------------------------------ the clock *)

Lemma tick_iter k s : N.iter k tick s = s <| now := now s + k |>.
Proof.
  induction k as [|k IH] using N.peano_ind.
  - cbn [N.iter]. rewrite N.add_0_r. destruct s; reflexivity.
  - rewrite N.iter_succ, IH. unfold tick. destruct s; cbn. rewrite N.add_succ_r, N.add_1_r. reflexivity.
Qed.

(** ------------------------------------------------------------------ step inversion *)

Ltac destr_cond H :=
  repeat match type of H with
  | (if ?b then _ else _) = Some _ => let E := fresh "Hc" in destruct b eqn:E
  | match ?o with Some _ => _ | None => _ end = Some _ => let E := fresh "Hc" in destruct o eqn:E
  | match ?v with VMsg _ => _ | VErr _ => _ | VNil => _ end = Some _ => let E := fresh "Hv" in destruct v eqn:E
  | match ?l with [] => _ | _ :: _ => _ end = Some _ => let E := fresh "Hl" in destruct l eqn:E
  end.

(** [step_inv H] : H : step i s = Some s'.  Leaves one goal per (pc, branch) with Hp : nth_error (thr s) i = Some <pc> *)
Ltac step_inv H :=
  unfold step in H;
  match type of H with
  | match nth_error (thr ?s) ?i with _ => _ end = Some _ =>
      let p := fresh "p" in let Hp := fresh "Hp" in
      destruct (nth_error (thr s) i) as [p|] eqn:Hp; [|discriminate H];
      destruct p; destr_cond H; try discriminate H;
      injection H as H; subst
  end.


(** ------------------------------------------------------------------ the core invariant *)

Definition AllThr (P : nat -> pc -> Prop) (l : list pc) : Prop := forall j p, nth_error l j = Some p -> P j p.

Lemma AllThr_upd (P Q : nat -> pc -> Prop) l i q :
  AllThr P l ->
  (forall j p, j <> i -> nth_error l j = Some p -> P j p -> Q j p) ->
  Q i q ->
  AllThr Q (upd l i q).
Proof.
  intros H Hst Hq j p Hj. apply nth_error_upd_inv in Hj as [[-> ->]|[N Hj]]; auto.
Qed.

Lemma AllThr_snoc (P : nat -> pc -> Prop) l x : AllThr P l -> P (length l) x -> AllThr P (l ++ [x]).
Proof. intros H Hx j p Hj. apply nth_error_snoc_inv in Hj as [Hj|[-> ->]]; auto. Qed.

Definition ask_pc (p : pc) : bool :=
  match p with Start (ANew _) | ANew _ | AAppend | ACheck => true | _ => false end.
Definition timer_pc (p : pc) : bool :=
  match p with Start TFire | TFire => true | CCas (VErr e) => e =? E_TIMEOUT | _ => false end.

(** what a thread's pc says about the shared state *)
Definition await_ok (k : pc) : Prop :=
  match k with RLookup _ _ | CCas _ | PLock _ | WRecv _ | Done => True | _ => False end.
Definition L (s : st) (j : nat) (p : pc) : Prop :=
  match p with
  | Start (ANew _) | ANew _ => j = 0%nat /\ created s = false
  | AAppend | ACheck => j = 0%nat /\ created s = true /\ sent s = false
  | Start TFire | TFire => created s = true /\ armed s <> None
  | Start (RLookup q _) => q <> fpath
  | Start (Await k) | Await k => await_ok k
  | Start DLookup => True
  | Start (FReg q id) | FReg q id => q <> fpath /\ id <> fid
  | Start (FUnreg q) | FUnreg q => q <> fpath
  | Start _ => False
  | RLookup q _ => q = fpath -> sent s = true
  | CCas _ => created s = true
  | CAssign _ | CDone _ | CCloser _ | CLock _ | CTell _ _ => winners s = [j]
  | PLoad _ => mu s = Some j
  | PWaitDone _ => closed s = true
  | PTell _ r => exists v, final s = Some v /\ r = vpair v
  | _ => True
  end.

Definition wl (w : nat) (v : val) : list (nat * bool) := match v with VNil => [] | _ => [(w, false)] end.
Definition stopped_ok (s : st) : Prop := tstopped s = match armed s with Some _ => true | None => false end.

(** the stage of the thread that won the CAS *)
Definition wphase (s : st) (w : nat) (v : val) (p : pc) : Prop :=
  match p with
  | CAssign v' => v' = v /\ v <> VNil /\ assigned s = false /\ err s = None /\ msg s = None /\ done s = false /\
                  wlog s = [] /\ closer_ran s = false /\ tstopped s = false
  | CDone v' => v' = v /\ assigned s = true /\ res_of s = vpair v /\ done s = false /\ wlog s = wl w v /\
                closer_ran s = false /\ tstopped s = false
  | CCloser v' => v' = v /\ assigned s = true /\ res_of s = vpair v /\ done s = true /\ wlog s = wl w v /\
                  closer_ran s = false /\ stopped_ok s
  | CLock v' => v' = v /\ assigned s = true /\ res_of s = vpair v /\ done s = true /\ wlog s = wl w v /\
                closer_ran s = true /\ stopped_ok s
  | CTell _ r => r = vpair v /\ assigned s = true /\ res_of s = vpair v /\ done s = true /\ wlog s = wl w v /\
                 closer_ran s = true /\ stopped_ok s /\ fwd s = []
  | Done => assigned s = true /\ res_of s = vpair v /\ done s = true /\ wlog s = wl w v /\
            closer_ran s = true /\ stopped_ok s /\ fwd s = []
  | _ => False
  end.

Record Inv (s : st) : Prop := {
  i_loc : AllThr (L s) (thr s);
  i_new : created s = false ->
          closed s = false /\ sent s = false /\ armed s = None /\ fired s = None /\ rlookup fpath (reg s) = None;
  i_open : closed s = false ->
           winners s = [] /\ final s = None /\ assigned s = false /\ err s = None /\ msg s = None /\ done s = false /\
           wlog s = [] /\ closer_ran s = false /\ tstopped s = false /\ attempts s = [];
  i_win : closed s = true ->
          exists w v p, winners s = [w] /\ final s = Some v /\ nth_error (thr s) w = Some p /\ wphase s w v p;
  i_mu : forall j, mu s = Some j -> exists fs, nth_error (thr s) j = Some (PLoad fs);
  i_route : forall q id, rlookup q (reg s) = Some id -> (q = fpath <-> id = fid);
  i_reg : rlookup fpath (reg s) <> None -> nth_error (thr s) 0 = Some ACheck \/ closer_ran s = false;
  i_ask : sent s = false -> exists j p, nth_error (thr s) j = Some p /\ ask_pc p = true;
  i_timer : armed s <> None -> closed s = true \/ exists j p, nth_error (thr s) j = Some p /\ timer_pc p = true;
  i_fired : forall t, fired s = Some t -> exists t0, armed s = Some t0 /\ t0 + tmo s <= t;
  i_rets : forall j full r, In (j, full, r) (rets s) -> done s = true /\ r = (if full then msg s else None, err s);
  i_tells : forall x r, In (x, r) (tells s) -> exists v, final s = Some v /\ r = vpair v
}.

Lemma init_inv t progs : forallb prog_ok progs = true -> Inv (init t progs).
Proof.
  intros Hok. split; cbn; try congruence; try tauto.
  - intros j p Hj. destruct j as [|j]; cbn in Hj.
    + injection Hj as <-. cbn. auto.
    + apply nth_error_In in Hj. apply in_map_iff in Hj as [g [<- Hg]].
      rewrite forallb_forall in Hok. specialize (Hok _ Hg).
      destruct g as [q v|e| |fs|full|q id|q]; cbn in *; auto.
      * destruct (q =? 0) eqn:E; cbn; auto. apply N.eqb_neq in E. exact E.
      * destruct fs; cbn; auto.
      * apply andb_true_iff in Hok as [A B]. apply negb_true_iff in A, B. apply N.eqb_neq in A, B. auto.
      * apply negb_true_iff in Hok. apply N.eqb_neq in Hok. auto.
  - intros _. exists 0%nat, (Start (ANew t)). auto.
Qed.

Lemma tick_inv s : Inv s -> Inv (tick s).
Proof.
  intros [].
  split; cbn; auto.
Qed.

Ltac destr_pc_match :=
  repeat match goal with
  | H : context [match ?k with Start _ => _ | _ => _ end] |- _ => is_var k; destruct k
  | |- context [match ?k with Start _ => _ | _ => _ end] => is_var k; destruct k
  end.

Ltac mp :=
  repeat match goal with
  | H : ?a = ?b, H2 : ?a = ?b -> _ |- _ => specialize (H2 H)
  end.

Ltac stab :=
  let j := fresh "j" in let p := fresh "p" in let Nj := fresh "Nj" in let Hj := fresh "Hj" in let HL := fresh "HL" in
  intros j p Nj Hj HL; destruct p; cbn in HL |- *; destr_pc_match; cbn in *;
  try solve [intuition (try congruence; try lia)];
  try solve [destruct HL as [? [? ?]]; intuition congruence];
  try solve [destruct HL as [? [? ?]]; eexists; split; [eassumption || congruence | congruence]].

Lemma sent_created s : Inv s -> sent s = true -> created s = true.
Proof. intros HI H. destruct (created s) eqn:E; auto. destruct (i_new _ HI E) as (_ & ? & _). congruence. Qed.

Lemma reg_created s : Inv s -> rlookup fpath (reg s) <> None -> created s = true.
Proof. intros HI H. destruct (created s) eqn:E; auto. destruct (i_new _ HI E) as (_ & _ & _ & _ & ?). congruence. Qed.

Lemma done_final s : Inv s -> done s = true -> exists v, final s = Some v /\ res_of s = vpair v /\ closed s = true.
Proof.
  intros HI Hd. destruct (closed s) eqn:Hc.
  - destruct (i_win _ HI Hc) as (w & v & p & Hw & Hf & Hp & Hph).
    exists v. split; auto. split; auto.
    destruct p; cbn in Hph; try tauto; intuition congruence.
  - destruct (i_open _ HI Hc) as (_ & _ & _ & _ & _ & ? & _). congruence.
Qed.

Lemma step_loc i s s' : Inv s -> step i s = Some s' -> AllThr (L s') (thr s').
Proof.
  intros HI H.
  pose proof (i_new _ HI) as Hnew. pose proof (i_open _ HI) as Hopen. pose proof (i_win _ HI) as Hwin.
  pose proof (sent_created _ HI) as Hsc. pose proof (reg_created _ HI) as Hrc.
  step_inv H; pose proof (i_loc _ HI _ _ Hp) as HLi; cbn in HLi; cbn [thr set]; mp.
  all: try (apply AllThr_upd with (P := L s); [exact (i_loc _ HI) | stab | ]).
  all: try solve [cbn in *; destr_pc_match; cbn in *; intuition congruence].
  - (* Await *) destruct p; cbn in *; tauto.
  - (* ANew, timer armed *)
    apply AllThr_snoc.
    + apply AllThr_upd with (P := L s); [exact (i_loc _ HI) | stab | cbn; intuition congruence].
    + cbn. split; congruence.
  - (* RLookup *)
    destruct (opt_eqb (rlookup p (reg s)) 0) eqn:E; cbn; auto.
    apply Hrc. destruct (rlookup p (reg s)) eqn:E2; cbn in E; try discriminate.
    apply N.eqb_eq in E; subst n. apply (i_route _ HI) in E2 as E3. assert (p = 0) by (apply E3; reflexivity). subst p. congruence.
  - destruct (opt_eqb (rlookup 0 (reg s)) 0) eqn:E; cbn; auto.
    apply Hrc. destruct (rlookup 0 (reg s)); cbn in E; congruence.
  - cbn. destruct Hopen as (-> & _). reflexivity.
  - cbn. destruct Hopen as (-> & _). reflexivity.
  - cbn. destruct Hopen as (-> & _). reflexivity.
  - destruct (fwd s); cbn; auto.
  - destruct l0; cbn; auto.
  - destruct fs; cbn; auto. destruct (done_final _ HI Hc) as (v & Hf & Hr & _). exists v. split; auto.
  - destruct l0; cbn; auto.
Admitted.
