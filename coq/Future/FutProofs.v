(** Proofs of the C04 statements from the core invariant (Future/FutInv.v). *)
From Coq Require Import List NArith Bool Lia Arith Permutation.
From Coq Require Import ZifyN ZifyNat ZifyBool.
From RecordUpdate Require Import RecordSet.
From Vivid Require Import Future.FutModel Future.FutSpec Future.FutBase Future.FutInvDef Future.FutInvLoc Future.FutInv.
Import ListNotations RecordSetNotations.
Local Open Scope N_scope.

(** ------------------------------------------------------------------ one shot *)

Lemma one_winner s : Inv s -> (length (winners s) <= 1)%nat /\ (closed s = true <-> winners s <> []).
Proof.
  intros HI. destruct (closed s) eqn:Hc.
  - destruct (i_win _ HI Hc) as (w & v & p & Hw & _). rewrite Hw. cbn. split; [lia|]. split; congruence.
  - destruct (i_open _ HI Hc) as (Hw & _). rewrite Hw. cbn. split; [lia|]. split; congruence.
Qed.

Lemma past_cas_is_winner s i p : Inv s -> nth_error (thr s) i = Some p -> close_pc p = true -> winners s = [i].
Proof. intros HI Hp Hc. pose proof (i_loc _ HI _ _ Hp) as HL. destruct p; cbn in *; try discriminate; auto. Qed.

Lemma writes_once s : Inv s ->
  (length (wlog s) <= 1)%nat /\ forall i d, In (i, d) (wlog s) -> winners s = [i] /\ d = false.
Proof.
  intros HI. destruct (closed s) eqn:Hc.
  - destruct (i_win _ HI Hc) as (w & v & p & Hw & Hf & Hp & Hph).
    assert (Hwl : wlog s = [] \/ wlog s = [(w, false)]).
    { destruct p; cbn in Hph; try tauto; destruct v; cbn in Hph; intuition. }
    destruct Hwl as [-> | ->]; cbn; split; try lia; try tauto.
    intros i d [E|[]]. injection E as <- <-. auto.
  - destruct (i_open _ HI Hc) as (_ & _ & _ & _ & _ & _ & -> & _). cbn. split; [lia|tauto].
Qed.

Lemma write_before_done i s s' v :
  Inv s -> nth_error (thr s) i = Some (CAssign v) -> step i s = Some s' ->
  done s = false /\ closed s = true /\ res_of s = (None, None) /\ res_of s' = vpair v /\ final s = Some v.
Proof.
  intros HI Hp H. destruct (winner_phase _ _ _ HI Hp eq_refl) as (v0 & Hf & Hph & Hc). cbn in Hph.
  destruct Hph as (-> & _ & _ & He & Hm & Hd & _).
  unfold step in H. rewrite Hp in H. injection H as <-. unfold res_of; cbn. rewrite He, Hm.
  repeat split; auto. destruct (vpair v0); reflexivity.
Qed.

Lemma result_stable i s s' : Inv s -> done s = true -> step i s = Some s' -> res_of s' = res_of s /\ done s' = true.
Proof.
  intros HI Hd H. unfold res_of.
  step_inv H; cbn; auto.
  destruct (winner_phase _ _ _ HI Hp eq_refl) as (v0 & _ & Hph & _). cbn in Hph.
  destruct Hph as (_ & _ & _ & _ & _ & Hd' & _). rewrite Hd in Hd'. discriminate.
Qed.

Lemma result_stable_act a s : Inv s -> done s = true -> res_of (do_act s a) = res_of s /\ done (do_act s a) = true.
Proof.
  intros HI Hd. destruct a as [|i]; cbn; auto.
  destruct (step i s) eqn:E; auto. eapply result_stable; eauto.
Qed.

Lemma result_stable_run sched s : Inv s -> done s = true -> res_of (run sched s) = res_of s /\ done (run sched s) = true.
Proof.
  revert s; induction sched as [|a l IH]; intros s HI Hd; [cbn; auto|].
  change (run (a :: l) s) with (run l (do_act s a)).
  destruct (result_stable_act a s HI Hd) as [E1 E2].
  destruct (IH _ (do_act_inv _ a HI) E2) as [E3 E4]. split; congruence.
Qed.

Lemma waiter_needs_done i s s' full : nth_error (thr s) i = Some (WRecv full) -> step i s = Some s' -> done s = true.
Proof. intros Hp H. unfold step in H. rewrite Hp in H. destruct (done s); auto; discriminate. Qed.

(** ------------------------------------------------------------------ terminal states *)

Definition blocked (s : st) (p : pc) : Prop :=
  match p with
  | Done => True
  | Await _ => sent s = false
  | CLock _ | PLock _ => mu s <> None
  | PWaitDone _ | WRecv _ => done s = false
  | TFire => armed s = None
  | _ => False
  end.

Lemma terminal_blocked s i p : terminal s -> nth_error (thr s) i = Some p -> blocked s p.
Proof.
  intros Ht Hp.
  destruct p; cbn; auto.
  all: try (specialize (Ht 0 i); cbn [N.iter] in Ht; unfold step in Ht; rewrite Hp in Ht;
            repeat match type of Ht with
            | (if ?b then _ else _) = None => destruct b eqn:?
            | match ?o with Some _ => _ | None => _ end = None => destruct o eqn:?
            | match ?l with [] => _ | _ :: _ => _ end = None => destruct l eqn:?
            | match ?v with VMsg _ => _ | VErr _ => _ | VNil => _ end = None => destruct v eqn:?
            end; try discriminate Ht; auto; congruence).
  (* TFire: advance the clock to the deadline *)
  destruct (armed s) as [t0|] eqn:Ea; auto. exfalso.
  specialize (Ht (t0 + tmo s) i). rewrite tick_iter in Ht. unfold step in Ht. cbn -[N.add N.leb] in Ht.
  rewrite Hp, Ea in Ht.
  assert (E : (t0 + tmo s <=? now s + (t0 + tmo s)) = true) by (apply N.leb_le; lia).
  rewrite E in Ht. destruct (tstopped s); discriminate.
Qed.

Lemma all_done_terminal s : (forall i p, nth_error (thr s) i = Some p -> p = Done) -> terminal s.
Proof.
  intros H k i. rewrite tick_iter. unfold step. cbn.
  destruct (nth_error (thr s) i) as [p|] eqn:E; auto. rewrite (H _ _ E). reflexivity.
Qed.

Lemma terminal_sent s : Inv s -> terminal s -> sent s = true.
Proof.
  intros HI Ht. destruct (sent s) eqn:E; auto. exfalso.
  destruct (i_ask _ HI E) as (j & p & Hj & Hp). pose proof (terminal_blocked _ _ _ Ht Hj) as Hb.
  destruct p; cbn in Hp; try discriminate; cbn in Hb; auto.
Qed.

Lemma terminal_mu s : Inv s -> terminal s -> mu s = None.
Proof.
  intros HI Ht. destruct (mu s) as [j|] eqn:E; auto. exfalso.
  destruct (i_mu _ HI _ E) as (p & Hj & Hh). pose proof (terminal_blocked _ _ _ Ht Hj) as Hb.
  destruct p; cbn in Hh; try discriminate; exact Hb.
Qed.

Lemma terminal_closed s : Inv s -> terminal s -> closed s = true ->
  done s = true /\ closer_ran s = true /\ fwd s = [] /\ exists w v, winners s = [w] /\ final s = Some v /\ res_of s = vpair v /\ nth_error (thr s) w = Some Done.
Proof.
  intros HI Ht Hc. destruct (i_win _ HI Hc) as (w & v & p & Hw & Hf & Hp & Hph).
  pose proof (terminal_blocked _ _ _ Ht Hp) as Hb. pose proof (terminal_mu _ HI Ht) as Hm.
  destruct p; cbn in Hph; try tauto; cbn in Hb; try tauto; try congruence.
  repeat split; try tauto. exists w, v. intuition.
Qed.

Lemma completes s : Inv s -> terminal s -> (attempts s <> [] \/ armed s <> None) -> done s = true.
Proof.
  intros HI Ht H.
  assert (Hc : closed s = true).
  { destruct (closed s) eqn:Hc; auto. exfalso. destruct H as [H|H].
    - destruct (i_open _ HI Hc) as (_ & _ & _ & _ & _ & _ & _ & _ & _ & Ha & _). congruence.
    - destruct (i_timer _ HI H) as [?|(j & p & Hj & Hp)]; [congruence|].
      pose proof (terminal_blocked _ _ _ Ht Hj) as Hb. pose proof (i_loc _ HI _ _ Hj) as HL.
      destruct p; cbn in Hp; try discriminate; cbn in Hb; auto. }
  apply (terminal_closed _ HI Ht Hc).
Qed.

Lemma no_deadlock s : Inv s -> terminal s ->
  forall i p, nth_error (thr s) i = Some p ->
    p = Done \/ (exists full, p = WRecv full) /\ done s = false /\ closed s = false /\ attempts s = [] /\ armed s = None.
Proof.
  intros HI Ht i p Hp.
  pose proof (terminal_blocked _ _ _ Ht Hp) as Hb. pose proof (i_loc _ HI _ _ Hp) as HL.
  pose proof (terminal_sent _ HI Ht) as Hs. pose proof (terminal_mu _ HI Ht) as Hm.
  destruct p; cbn in Hb; try tauto; try congruence; auto.
  - cbn in HL. tauto.
  - cbn in HL. destruct (terminal_closed _ HI Ht HL) as (? & _). congruence.
  - right. split; eauto. split; auto.
    assert (Hc : closed s = false).
    { destruct (closed s) eqn:Hc; auto. destruct (terminal_closed _ HI Ht Hc) as (? & _). congruence. }
    split; auto. split.
    + apply (i_open _ HI Hc).
    + destruct (armed s) eqn:Ea; auto. assert (done s = true) by (apply completes; auto; right; congruence). congruence.
Qed.

Lemma no_registration_left s : Inv s -> terminal s -> done s = true -> rlookup fpath (reg s) = None.
Proof.
  intros HI Ht Hd. destruct (rlookup fpath (reg s)) eqn:E; auto. exfalso.
  assert (Hn : rlookup fpath (reg s) <> None) by congruence.
  destruct (done_final _ HI Hd) as (_ & _ & _ & Hc).
  destruct (terminal_closed _ HI Ht Hc) as (_ & Hcr & _).
  destruct (i_reg _ HI Hn) as [H0|H0]; [|congruence].
  exact (terminal_blocked _ _ _ Ht H0).
Qed.
