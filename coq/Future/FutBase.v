(** Basic lemmas and tactics for the proofs about Future/FutModel.v. *)
From Coq Require Import List NArith Bool Lia Arith Permutation.
From Coq Require Import ZifyN ZifyNat ZifyBool.
From RecordUpdate Require Import RecordSet.
From Vivid Require Import Future.FutModel Future.FutSpec.
Import ListNotations RecordSetNotations.
Local Open Scope N_scope.

(** ------------------------------------------------------------------ lists of threads *)

Lemma upd_length {A} (l : list A) i x : length (upd l i x) = length l.
Proof. revert i; induction l as [|a l IH]; intros [|i]; cbn; auto. Qed.

Lemma nth_error_upd_eq {A} (l : list A) i x p : nth_error l i = Some p -> nth_error (upd l i x) i = Some x.
Proof. revert i; induction l as [|a l IH]; intros [|i] H; cbn in *; try discriminate; auto. Qed.

Lemma nth_error_upd_ne {A} (l : list A) i j x : i <> j -> nth_error (upd l i x) j = nth_error l j.
Proof.
  revert i j; induction l as [|a l IH]; intros [|i] [|j] H; cbn; auto; try congruence.
Qed.

Lemma nth_error_upd_inv {A} (l : list A) i j x p :
  nth_error (upd l i x) j = Some p -> (j = i /\ p = x) \/ (j <> i /\ nth_error l j = Some p).
Proof.
  intros H. destruct (Nat.eq_dec j i) as [->|N].
  - left. split; auto.
    destruct (nth_error l i) as [q|] eqn:E.
    + rewrite (nth_error_upd_eq _ _ _ _ E) in H. congruence.
    + apply nth_error_None in E. assert (nth_error (upd l i x) i = None) by (apply nth_error_None; rewrite upd_length; auto). congruence.
  - right. split; auto. rewrite nth_error_upd_ne in H by auto. exact H.
Qed.

Lemma nth_error_snoc_inv {A} (l : list A) x j p :
  nth_error (l ++ [x]) j = Some p -> nth_error l j = Some p \/ (j = length l /\ p = x).
Proof.
  intros H. destruct (Nat.lt_ge_cases j (length l)) as [Hl|Hl].
  - left. rewrite nth_error_app1 in H; auto.
  - right. rewrite nth_error_app2 in H by auto.
    destruct (j - length l)%nat as [|k] eqn:E; cbn in H.
    + split; [lia|congruence].
    + destruct k; discriminate.
Qed.

Lemma nth_error_snoc_old {A} (l : list A) x j p : nth_error l j = Some p -> nth_error (l ++ [x]) j = Some p.
Proof. intros H. rewrite nth_error_app1; auto. apply nth_error_Some. congruence. Qed.

(** ------------------------------------------------------------------ registry lemmas *)

Lemma rlookup_rremove q p r : rlookup q (rremove p r) = if p =? q then None else rlookup q r.
Proof.
  unfold rremove. induction r as [|[a id] r IH]; cbn [filter rlookup fst].
  - destruct (p =? q); reflexivity.
  - destruct (a =? p) eqn:E1; cbn [negb rlookup].
    + apply N.eqb_eq in E1; subst a. rewrite IH. destruct (p =? q); reflexivity.
    + rewrite IH. destruct (a =? q) eqn:E2; auto.
      apply N.eqb_eq in E2; subst a. rewrite N.eqb_sym, E1. reflexivity.
Qed.

Lemma rlookup_rinsert q p id r : rlookup q (rinsert p id r) = if p =? q then Some id else rlookup q r.
Proof. unfold rinsert. cbn [rlookup]. rewrite rlookup_rremove. destruct (p =? q); reflexivity. Qed.

(** ------------------------------------------------------------------ the clock *)

Lemma tick_iter k s : N.iter k tick s = s <| now := now s + k |>.
Proof.
  induction k as [|k IH] using N.peano_ind.
  - cbn [N.iter]. rewrite N.add_0_r. destruct s; reflexivity.
  - rewrite N.iter_succ, IH. unfold tick. destruct s; cbn. rewrite N.add_succ_r, N.add_1_r. reflexivity.
Qed.

(** ------------------------------------------------------------------ step inversion *)

Ltac destr_cond H :=
  repeat match type of H with
  | (if ?b then _ else _) = Some _ => let E := fresh "Hc" in destruct b eqn:E
  | match ?o with Some _ => _ | None => _ end = Some _ => let E := fresh "Hc" in destruct o eqn:E
  | match ?v with VMsg _ => _ | VErr _ => _ | VNil => _ end = Some _ => let E := fresh "Hv" in destruct v eqn:E
  | match ?l with [] => _ | _ :: _ => _ end = Some _ => let E := fresh "Hl" in destruct l eqn:E
  end.

(** [step_inv H] : H : step i s = Some s'.  Leaves one goal per (pc, branch) with Hp : nth_error (thr s) i = Some <pc> *)
Ltac step_inv H :=
  unfold step in H;
  match type of H with
  | match nth_error (thr ?s) ?i with _ => _ end = Some _ =>
      let p := fresh "p" in let Hp := fresh "Hp" in
      destruct (nth_error (thr s) i) as [p|] eqn:Hp; [|discriminate H];
      destruct p; destr_cond H; try discriminate H;
      injection H as H; subst
  end.


