(** Derived notions used by the statements of C04 (definitions only, no proofs). *)
From Coq Require Import List NArith Bool.
From Vivid Require Import Future.FutModel.
Import ListNotations.
Local Open Scope N_scope.

(** the result a reader sees: (f.message, f.err) *)
Definition res_of (s : st) : res := (msg s, err s).

(** nothing can ever move again, however far the clock advances *)
Definition terminal (s : st) : Prop := forall k i, step i (N.iter k tick s) = None.

(** the focus future is registered (actorContexts / futureAgents hold an entry for its path) *)
Definition registered (s : st) : Prop := rlookup fpath (reg s) <> None.

(** all forwarders named by the PipeTo calls of a population *)
Definition fwds_of (g : prog) : list N := match g with PPipe fs => fs | _ => [] end.
Definition all_fwds (progs : list prog) : list N := flat_map fwds_of progs.

(** PipeResults received by forwarder x *)
Definition told (x : N) (s : st) : list res := map snd (filter (fun e => fst e =? x) (tells s)).

(** where the completing value of the future can come from: a reply addressed to the future's own path, a
    Close(err) by the holder, the asker's death, or the timer callback *)
Definition origin (progs : list prog) (s : st) (v : val) : Prop :=
  In (PReply fpath v) progs \/
  (exists e, v = VErr e /\ In (PClose e) progs) \/
  (v = VErr E_DEAD /\ In PDeath progs) \/
  (v = VErr E_TIMEOUT /\ fired s <> None).

(** pcs of the close sequence after the CAS: only the thread that won the CAS is ever there *)
Definition close_pc (p : pc) : bool :=
  match p with CAssign _ | CDone _ | CCloser _ | CLock _ | CTell _ _ => true | _ => false end.

(** a thread blocked in Result / Wait *)
Definition waiting_pc (p : pc) : bool := match p with WRecv _ => true | _ => false end.

(** Assumption M7, made explicit: the agent path of a request ("<asker path>/@future@<uuid>") is FRESH - unique
    among all requests of all incarnations of all actors for the whole life of the system.  In the model this is
    the validity condition of a population: nobody else ever registers anything under the focus future's path,
    the focus future is registered under no other path ([prog_ok]), and a [PReply fpath v] thread is a reply to
    THIS request's envelope (it waits for the request to be sent: [first_pc]).  A reply produced for another
    request - e.g. a late reply to an earlier incarnation of the asker - is a [PReply p v] with p <> fpath.
    If path generation were only unique per incarnation (a counter), two requests would share a path, i.e. the
    environment would contain a registration of this future under the other request's path (or of the other
    future under this path): exactly what [prog_ok] excludes, and then routing fails (FutFwd.routing_needs_M7). *)
Definition M7_agent_path_fresh (progs : list prog) : Prop := forallb prog_ok progs = true.
