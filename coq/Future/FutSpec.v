(** Derived notions used by the statements of C04 (definitions only, no proofs). *)
From Coq Require Import List NArith Bool.
From Vivid Require Import Future.FutModel.
Import ListNotations.
Local Open Scope N_scope.

(** the result a reader sees: (f.message, f.err) *)
Definition res_of (s : st) : res := (msg s, err s).

(** nothing can ever move again, however far the clock advances *)
Definition terminal (s : st) : Prop := forall k i, step i (N.iter k tick s) = None.

(** the focus future is registered (actorContexts / futureAgents hold an entry for its path) *)
Definition registered (s : st) : Prop := rlookup fpath (reg s) <> None.

(** all forwarders named by the PipeTo calls of a population *)
Definition fwds_of (g : prog) : list N := match g with PPipe fs => fs | _ => [] end.
Definition all_fwds (progs : list prog) : list N := flat_map fwds_of progs.

(** PipeResults received by forwarder x *)
Definition told (x : N) (s : st) : list res := map snd (filter (fun e => fst e =? x) (tells s)).

(** where the completing value of the future can come from: a reply addressed to the future's own path, a
    Close(err) by the holder, the asker's death, or the timer callback *)
Definition origin (progs : list prog) (s : st) (v : val) : Prop :=
  In (PReply fpath v) progs \/
  (exists e, v = VErr e /\ In (PClose e) progs) \/
  (v = VErr E_DEAD /\ In PDeath progs) \/
  (v = VErr E_TIMEOUT /\ fired s <> None).

(** pcs of the close sequence after the CAS: only the thread that won the CAS is ever there *)
Definition close_pc (p : pc) : bool :=
  match p with CAssign _ | CDone _ | CCloser _ | CLock _ | CTell _ _ => true | _ => false end.

(** a thread blocked in Result / Wait *)
Definition waiting_pc (p : pc) : bool := match p with WRecv _ => true | _ => false end.
