(** The kill chain of an incarnation (since /repo 3f0f6ad): doKill cleans up the futures the actor is waiting on, runs the
    actor's OnKill / OnKilled handlers - which may issue further Asks - and cleans up ONCE MORE after the last handler.
    In script form every Ask of a goroutine is followed, later in the same script, by a clean-up of the same asker path
    ([covered_script]).  For such a goroutine, among ANY other threads and for every interleaving: when it has finished
    its script, every future it created has been completed by somebody (its CAS is won). *)
From Coq Require Import List NArith Bool Lia Arith.
From RecordUpdate Require Import RecordSet.
From Vivid Require Import Future.FutModel Future.FutSpec Future.FutBase Future.SysModel Future.SysBase Future.SysInvDef
  Future.SysInv Future.SysProofs.
Import ListNotations RecordSetNotations.
Local Open Scope N_scope.

(** every Ask of the script is followed by a clean-up of the same asker path *)
Fixpoint covered_script (sc : list sop) : Prop :=
  match sc with
  | [] => True
  | OAsk a _ :: rest => (exists ord, In (ODeath a ord) rest) /\ covered_script rest
  | _ :: rest => covered_script rest
  end.

Definition asks_of (a : N) (ts : list N) : list sop := map (OAsk a) ts.

(** one incarnation of the actor at path a: Asks from message handlers (timeouts [pre]), doKill's clean-up, Asks from the
    OnKill / child-OnKilled / own-OnKilled handlers (timeouts [mid]), the clean-up after the last handler *)
Definition incarnation (a : N) (pre : list N) (ord1 : list nat) (mid : list N) (ord2 : list nat) : list sop :=
  asks_of a pre ++ [ODeath a ord1] ++ asks_of a mid ++ [ODeath a ord2].

Lemma covered_asks_then a ts rest ord : In (ODeath a ord) rest -> covered_script rest -> covered_script (asks_of a ts ++ rest).
Proof.
  intros Hin Hc. induction ts as [|t ts IH]; cbn; auto. split; auto.
  exists ord. apply in_or_app. auto.
Qed.

Lemma incarnation_covered a pre ord1 mid ord2 : covered_script (incarnation a pre ord1 mid ord2).
Proof.
  unfold incarnation. apply (covered_asks_then a pre _ ord1); [left; reflexivity|].
  cbn [app covered_script]. apply (covered_asks_then a mid _ ord2); cbn; auto.
Qed.

Lemma covered_tail o sc : covered_script (o :: sc) -> covered_script sc.
Proof. destruct o; cbn; tauto. Qed.

(** what thread j (p, sc) still owes to a future it created *)
Definition owes (k : nat) (a : N) (p : spc) (sc : list sop) : Prop :=
  (exists ord, In (ODeath a ord) sc) \/ (exists ord, p = SDCopy a ord) \/ pending k p.

Definition CovThread (s : sst) (j : nat) : Prop :=
  forall p sc, nth_error (y_thr s) j = Some (p, sc) ->
    covered_script sc /\
    (forall a t, p = SNew a t -> exists ord, In (ODeath a ord) sc) /\
    (forall k f, getf s k = Some f -> f_owner f = j -> f_closed f = false -> owes k (f_asker f) p sc).

Lemma cov_init progs j sc0 : nth_error progs j = Some sc0 -> covered_script sc0 -> CovThread (sinit progs) j.
Proof.
  intros Hj Hc p sc Hp. cbn in Hp. rewrite nth_error_map, Hj in Hp. injection Hp as <- <-.
  split; auto. split; [intros; discriminate|]. intros k f Hg. unfold getf in Hg. cbn in Hg. destruct k; discriminate.
Qed.

Lemma cov_tick s j : CovThread s j -> CovThread (stick s) j.
Proof. intros H p sc Hp. apply (H p sc Hp). Qed.

Lemma owner_not_asking progs s k f p sc :
  Inv progs s -> getf s k = Some f -> nth_error (y_thr s) (f_owner f) = Some (p, sc) -> ask_of k p = false -> f_sent f = true.
Proof.
  intros HI Hg Hp Ha. destruct (f_sent f) eqn:Es; auto.
  destruct (f_snt _ _ _ _ (i_fut _ _ HI _ _ Hg) Es) as (q & scq & Hq & HP). rewrite Hp in Hq. injection Hq as <- <-. congruence.
Qed.

Lemma fin_not_new rest a t : fin rest <> SNew a t.
Proof. destruct rest; discriminate. Qed.

Lemma step_script progs s s' j p sc p' sc' :
  Inv progs s -> sstep j s = Some s' ->
  nth_error (y_thr s) j = Some (p, sc) -> nth_error (y_thr s') j = Some (p', sc') ->
  (sc' = sc /\ forall a t, p' <> SNew a t) \/ (p = SIdle /\ exists o, sc = o :: sc' /\ p' = first_pc o).
Proof.
  intros HI H Hp Hp'. pose proof (proj1 (i_loc _ _ HI _ _ _ Hp)) as HL. unfold sstep in H. rewrite Hp in H.
  destruct p; cbn in H; sdestr_cond H; try discriminate H; injection H as <-; cbn [y_thr set] in Hp';
    try (rewrite (nth_error_upd_eq _ _ _ _ Hp) in Hp'; injection Hp' as <- <-);
    try (rewrite (nth_error_snoc_old _ _ _ _ (nth_error_upd_eq _ _ _ _ Hp)) in Hp'; injection Hp' as <- <-).
  all: try solve [left; split; [reflexivity|intros; try discriminate; try (destruct rest; discriminate)]].
  all: try solve [right; split; auto; eauto].
  - left. split; auto. intros a t ->. cbn in HL. exact HL.
  - left. split; auto. intros a t. destruct (f_inctx f); discriminate.
  - left. split; auto. intros a0 t. apply fin_not_new.
  - left. split; auto. intros a t. destruct (f_inctx f); [discriminate|apply fin_not_new].
  - left. split; auto. intros a t. destruct v; discriminate.
Qed.

Lemma step_fut_back s s' i k f' : sstep i s = Some s' -> getf s' k = Some f' ->
  (exists f, getf s k = Some f) \/
  (k = length (y_futs s) /\ exists a t sc, nth_error (y_thr s) i = Some (SNew a t, sc) /\ f' = new_fut a t i (y_now s)).
Proof.
  intros H Hg'. sstep_inv H; fut_cases Hg'; unfold getf in *; eauto 8.
Qed.

(** the stepping thread is thread j *)
Lemma cov_self progs s s' j : Inv progs s -> sstep j s = Some s' -> CovThread s j -> CovThread s' j.
Proof.
  intros HI H HC p' sc' Hp'.
  destruct (step_frame _ _ _ _ HI H) as [_ Hfr].
  destruct (nth_error (y_thr s) j) as [[p sc]|] eqn:Hp; [|unfold sstep in H; rewrite Hp in H; discriminate].
  destruct (HC _ _ Hp) as (Hcs & Hnew & Howe).
  pose proof (step_script _ _ _ _ _ _ _ _ HI H Hp Hp') as Hsc.
  split; [|split].
  - destruct Hsc as [[-> _]|(_ & o & -> & _)]; auto. eapply covered_tail; eauto.
  - intros a t ->. destruct Hsc as [[_ Hn]|(_ & o & -> & Ho)]; [exfalso; eapply Hn; eauto|].
    destruct o; try discriminate. injection Ho as <- <-. cbn in Hcs. tauto.
  - intros k f' Hg' Ho' Hc'.
    destruct (step_fut_back _ _ _ _ _ H Hg') as [(f & Hg)|(-> & a & t & sc0 & Hp0 & ->)].
    + destruct (Hfr _ _ Hg) as (f2 & Hg2 & Hle). rewrite Hg' in Hg2. injection Hg2 as <-. destruct Hle.
      assert (Hc : f_closed f = false) by (destruct (f_closed f) eqn:E; auto; rewrite le_closed in Hc'; auto).
      rewrite le_owner in Ho'. rewrite le_asker.
      destruct (Howe _ _ Hg Ho' Hc) as [(ord & Hin)|[(ord & ->)|Hpen]].
      * (* a clean-up is still in the script *)
        destruct Hsc as [[-> _]|(_ & o & -> & ->)]; [left; eauto|].
        destruct Hin as [->|Hin]; [right; left; cbn; eauto|left; eauto].
      * (* the clean-up copies the keys now *)
        right; right.
        assert (Hs : f_sent f = true) by (apply (owner_not_asking _ _ _ _ (SDCopy (f_asker f) ord) sc HI Hg); [rewrite Ho'; exact Hp|reflexivity]).
        destruct (f_reg _ _ _ _ (i_fut _ _ HI _ _ Hg) Hs Hc) as [_ Hin].
        unfold sstep in H. rewrite Hp in H. injection H as <-. cbn [y_thr set] in Hp'.
        rewrite (nth_error_upd_eq _ _ _ _ Hp) in Hp'. injection Hp' as <- <-.
        apply fin_pending. apply dcopy_keys_In. exact Hin.
      * (* in the loop *)
        right; right.
        destruct (pending_self _ _ _ _ _ _ _ HI H Hp Hpen) as [(q & scq & Hq & HP)|(f1 & Hg1 & [Hi|(v & rest & ->)])].
        -- rewrite Hp' in Hq. injection Hq as <- <-. exact HP.
        -- exfalso. rewrite Hg in Hg1. injection Hg1 as <-.
           assert (Hs : f_sent f = true).
           { apply (owner_not_asking _ _ _ _ p sc HI Hg); [rewrite Ho'; exact Hp|]. destruct p; cbn in Hpen; try tauto; reflexivity. }
           destruct (f_reg _ _ _ _ (i_fut _ _ HI _ _ Hg) Hs Hc). congruence.
        -- exfalso. destruct (cas_closes _ _ _ _ _ _ _ Hp H) as (f3 & Hg3 & Hc3). rewrite Hg' in Hg3. injection Hg3 as <-. congruence.
    + (* the future was created by this step: the Ask's clean-up is still in the script *)
      rewrite Hp in Hp0. injection Hp0 as -> <-. cbn [f_asker new_fut].
      destruct Hsc as [[-> _]|(E & _)]; [|discriminate]. left. eapply Hnew; eauto.
Qed.

(** another thread steps *)
Lemma cov_other progs s s' i j : Inv progs s -> sstep i s = Some s' -> i <> j ->
  nth_error (y_thr s) j <> None -> CovThread s j -> CovThread s' j.
Proof.
  intros HI H Nij Hex HC p sc Hp'.
  destruct (step_frame _ _ _ _ HI H) as [_ Hfr].
  assert (Hp : nth_error (y_thr s) j = Some (p, sc)).
  { destruct (step_thr_inv _ _ _ _ _ H Hp') as [->|[Hold|(-> & _)]]; [congruence|auto|].
    exfalso. apply Hex. apply nth_error_None. lia. }
  destruct (HC _ _ Hp) as (Hcs & Hnew & Howe). split; auto. split; auto.
  intros k f' Hg' Ho' Hc'.
  destruct (step_fut_back _ _ _ _ _ H Hg') as [(f & Hg)|(-> & a & t & sc0 & Hp0 & ->)].
  - destruct (Hfr _ _ Hg) as (f2 & Hg2 & Hle). rewrite Hg' in Hg2. injection Hg2 as <-. destruct Hle.
    assert (Hc : f_closed f = false) by (destruct (f_closed f) eqn:E; auto; rewrite le_closed in Hc'; auto).
    rewrite le_owner in Ho'. rewrite le_asker. apply (Howe _ _ Hg Ho' Hc).
  - cbn in Ho'. congruence.
Qed.

Lemma thr_exists_step s s' i j : sstep i s = Some s' -> nth_error (y_thr s) j <> None -> nth_error (y_thr s') j <> None.
Proof.
  intros H Hex. destruct (nth_error (y_thr s) j) as [x|] eqn:E; [|congruence].
  destruct (Nat.eq_dec j i) as [->|N].
  - sstep_inv H; cbn [y_thr set]; try (rewrite (nth_error_upd_eq _ _ _ _ Hp); discriminate).
    rewrite (nth_error_snoc_old _ _ _ _ (nth_error_upd_eq _ _ _ _ Hp)). discriminate.
  - rewrite (step_thr_other _ _ _ _ _ H N E). discriminate.
Qed.

Lemma cov_run progs j sched s : Inv progs s -> nth_error (y_thr s) j <> None -> CovThread s j ->
  CovThread (srun sched s) j /\ nth_error (y_thr (srun sched s)) j <> None.
Proof.
  revert s; induction sched as [|a l IH]; intros s HI Hex HC; cbn; auto.
  apply IH; [apply sdo_inv; auto| |]; destruct a as [|i]; cbn; auto.
  - destruct (sstep i s) eqn:E; auto. eapply thr_exists_step; eauto.
  - destruct (sstep i s) eqn:E; auto. destruct (Nat.eq_dec i j) as [->|N]; [eapply cov_self; eauto|eapply cov_other; eauto].
Qed.

Lemma cov_reach progs j sc0 s : nth_error progs j = Some sc0 -> covered_script sc0 -> sreach progs s -> CovThread s j.
Proof.
  intros Hj Hc [sched <-]. apply (cov_run progs j sched (sinit progs)); [apply init_inv| |eapply cov_init; eauto].
  cbn. rewrite nth_error_map, Hj. discriminate.
Qed.

(** when a goroutine whose script is covered has run its whole script, every future it created has been completed by
    somebody (its CAS is won: the result is decided) *)
Theorem covered_finished_closed progs j sc0 s k f :
  nth_error progs j = Some sc0 -> covered_script sc0 -> sreach progs s ->
  nth_error (y_thr s) j = Some (SIdle, []) -> getf s k = Some f -> f_owner f = j -> f_closed f = true.
Proof.
  intros Hj Hc Hr Hfin Hg Ho. destruct (f_closed f) eqn:E; auto. exfalso.
  destruct (cov_reach _ _ _ _ Hj Hc Hr _ _ Hfin) as (_ & _ & Howe).
  destruct (Howe _ _ Hg Ho E) as [(ord & [])|[(ord & Hx)|[]]]. discriminate.
Qed.

(** ... and at quiescence it is completed and registered nowhere *)
Theorem covered_finished_done progs j sc0 s k f :
  nth_error progs j = Some sc0 -> covered_script sc0 -> sreach progs s -> sterminal s ->
  nth_error (y_thr s) j = Some (SIdle, []) -> getf s k = Some f -> f_owner f = j ->
  f_done f = true /\ f_inctx f = false /\ (forall a, ~ In k (ag_get a (y_agents s))) /\
  exists v, f_final f = Some v /\ fres f = vpair v /\ sorigin progs s k f v.
Proof.
  intros Hj Hc Hr Ht Hfin Hg Ho. pose proof (sreach_inv _ _ Hr) as HI.
  pose proof (covered_finished_closed _ _ _ _ _ _ Hj Hc Hr Hfin Hg Ho) as Hcl.
  destruct (sys_terminal_closed _ _ _ _ HI Ht Hg Hcl) as (Hd & Hi & _ & v & Hv & Hres).
  split; auto. split; auto. split; [apply (sys_no_registration_left _ _ _ _ HI Ht Hg Hd)|].
  exists v. split; auto. split; auto. apply (f_orig _ _ _ _ (i_fut _ _ HI _ _ Hg)). auto.
Qed.
