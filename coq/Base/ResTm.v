From Coq Require Import List NArith.
From Vivid Require Import Base.Tm Codec.Prim.
Import ListNotations.
Definition err_code (e : err) : N :=
  match e with EEOF => 1 | EOverflow => 2 | ETooLarge => 3 | EInvalid => 4 | EUnsupported => 5 end%N.
Definition tres {A} (f : A -> tm) (r : res A) : tm :=
  match r with Ok a => TL [TN 0%N; f a] | Err e => TL [TN 1%N; TN (err_code e)] end.
