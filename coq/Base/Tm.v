(** Generic terms: the only data format that crosses the model/implementation boundary.
    The Go harness prints its inputs and the observed outputs as terms; every component
    model exposes [run_<comp> : tm -> tm]; the OCaml driver (and [vm_compute] inside coqc)
    evaluates it and the outputs are compared syntactically. *)
From Coq Require Import List NArith ZArith Bool.
Import ListNotations.

Inductive tm : Type :=
| TN (n : N)            (* unsigned number, printed in hex *)
| TB (bs : list N)      (* byte string, printed as #hex *)
| TL (l : list tm).     (* list / tuple *)

Definition tm_err (code : N) : tm := TL [TN 999999%N; TN code].   (* "model cannot interpret the input" *)

Definition tbool (b : bool) : tm := TN (if b then 1 else 0)%N.
Definition tz (z : Z) : tm :=
  match z with
  | Z0 => TL [TN 0; TN 0]
  | Zpos p => TL [TN 0; TN (Npos p)]
  | Zneg p => TL [TN 1; TN (Npos p)]
  end%N.
Definition topt {A} (f : A -> tm) (o : option A) : tm :=
  match o with None => TL [] | Some a => TL [f a] end.
Definition tlist {A} (f : A -> tm) (l : list A) : tm := TL (map f l).
Definition tpair {A B} (f : A -> tm) (g : B -> tm) (p : A * B) : tm := TL [f (fst p); g (snd p)].

Definition get_n (t : tm) : option N := match t with TN n => Some n | _ => None end.
Definition get_b (t : tm) : option (list N) := match t with TB b => Some b | _ => None end.
Definition get_l (t : tm) : option (list tm) := match t with TL l => Some l | _ => None end.
Definition get_bool (t : tm) : option bool :=
  match t with TN 0%N => Some false | TN 1%N => Some true | _ => None end.
Definition get_z (t : tm) : option Z :=
  match t with
  | TL [TN 0%N; TN n] => Some (Z.of_N n)
  | TL [TN 1%N; TN n] => Some (- Z.of_N n)%Z
  | _ => None
  end.

Fixpoint map_opt {A B} (f : A -> option B) (l : list A) : option (list B) :=
  match l with
  | [] => Some []
  | x :: xs => match f x, map_opt f xs with
               | Some y, Some ys => Some (y :: ys)
               | _, _ => None
               end
  end.
Definition get_list {A} (f : tm -> option A) (t : tm) : option (list A) :=
  match t with TL l => map_opt f l | _ => None end.
Definition get_pair {A B} (f : tm -> option A) (g : tm -> option B) (t : tm) : option (A * B) :=
  match t with
  | TL [a; b] => match f a, g b with Some x, Some y => Some (x, y) | _, _ => None end
  | _ => None
  end.

(** syntactic equality on terms (for the in-Coq cross-check of the extracted model) *)
Fixpoint tm_eqb (a b : tm) {struct a} : bool :=
  match a, b with
  | TN x, TN y => N.eqb x y
  | TB x, TB y => (fix go (l1 l2 : list N) : bool :=
                     match l1, l2 with
                     | [], [] => true
                     | p :: r1, q :: r2 => N.eqb p q && go r1 r2
                     | _, _ => false
                     end) x y
  | TL x, TL y => (fix go (l1 l2 : list tm) {struct l1} : bool :=
                     match l1, l2 with
                     | [], [] => true
                     | p :: r1, q :: r2 => tm_eqb p q && go r1 r2
                     | _, _ => false
                     end) x y
  | _, _ => false
  end.
