(** Updating one node of a clean world (and sending the GossipMessages of its handler) preserves [cinv]. *)
From Coq Require Import List NArith ZArith Lia Bool.
From Coq Require Import ZifyN ZifyNat ZifyBool.
From stdpp Require Import gmap.
From Vivid Require Import Codec.Prim Cluster.VV Cluster.VVProofs Cluster.View Cluster.ViewProofs
  Cluster.Gossip Cluster.GossipProofs Cluster.GossipClean Cluster.GossipCleanOps Cluster.GossipCleanInv
  Cluster.GossipCleanStep.
Local Open Scope N_scope.

Definition upd (w : world) (n' : node) (out : list (addr * view)) : world :=
  add_net (put_node w n') (stamp (nd_addr n') out).

(** what a handler establishes about the node it leaves behind, stated against the world BEFORE the handler, in
    which the node [n] it started from is running *)
Record npre (G' : glog) (w : world) (n n' : node) : Prop := {
  np_cfg : nd_cfg n' = nd_cfg n;
  np_self_wf : wf_state (nd_self n');
  np_self_id : ns_id (nd_self n') = nd_id n;
  np_self_addr : ns_addr (nd_self n') = nd_addr n;
  np_fdoff : nd_fd_on n' = false;
  np_view : vinv0 G' w (nd_view n');
  np_own : vown' w (nd_id n) (nd_view n');
  np_vle : vle (vw_vv (nd_view n)) (vw_vv (nd_view n'));
  np_last : forall t q, nd_last n' !! t = Some q -> exists m, w_nodes w !! t = Some m /\ vle q (vw_vv (nd_view m));
  np_joined : nd_gossip_on n' = true -> nd_retry_on n' = false /\ is_Some (vw_members (nd_view n') !! nd_id n);
  np_cnt : forall k, vget (vw_vv (nd_view n')) k <= N.of_nat (length G')
}.

Lemma vinv0_mono G G' w w' v :
  vinv0 G w v -> wext w w' -> (forall e, e ∈ G -> e ∈ G') ->
  (forall e, e ∈ G' -> sel (vw_vv v) e -> e ∈ G) -> vinv0 G' w' v.
Proof.
  intros [Wv Iv Tv Jv Cv Ev Pv Mv CCv] Hx Hsub Hsel. split; try assumption.
  - eapply truthful_mono; eassumption.
  - intros m s Hs. destruct (Jv m s Hs) as (e & H1 & H2 & H3 & H4). exists e. split; [apply Hsub; exact H1|auto].
  - intros e He Hs. apply Cv; [apply Hsel; assumption|exact Hs].
Qed.

Lemma ninv_mono G G' w w' a n :
  ninv G w a n -> wext w w' -> log_ext w G G' -> ninv G' w' a n.
Proof.
  intros [N1 N2 N3 N4 N5 N6 N7 N8 N9 N10 N11 N12] Hx Hl. split; try assumption.
  - eapply vinv_mono; eassumption.
  - intros t q Hq. destruct (N10 t q Hq) as (m & Hm & Hle). destruct (Hx _ _ Hm) as (m' & Hm' & _ & L).
    exists m'. split; [exact Hm'|eapply vle_trans; eassumption].
Qed.

Lemma lookup_upd_nodes w n' out b : w_nodes (upd w n' out) !! b = if decide (b = nd_addr n') then Some n' else w_nodes w !! b.
Proof.
  unfold upd, add_net, put_node; cbn. destruct (decide (b = nd_addr n')) as [->|Hne]; [apply lookup_insert|apply lookup_insert_ne; congruence].
Qed.

Lemma elem_upd_net w n' out p :
  p ∈ w_net (upd w n' out) <-> p ∈ w_net w \/ exists d v, (d, v) ∈ out /\ p = Pkt (nd_addr n') d v.
Proof.
  unfold upd, add_net, put_node, stamp; cbn. rewrite elem_of_app. split; intros [H|H]; auto; right.
  - apply elem_of_list_fmap in H as ([d v] & -> & H). exists d, v. auto.
  - destruct H as (d & v & H & ->). apply elem_of_list_fmap. exists (d, v). auto.
Qed.

Theorem cinv_upd G G' w a n n' out :
  cinv G w -> w_nodes w !! a = Some n -> npre G' w n n' -> pub_ok n' ->
  (forall e, e ∈ G -> e ∈ G') -> (length G <= length G')%nat ->
  (forall e, e ∈ G' -> e ∈ G \/
     (g_i e = nd_id n /\ vget (vw_vv (nd_view n)) (nd_id n) < g_c e /\ g_c e <= vget (vw_vv (nd_view n')) (nd_id n))) ->
  (forall d v, (d, v) ∈ out -> v = nd_view n') ->
  cinv G' (upd w n' out) /\ wext w (upd w n' out) /\ nd_addr n' = a.
Proof.
  intros Hc Ha Hp Hpub Hsub Hlen Hnew Hout.
  pose proof (ci_nodes _ _ Hc a n Ha) as Hn.
  assert (Ea : nd_addr n' = a).
  { unfold nd_addr. rewrite (np_cfg _ _ _ _ Hp). apply (ni_addr _ _ _ _ Hn). }
  assert (Eid : nd_id n' = nd_id n) by (unfold nd_id; rewrite (np_cfg _ _ _ _ Hp); reflexivity).
  set (w' := upd w n' out).
  assert (Hx : wext w w').
  { intros b m Hb. unfold w'. rewrite lookup_upd_nodes, Ea. destruct (decide (b = a)) as [->|Hne].
    - rewrite Ha in Hb. injection Hb as <-. exists n'. split; [reflexivity|]. split; [exact Eid|apply (np_vle _ _ _ _ Hp)].
    - exists m. split; [exact Hb|]. split; [reflexivity|apply vle_refl]. }
  assert (Hl : log_ext w G G').
  { split; [exact Hsub|]. intros e He. destruct (Hnew e He) as [Ho|(Ei & Hlt & _)]; [left; exact Ho|right].
    split; [lia|]. intros b m Hb Hid. rewrite Ei in Hid |- *.
    assert (b = a) by (eapply (ci_uniq _ _ Hc); eassumption). subst b. rewrite Ha in Hb. injection Hb as <-. exact Hlt. }
  assert (Hn' : w_nodes w' !! a = Some n') by (unfold w'; rewrite lookup_upd_nodes, Ea, decide_True by reflexivity; reflexivity).
  (* the new node's view against the new world *)
  assert (Hv' : vinv G' w' (nd_view n')).
  { apply vinv0_vinv.
    - destruct (np_view _ _ _ _ Hp) as [Wv Iv Tv Jv Cv Ev Pv Mv CCv]. split; try assumption. eapply truthful_mono; eassumption.
    - intros k Hpos. destruct (np_own _ _ _ _ Hp k Hpos) as [->|(b & m & Hb & Hid & Hle)].
      + exists a, n'. split; [exact Hn'|]. split; [exact Eid|lia].
      + destruct (Hx _ _ Hb) as (m' & Hm' & Hid' & L). exists b, m'. split; [exact Hm'|]. split; [congruence|]. specialize (L k). lia. }
  split; [|split; [exact Hx|exact Ea]]. split.
  - intros b m Hb. unfold w' in Hb. rewrite lookup_upd_nodes, Ea in Hb. destruct (decide (b = a)) as [->|Hne].
    + injection Hb as <-. destruct Hn as [N1 N2 N3 N4 N5 N6 N7 N8 N9 N10 N11 N12]. split; try assumption.
      * apply (np_self_wf _ _ _ _ Hp).
      * rewrite Eid. apply (np_self_id _ _ _ _ Hp).
      * rewrite (np_self_addr _ _ _ _ Hp). exact N1.
      * rewrite (np_cfg _ _ _ _ Hp). exact N6.
      * rewrite Eid. exact N7.
      * apply (np_fdoff _ _ _ _ Hp).
      * intros t q Hq. destruct (np_last _ _ _ _ Hp t q Hq) as (m & Hm & Hle). destruct (Hx _ _ Hm) as (m' & Hm' & _ & L).
        exists m'. split; [exact Hm'|eapply vle_trans; eassumption].
      * rewrite Eid. apply (np_joined _ _ _ _ Hp).
    + eapply ninv_mono; [apply (ci_nodes _ _ Hc); exact Hb|exact Hx|exact Hl].
  - intros p Hp'. apply elem_upd_net in Hp' as [Hold|(d & v & Hdv & ->)].
    + destruct (ci_net _ _ Hc p Hold) as (Hv & m & Hm & Hle). split; [eapply vinv_mono; eassumption|].
      destruct (Hx _ _ Hm) as (m' & Hm' & _ & L). exists m'. split; [exact Hm'|eapply vle_trans; eassumption].
    + cbn [p_view p_src]. rewrite (Hout d v Hdv). split; [exact Hv'|]. exists n'. rewrite Ea. split; [exact Hn'|apply vle_refl].
  - intros b1 b2 m1 m2 H1 H2 Hid. unfold w' in H1, H2. rewrite lookup_upd_nodes, Ea in H1, H2.
    destruct (decide (b1 = a)) as [->|N1], (decide (b2 = a)) as [->|N2]; try reflexivity.
    + injection H1 as <-. rewrite Eid in Hid. symmetry. eapply (ci_uniq _ _ Hc); [exact H2|exact Ha|congruence].
    + injection H2 as <-. rewrite Eid in Hid. eapply (ci_uniq _ _ Hc); [exact H1|exact Ha|congruence].
    + eapply (ci_uniq _ _ Hc); eassumption.
  - intros e He. destruct (Hnew e He) as [Ho|(Ei & Hlt & Hle)].
    + destruct (ci_log _ _ Hc e Ho) as (Hpos & b & m & Hb & Hid & Hc').
      split; [exact Hpos|]. destruct (Hx _ _ Hb) as (m' & Hm' & Hid' & L). exists b, m'. split; [exact Hm'|].
      split; [congruence|]. specialize (L (g_i e)). lia.
    + split; [lia|]. exists a, n'. split; [exact Hn'|]. split; [congruence|]. rewrite Ei. exact Hle.
  - intros b m k Hb. unfold w' in Hb. rewrite lookup_upd_nodes, Ea in Hb. destruct (decide (b = a)) as [->|Hne].
    + injection Hb as <-. apply (np_cnt _ _ _ _ Hp).
    + pose proof (ci_cnt _ _ Hc b m k Hb). lia.
Qed.

(** * Coverage: what a fair round accumulates

    [covered w n t]: the node at [t] already has a vector that dominates [n]'s, or a GossipMessage that does is on
    its way to [t].  [rinv S w]: every node of [S] whose gossip loop runs has all its gossip targets covered. *)
Definition covered (w : world) (n : node) (t : addr) : Prop :=
  forall m, w_nodes w !! t = Some m ->
    vle (vw_vv (nd_view n)) (vw_vv (nd_view m)) \/
    exists p, p ∈ w_net w /\ p_dst p = t /\ vle (vw_vv (nd_view n)) (vw_vv (p_view p)).

Definition rinv (S : list addr) (w : world) : Prop :=
  forall a n, a ∈ S -> w_nodes w !! a = Some n -> nd_gossip_on n = true ->
    forall t, t ∈ select_targets n -> covered w n t.

Lemma rinv_nil w : rinv [] w.
Proof. intros a n H. inversion H. Qed.

Lemma select_targets_not_self n t : t ∈ select_targets n -> t <> nd_addr n.
Proof. intros H. apply select_targets_spec in H. tauto. Qed.

Lemma select_targets_ext n n' : nd_cfg n = nd_cfg n' -> nd_view n = nd_view n' -> select_targets n = select_targets n'.
Proof. intros E1 E2. unfold select_targets, nd_addr. rewrite E1, E2. reflexivity. Qed.

Lemma rinv_upd S S' w w1 a n n' out :
  w_nodes w1 = w_nodes w ->
  (forall q, q ∈ w_net w -> q ∈ w_net w1 \/ (p_dst q = a /\ vle (vw_vv (p_view q)) (vw_vv (nd_view n')))) ->
  w_nodes w !! a = Some n -> nd_addr n' = a -> vle (vw_vv (nd_view n)) (vw_vv (nd_view n')) ->
  (forall t q m, nd_last n' !! t = Some q -> w_nodes (upd w1 n' out) !! t = Some m -> vle q (vw_vv (nd_view m))) ->
  rinv S w ->
  (forall b, b ∈ S' -> b ∈ S \/ b = a) ->
  ((veq (vw_vv (nd_view n')) (vw_vv (nd_view n)) /\ (forall t, t ∈ select_targets n' -> t ∈ select_targets n) /\
    (nd_gossip_on n' = true -> nd_gossip_on n = true) /\ (a ∈ S' -> a ∈ S))
   \/ (forall t, t ∈ select_targets n' ->
         (t, nd_view n') ∈ out \/ exists q, nd_last n' !! t = Some q /\ vle (vw_vv (nd_view n')) q)) ->
  rinv S' (upd w1 n' out).
Proof.
  intros En Hnet Ha Ea Hle Hlast Hr Hsub Hmode b m Hb Hm Hg t Ht mt Hmt.
  rewrite lookup_upd_nodes, Ea in Hm, Hmt.
  assert (Hold : forall q, q ∈ w_net w1 -> q ∈ w_net (upd w1 n' out)) by (intros q Hq; apply elem_upd_net; left; exact Hq).
  destruct (decide (b = a)) as [->|Hnb].
  - injection Hm as <-. pose proof (select_targets_not_self _ _ Ht) as Hta. rewrite Ea in Hta.
    rewrite decide_False in Hmt by exact Hta. rewrite En in Hmt.
    destruct Hmode as [(Hveq & Htg & Hgo & HS)|Hbc].
    + destruct (Hr a n (HS Hb) Ha (Hgo Hg) t (Htg t Ht) mt Hmt) as [L|(p & Hp & Hd & L)].
      * left. eapply vle_trans; [apply veq_vle; exact Hveq|exact L].
      * right. exists p. split; [|split; [exact Hd|eapply vle_trans; [apply veq_vle; exact Hveq|exact L]]].
        destruct (Hnet p Hp) as [Hin|[Hd' _]]; [apply Hold; exact Hin|congruence].
    + destruct (Hbc t Ht) as [Hin|(q & Hq & L)].
      * right. exists (Pkt a t (nd_view n')). split; [|split; [reflexivity|apply vle_refl]].
        apply elem_upd_net. right. exists t, (nd_view n'). rewrite Ea. auto.
      * left. eapply vle_trans; [exact L|]. eapply Hlast; [exact Hq|]. rewrite lookup_upd_nodes, Ea, decide_False by exact Hta. rewrite En. exact Hmt.
  - rewrite En in Hm. destruct (Hsub b Hb) as [HbS|]; [|contradiction].
    destruct (decide (t = a)) as [->|Hta].
    + injection Hmt as <-. destruct (Hr b m HbS Hm Hg a Ht n Ha) as [L|(p & Hp & Hd & L)].
      * left. eapply vle_trans; eassumption.
      * destruct (Hnet p Hp) as [Hin|[_ L']].
        -- right. exists p. split; [apply Hold; exact Hin|]. split; [exact Hd|exact L].
        -- left. eapply vle_trans; eassumption.
    + rewrite En in Hmt. destruct (Hr b m HbS Hm Hg t Ht mt Hmt) as [L|(p & Hp & Hd & L)]; [left; exact L|].
      right. exists p. split; [|split; [exact Hd|exact L]].
      destruct (Hnet p Hp) as [Hin|[Hd' _]]; [apply Hold; exact Hin|congruence].
Qed.

Lemma rinv_sub S S' w : rinv S w -> (forall b, b ∈ S' -> b ∈ S) -> rinv S' w.
Proof. intros H Hs a n Ha. apply H. apply Hs. exact Ha. Qed.
