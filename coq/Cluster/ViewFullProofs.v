(** Proofs about the complete NodeState / ClusterView (Cluster/ViewFull.v): [erase] commutes with every
    operation (so all theorems about the core model are theorems about the complete values), a merge
    moves complete states only, nil handling. *)
From Coq Require Import List NArith ZArith Lia Bool.
From Coq Require Import ZifyN ZifyNat ZifyBool.
From stdpp Require Import gmap sorting.
From Vivid Require Import Codec.Prim Cluster.VV Cluster.VVProofs Cluster.View Cluster.ViewProofs Cluster.ViewFull.
Local Open Scope N_scope.

(** * the core merge is the length test followed by [merge_body] *)
Lemma view_merge_body sk st now v o :
  view_merge sk st now v o =
  if bool_decide (size (vw_members o) = 0%nat) then (v, false) else merge_body sk st now v o.
Proof. reflexivity. Qed.

(** * erase *)

Lemma erase_members_lookup (m : fmembers) k : erase_members m !! k = m !! k ≫= fmap fs_core.
Proof. unfold erase_members. apply lookup_omap. Qed.

Lemma erase_members_empty : erase_members ∅ = ∅.
Proof. apply map_eq. intros k. rewrite erase_members_lookup, !lookup_empty. reflexivity. Qed.

Lemma erase_members_insert (m : fmembers) k s :
  erase_members (<[k := Some s]> m) = <[k := fs_core s]> (erase_members m).
Proof.
  apply map_eq. intros j. rewrite erase_members_lookup.
  destruct (decide (j = k)) as [->|Hne].
  - rewrite !lookup_insert. reflexivity.
  - rewrite !lookup_insert_ne by congruence. rewrite erase_members_lookup. reflexivity.
Qed.

Lemma erase_members_delete (m : fmembers) k : erase_members (delete k m) = delete k (erase_members m).
Proof.
  apply map_eq. intros j. rewrite erase_members_lookup.
  destruct (decide (j = k)) as [->|Hne].
  - rewrite !lookup_delete. reflexivity.
  - rewrite !lookup_delete_ne by congruence. rewrite erase_members_lookup. reflexivity.
Qed.

Lemma erase_with_base v ms b :
  erase (f_with_base v ms b) =
  View (vw_epoch b) (vw_ts b) (erase_members (default ∅ ms)) (vw_healthy b) (vw_unhealthy b) (vw_quorum b)
       (vw_vv b) (vw_proto b) (vw_maxent b).
Proof. reflexivity. Qed.

Lemma erase_with_base_set v ms b :
  erase (f_with_base v ms b) = set_members b (erase_members (default ∅ ms)).
Proof. reflexivity. Qed.

(** no nil entry (a nil map is allowed) *)
Definition nonil_entries (v : fview) : Prop := forall k, fv_map v !! k <> Some None.

Lemma nonil_nonil_entries v : nonil v -> nonil_entries v.
Proof. intros (m & Hm & H) k. unfold fv_map. rewrite Hm. apply H. Qed.

Lemma erase_members_size_nonil (m : fmembers) :
  (forall k, m !! k <> Some None) -> size (erase_members m) = 0%nat -> size m = 0%nat.
Proof.
  intros Hn Hs. apply map_size_empty_inv in Hs. apply map_size_empty_iff. apply map_eq. intros k.
  rewrite lookup_empty. apply (f_equal (fun x => x !! k)) in Hs.
  rewrite erase_members_lookup, lookup_empty in Hs.
  destruct (m !! k) as [[s|]|] eqn:E; [discriminate|exfalso; apply (Hn k E)|reflexivity].
Qed.

Lemma erase_members_size_le (m : fmembers) : size m = 0%nat -> size (erase_members m) = 0%nat.
Proof. intros H. apply map_size_empty_inv in H. subst m. rewrite erase_members_empty. apply map_size_empty. Qed.

(** * the member loop *)

Lemma f_merge_members_lookup (a o : fmembers) k : f_merge_members a o !! k = f_pick (a !! k) (o !! k).
Proof. unfold f_merge_members. rewrite lookup_merge. destruct (a !! k), (o !! k); reflexivity. Qed.

Lemma erase_f_merge_members (a o : fmembers) :
  erase_members (f_merge_members a o) = merge_members (erase_members a) (erase_members o).
Proof.
  apply map_eq. intros k. rewrite merge_members_lookup, !erase_members_lookup, f_merge_members_lookup.
  destruct (a !! k) as [[es|]|], (o !! k) as [[xs|]|]; cbn; try reflexivity.
  destruct (isnewer (fs_core xs) (fs_core es)); reflexivity.
Qed.

(** * erase commutes with the operations *)

Theorem f_recompute_erase v : erase (f_recompute v) = recompute (erase v).
Proof. unfold f_recompute. rewrite erase_with_base_set. destruct v as [i [m|] ? ? ? ? ? ? ? ?]; reflexivity. Qed.

Theorem f_snapshot_erase v : erase (f_snapshot v) = view_snapshot (erase v).
Proof.
  unfold f_snapshot, view_snapshot. rewrite erase_with_base_set. cbn [default from_option id].
  match goal with |- set_members _ ?m = _ => assert (Hm : m = erase_members (fv_map v)) end.
  { apply map_eq. intros k. rewrite !erase_members_lookup, lookup_omap.
    destruct (fv_map v !! k) as [[s|]|]; reflexivity. }
  rewrite Hm. reflexivity.
Qed.

Theorem f_snapshot_nonil v : nonil (f_snapshot v).
Proof.
  eexists. split; [reflexivity|]. intros k. rewrite lookup_omap.
  destruct (fv_map v !! k) as [[s|]|]; discriminate.
Qed.

Lemma set_members_erase v : set_members (erase v) (erase_members (fv_map v)) = erase v.
Proof. reflexivity. Qed.

Theorem f_add_erase v s : erase (f_add v s) = view_add (erase v) (fs_core s).
Proof.
  unfold f_add, view_add. cbn [vw_members erase]. rewrite erase_members_lookup.
  assert (Hins : erase (f_recompute (f_with_base v (Some (<[ns_id (fs_core s) := Some (f_clone s)]> (fv_map v))) (erase v))) =
                 recompute (set_members (erase v) (<[ns_id (fs_core s) := fs_core s]> (erase_members (fv_map v))))).
  { rewrite f_recompute_erase, erase_with_base_set. cbn [default from_option id]. rewrite erase_members_insert. reflexivity. }
  destruct (fv_map v !! ns_id (fs_core s)) as [[es|]|]; cbn [mbind option_bind fmap option_fmap option_map f_isnewer].
  - destruct (isnewer (fs_core s) (fs_core es)); [exact Hins|]. rewrite erase_with_base_set. reflexivity.
  - exact Hins.
  - exact Hins.
Qed.

Lemma erase_new_view i now mx : erase (f_new_view i now mx) = new_view now mx.
Proof. unfold erase, f_new_view, new_view, fv_map. cbn [fv_members default from_option id fv_epoch fv_ts fv_healthy fv_unhealthy fv_quorum fv_vv fv_proto fv_maxent]. rewrite erase_members_empty. reflexivity. Qed.

Lemma f_new_view_nonil i now mx : nonil (f_new_view i now mx).
Proof. exists ∅. split; [reflexivity|]. intros k. rewrite lookup_empty. discriminate. Qed.

Theorem f_add_nonil v s : nonil v -> nonil (f_add v s).
Proof.
  intros (m & Hm & H).
  assert (Em : fv_map v = m) by (unfold fv_map; rewrite Hm; reflexivity).
  assert (Hins : forall b, nonil (f_recompute (f_with_base v (Some (<[ns_id (fs_core s) := Some (f_clone s)]> m)) b))).
  { intros b. eexists. split; [reflexivity|]. intros j. destruct (decide (j = ns_id (fs_core s))) as [->|Hne].
    - rewrite lookup_insert. discriminate.
    - rewrite lookup_insert_ne by congruence. apply H. }
  unfold f_add. rewrite Em. destruct (m !! ns_id (fs_core s)) as [e|]; [destruct (f_isnewer s e)|]; try apply Hins.
  exists m. split; [reflexivity|exact H].
Qed.

Theorem f_remove_erase v nid :
  fv_map v !! nid <> Some None -> erase (f_remove v nid) = view_remove (erase v) nid.
Proof.
  intros Hn. unfold f_remove, view_remove. cbn [vw_members erase]. rewrite erase_members_lookup.
  destruct (fv_map v !! nid) as [[es|]|]; cbn; [|contradiction|reflexivity].
  rewrite f_recompute_erase, erase_with_base_set. cbn [default from_option id]. rewrite erase_members_delete. reflexivity.
Qed.

(** the merge: for an argument view without nil entries (nil map allowed) the complete merge erases to
    the core merge of the erasures, same `changed` *)
Theorem f_merge_erase sk st now v o :
  nonil_entries o ->
  erase (fst (f_merge sk st now v o)) = fst (view_merge sk st now (erase v) (erase o)) /\
  snd (f_merge sk st now v o) = snd (view_merge sk st now (erase v) (erase o)).
Proof.
  intros Hn. unfold f_merge. rewrite view_merge_body.
  destruct (fv_members o) as [om|] eqn:Eo.
  - assert (Em : fv_map o = om) by (unfold fv_map; rewrite Eo; reflexivity).
    destruct (decide (size om = 0%nat)) as [Hz|Hz].
    + rewrite bool_decide_eq_true_2 by exact Hz.
      rewrite bool_decide_eq_true_2 by (cbn [erase vw_members]; rewrite Em; apply erase_members_size_le; exact Hz).
      split; reflexivity.
    + rewrite bool_decide_eq_false_2 by exact Hz.
      rewrite bool_decide_eq_false_2.
      2:{ cbn [erase vw_members]. rewrite Em. intros Hs. apply Hz. apply erase_members_size_nonil; [|exact Hs].
          intros k. specialize (Hn k). rewrite Em in Hn. exact Hn. }
      cbn [fst snd]. split; [|reflexivity].
      rewrite erase_with_base_set. cbn [default from_option id]. rewrite erase_f_merge_members.
      unfold merge_body. cbn [fst set_members vw_epoch vw_ts vw_members vw_healthy vw_unhealthy vw_quorum vw_vv vw_proto vw_maxent erase].
      rewrite Em. first [reflexivity | f_equal; rewrite recompute_members; reflexivity].
  - rewrite bool_decide_eq_true_2; [split; reflexivity|].
    cbn [erase vw_members]. unfold fv_map. rewrite Eo. cbn [default from_option id]. rewrite erase_members_empty. apply map_size_empty.
Qed.

(** * a merge moves complete states *)

(** every stored state of the result is, with all its 13 fields, the state v had or the state the
    argument view has under that id: nothing is fabricated, no field of one state is combined with a
    field of another *)
Theorem f_merge_whole_states sk st now v o k s :
  fv_map (fst (f_merge sk st now v o)) !! k = Some (Some s) ->
  fv_map v !! k = Some (Some s) \/ fv_map o !! k = Some (Some s).
Proof.
  unfold f_merge. destruct (fv_members o) as [om|] eqn:Eo; [|cbn [fst]; auto].
  assert (Em : fv_map o = om) by (unfold fv_map; rewrite Eo; reflexivity). rewrite Em.
  destruct (bool_decide _); cbn [fst]; [auto|].
  unfold fv_map at 1. cbn [f_with_base fv_members default from_option id]. rewrite f_merge_members_lookup.
  destruct (fv_map v !! k) as [[es|]|], (om !! k) as [[xs|]|]; cbn [f_pick f_isnewer f_clone]; try destruct (isnewer _ _); try (intros [= <-]; auto); try discriminate.
Qed.

(** every key of v stays; its entry is the old one, or the argument's state which IsNewerThan it *)
Theorem f_merge_keeps_entries sk st now v o k e :
  fv_map v !! k = Some e ->
  exists e', fv_map (fst (f_merge sk st now v o)) !! k = Some e' /\
    (e' = e \/ exists xs, e' = Some xs /\ fv_map o !! k = Some (Some xs) /\ f_isnewer xs e = true).
Proof.
  intros Hk. unfold f_merge. destruct (fv_members o) as [om|] eqn:Eo; [|exists e; cbn [fst]; auto].
  assert (Em : fv_map o = om) by (unfold fv_map; rewrite Eo; reflexivity). rewrite Em.
  destruct (bool_decide _); cbn [fst]; [exists e; auto|].
  unfold fv_map at 1. cbn [f_with_base fv_members default from_option id]. rewrite f_merge_members_lookup, Hk.
  destruct (om !! k) as [[xs|]|]; cbn [f_pick f_clone]; [|exists e; auto|exists e; auto].
  destruct (f_isnewer xs e) eqn:N; [|exists e; auto].
  exists (Some xs). split; [reflexivity|]. right. exists xs. auto.
Qed.

(** a merge creates no nil entry and removes none; with nil-free operands the result is nil-free *)
Theorem f_merge_nil_entries sk st now v o k :
  fv_map (fst (f_merge sk st now v o)) !! k = Some None -> fv_map v !! k = Some None.
Proof.
  unfold f_merge. destruct (fv_members o) as [om|] eqn:Eo; [|cbn [fst]; auto].
  destruct (bool_decide _); cbn [fst]; [auto|].
  unfold fv_map at 1. cbn [f_with_base fv_members default from_option id]. rewrite f_merge_members_lookup.
  destruct (fv_map v !! k) as [[es|]|], (om !! k) as [[xs|]|]; cbn [f_pick f_isnewer f_clone]; try discriminate; try reflexivity.
  destruct (isnewer _ _); discriminate.
Qed.

Theorem f_merge_nonil sk st now v o : nonil v -> nonil (fst (f_merge sk st now v o)).
Proof.
  intros Hv. pose proof (nonil_nonil_entries v Hv) as Hn.
  assert (exists m, fv_members (fst (f_merge sk st now v o)) = Some m) as [m Hm].
  { unfold f_merge. destruct Hv as (mv & Hmv & _). destruct (fv_members o); [|exists mv; exact Hmv].
    destruct (bool_decide _); [exists mv; exact Hmv|]. eexists; reflexivity. }
  exists m. split; [exact Hm|]. intros k Hk.
  apply (Hn k). apply (f_merge_nil_entries sk st now v o k). unfold fv_map. rewrite Hm. exact Hk.
Qed.

(** ViewID and MaxVersionVectorEntries are never touched *)
Theorem f_merge_id sk st now v o :
  fv_id (fst (f_merge sk st now v o)) = fv_id v /\ fv_maxent (fst (f_merge sk st now v o)) = fv_maxent v.
Proof.
  unfold f_merge. destruct (fv_members o); [|split; reflexivity].
  destruct (bool_decide _); split; reflexivity.
Qed.

(** a view whose Members hold nothing but nil entries is NOT ignored (len(other.Members) counts the nil
    entries): the epoch block runs although there is no member to learn.  Such a view cannot be built
    by any operation of the code nor come off the wire; it shows why [f_merge_erase] asks for
    [nonil_entries]. *)
Lemma f_merge_only_nil_entries :
  let o := FView [] (Some {[ [97] := None ]}) 7 0 0 0 0 ∅ 1 0 in
  let v := f_new_view [] 0 0 in
  vw_members (erase o) = ∅ /\
  fv_epoch (fst (f_merge 0 0 0 v o)) = 7%Z /\ snd (f_merge 0 0 0 v o) = true /\
  view_merge 0 0 0 (erase v) (erase o) = (erase v, false).
Proof.
  cbn zeta.
  assert (E : vw_members (erase (FView [] (Some {[ [97] := None ]}) 7 0 0 0 0 ∅ 1 0)) = ∅)
    by (apply map_size_empty_inv; vm_compute; reflexivity).
  split; [exact E|]. split; [vm_compute; reflexivity|]. split; [vm_compute; reflexivity|].
  apply view_merge_empty. exact E.
Qed.

(** * merge expressions over complete views *)

Lemma ferase_leaves e : mleaves (ferase e) = erase <$> fleaves e.
Proof.
  induction e as [v|sk st now l IHl r IHr]; cbn [ferase mleaves fleaves]; [reflexivity|].
  rewrite IHl, IHr, fmap_app. reflexivity.
Qed.

Theorem feval_erase e :
  Forall nonil (fleaves e) -> erase (feval e) = meval (ferase e) /\ nonil (feval e).
Proof.
  induction e as [v|sk st now l IHl r IHr]; cbn [fleaves feval ferase meval]; intros H.
  - apply Forall_inv in H. split; [reflexivity|exact H].
  - apply Forall_app in H as [Hl Hr]. destruct (IHl Hl) as [El Nl], (IHr Hr) as [Er Nr].
    split; [|apply f_merge_nonil; exact Nl].
    destruct (f_merge_erase sk st now (feval l) (feval r) (nonil_nonil_entries _ Nr)) as [-> _].
    rewrite El, Er. reflexivity.
Qed.

(** the property's order-insensitivity for the complete ClusterView: any two merge expressions (any
    order, tree shape, options and clock per merge) over the same nil-free views whose member
    entries are well formed produce the same membership *)
Theorem f_merge_order_insensitive e1 e2 :
  Forall nonil (fleaves e1) -> Forall (fun v => WF (erase v)) (fleaves e1) -> fleaves e1 ≡ₚ fleaves e2 ->
  proj (erase (feval e1)) = proj (erase (feval e2)).
Proof.
  intros N1 W1 Hp.
  assert (N2 : Forall nonil (fleaves e2)) by (rewrite <- Hp; exact N1).
  rewrite (proj1 (feval_erase e1 N1)), (proj1 (feval_erase e2 N2)).
  apply merge_order_insensitive.
  - rewrite ferase_leaves. apply Forall_fmap. exact W1.
  - rewrite !ferase_leaves. rewrite Hp. reflexivity.
Qed.

(** no member's complete state is replaced by an older incarnation, whatever the other fields say *)
Theorem f_merge_no_regression sk st now v o k s :
  nonil_entries o -> WF (erase v) -> WF (erase o) ->
  fv_map v !! k = Some (Some s) ->
  exists s', fv_map (fst (f_merge sk st now v o)) !! k = Some (Some s') /\
             inc_lt (inc_of (fs_core s')) (inc_of (fs_core s)) = false.
Proof.
  intros Hn Wv Wo Hk.
  destruct (f_merge_keeps_entries sk st now v o k (Some s) Hk) as (e' & He' & Hc).
  assert (Hp : proj (erase v) !! k = Some (inc_of (fs_core s))).
  { unfold proj. rewrite lookup_fmap. cbn [erase vw_members]. rewrite erase_members_lookup, Hk. reflexivity. }
  destruct (merge_no_regression sk st now (erase v) (erase o) k _ Wv Wo Hp) as (p' & Hp' & Hlt).
  destruct (f_merge_erase sk st now v o Hn) as [E _]. rewrite <- E in Hp'.
  unfold proj in Hp'. rewrite lookup_fmap in Hp'. cbn [erase vw_members] in Hp'.
  rewrite erase_members_lookup, He' in Hp'.
  destruct e' as [s'|].
  - exists s'. split; [exact He'|]. cbn in Hp'. injection Hp' as <-. exact Hlt.
  - destruct Hc as [Hc|(xs & Hc & _)]; discriminate.
Qed.

(** non-vacuity: two complete one-member views as the code builds them (newNodeState, Labels set,
    AddMember), nil-free, well formed; the merge adopts b with every field *)
Definition fx_state (id : list N) (dc : list N) : fstate :=
  let s := f_new_node_state id [120; 118] id 100 in
  FState (fs_core s) (fs_cluster s) (fs_unreach s) (fs_meta s) (Some {[ [100; 99] := dc ]}) (fs_checksum s).
Definition fx_a : fview := f_add (f_new_view [1] 100 0) (fx_state [97] [49]).
Definition fx_b : fview := f_add (f_new_view [2] 100 0) (fx_state [98] [50]).

Lemma fx_example :
  nonil fx_a /\ nonil fx_b /\ WF (erase fx_a) /\ WF (erase fx_b) /\
  fv_map (fst (f_merge 0 0 0 fx_a fx_b)) !! [98] = Some (Some (fx_state [98] [50])) /\
  fv_map (fst (f_merge 0 0 0 fx_a fx_b)) !! [97] = Some (Some (fx_state [97] [49])) /\
  fv_id (fst (f_merge 0 0 0 fx_a fx_b)) = [1] /\ snd (f_merge 0 0 0 fx_a fx_b) = true.
Proof.
  assert (Na : nonil fx_a) by (apply f_add_nonil, f_new_view_nonil).
  assert (Nb : nonil fx_b) by (apply f_add_nonil, f_new_view_nonil).
  assert (Wa : WF (erase fx_a)).
  { unfold fx_a. rewrite f_add_erase, erase_new_view. apply WF_add; [apply WF_new|split; cbn; lia]. }
  assert (Wb : WF (erase fx_b)).
  { unfold fx_b. rewrite f_add_erase, erase_new_view. apply WF_add; [apply WF_new|split; cbn; lia]. }
  repeat (split; [assumption|]). vm_compute. auto.
Qed.
