(** Lemmas about the gossip model (Cluster/Gossip.v).  The property statements are restated in
    Properties/C18.v. *)
From Coq Require Import List NArith ZArith Lia Bool.
From Coq Require Import ZifyN ZifyNat ZifyBool.
From stdpp Require Import gmap sorting.
From Vivid Require Import Codec.Prim Cluster.VV Cluster.VVProofs Cluster.View Cluster.ViewProofs Cluster.Gossip.
Local Open Scope N_scope.

(** * Go's string order on addresses *)

Lemma lex_le_refl a : lex_le a a = true.
Proof. induction a as [|x a IH]; cbn; [reflexivity|]. rewrite N.ltb_irrefl. exact IH. Qed.

Lemma lex_le_antisym a b : lex_le a b = true -> lex_le b a = true -> a = b.
Proof.
  revert b. induction a as [|x a IH]; intros [|y b]; cbn; try reflexivity; try discriminate.
  destruct (N.ltb_spec x y), (N.ltb_spec y x); try discriminate; try lia.
  intros H1 H2. assert (x = y) by lia. subst. f_equal. apply IH; assumption.
Qed.

Lemma lex_le_trans a b c : lex_le a b = true -> lex_le b c = true -> lex_le a c = true.
Proof.
  revert b c. induction a as [|x a IH]; intros [|y b] [|z c]; cbn; try reflexivity; try discriminate.
  destruct (N.ltb_spec x y), (N.ltb_spec y x), (N.ltb_spec y z), (N.ltb_spec z y),
           (N.ltb_spec x z), (N.ltb_spec z x); try discriminate; try reflexivity; try lia.
  apply IH.
Qed.

(** * lmin: the least element *)

Lemma lmin_none l : lmin l = None <-> l = [].
Proof. destruct l as [|a r]; cbn; [tauto|]. destruct (lmin r); split; discriminate. Qed.

Lemma lmin_spec l m : lmin l = Some m -> m ∈ l /\ forall x, x ∈ l -> lex_le m x = true.
Proof.
  revert m. induction l as [|a r IH]; cbn; [discriminate|]. intros m.
  destruct (lmin r) as [m'|] eqn:E.
  - destruct (IH m' eq_refl) as [Hin Hle]. intros [= <-].
    destruct (lex_le a m') eqn:L.
    + split; [apply elem_of_cons; auto|]. intros x Hx. apply elem_of_cons in Hx as [->|Hx]; [apply lex_le_refl|].
      eapply lex_le_trans; [exact L|apply Hle; exact Hx].
    + split; [apply elem_of_cons; auto|]. intros x Hx. apply elem_of_cons in Hx as [->|Hx]; [|apply Hle; exact Hx].
      destruct (lex_le_total m' a) as [H|H]; [exact H|congruence].
  - apply lmin_none in E. subst r. intros [= <-]. split; [apply elem_of_cons; auto|].
    intros x Hx. apply elem_of_cons in Hx as [->|Hx]; [apply lex_le_refl|inversion Hx].
Qed.

Lemma lmin_same_set l1 l2 : same_set l1 l2 -> lmin l1 = lmin l2.
Proof.
  intros H. destruct (lmin l1) as [m1|] eqn:E1, (lmin l2) as [m2|] eqn:E2.
  - destruct (lmin_spec _ _ E1) as [I1 L1], (lmin_spec _ _ E2) as [I2 L2]. f_equal.
    apply lex_le_antisym; [apply L1, H, I2|apply L2, H, I1].
  - apply lmin_none in E2. subst l2. destruct (lmin_spec _ _ E1) as [I1 _]. apply H in I1. inversion I1.
  - apply lmin_none in E1. subst l1. destruct (lmin_spec _ _ E2) as [I2 _]. apply H in I2. inversion I2.
  - reflexivity.
Qed.

(** * Theorem 1: same Up members => same leader, and exactly one IAmLeader *)

Theorem same_up_same_leader v1 v2 : same_set (up_addrs v1) (up_addrs v2) -> leader_of v1 = leader_of v2.
Proof. intros H. unfold leader_of. rewrite (lmin_same_set _ _ H). reflexivity. Qed.

Lemma up_addrs_nonempty v a : a ∈ up_addrs v -> a <> [].
Proof.
  unfold up_addrs. intros H. apply elem_of_list_fmap in H as (s & -> & Hs).
  apply elem_of_list_In, filter_In in Hs as [_ Hs]. unfold is_up_addr in Hs.
  apply andb_true_iff in Hs as [_ Hs]. apply negb_true_iff, bool_decide_eq_false in Hs. exact Hs.
Qed.

Lemma leader_in_up v : up_addrs v <> [] -> leader_of v ∈ up_addrs v.
Proof.
  intros Hne. unfold leader_of. destruct (lmin (up_addrs v)) as [m|] eqn:E.
  - cbn. apply (lmin_spec _ _ E).
  - apply lmin_none in E. contradiction.
Qed.

Lemma leader_least v a : a ∈ up_addrs v -> lex_le (leader_of v) a = true.
Proof.
  intros Ha. unfold leader_of. destruct (lmin (up_addrs v)) as [m|] eqn:E.
  - cbn. apply (lmin_spec _ _ E). exact Ha.
  - apply lmin_none in E. rewrite E in Ha. inversion Ha.
Qed.

Lemma iam_leader_spec n : iam_leader n = true <-> nd_addr n <> [] /\ leader_of (nd_view n) = nd_addr n.
Proof.
  unfold iam_leader. rewrite andb_true_iff, negb_true_iff, bool_decide_eq_false, bool_decide_eq_true. tauto.
Qed.

(** a set of running nodes (distinct addresses) whose views have the same Up members, that set being the
    addresses of these nodes: one leader address for all, and exactly one node has IAmLeader *)
Theorem one_leader (nodes : list node) :
  nodes <> [] ->
  NoDup (map nd_addr nodes) ->
  (forall n, n ∈ nodes -> same_set (up_addrs (nd_view n)) (map nd_addr nodes)) ->
  exists l, (forall n, n ∈ nodes -> leader_of (nd_view n) = l) /\
            exists n, n ∈ nodes /\ iam_leader n = true /\
                      forall m, m ∈ nodes -> iam_leader m = true -> m = n.
Proof.
  intros Hne Hnd Hup.
  destruct nodes as [|n0 rest] eqn:En; [contradiction|]. rewrite <- En in *.
  assert (Hn0 : n0 ∈ nodes) by (rewrite En; apply elem_of_cons; auto).
  exists (leader_of (nd_view n0)). split.
  - intros n Hn. apply same_up_same_leader. intros a. rewrite (Hup n Hn a), (Hup n0 Hn0 a). tauto.
  - assert (Hupne : up_addrs (nd_view n0) <> []).
    { intros E. pose proof (Hup n0 Hn0 (nd_addr n0)) as H. rewrite E in H.
      assert (nd_addr n0 ∈ map nd_addr nodes) by (apply elem_of_list_fmap; exists n0; auto).
      apply H in H0. inversion H0. }
    pose proof (leader_in_up _ Hupne) as Hl.
    pose proof (up_addrs_nonempty _ _ Hl) as Hlne.
    apply (Hup n0 Hn0) in Hl. apply elem_of_list_fmap in Hl as (n & Hna & Hn).
    assert (Hsame : forall m, m ∈ nodes -> leader_of (nd_view m) = leader_of (nd_view n0)).
    { intros m Hm. apply same_up_same_leader. intros a. rewrite (Hup m Hm a), (Hup n0 Hn0 a). tauto. }
    exists n. split; [exact Hn|]. split.
    + apply iam_leader_spec. rewrite <- Hna. split; [exact Hlne|]. apply Hsame. exact Hn.
    + intros m Hm Hi. apply iam_leader_spec in Hi as [_ Hi]. rewrite (Hsame m Hm), Hna in Hi.
      (* equal addresses in a NoDup list of nodes *)
      clear - Hnd Hn Hm Hi. induction nodes as [|x l IH]; [inversion Hn|].
      cbn in Hnd. apply NoDup_cons in Hnd as [Hx Hl].
      apply elem_of_cons in Hn as [->|Hn]; apply elem_of_cons in Hm as [->|Hm].
      * reflexivity.
      * exfalso. apply Hx. rewrite Hi. apply elem_of_list_fmap. exists m. auto.
      * exfalso. apply Hx. rewrite <- Hi. apply elem_of_list_fmap. exists n. auto.
      * apply IH; assumption.
Qed.

(** * What the handlers do to the view *)

Lemma publish_leader_view n : nd_view (fst (publish_leader n)) = nd_view n.
Proof. reflexivity. Qed.
Lemma publish_leader_cfg n : nd_cfg (fst (publish_leader n)) = nd_cfg n.
Proof. reflexivity. Qed.
Lemma broadcast_view n : nd_view (fst (broadcast n)) = nd_view n.
Proof. reflexivity. Qed.
Lemma broadcast_cfg n : nd_cfg (fst (broadcast n)) = nd_cfg n.
Proof. reflexivity. Qed.

(** every GossipMessage of a broadcast carries the sender's current view *)
Lemma broadcast_payload n d v : (d, v) ∈ snd (broadcast n) -> v = nd_view n.
Proof.
  unfold broadcast. cbn [snd]. intros H. apply elem_of_list_fmap in H as (a & [= -> ->] & _). reflexivity.
Qed.

Lemma broadcast_dests n d v : (d, v) ∈ snd (broadcast n) -> d ∈ select_targets n /\ should_send (prune_last n) (vw_vv (nd_view n)) d = true.
Proof.
  unfold broadcast. cbn [snd]. intros H. apply elem_of_list_fmap in H as (a & [= -> ->] & Ha).
  apply elem_of_list_In, filter_In in Ha as [Ha1 Ha2]. split; [apply elem_of_list_In; exact Ha1|exact Ha2].
Qed.

(** the LastSeen / Suspect->Up refresh of handleGossip changes no id, generation or logical clock *)
Lemma refresh_proj v id now :
  proj (set_members v (alter (fun s => ns_refresh s now) id (vw_members v))) = proj v.
Proof.
  apply map_eq. intros k. unfold proj. rewrite !lookup_fmap. destruct v as [ep ts ms h u q x pr mx]; cbn.
  destruct (decide (k = id)) as [->|Hne].
  - rewrite lookup_alter. destruct (ms !! id); reflexivity.
  - rewrite lookup_alter_ne by congruence. reflexivity.
Qed.
Lemma refresh_WF v id now : WF v -> WF (set_members v (alter (fun s => ns_refresh s now) id (vw_members v))).
Proof.
  intros Hv k x Hk. destruct v as [ep ts ms h u q vx pr mx]; cbn in *.
  destruct (decide (k = id)) as [->|Hne].
  - rewrite lookup_alter in Hk. destruct (ms !! id) as [s|] eqn:E; [|discriminate].
    cbn in Hk. injection Hk as <-. apply (Hv id s E).
  - rewrite lookup_alter_ne in Hk by congruence. apply (Hv k x Hk).
Qed.

Definition gossip_pre (n : node) (src : addr) (v : view) (now : Z) (choice : option (list N)) : view :=
  match choice with
  | Some id => if nonempty src
               then set_members (nd_view n) (alter (fun s => ns_refresh s now) id (vw_members (nd_view n)))
               else nd_view n
  | None => nd_view n
  end.

(** the view after handleGossip = MergeFromWithOptions(refreshed own view, received view) *)
Lemma handle_gossip_view n src v now choice :
  nd_view (fst (fst (handle_gossip n src v now choice))) = fst (view_merge 0 0 now (gossip_pre n src v now choice) v).
Proof.
  unfold handle_gossip, gossip_pre.
  set (n1 := if nonempty src then _ else n).
  assert (E1 : nd_view n1 = nd_view n) by (unfold n1; destruct (nonempty src); reflexivity).
  set (n2 := match choice with Some _ => _ | None => _ end).
  assert (E2 : nd_view n2 = match choice with
                            | Some id => if nonempty src then set_members (nd_view n) (alter (fun s => ns_refresh s now) id (vw_members (nd_view n))) else nd_view n
                            | None => nd_view n end).
  { unfold n2. destruct choice; [destruct (nonempty src)|]; cbn; rewrite ?E1; reflexivity. }
  rewrite <- E2. destruct (view_merge 0 0 now (nd_view n2) v) as [v' ch]. cbn [fst].
  destruct ch; [|reflexivity].
  destruct (publish_leader (set_view n2 v')) as [n4 evs] eqn:Ep.
  destruct (broadcast n4) as [n5 out] eqn:Eb. cbn [fst].
  change n5 with (fst (n5, out)). rewrite <- Eb, broadcast_view.
  change n4 with (fst (n4, evs)). rewrite <- Ep, publish_leader_view. reflexivity.
Qed.

Lemma gossip_pre_proj n src v now choice : proj (gossip_pre n src v now choice) = proj (nd_view n).
Proof. unfold gossip_pre. destruct choice; [destruct (nonempty src)|]; try reflexivity. apply refresh_proj. Qed.
Lemma gossip_pre_WF n src v now choice : WF (nd_view n) -> WF (gossip_pre n src v now choice).
Proof. intros H. unfold gossip_pre. destruct choice; [destruct (nonempty src)|]; try exact H. apply refresh_WF. exact H. Qed.

(** handleGossip on the membership: the join (C17) *)
Theorem handle_gossip_proj n src v now choice :
  WF (nd_view n) -> WF v ->
  WF (nd_view (fst (fst (handle_gossip n src v now choice)))) /\
  proj (nd_view (fst (fst (handle_gossip n src v now choice)))) = pjoin (proj (nd_view n)) (proj v).
Proof.
  intros Hn Hv. rewrite handle_gossip_view. split.
  - apply WF_merge; [apply gossip_pre_WF; exact Hn|exact Hv].
  - rewrite proj_merge by (try apply gossip_pre_WF; assumption). rewrite gossip_pre_proj. reflexivity.
Qed.

Lemma handle_gossip_cfg n src v now choice : nd_cfg (fst (fst (handle_gossip n src v now choice))) = nd_cfg n.
Proof.
  unfold handle_gossip.
  set (n1 := if nonempty src then _ else n).
  assert (E1 : nd_cfg n1 = nd_cfg n) by (unfold n1; destruct (nonempty src); reflexivity).
  set (n2 := match choice with Some _ => _ | None => _ end).
  assert (E2 : nd_cfg n2 = nd_cfg n) by (unfold n2; destruct choice; [destruct (nonempty src)|]; cbn; rewrite ?E1; reflexivity).
  destruct (view_merge 0 0 now (nd_view n2) v) as [v' ch]. destruct ch; [|exact E2].
  destruct (publish_leader (set_view n2 v')) as [n4 evs] eqn:Ep.
  destruct (broadcast n4) as [n5 out] eqn:Eb. cbn [fst].
  change n5 with (fst (n5, out)). rewrite <- Eb, broadcast_cfg.
  change n4 with (fst (n4, evs)). rewrite <- Ep, publish_leader_cfg. exact E2.
Qed.

(** every GossipMessage handleGossip sends carries the node's view after the merge *)
Lemma handle_gossip_payload n src v now choice d pv :
  (d, pv) ∈ snd (fst (handle_gossip n src v now choice)) ->
  pv = nd_view (fst (fst (handle_gossip n src v now choice))).
Proof.
  unfold handle_gossip.
  set (n2 := match choice with Some _ => _ | None => _ end).
  destruct (view_merge 0 0 now (nd_view n2) v) as [v' ch]. destruct ch; [|intros H; inversion H].
  destruct (publish_leader (set_view n2 v')) as [n4 evs] eqn:Ep.
  destruct (broadcast n4) as [n5 out] eqn:Eb. cbn [fst snd].
  intros H. change out with (snd (n5, out)) in H. rewrite <- Eb in H. apply broadcast_payload in H. subst pv.
  change n5 with (fst (n5, out)). rewrite <- Eb, broadcast_view. reflexivity.
Qed.

Lemma gossip_tick_view n : nd_view (fst (fst (gossip_tick n))) = nd_view n.
Proof. unfold gossip_tick. destruct (broadcast n) as [n1 out] eqn:E. cbn. change n1 with (fst (n1, out)). rewrite <- E. apply broadcast_view. Qed.
Lemma gossip_tick_cfg n : nd_cfg (fst (fst (gossip_tick n))) = nd_cfg n.
Proof. unfold gossip_tick. destruct (broadcast n) as [n1 out] eqn:E. cbn. change n1 with (fst (n1, out)). rewrite <- E. apply broadcast_cfg. Qed.
Lemma gossip_tick_payload n d v : (d, v) ∈ snd (fst (gossip_tick n)) -> v = nd_view n.
Proof. unfold gossip_tick. destruct (broadcast n) as [n1 out] eqn:E. cbn. intros H. change out with (snd (n1, out)) in H. rewrite <- E in H. eapply broadcast_payload; exact H. Qed.
Lemma gossip_tick_events n : snd (gossip_tick n) = [].
Proof. unfold gossip_tick. destruct (broadcast n). reflexivity. Qed.
