(** Lemmas about the gossip model (Cluster/Gossip.v).  The property statements are restated in
    Properties/C18.v. *)
From Coq Require Import List NArith ZArith Lia Bool.
From Coq Require Import ZifyN ZifyNat ZifyBool.
From stdpp Require Import gmap sorting.
From Vivid Require Import Codec.Prim Cluster.VV Cluster.VVProofs Cluster.View Cluster.ViewProofs Cluster.Gossip.
Local Open Scope N_scope.

(** * Go's string order on addresses *)

Lemma lex_le_refl a : lex_le a a = true.
Proof. induction a as [|x a IH]; cbn; [reflexivity|]. rewrite N.ltb_irrefl. exact IH. Qed.

Lemma lex_le_antisym a b : lex_le a b = true -> lex_le b a = true -> a = b.
Proof.
  revert b. induction a as [|x a IH]; intros [|y b]; cbn; try reflexivity; try discriminate.
  destruct (N.ltb_spec x y), (N.ltb_spec y x); try discriminate; try lia.
  intros H1 H2. assert (x = y) by lia. subst. f_equal. apply IH; assumption.
Qed.

Lemma lex_le_trans a b c : lex_le a b = true -> lex_le b c = true -> lex_le a c = true.
Proof.
  revert b c. induction a as [|x a IH]; intros [|y b] [|z c]; cbn; try reflexivity; try discriminate.
  destruct (N.ltb_spec x y), (N.ltb_spec y x), (N.ltb_spec y z), (N.ltb_spec z y),
           (N.ltb_spec x z), (N.ltb_spec z x); try discriminate; try reflexivity; try lia.
  apply IH.
Qed.

(** * lmin: the least element *)

Lemma lmin_none l : lmin l = None <-> l = [].
Proof. destruct l as [|a r]; cbn; [tauto|]. destruct (lmin r); split; discriminate. Qed.

Lemma lmin_spec l m : lmin l = Some m -> m ∈ l /\ forall x, x ∈ l -> lex_le m x = true.
Proof.
  revert m. induction l as [|a r IH]; cbn; [discriminate|]. intros m.
  destruct (lmin r) as [m'|] eqn:E.
  - destruct (IH m' eq_refl) as [Hin Hle]. intros [= <-].
    destruct (lex_le a m') eqn:L.
    + split; [apply elem_of_cons; auto|]. intros x Hx. apply elem_of_cons in Hx as [->|Hx]; [apply lex_le_refl|].
      eapply lex_le_trans; [exact L|apply Hle; exact Hx].
    + split; [apply elem_of_cons; auto|]. intros x Hx. apply elem_of_cons in Hx as [->|Hx]; [|apply Hle; exact Hx].
      destruct (lex_le_total m' a) as [H|H]; [exact H|congruence].
  - apply lmin_none in E. subst r. intros [= <-]. split; [apply elem_of_cons; auto|].
    intros x Hx. apply elem_of_cons in Hx as [->|Hx]; [apply lex_le_refl|inversion Hx].
Qed.

Lemma lmin_same_set l1 l2 : same_set l1 l2 -> lmin l1 = lmin l2.
Proof.
  intros H. destruct (lmin l1) as [m1|] eqn:E1, (lmin l2) as [m2|] eqn:E2.
  - destruct (lmin_spec _ _ E1) as [I1 L1], (lmin_spec _ _ E2) as [I2 L2]. f_equal.
    apply lex_le_antisym; [apply L1, H, I2|apply L2, H, I1].
  - apply lmin_none in E2. subst l2. destruct (lmin_spec _ _ E1) as [I1 _]. apply H in I1. inversion I1.
  - apply lmin_none in E1. subst l1. destruct (lmin_spec _ _ E2) as [I2 _]. apply H in I2. inversion I2.
  - reflexivity.
Qed.

(** * Theorem 1: same Up members => same leader, and exactly one IAmLeader *)

Theorem same_up_same_leader v1 v2 : same_set (up_addrs v1) (up_addrs v2) -> leader_of v1 = leader_of v2.
Proof. intros H. unfold leader_of. rewrite (lmin_same_set _ _ H). reflexivity. Qed.

Lemma up_addrs_nonempty v a : a ∈ up_addrs v -> a <> [].
Proof.
  unfold up_addrs. intros H. apply elem_of_list_fmap in H as (s & -> & Hs).
  apply elem_of_list_In, filter_In in Hs as [_ Hs]. unfold is_up_addr in Hs.
  apply andb_true_iff in Hs as [_ Hs]. apply negb_true_iff, bool_decide_eq_false in Hs. exact Hs.
Qed.

Lemma leader_in_up v : up_addrs v <> [] -> leader_of v ∈ up_addrs v.
Proof.
  intros Hne. unfold leader_of. destruct (lmin (up_addrs v)) as [m|] eqn:E.
  - cbn. apply (lmin_spec _ _ E).
  - apply lmin_none in E. contradiction.
Qed.

Lemma leader_least v a : a ∈ up_addrs v -> lex_le (leader_of v) a = true.
Proof.
  intros Ha. unfold leader_of. destruct (lmin (up_addrs v)) as [m|] eqn:E.
  - cbn. apply (lmin_spec _ _ E). exact Ha.
  - apply lmin_none in E. rewrite E in Ha. inversion Ha.
Qed.

Lemma iam_leader_spec n : iam_leader n = true <-> nd_addr n <> [] /\ leader_of (nd_view n) = nd_addr n.
Proof.
  unfold iam_leader. rewrite andb_true_iff, negb_true_iff, bool_decide_eq_false, bool_decide_eq_true. tauto.
Qed.

(** a set of running nodes (distinct addresses) whose views have the same Up members, that set being the
    addresses of these nodes: one leader address for all, and exactly one node has IAmLeader *)
Theorem one_leader (nodes : list node) :
  nodes <> [] ->
  NoDup (map nd_addr nodes) ->
  (forall n, n ∈ nodes -> same_set (up_addrs (nd_view n)) (map nd_addr nodes)) ->
  exists l, (forall n, n ∈ nodes -> leader_of (nd_view n) = l) /\
            exists n, n ∈ nodes /\ iam_leader n = true /\
                      forall m, m ∈ nodes -> iam_leader m = true -> m = n.
Proof.
  intros Hne Hnd Hup.
  destruct nodes as [|n0 rest] eqn:En; [contradiction|]. rewrite <- En in *.
  assert (Hn0 : n0 ∈ nodes) by (rewrite En; apply elem_of_cons; auto).
  exists (leader_of (nd_view n0)). split.
  - intros n Hn. apply same_up_same_leader. intros a. rewrite (Hup n Hn a), (Hup n0 Hn0 a). tauto.
  - assert (Hupne : up_addrs (nd_view n0) <> []).
    { intros E. pose proof (Hup n0 Hn0 (nd_addr n0)) as H. rewrite E in H.
      assert (nd_addr n0 ∈ map nd_addr nodes) by (apply elem_of_list_fmap; exists n0; auto).
      apply H in H0. inversion H0. }
    pose proof (leader_in_up _ Hupne) as Hl.
    pose proof (up_addrs_nonempty _ _ Hl) as Hlne.
    apply (Hup n0 Hn0) in Hl. apply elem_of_list_fmap in Hl as (n & Hna & Hn).
    assert (Hsame : forall m, m ∈ nodes -> leader_of (nd_view m) = leader_of (nd_view n0)).
    { intros m Hm. apply same_up_same_leader. intros a. rewrite (Hup m Hm a), (Hup n0 Hn0 a). tauto. }
    exists n. split; [exact Hn|]. split.
    + apply iam_leader_spec. rewrite <- Hna. split; [exact Hlne|]. apply Hsame. exact Hn.
    + intros m Hm Hi. apply iam_leader_spec in Hi as [_ Hi]. rewrite (Hsame m Hm), Hna in Hi.
      (* equal addresses in a NoDup list of nodes *)
      clear - Hnd Hn Hm Hi. induction nodes as [|x l IH]; [inversion Hn|].
      cbn in Hnd. apply NoDup_cons in Hnd as [Hx Hl].
      apply elem_of_cons in Hn as [->|Hn]; apply elem_of_cons in Hm as [->|Hm].
      * reflexivity.
      * exfalso. apply Hx. rewrite Hi. apply elem_of_list_fmap. exists m. auto.
      * exfalso. apply Hx. rewrite <- Hi. apply elem_of_list_fmap. exists n. auto.
      * apply IH; assumption.
Qed.

(** * What the handlers do to the view *)

Lemma publish_leader_view n : nd_view (fst (publish_leader n)) = nd_view n.
Proof. reflexivity. Qed.
Lemma publish_leader_cfg n : nd_cfg (fst (publish_leader n)) = nd_cfg n.
Proof. reflexivity. Qed.
Lemma broadcast_view n : nd_view (fst (broadcast n)) = nd_view n.
Proof. reflexivity. Qed.
Lemma broadcast_cfg n : nd_cfg (fst (broadcast n)) = nd_cfg n.
Proof. reflexivity. Qed.

(** every GossipMessage of a broadcast carries the sender's current view *)
Lemma broadcast_payload n d v : (d, v) ∈ snd (broadcast n) -> v = nd_view n.
Proof.
  unfold broadcast. cbn [snd]. intros H. apply elem_of_list_fmap in H as (a & [= -> ->] & _). reflexivity.
Qed.

Lemma broadcast_dests n d v : (d, v) ∈ snd (broadcast n) -> d ∈ select_targets n /\ should_send (prune_last n) (vw_vv (nd_view n)) d = true.
Proof.
  unfold broadcast. cbn [snd]. intros H. apply elem_of_list_fmap in H as (a & [= -> ->] & Ha).
  apply elem_of_list_In, filter_In in Ha as [Ha1 Ha2]. split; [apply elem_of_list_In; exact Ha1|exact Ha2].
Qed.

(** the LastSeen / Suspect->Up refresh of handleGossip changes no id, generation or logical clock *)
Lemma refresh_proj v id now :
  proj (set_members v (alter (fun s => ns_refresh s now) id (vw_members v))) = proj v.
Proof.
  apply map_eq. intros k. unfold proj. rewrite !lookup_fmap. destruct v as [ep ts ms h u q x pr mx]; cbn.
  destruct (decide (k = id)) as [->|Hne].
  - rewrite lookup_alter. destruct (ms !! id); reflexivity.
  - rewrite lookup_alter_ne by congruence. reflexivity.
Qed.
Lemma refresh_WF v id now : WF v -> WF (set_members v (alter (fun s => ns_refresh s now) id (vw_members v))).
Proof.
  intros Hv k x Hk. destruct v as [ep ts ms h u q vx pr mx]; cbn in *.
  destruct (decide (k = id)) as [->|Hne].
  - rewrite lookup_alter in Hk. destruct (ms !! id) as [s|] eqn:E; [|discriminate].
    cbn in Hk. injection Hk as <-. apply (Hv id s E).
  - rewrite lookup_alter_ne in Hk by congruence. apply (Hv k x Hk).
Qed.

Definition gossip_pre (n : node) (src : addr) (v : view) (now : Z) (choice : option (list N)) : view :=
  match choice with
  | Some id => if nonempty src
               then set_members (nd_view n) (alter (fun s => ns_refresh s now) id (vw_members (nd_view n)))
               else nd_view n
  | None => nd_view n
  end.

(** the view after handleGossip = MergeFromWithOptions(refreshed own view, received view) *)
Lemma handle_gossip_view n src v now choice :
  nd_view (fst (fst (handle_gossip n src v now choice))) = fst (view_merge 0 0 now (gossip_pre n src v now choice) v).
Proof.
  unfold handle_gossip, gossip_pre.
  set (n1 := if nonempty src then _ else n).
  assert (E1 : nd_view n1 = nd_view n) by (unfold n1; destruct (nonempty src); reflexivity).
  set (n2 := match choice with Some _ => _ | None => _ end).
  assert (E2 : nd_view n2 = match choice with
                            | Some id => if nonempty src then set_members (nd_view n) (alter (fun s => ns_refresh s now) id (vw_members (nd_view n))) else nd_view n
                            | None => nd_view n end).
  { unfold n2. destruct choice; [destruct (nonempty src)|]; cbn; rewrite ?E1; reflexivity. }
  rewrite <- E2. destruct (view_merge 0 0 now (nd_view n2) v) as [v' ch]. cbn [fst].
  destruct ch; [|reflexivity].
  destruct (publish_leader (set_view n2 v')) as [n4 evs] eqn:Ep.
  destruct (broadcast n4) as [n5 out] eqn:Eb. cbn [fst].
  change n5 with (fst (n5, out)). rewrite <- Eb, broadcast_view.
  change n4 with (fst (n4, evs)). rewrite <- Ep, publish_leader_view. reflexivity.
Qed.

Lemma gossip_pre_proj n src v now choice : proj (gossip_pre n src v now choice) = proj (nd_view n).
Proof. unfold gossip_pre. destruct choice; [destruct (nonempty src)|]; try reflexivity. apply refresh_proj. Qed.
Lemma gossip_pre_WF n src v now choice : WF (nd_view n) -> WF (gossip_pre n src v now choice).
Proof. intros H. unfold gossip_pre. destruct choice; [destruct (nonempty src)|]; try exact H. apply refresh_WF. exact H. Qed.

(** handleGossip on the membership: the join (C17) *)
Theorem handle_gossip_proj n src v now choice :
  WF (nd_view n) -> WF v ->
  WF (nd_view (fst (fst (handle_gossip n src v now choice)))) /\
  proj (nd_view (fst (fst (handle_gossip n src v now choice)))) = pjoin (proj (nd_view n)) (proj v).
Proof.
  intros Hn Hv. rewrite handle_gossip_view. split.
  - apply WF_merge; [apply gossip_pre_WF; exact Hn|exact Hv].
  - rewrite proj_merge by (try apply gossip_pre_WF; assumption). rewrite gossip_pre_proj. reflexivity.
Qed.

Lemma handle_gossip_cfg n src v now choice : nd_cfg (fst (fst (handle_gossip n src v now choice))) = nd_cfg n.
Proof.
  unfold handle_gossip.
  set (n1 := if nonempty src then _ else n).
  assert (E1 : nd_cfg n1 = nd_cfg n) by (unfold n1; destruct (nonempty src); reflexivity).
  set (n2 := match choice with Some _ => _ | None => _ end).
  assert (E2 : nd_cfg n2 = nd_cfg n) by (unfold n2; destruct choice; [destruct (nonempty src)|]; cbn; rewrite ?E1; reflexivity).
  destruct (view_merge 0 0 now (nd_view n2) v) as [v' ch]. destruct ch; [|exact E2].
  destruct (publish_leader (set_view n2 v')) as [n4 evs] eqn:Ep.
  destruct (broadcast n4) as [n5 out] eqn:Eb. cbn [fst].
  change n5 with (fst (n5, out)). rewrite <- Eb, broadcast_cfg.
  change n4 with (fst (n4, evs)). rewrite <- Ep, publish_leader_cfg. exact E2.
Qed.

(** every GossipMessage handleGossip sends carries the node's view after the merge *)
Lemma handle_gossip_payload n src v now choice d pv :
  (d, pv) ∈ snd (fst (handle_gossip n src v now choice)) ->
  pv = nd_view (fst (fst (handle_gossip n src v now choice))).
Proof.
  unfold handle_gossip.
  set (n2 := match choice with Some _ => _ | None => _ end).
  destruct (view_merge 0 0 now (nd_view n2) v) as [v' ch]. destruct ch; [|intros H; inversion H].
  destruct (publish_leader (set_view n2 v')) as [n4 evs] eqn:Ep.
  destruct (broadcast n4) as [n5 out] eqn:Eb. cbn [fst snd].
  intros H. change out with (snd (n5, out)) in H. rewrite <- Eb in H. apply broadcast_payload in H. subst pv.
  change n5 with (fst (n5, out)). rewrite <- Eb, broadcast_view. reflexivity.
Qed.

Lemma gossip_tick_view n : nd_view (fst (fst (gossip_tick n))) = nd_view n.
Proof. unfold gossip_tick. destruct (broadcast n) as [n1 out] eqn:E. cbn. change n1 with (fst (n1, out)). rewrite <- E. apply broadcast_view. Qed.
Lemma gossip_tick_cfg n : nd_cfg (fst (fst (gossip_tick n))) = nd_cfg n.
Proof. unfold gossip_tick. destruct (broadcast n) as [n1 out] eqn:E. cbn. change n1 with (fst (n1, out)). rewrite <- E. apply broadcast_cfg. Qed.
Lemma gossip_tick_payload n d v : (d, v) ∈ snd (fst (gossip_tick n)) -> v = nd_view n.
Proof. unfold gossip_tick. destruct (broadcast n) as [n1 out] eqn:E. cbn. intros H. change out with (snd (n1, out)) in H. rewrite <- E in H. eapply broadcast_payload; exact H. Qed.
Lemma gossip_tick_events n : snd (gossip_tick n) = [].
Proof. unfold gossip_tick. destruct (broadcast n). reflexivity. Qed.

(** * Theorem 2: the exchange round

    Information flow is tracked by annotating the world: every node carries the list of ORIGINS (addresses of
    running nodes) whose initial view has flowed into its view - initially just itself; a GossipMessage carries
    the origins of its sender at send time; a delivery adds the packet's origins to the receiver's.  [astep] is
    [step_world] on the annotated world for the steps of a round (gossip ticks, deliveries, losses). *)

Notation origins := (list (list N)).

Record aworld := AWorld {
  aw_nodes : gmap (list N) (node * origins);
  aw_net : list (packet * origins)
}.

Definition erase (aw : aworld) : world := World (fst <$> aw_nodes aw) (map fst (aw_net aw)).
Definition annotate (w : world) : aworld :=
  AWorld (map_imap (fun a n => Some (n, [a])) (w_nodes w)) (map (fun p => (p, [])) (w_net w)).

Definition round_step (s : step) : bool :=
  match s with SGossipTick _ | SDeliver _ _ | SDrop _ => true | _ => false end.

Definition astep (aw : aworld) (now : Z) (s : step) : option (aworld * evlog) :=
  match s with
  | SGossipTick a =>
      match aw_nodes aw !! a with
      | Some (n, o) =>
          if nd_gossip_on n then
            let '(n1, out, evs) := gossip_tick n in
            Some (AWorld (<[nd_addr n1 := (n1, o)]> (aw_nodes aw)) (aw_net aw ++ map (fun p => (p, o)) (stamp a out)), tag a evs)
          else None
      | None => None
      end
  | SDeliver k choice =>
      if N.of_nat (length (aw_net aw)) <=? k then None else
      match aw_net aw !! N.to_nat k with
      | None => None
      | Some (p, op) =>
          let net1 := remove_at k (aw_net aw) in
          match aw_nodes aw !! p_dst p with
          | None => match choice with None => Some (AWorld (aw_nodes aw) net1, []) | Some _ => None end
          | Some (n, o) =>
              let cands := refresh_candidates (nd_view n) (p_src p) in
              let valid := match choice with
                           | None => match cands with [] => true | _ :: _ => negb (nonempty (p_src p)) end
                           | Some id => bool_decide (id ∈ cands)
                           end in
              if valid then
                let '(n1, out, evs) := handle_gossip n (p_src p) (p_view p) now choice in
                Some (AWorld (<[nd_addr n1 := (n1, o ++ op)]> (aw_nodes aw))
                             (net1 ++ map (fun q => (q, o ++ op)) (stamp (p_dst p) out)), tag (p_dst p) evs)
              else None
          end
      end
  | SDrop k =>
      if N.of_nat (length (aw_net aw)) <=? k then None
      else Some (AWorld (aw_nodes aw) (remove_at k (aw_net aw)), [])
  | _ => None
  end.

Fixpoint arun (aw : aworld) (sc : list (Z * step)) : option (aworld * evlog) :=
  match sc with
  | [] => Some (aw, [])
  | (now, s) :: rest =>
      match astep aw now s with
      | None => None
      | Some (aw1, l1) => match arun aw1 rest with
                          | None => None
                          | Some (aw2, l2) => Some (aw2, l1 ++ l2)
                          end
      end
  end.

Lemma list_lookup_map {A B} (f : A -> B) (l : list A) i : map f l !! i = f <$> l !! i.
Proof. exact (list_lookup_fmap f l i). Qed.

Lemma remove_at_map {A B} (f : A -> B) k (l : list A) : remove_at k (map f l) = map f (remove_at k l).
Proof.
  unfold remove_at. generalize (N.to_nat k). intros i. revert i.
  induction l as [|x l IH]; intros [|i]; cbn; try reflexivity. f_equal. apply IH.
Qed.

Lemma stamp_annot_erase (o : origins) ps : map fst (map (fun p : packet => (p, o)) ps) = ps.
Proof. rewrite map_map. cbn. apply map_id. Qed.

(** the annotation is invisible: on the steps of a round the annotated step IS step_world *)
Lemma astep_erase aw now s :
  round_step s = true ->
  step_world (erase aw) now s = (fun r => (erase (fst r), snd r)) <$> astep aw now s.
Proof.
  destruct s as [c asks|a asks|a|a asks|k choice|k|a|a|a id]; try discriminate; intros _; cbn [step_world astep].
  - unfold erase at 1; cbn [w_nodes]. rewrite lookup_fmap.
    destruct (aw_nodes aw !! a) as [[n o]|]; [|reflexivity]. cbn [fmap option_fmap option_map fst].
    destruct (nd_gossip_on n); [|reflexivity].
    destruct (gossip_tick n) as [[n1 out] evs]. cbn [fmap option_fmap option_map fst snd].
    unfold add_net, put_node, erase; cbn [w_nodes w_net aw_nodes aw_net].
    rewrite fmap_insert, map_app, stamp_annot_erase. reflexivity.
  - unfold erase at 1 2 3 4; cbn [w_nodes w_net]. rewrite map_length.
    destruct (N.of_nat (length (aw_net aw)) <=? k); [reflexivity|].
    rewrite list_lookup_map.
    destruct (aw_net aw !! N.to_nat k) as [[p op]|]; [|reflexivity]. cbn [fmap option_fmap option_map fst].
    rewrite lookup_fmap.
    destruct (aw_nodes aw !! p_dst p) as [[n o]|]; cbn [fmap option_fmap option_map fst].
    + match goal with |- context [if ?b then _ else None] => destruct b end; [|reflexivity].
      destruct (handle_gossip n (p_src p) (p_view p) now choice) as [[n1 out] evs].
      cbn [fmap option_fmap option_map fst snd].
      unfold add_net, put_node, erase; cbn [w_nodes w_net aw_nodes aw_net].
      rewrite fmap_insert, map_app, stamp_annot_erase, remove_at_map. reflexivity.
    + destruct choice; [reflexivity|]. cbn [fmap option_fmap option_map fst snd].
      unfold erase; cbn [aw_nodes aw_net w_nodes w_net]. rewrite remove_at_map. reflexivity.
  - unfold erase at 1 2 3; cbn [w_nodes w_net]. rewrite map_length.
    destruct (N.of_nat (length (aw_net aw)) <=? k); [reflexivity|].
    cbn [fmap option_fmap option_map fst snd]. unfold erase; cbn [aw_nodes aw_net w_nodes w_net]. rewrite remove_at_map. reflexivity.
Qed.

Lemma arun_erase aw sc :
  forallb (fun p => round_step (snd p)) sc = true ->
  run (erase aw) sc = (fun r => (erase (fst r), snd r)) <$> arun aw sc.
Proof.
  revert aw. induction sc as [|[now s] rest IH]; intros aw H; cbn [run arun]; [reflexivity|].
  cbn [forallb snd] in H. apply andb_true_iff in H as [H1 H2].
  rewrite astep_erase by exact H1.
  destruct (astep aw now s) as [[aw1 l1]|]; cbn [fmap option_fmap option_map fst snd]; [|reflexivity].
  rewrite IH by exact H2.
  destruct (arun aw1 rest) as [[aw2 l2]|]; reflexivity.
Qed.

Lemma erase_annotate w : erase (annotate w) = w.
Proof.
  destruct w as [ns net]. unfold erase, annotate; cbn. f_equal.
  - apply map_eq. intros a. rewrite lookup_fmap, map_lookup_imap. destruct (ns !! a); reflexivity.
  - rewrite map_map. cbn. apply map_id.
Qed.

(** ** the join of a list of views depends only on the set of views *)
Lemma pjoin_all_set_eq l1 l2 : same_set l1 l2 -> pjoin_all l1 = pjoin_all l2.
Proof.
  intros H. apply map_eq. intros k.
  destruct (pjoin_all l1 !! k) as [p|] eqn:E1.
  - destruct (pjoin_all_some _ _ _ E1) as [(v & Hv & Hvk) Hmax1].
    destruct (pjoin_all l2 !! k) as [q|] eqn:E2.
    + destruct (pjoin_all_some _ _ _ E2) as [(u & Hu & Huk) Hmax2]. f_equal.
      apply inc_lt_total; [apply (Hmax1 u q); [apply H; exact Hu|exact Huk]|apply (Hmax2 v p); [apply H; exact Hv|exact Hvk]].
    + pose proof (proj1 (pjoin_all_none l2 k) E2 v (proj1 (H v) Hv)) as Hn. congruence.
  - symmetry. apply pjoin_all_none. intros v Hv. apply (proj1 (pjoin_all_none l1 k) E1). apply H. exact Hv.
Qed.

Section Round.
  Variable w0 : world.

  Definition view0 (a : list N) : option view := nd_view <$> w_nodes w0 !! a.
  (** the join of the initial views of a list of origins *)
  Definition pj (o : origins) : pmap := pjoin_all (omap view0 o).
  Definition all_views0 : list view := map nd_view (map snd (map_to_list (w_nodes w0))).

  Lemma pj_app o1 o2 : pj (o1 ++ o2) = pjoin (pj o1) (pj o2).
  Proof. unfold pj. rewrite omap_app. apply pjoin_all_app. Qed.

  Definition known (o : origins) : Prop := forall b, b ∈ o -> is_Some (w_nodes w0 !! b).

  Definition AInv (aw : aworld) : Prop :=
    (forall a n o, aw_nodes aw !! a = Some (n, o) ->
       nd_addr n = a /\ WF (nd_view n) /\ proj (nd_view n) = pj o /\ known o) /\
    (forall p o, (p, o) ∈ aw_net aw -> WF (p_view p) /\ proj (p_view p) = pj o /\ known o).

  Hypothesis keyed : forall a n, w_nodes w0 !! a = Some n -> nd_addr n = a.
  Hypothesis wf0 : forall a n, w_nodes w0 !! a = Some n -> WF (nd_view n).
  Hypothesis net0 : w_net w0 = [].

  Lemma AInv_init : AInv (annotate w0).
  Proof.
    split.
    - intros a n o H. unfold annotate in H; cbn in H. rewrite map_lookup_imap in H.
      destruct (w_nodes w0 !! a) as [m|] eqn:E; [|discriminate]. cbn in H. injection H as <- <-.
      split; [apply keyed; exact E|]. split; [apply (wf0 _ _ E)|]. split.
      + unfold pj, view0. cbn. rewrite E. cbn. unfold pjoin_all; cbn. rewrite pjoin_empty_r. reflexivity.
      + intros b Hb. apply elem_of_list_singleton in Hb. subst. eexists; exact E.
    - intros p o H. unfold annotate in H; cbn in H. rewrite net0 in H. inversion H.
  Qed.

  Lemma elem_of_remove_at {A} k (l : list A) x : x ∈ remove_at k l -> x ∈ l.
  Proof.
    unfold remove_at. generalize (N.to_nat k). intros i. revert i.
    induction l as [|y l IH]; intros [|i]; cbn; intros H; try (inversion H; fail).
    - apply elem_of_cons; auto.
    - apply elem_of_cons in H as [->|H]; apply elem_of_cons; [auto|right; eapply IH; exact H].
  Qed.

  Lemma AInv_step aw now s aw' l : AInv aw -> astep aw now s = Some (aw', l) -> AInv aw'.
  Proof.
    intros [Hn Hp] Hs. destruct s as [c asks|a asks|a|a asks|k choice|k|a|a|a id]; try discriminate; cbn [astep] in Hs.
    - (* gossip tick *)
      destruct (aw_nodes aw !! a) as [[n o]|] eqn:E; [|discriminate].
      destruct (nd_gossip_on n); [|discriminate].
      destruct (gossip_tick n) as [[n1 out] evs] eqn:G. injection Hs as <- <-.
      destruct (Hn a n o E) as (Ha & Hwf & Hpr & Hk).
      assert (Hv1 : nd_view n1 = nd_view n) by (change n1 with (fst (fst (n1, out, evs))); rewrite <- G; apply gossip_tick_view).
      assert (Hc1 : nd_addr n1 = a).
      { unfold nd_addr. change n1 with (fst (fst (n1, out, evs))). rewrite <- G, gossip_tick_cfg. exact Ha. }
      split; cbn [aw_nodes aw_net].
      + intros b m ob Hb. rewrite Hc1 in Hb. destruct (decide (b = a)) as [->|Hne].
        * rewrite lookup_insert in Hb. injection Hb as <- <-. rewrite Hv1. auto.
        * rewrite lookup_insert_ne in Hb by congruence. apply (Hn b m ob Hb).
      + intros p ob Hin. apply elem_of_app in Hin as [Hin|Hin]; [apply (Hp p ob Hin)|].
        apply elem_of_list_fmap in Hin as (q & [= -> ->] & Hq).
        unfold stamp in Hq. apply elem_of_list_fmap in Hq as ([d v] & -> & Hdv). cbn [p_view fst snd].
        assert (v = nd_view n).
        { eapply gossip_tick_payload. rewrite G. exact Hdv. }
        subst v. auto.
    - (* deliver *)
      destruct (N.of_nat (length (aw_net aw)) <=? k); [discriminate|].
      destruct (aw_net aw !! N.to_nat k) as [[p op]|] eqn:Ek; [|discriminate].
      apply elem_of_list_lookup_2 in Ek. destruct (Hp p op Ek) as (Hpw & Hpp & Hpk).
      destruct (aw_nodes aw !! p_dst p) as [[n o]|] eqn:E.
      + match type of Hs with (if ?b then _ else None) = _ => destruct b end; [|discriminate].
        destruct (handle_gossip n (p_src p) (p_view p) now choice) as [[n1 out] evs] eqn:G. injection Hs as <- <-.
        destruct (Hn _ n o E) as (Ha & Hwf & Hpr & Hk).
        pose proof (handle_gossip_proj n (p_src p) (p_view p) now choice Hwf Hpw) as [W1 P1].
        rewrite G in W1, P1. cbn [fst] in W1, P1.
        assert (Hc1 : nd_addr n1 = p_dst p).
        { unfold nd_addr. change n1 with (fst (fst (n1, out, evs))). rewrite <- G, handle_gossip_cfg. exact Ha. }
        assert (Hk' : known (o ++ op)).
        { intros b Hb. apply elem_of_app in Hb as [Hb|Hb]; [apply Hk|apply Hpk]; exact Hb. }
        assert (P2 : proj (nd_view n1) = pj (o ++ op)) by (rewrite P1, pj_app, Hpr, Hpp; reflexivity).
        split; cbn [aw_nodes aw_net].
        * intros b m ob Hb. rewrite Hc1 in Hb. destruct (decide (b = p_dst p)) as [->|Hne].
          -- rewrite lookup_insert in Hb. injection Hb as <- <-. auto.
          -- rewrite lookup_insert_ne in Hb by congruence. apply (Hn b m ob Hb).
        * intros q ob Hin. apply elem_of_app in Hin as [Hin|Hin]; [apply elem_of_remove_at in Hin; apply (Hp q ob Hin)|].
          apply elem_of_list_fmap in Hin as (q' & [= -> ->] & Hq).
          unfold stamp in Hq. apply elem_of_list_fmap in Hq as ([d v] & -> & Hdv). cbn [p_view fst snd].
          assert (v = nd_view n1).
          { pose proof (handle_gossip_payload n (p_src p) (p_view p) now choice d v) as HP. rewrite G in HP. apply HP. exact Hdv. }
          subst v. auto.
      + destruct choice; [discriminate|]. injection Hs as <- <-. split; cbn [aw_nodes aw_net]; [exact Hn|].
        intros q ob Hin. apply elem_of_remove_at in Hin. apply (Hp q ob Hin).
    - (* drop *)
      destruct (N.of_nat (length (aw_net aw)) <=? k); [discriminate|]. injection Hs as <- <-.
      split; cbn [aw_nodes aw_net]; [exact Hn|].
      intros q ob Hin. apply elem_of_remove_at in Hin. apply (Hp q ob Hin).
  Qed.

  Lemma AInv_run sc : forall aw aw' l, AInv aw -> arun aw sc = Some (aw', l) -> AInv aw'.
  Proof.
    induction sc as [|[now s] rest IH]; intros aw aw' l Hi Hr; cbn [arun] in Hr.
    - injection Hr as <- <-. exact Hi.
    - destruct (astep aw now s) as [[aw1 l1]|] eqn:E; [|discriminate].
      destruct (arun aw1 rest) as [[aw2 l2]|] eqn:E2; [|discriminate]. injection Hr as <- <-.
      eapply IH; [eapply AInv_step; eassumption|exact E2].
  Qed.

  (** a node whose origins cover every initially running node holds the join of all initial views *)
  Lemma covered_is_join o :
    known o -> (forall b, is_Some (w_nodes w0 !! b) -> b ∈ o) -> pj o = pjoin_all all_views0.
  Proof.
    intros Hk Hc. unfold pj. apply pjoin_all_set_eq. intros v. unfold all_views0. split.
    - intros H. apply elem_of_list_omap in H as (b & Hb & Hv). unfold view0 in Hv.
      destruct (w_nodes w0 !! b) as [n|] eqn:E; [|discriminate]. cbn in Hv. injection Hv as <-.
      apply elem_of_list_fmap. exists n. split; [reflexivity|]. apply elem_of_list_fmap. exists (b, n).
      split; [reflexivity|]. apply elem_of_map_to_list. exact E.
    - intros H. apply elem_of_list_fmap in H as (n & -> & Hn). apply elem_of_list_fmap in Hn as ([b n'] & -> & Hbn).
      apply elem_of_map_to_list in Hbn. cbn. apply elem_of_list_omap. exists b. split.
      + apply Hc. eexists; exact Hbn.
      + unfold view0. rewrite Hbn. reflexivity.
  Qed.

  (** "every running node's view reaches every other": after the round every node's origins cover all *)
  Definition all_reached (aw : aworld) : Prop :=
    forall a n o, aw_nodes aw !! a = Some (n, o) -> forall b, is_Some (w_nodes w0 !! b) -> b ∈ o.

  Theorem exchange_round_annotated sc aw1 l :
    arun (annotate w0) sc = Some (aw1, l) -> all_reached aw1 ->
    forall a n, w_nodes (erase aw1) !! a = Some n ->
      WF (nd_view n) /\ proj (nd_view n) = pjoin_all all_views0.
  Proof.
    intros Hr Hall a n Ha. pose proof (AInv_run sc _ _ _ AInv_init Hr) as [Hn _].
    unfold erase in Ha; cbn in Ha. rewrite lookup_fmap in Ha.
    destruct (aw_nodes aw1 !! a) as [[m o]|] eqn:E; [|discriminate]. cbn in Ha. injection Ha as <-.
    destruct (Hn a m o E) as (_ & Hwf & Hpr & Hk). split; [exact Hwf|].
    rewrite Hpr. apply covered_is_join; [exact Hk|]. apply (Hall a m o E).
  Qed.
End Round.

(** the statement on the plain world: the annotated run exists whenever the plain one does *)
Theorem exchange_round w0 sc w1 l :
  (forall a n, w_nodes w0 !! a = Some n -> nd_addr n = a) ->
  (forall a n, w_nodes w0 !! a = Some n -> WF (nd_view n)) ->
  w_net w0 = [] ->
  forallb (fun p => round_step (snd p)) sc = true ->
  run w0 sc = Some (w1, l) ->
  exists aw1, arun (annotate w0) sc = Some (aw1, l) /\ erase aw1 = w1 /\
    (all_reached w0 aw1 ->
     forall a n, w_nodes w1 !! a = Some n ->
       WF (nd_view n) /\ proj (nd_view n) = pjoin_all (all_views0 w0)).
Proof.
  intros Hk Hwf Hnet Hsc Hr.
  pose proof (arun_erase (annotate w0) sc Hsc) as He. rewrite erase_annotate, Hr in He.
  destruct (arun (annotate w0) sc) as [[aw1 l1]|] eqn:Ea; [|discriminate].
  cbn [fmap option_fmap option_map fst snd] in He. injection He as -> ->. exists aw1. split; [reflexivity|]. split; [reflexivity|].
  intros Hall a n Ha. eapply exchange_round_annotated; eassumption.
Qed.

(** * Theorem 3: the fixpoint - gossip is suppressed when the vectors are equal *)

Lemma filter_nil_forall {A} (f : A -> bool) l : (forall x, x ∈ l -> f x = false) -> List.filter f l = [].
Proof.
  induction l as [|x l IH]; intros H; cbn; [reflexivity|].
  rewrite (H x) by (apply elem_of_cons; auto). apply IH. intros y Hy. apply H. apply elem_of_cons; auto.
Qed.

Lemma isort_elem {A} (le : A -> A -> bool) l x : x ∈ isort le l <-> x ∈ l.
Proof. rewrite (isort_perm le l). reflexivity. Qed.

Lemma select_targets_prune n : select_targets (prune_last n) = select_targets n.
Proof. reflexivity. Qed.

(** a target of the selection is a seed or a member address: its record survives pruneLastVersionVectors *)
Lemma prune_keeps_target n t : t ∈ select_targets n -> nd_last (prune_last n) !! t = nd_last n !! t.
Proof.
  intros Ht. unfold select_targets in Ht. apply isort_elem, elem_of_remove_dups, elem_of_list_In, filter_In in Ht as [Hin Hf].
  apply andb_true_iff in Hf as [Hne _].
  unfold prune_last. cbn [nd_last set_last].
  set (allowed := _ ++ _).
  assert (Ha : t ∈ allowed).
  { unfold allowed. apply in_app_or in Hin as [Hin|Hin].
    - apply elem_of_app. right. apply elem_of_list_In, filter_In. split; assumption.
    - apply elem_of_app. left. apply elem_of_list_In, filter_In. split; assumption. }
  destruct (nd_last n !! t) as [x|] eqn:E.
  - apply map_filter_lookup_Some. split; [exact E|exact Ha].
  - apply map_filter_lookup_None. left. exact E.
Qed.

(** exactly when a gossip round sends to [t] *)
Theorem gossip_sent_iff n t :
  (exists v, (t, v) ∈ snd (fst (gossip_tick n))) <->
  t ∈ select_targets n /\
  match nd_last n !! t with
  | None => True
  | Some theirs => vcompare (vw_vv (nd_view n)) theirs = VAfter \/ vcompare (vw_vv (nd_view n)) theirs = VConcurrent
  end.
Proof.
  unfold gossip_tick. destruct (broadcast n) as [n1 out] eqn:E. cbn [fst snd].
  assert (Eo : out = snd (broadcast n)) by (rewrite E; reflexivity). rewrite Eo. clear E Eo n1 out.
  unfold broadcast. cbn [snd]. split.
  - intros [v H]. apply elem_of_list_fmap in H as (a & [= -> ->] & Ha).
    apply elem_of_list_In, filter_In in Ha as [Ha1 Ha2]. apply elem_of_list_In in Ha1.
    rewrite select_targets_prune in Ha1. split; [exact Ha1|].
    unfold should_send in Ha2. rewrite (prune_keeps_target n a Ha1) in Ha2.
    destruct (nd_last n !! a) as [th|]; [|exact I]. cbn [nd_view prune_last set_last view_snapshot] in Ha2.
    destruct (vcompare (vw_vv (nd_view n)) th); try discriminate; auto.
  - intros [Ht Hc]. exists (view_snapshot (nd_view (prune_last n))). apply elem_of_list_fmap. exists t. split; [reflexivity|].
    apply elem_of_list_In, filter_In. split; [apply elem_of_list_In; rewrite select_targets_prune; exact Ht|].
    unfold should_send. rewrite (prune_keeps_target n t Ht).
    destruct (nd_last n !! t) as [th|]; [|reflexivity]. cbn [nd_view prune_last set_last view_snapshot].
    destruct Hc as [-> | ->]; reflexivity.
Qed.

(** the fixpoint: every target's last known vector is Equal to (or After) the own one => the round sends nothing,
    publishes nothing, and leaves the view as it is *)
Theorem gossip_fixpoint n :
  (forall t, t ∈ select_targets n -> exists theirs, nd_last n !! t = Some theirs /\
       (vcompare (vw_vv (nd_view n)) theirs = VEqual \/ vcompare (vw_vv (nd_view n)) theirs = VBefore)) ->
  snd (fst (gossip_tick n)) = [] /\ snd (gossip_tick n) = [] /\ nd_view (fst (fst (gossip_tick n))) = nd_view n.
Proof.
  intros H. split; [|split; [apply gossip_tick_events|apply gossip_tick_view]].
  destruct (snd (fst (gossip_tick n))) as [|[t v] r] eqn:E; [reflexivity|]. exfalso.
  assert (Hs : exists v', (t, v') ∈ snd (fst (gossip_tick n))) by (exists v; rewrite E; apply elem_of_cons; auto).
  apply gossip_sent_iff in Hs as [Ht Hc]. destruct (H t Ht) as (th & Hth & Hcmp). rewrite Hth in Hc.
  destruct Hc as [Hc|Hc], Hcmp as [Hq|Hq]; congruence.
Qed.

(** a gossip round never publishes an event and never changes the view, whatever it sends *)
Theorem gossip_tick_silent n : snd (gossip_tick n) = [] /\ nd_view (fst (fst (gossip_tick n))) = nd_view n.
Proof. split; [apply gossip_tick_events|apply gossip_tick_view]. Qed.

(** * The quiescent state is stable when failure detection is off *)

Definition suppressed (n : node) : Prop :=
  forall t, t ∈ select_targets n -> exists theirs, nd_last n !! t = Some theirs /\
    (vcompare (vw_vv (nd_view n)) theirs = VEqual \/ vcompare (vw_vv (nd_view n)) theirs = VBefore).

(** nothing in flight, no failure-detection loop, no pending join retry, every gossip suppressed *)
Definition quiescent (w : world) : Prop :=
  w_net w = [] /\
  forall a n, w_nodes w !! a = Some n ->
    nd_addr n = a /\ nd_fd_on n = false /\ nd_retry_on n = false /\ suppressed n.

Lemma gossip_tick_node n : fst (fst (gossip_tick n)) = prune_last n.
Proof. reflexivity. Qed.

Lemma suppressed_prune n : suppressed n -> suppressed (prune_last n).
Proof.
  intros H t Ht. rewrite select_targets_prune in Ht. destruct (H t Ht) as (th & Hth & Hc).
  exists th. split; [rewrite prune_keeps_target by exact Ht; exact Hth|exact Hc].
Qed.

Theorem quiescent_stable w now s w' l :
  quiescent w -> fault_free s = true -> step_world w now s = Some (w', l) ->
  l = [] /\ quiescent w' /\ forall a, nd_view <$> (w_nodes w' !! a) = nd_view <$> (w_nodes w !! a).
Proof.
  intros [Hnet Hq] Hf Hs.
  destruct s as [c asks|a asks|a|a asks|k choice|k|a|a|a id]; try discriminate; cbn [step_world] in Hs.
  - (* join retry: not pending *)
    destruct (w_nodes w !! a) as [n|] eqn:E; [|discriminate].
    destruct (Hq a n E) as (_ & _ & Hr & _). rewrite Hr in Hs. discriminate.
  - (* gossip tick *)
    destruct (w_nodes w !! a) as [n|] eqn:E; [|discriminate].
    destruct (Hq a n E) as (Ha & Hfd & Hr & Hsup).
    destruct (nd_gossip_on n); [|discriminate].
    destruct (gossip_fixpoint n Hsup) as (Hout & Hev & Hview).
    pose proof (gossip_tick_node n) as Hnode.
    destruct (gossip_tick n) as [[n1 out] evs]. cbn [fst snd] in *. subst out evs n1.
    injection Hs as <- <-. split; [reflexivity|].
    assert (Hk : nd_addr (prune_last n) = a) by exact Ha.
    split; [split|].
    + cbn. rewrite Hnet. reflexivity.
    + intros b m Hb. cbn in Hb. rewrite Hk in Hb. destruct (decide (b = a)) as [->|Hne].
      * rewrite lookup_insert in Hb. injection Hb as <-. split; [exact Ha|]. split; [exact Hfd|]. split; [exact Hr|].
        apply suppressed_prune. exact Hsup.
      * rewrite lookup_insert_ne in Hb by congruence. apply (Hq b m Hb).
    + intros b. cbn. rewrite Hk. destruct (decide (b = a)) as [->|Hne].
      * rewrite lookup_insert, E. reflexivity.
      * rewrite lookup_insert_ne by congruence. reflexivity.
  - (* failure-detection tick: no loop *)
    destruct (w_nodes w !! a) as [n|] eqn:E; [|discriminate].
    destruct (Hq a n E) as (_ & Hfd & _ & _). rewrite Hfd in Hs. discriminate.
  - (* deliver: nothing in flight *)
    rewrite Hnet in Hs. cbn in Hs. destruct k; discriminate.
Qed.

(** boolean versions, to establish the hypotheses on concrete worlds by computation *)
Definition suppressed_b (n : node) : bool :=
  forallb (fun t => match nd_last n !! t with
                    | Some theirs => match vcompare (vw_vv (nd_view n)) theirs with VEqual | VBefore => true | _ => false end
                    | None => false
                    end) (select_targets n).
Definition quiescent_b (w : world) : bool :=
  match w_net w with [] => true | _ :: _ => false end &&
  forallb (fun p => bool_decide (nd_addr (snd p) = fst p) && negb (nd_fd_on (snd p)) && negb (nd_retry_on (snd p)) && suppressed_b (snd p))
          (map_to_list (w_nodes w)).

Lemma suppressed_b_sound n : suppressed_b n = true -> suppressed n.
Proof.
  unfold suppressed_b. rewrite forallb_forall. intros H t Ht. apply elem_of_list_In in Ht. specialize (H t Ht).
  destruct (nd_last n !! t) as [th|]; [|discriminate]. exists th. split; [reflexivity|].
  destruct (vcompare (vw_vv (nd_view n)) th); try discriminate; auto.
Qed.

Lemma quiescent_b_sound w : quiescent_b w = true -> quiescent w.
Proof.
  unfold quiescent_b. rewrite andb_true_iff, forallb_forall. intros [Hn H]. split.
  - destruct (w_net w); [reflexivity|discriminate].
  - intros a n Ha. apply elem_of_map_to_list, elem_of_list_In in Ha. specialize (H _ Ha). cbn [fst snd] in H.
    rewrite !andb_true_iff, !negb_true_iff, bool_decide_eq_true in H. destruct H as [[[H1 H2] H3] H4].
    split; [exact H1|]. split; [exact H2|]. split; [exact H3|]. apply suppressed_b_sound. exact H4.
Qed.

(** * converged vs converged_b *)

Lemma subset_b_true {A} `{EqDecision A} (l1 l2 : list A) : (forall x, x ∈ l1 -> x ∈ l2) -> subset_b l1 l2 = true.
Proof.
  intros H. unfold subset_b. apply forallb_forall. intros x Hx. apply bool_decide_eq_true. apply H, elem_of_list_In, Hx.
Qed.

Lemma converged_b_complete w : converged w -> converged_b w = true.
Proof.
  intros H. unfold converged_b. apply forallb_forall. intros n Hn.
  apply elem_of_list_In, elem_of_list_fmap in Hn as ([a n'] & -> & Hn). apply elem_of_map_to_list in Hn. cbn [snd].
  destruct (H a n' Hn) as [Hs Hl]. rewrite !andb_true_iff. split; [split|].
  - apply subset_b_true. intros x. apply Hs.
  - apply subset_b_true. intros x. apply Hs.
  - apply forallb_forall. intros m Hm.
    apply elem_of_list_In, elem_of_list_fmap in Hm as ([b m'] & -> & Hm). apply elem_of_map_to_list in Hm. cbn [snd].
    apply bool_decide_eq_true. eapply Hl. exact Hm.
Qed.

Lemma subset_b_sound {A} `{EqDecision A} (l1 l2 : list A) : subset_b l1 l2 = true -> forall x, x ∈ l1 -> x ∈ l2.
Proof.
  unfold subset_b. rewrite forallb_forall. intros H x Hx. apply elem_of_list_In in Hx. specialize (H x Hx).
  apply bool_decide_eq_true in H. exact H.
Qed.

Lemma converged_b_sound w : converged_b w = true -> converged w.
Proof.
  unfold converged_b. rewrite forallb_forall. intros H a n Ha.
  assert (Hin : In n (map snd (map_to_list (w_nodes w)))).
  { apply elem_of_list_In, elem_of_list_fmap. exists (a, n). split; [reflexivity|]. apply elem_of_map_to_list. exact Ha. }
  specialize (H n Hin). rewrite !andb_true_iff in H. destruct H as [[H1 H2] H3]. split.
  - intros x. split; [apply (subset_b_sound _ _ H1)|apply (subset_b_sound _ _ H2)].
  - intros b m Hb. rewrite forallb_forall in H3.
    assert (Hm : In m (map snd (map_to_list (w_nodes w)))).
    { apply elem_of_list_In, elem_of_list_fmap. exists (b, m). split; [reflexivity|]. apply elem_of_map_to_list. exact Hb. }
    specialize (H3 m Hm). apply bool_decide_eq_true in H3. exact H3.
Qed.

(** * Refutations by concrete executions *)

(** a computed check of "faults, then these fair rounds, then P" yields the existential statement *)
Lemma witness_intro (F : sched) (t d : Z) (R : list sched) (P : world -> evlog -> world -> list evlog -> bool) :
  match run empty_world F with
  | Some (w1, l1) => match fair_rounds w1 t d R with
                     | Some (w2, logs) => P w1 l1 w2 logs
                     | None => false
                     end
  | None => false
  end = true ->
  exists w1 l1 w2 logs,
    run empty_world F = Some (w1, l1) /\ fair_rounds w1 t d R = Some (w2, logs) /\ P w1 l1 w2 logs = true.
Proof.
  destruct (run empty_world F) as [[w1 l1]|] eqn:E1; [|discriminate].
  destruct (fair_rounds w1 t d R) as [[w2 logs]|] eqn:E2; [|discriminate].
  intros H. exists w1, l1, w2, logs. split; [reflexivity|]. split; [exact E2|exact H].
Qed.

Lemma unconditional_refuted_by (F : sched) (t d : Z) (R : list sched) (L : nat) :
  (exists w1 l1 w2 logs,
     run empty_world F = Some (w1, l1) /\ fair_rounds w1 t d R = Some (w2, logs) /\
     ((L <=? length R)%nat && negb (converged_b w2 && match last logs with Some lg => quiet lg | None => true end)) = true) ->
  ~ C18_unconditional L d.
Proof.
  intros (w1 & l1 & w2 & logs & H1 & H2 & H3) HU.
  apply andb_true_iff in H3 as [HL H3]. apply Nat.leb_le in HL.
  destruct (HU F t R w1 l1 w2 logs H1 H2 HL) as [Hc Hq].
  apply converged_b_complete in Hc. rewrite Hc in H3. cbn [andb] in H3.
  destruct (last logs) as [lg|]; [rewrite (Hq lg eq_refl) in H3|]; discriminate.
Qed.

(** (a) two healthy nodes, timeout 300, 40 fair rounds of length 50 *)
Definition wa_P (w1 : world) (l1 : evlog) (w2 : world) (logs : list evlog) : bool :=
  only_clean_starts (faults_of wa_play 40) && (length (rounds_of wa_play 40) =? 40)%nat &&
  (length (nodes_of w2) =? 2)%nat &&
  existsb (removal_of_running w2) (skipn 30 logs) &&
  negb (converged_b w2) && negb (same_members_everywhere w2).

Lemma wa_check :
  exists w1 l1 w2 logs,
    run empty_world (faults_of wa_play 40) = Some (w1, l1) /\
    fair_rounds w1 1050 50 (rounds_of wa_play 40) = Some (w2, logs) /\ wa_P w1 l1 w2 logs = true.
Proof. apply witness_intro. vm_compute. reflexivity. Qed.

Lemma unconditional_refuted : ~ C18_unconditional 40 50.
Proof.
  apply (unconditional_refuted_by (faults_of wa_play 40) 1050 50 (rounds_of wa_play 40) 40).
  apply witness_intro. vm_compute. reflexivity.
Qed.

(** (c) the same two nodes with SuspectConfirmDuration 100000: both consider themselves leader *)
Definition wc_P (w1 : world) (l1 : evlog) (w2 : world) (logs : list evlog) : bool :=
  only_clean_starts (faults_of wc_play 40) && (length (rounds_of wc_play 40) =? 40)%nat &&
  (length (nodes_of w2) =? 2)%nat && same_members_everywhere w2 && (length (leaders_of w2) =? 2)%nat &&
  existsb (fun n => existsb (fun s => (ns_status s =? st_suspect)%Z && is_running w2 (ns_addr s)) (states (nd_view n))) (nodes_of w2).
Lemma wc_check :
  exists w1 l1 w2 logs,
    run empty_world (faults_of wc_play 40) = Some (w1, l1) /\
    fair_rounds w1 1050 50 (rounds_of wc_play 40) = Some (w2, logs) /\ wc_P w1 l1 w2 logs = true.
Proof. apply witness_intro. vm_compute. reflexivity. Qed.

(** (b) failure detection off; x crashed and was forced down at s (absent from s's view when the faults stop);
    30 fair rounds later both running nodes, s included, list x *)
Definition wb_P (w1 : world) (l1 : evlog) (w2 : world) (logs : list evlog) : bool :=
  (length (rounds_of wb_play 30) =? 30)%nat &&
  negb (is_running w1 ad3) && negb (is_running w2 ad3) &&
  existsb (fun p => bool_decide (fst p = ad1) && match snd p with EMembers _ 0 [r] => bool_decide (r = ad3) | _ => false end) l1 &&
  match w_nodes w1 !! ad1 with Some s => negb (lists_id s [120]) | None => false end &&
  (length (nodes_of w2) =? 2)%nat && forallb (fun n => lists_id n [120]) (nodes_of w2) &&
  forallb quiet (skipn 5 logs).
Lemma wb_check :
  exists w1 l1 w2 logs,
    run empty_world (faults_of wb_play 30) = Some (w1, l1) /\
    fair_rounds w1 1250 50 (rounds_of wb_play 30) = Some (w2, logs) /\ wb_P w1 l1 w2 logs = true.
Proof. apply witness_intro. vm_compute. reflexivity. Qed.

(** (d) failure detection off; j left gracefully; 30 fair rounds later s still lists it, computes it as the leader,
    and no running node considers itself leader *)
Definition wd_P (w1 : world) (l1 : evlog) (w2 : world) (logs : list evlog) : bool :=
  (length (rounds_of wd_play 30) =? 30)%nat &&
  existsb (fun p => bool_decide (fst p = ad1) && match snd p with ELeaveCompleted => true | _ => false end) l1 &&
  negb (is_running w2 ad1) &&
  match w_nodes w2 !! ad2 with
  | Some s => lists_id s [106] && bool_decide (leader_of (nd_view s) = ad1)
  | None => false
  end &&
  (length (nodes_of w2) =? 1)%nat && (length (leaders_of w2) =? 0)%nat && forallb quiet logs.
Lemma wd_check :
  exists w1 l1 w2 logs,
    run empty_world (faults_of wd_play 30) = Some (w1, l1) /\
    fair_rounds w1 1250 50 (rounds_of wd_play 30) = Some (w2, logs) /\ wd_P w1 l1 w2 logs = true.
Proof. apply witness_intro. vm_compute. reflexivity. Qed.

(** (e) j restarted under the same NodeID and re-derived the incarnation number (2,2) its predecessor already had:
    30 fair rounds later s1 still holds the predecessor's entry (its timestamp) although all views "agree" *)
Definition entry_ts (n : node) (id : list N) : option (Z * N * Z) :=
  match vw_members (nd_view n) !! id with Some s => Some (ns_gen s, ns_lc s, ns_ts s) | None => None end.
Definition we_P (w1 : world) (l1 : evlog) (w2 : world) (logs : list evlog) : bool :=
  (length (rounds_of we_play 30) =? 30)%nat && converged_b w2 && forallb quiet (skipn 5 logs) &&
  match w_nodes w2 !! ad1, w_nodes w2 !! ad3 with
  | Some s1, Some j =>
      bool_decide (entry_ts s1 [106] = Some (2%Z, 2, 1020%Z)) &&
      bool_decide ((ns_gen (nd_self j), ns_lc (nd_self j), ns_ts (nd_self j)) = (2%Z, 2, 1100%Z)) &&
      bool_decide (entry_ts j [106] = Some (2%Z, 2, 1100%Z))
  | _, _ => false
  end.
Lemma we_check :
  exists w1 l1 w2 logs,
    run empty_world (faults_of we_play 30) = Some (w1, l1) /\
    fair_rounds w1 1150 50 (rounds_of we_play 30) = Some (w2, logs) /\ we_P w1 l1 w2 logs = true.
Proof. apply witness_intro. vm_compute. reflexivity. Qed.

(** * True statements next to the refuted ones *)

(** (d) a leave tells the peers nothing: the view (the leaver's own entry included) is not touched, and every
    GossipMessage sent carries exactly that view *)
Theorem leave_not_announced n :
  nd_view (fst (fst (leave n))) = nd_view n /\
  forall d v, (d, v) ∈ snd (fst (leave n)) -> v = nd_view n.
Proof.
  unfold leave. destruct (ns_status (nd_self n) =? st_joining)%Z; [split; [reflexivity|intros d v H; inversion H]|].
  destruct ((ns_status (nd_self n) =? st_leaving)%Z || (ns_status (nd_self n) =? st_exiting)%Z);
    [split; [reflexivity|intros d v H; inversion H]|].
  set (n1 := set_self _ _).
  destruct (broadcast n1) as [n2 out] eqn:E. cbn [fst snd]. split.
  - change (nd_view n2 = nd_view n). change n2 with (fst (n2, out)). rewrite <- E, broadcast_view. reflexivity.
  - intros d v H. change out with (snd (n2, out)) in H. rewrite <- E in H. apply broadcast_payload in H. exact H.
Qed.

(** (f) a member learned through a merge is stored with the LastSeen of the sender's copy: when the sender of the
    GossipMessage is not itself a member of the local view (no refresh happens), an id the local view does not
    have is adopted verbatim from the received view *)
Theorem learned_member_keeps_foreign_lastseen n src v now id s :
  refresh_candidates (nd_view n) src = [] ->
  vw_members (nd_view n) !! id = None -> vw_members v !! id = Some s ->
  vw_members (nd_view (fst (fst (handle_gossip n src v now None)))) !! id = Some s.
Proof.
  intros _ Hn Hv. rewrite handle_gossip_view. unfold gossip_pre.
  rewrite view_merge_members, merge_members_lookup, Hn, Hv. reflexivity.
Qed.

(** * Boolean checkers for the hypotheses of the theorems (used by the Examples of Properties/C18.v) *)

Definition WF_b (v : view) : bool :=
  forallb (fun p => bool_decide (ns_id (snd p) = fst p) && (1 <=? ns_gen (snd p))%Z && (1 <=? ns_lc (snd p)))
          (map_to_list (vw_members v)).
Lemma WF_b_sound v : WF_b v = true -> WF v.
Proof.
  unfold WF_b. rewrite forallb_forall. intros H k s Hk.
  apply elem_of_map_to_list, elem_of_list_In in Hk. specialize (H _ Hk). cbn [fst snd] in H.
  rewrite !andb_true_iff, bool_decide_eq_true in H. destruct H as [[H1 H2] H3]. split; [exact H1|split; lia].
Qed.

Definition world_ok_b (w : world) : bool :=
  match w_net w with [] => true | _ :: _ => false end &&
  forallb (fun p => bool_decide (nd_addr (snd p) = fst p) && WF_b (nd_view (snd p))) (map_to_list (w_nodes w)).
Lemma world_ok_b_sound w :
  world_ok_b w = true ->
  (forall a n, w_nodes w !! a = Some n -> nd_addr n = a) /\
  (forall a n, w_nodes w !! a = Some n -> WF (nd_view n)) /\ w_net w = [].
Proof.
  unfold world_ok_b. rewrite andb_true_iff, forallb_forall. intros [Hn H].
  assert (forall a n, w_nodes w !! a = Some n -> nd_addr n = a /\ WF (nd_view n)) as HH.
  { intros a n Ha. apply elem_of_map_to_list, elem_of_list_In in Ha. specialize (H _ Ha). cbn [fst snd] in H.
    rewrite andb_true_iff, bool_decide_eq_true in H. destruct H as [H1 H2]. split; [exact H1|apply WF_b_sound; exact H2]. }
  split; [intros a n Ha; apply (HH a n Ha)|]. split; [intros a n Ha; apply (HH a n Ha)|].
  destruct (w_net w); [reflexivity|discriminate].
Qed.

Definition all_reached_b (w0 : world) (aw : aworld) : bool :=
  forallb (fun p : list N * (node * origins) => forallb (fun b => bool_decide (b ∈ snd (snd p))) (map fst (map_to_list (w_nodes w0))))
          (map_to_list (aw_nodes aw)).
Lemma all_reached_b_sound w0 aw : all_reached_b w0 aw = true -> all_reached w0 aw.
Proof.
  unfold all_reached_b. rewrite forallb_forall. intros H a n o Ha b [m Hb].
  apply elem_of_map_to_list, elem_of_list_In in Ha. specialize (H _ Ha). cbn [snd] in H.
  rewrite forallb_forall in H.
  assert (Hin : In b (map fst (map_to_list (w_nodes w0)))).
  { apply elem_of_list_In, elem_of_list_fmap. exists (b, m). split; [reflexivity|]. apply elem_of_map_to_list. exact Hb. }
  specialize (H b Hin). apply bool_decide_eq_true in H. exact H.
Qed.

Lemma same_set_b_sound {A} `{EqDecision A} (l1 l2 : list A) :
  subset_b l1 l2 && subset_b l2 l1 = true -> same_set l1 l2.
Proof.
  rewrite andb_true_iff. intros [H1 H2] x. split; [apply (subset_b_sound _ _ H1)|apply (subset_b_sound _ _ H2)].
Qed.

(** three nodes (seeds s and a, member x), failure detection off, after three fair rounds *)
Definition ex_world : world :=
  match play empty_world [PSteps wb_prefix; PRounds 3 1050 50] with Some (w, _) => w | None => empty_world end.

(** three islands: s and a bootstrapped on their own, x joined s; every packet sent so far was lost *)
Definition ex_islands : world :=
  match run empty_world (wb_prefix ++ [(1030, SDrop 0); (1030, SDrop 0); (1030, SDrop 0); (1030, SDrop 0); (1030, SDrop 0)])%Z with
  | Some (w, _) => w | None => empty_world end.
Definition ex_round : list (Z * step) :=
  match auto_round 1050 ex_islands with Some (_, s, _) => s | None => [] end.

(** two seeds that bootstrapped on their own and found each other by gossip (failure detection off) *)
Definition ex_two : world :=
  match play empty_world [PSteps (firstn 2 wb_prefix); PRounds 3 1050 50] with Some (w, _) => w | None => empty_world end.

(** * Invariants of every reachable world: keys are node addresses, every view (of a node, of a packet) is
    well-formed in the sense of C17 - so the hypotheses of the exchange-round theorem hold after any history *)

Definition node_ok (n : node) : Prop := WF (nd_view n) /\ wf_state (nd_self n).
Definition world_inv (w : world) : Prop :=
  (forall a n, w_nodes w !! a = Some n -> nd_addr n = a /\ node_ok n) /\
  (forall p, p ∈ w_net w -> WF (p_view p)).

Definition same_base (n n' : node) : Prop := nd_cfg n' = nd_cfg n.

Lemma pl_inv n : nd_view (fst (publish_leader n)) = nd_view n /\ nd_self (fst (publish_leader n)) = nd_self n /\ nd_cfg (fst (publish_leader n)) = nd_cfg n.
Proof. repeat split; reflexivity. Qed.
Lemma pdc_inv n : nd_view (fst (publish_dc n)) = nd_view n /\ nd_self (fst (publish_dc n)) = nd_self n /\ nd_cfg (fst (publish_dc n)) = nd_cfg n.
Proof.
  unfold publish_dc. destruct (states (nd_view n)); [repeat split; reflexivity|].
  destruct (nd_dch n) as [was|]; [destruct (eqb was _)|]; repeat split; reflexivity.
Qed.
Lemma bc_inv n : nd_view (fst (broadcast n)) = nd_view n /\ nd_self (fst (broadcast n)) = nd_self n /\ nd_cfg (fst (broadcast n)) = nd_cfg n.
Proof. repeat split; reflexivity. Qed.

Lemma out_wf_app (o1 o2 : list (addr * view)) :
  (forall d v, (d, v) ∈ o1 -> WF v) -> (forall d v, (d, v) ∈ o2 -> WF v) -> forall d v, (d, v) ∈ o1 ++ o2 -> WF v.
Proof. intros H1 H2 d v H. apply elem_of_app in H as [H|H]; [eapply H1|eapply H2]; exact H. Qed.

(** what every handler guarantees: same configuration, well-formed result, well-formed payloads *)
Definition handler_ok (n : node) (r : node * list (addr * view) * list event) : Prop :=
  nd_cfg (fst (fst r)) = nd_cfg n /\ node_ok (fst (fst r)) /\ forall d v, (d, v) ∈ snd (fst r) -> WF v.

Lemma wf_status s st : wf_state s -> wf_state (ns_set_status s st).
Proof. intros H. exact H. Qed.

(** publish_leader; broadcast on a node with well-formed view *)
Lemma finish_ok n0 n1 :
  nd_cfg n1 = nd_cfg n0 -> node_ok n1 ->
  forall n2 evs n3 out, publish_leader n1 = (n2, evs) -> broadcast n2 = (n3, out) ->
  nd_cfg n3 = nd_cfg n0 /\ node_ok n3 /\ (forall d v, (d, v) ∈ out -> WF v) /\ nd_view n3 = nd_view n1 /\ nd_self n3 = nd_self n1.
Proof.
  intros Hc [Hv Hs] n2 evs n3 out Ep Eb.
  destruct (pl_inv n1) as (A1 & A2 & A3). rewrite Ep in A1, A2, A3. cbn [fst] in A1, A2, A3.
  destruct (bc_inv n2) as (B1 & B2 & B3). rewrite Eb in B1, B2, B3. cbn [fst] in B1, B2, B3.
  split; [rewrite B3, A3; exact Hc|]. split; [split; [rewrite B1, A1; exact Hv|rewrite B2, A2; exact Hs]|].
  split; [|split; [rewrite B1, A1; reflexivity|rewrite B2, A2; reflexivity]].
  intros d v H. change out with (snd (n3, out)) in H. rewrite <- Eb in H. apply broadcast_payload in H. subst v. rewrite A1. exact Hv.
Qed.

Lemma bootstrap_ok n : node_ok n -> handler_ok n (bootstrap n).
Proof.
  intros [Hv Hs]. unfold bootstrap.
  set (self := ns_set_status (nd_self n) st_up).
  set (n1 := set_view (set_self n self) _).
  assert (H1 : node_ok n1).
  { split; [|exact Hs]. unfold n1; cbn [nd_view set_view]. apply WF_inc, WF_add; [exact Hv|exact Hs]. }
  destruct (publish_leader n1) as [n2 evs] eqn:Ep. destruct (broadcast n2) as [n3 out] eqn:Eb.
  destruct (finish_ok n n1 eq_refl H1 n2 evs n3 out Ep Eb) as (C & [Ov Os] & P & _ & _).
  unfold handler_ok; cbn [fst snd]. split; [exact C|]. split; [split; [exact Ov|exact Os]|exact P].
Qed.

Lemma join_request_ok n st n' resp out evs :
  node_ok n -> wf_state st -> handle_join_request n st = Some (n', resp, out, evs) ->
  nd_cfg n' = nd_cfg n /\ node_ok n' /\ (forall d v, (d, v) ∈ out -> WF v) /\ WF resp.
Proof.
  intros [Hv Hs] Hst. unfold handle_join_request.
  destruct (negb (ns_status st =? st_joining)%Z); [discriminate|].
  destruct (negb (sat_quorum (nd_view n))); [discriminate|].
  set (v1 := view_inc _ _). set (n1 := set_view n v1).
  assert (H1 : node_ok n1).
  { split; [|exact Hs]. unfold n1, v1; cbn [nd_view set_view]. apply WF_inc, WF_add; [exact Hv|exact Hst]. }
  destruct (publish_leader n1) as [n2 ev2] eqn:Ep. destruct (broadcast n2) as [n3 o3] eqn:Eb.
  intros [= <- <- <- <-].
  destruct (finish_ok n n1 eq_refl H1 n2 ev2 n3 o3 Ep Eb) as (C & Ok3 & P & _ & _).
  split; [exact C|]. split; [exact Ok3|]. split; [exact P|].
  destruct (pl_inv n1) as (A1 & _ & _). rewrite Ep in A1. cbn [fst] in A1. unfold view_snapshot. rewrite A1. apply H1.
Qed.

Lemma join_complete_ok n resp now : node_ok n -> WF resp -> handler_ok n (join_complete n resp now).
Proof.
  intros [Hv Hs] Hr. unfold join_complete.
  set (self1 := ns_set_status (nd_self n) st_up).
  set (v3 := fst (view_merge 0 0 now _ resp)).
  assert (W3 : WF v3).
  { unfold v3. apply WF_merge; [apply WF_inc, WF_add; [exact Hv|exact Hs]|exact Hr]. }
  destruct (view_rejoin self1 v3 now) as [self2 v4] eqn:Er.
  assert (W4 : WF v4) by (change v4 with (snd (self2, v4)); rewrite <- Er; apply WF_rejoin; [exact W3|exact Hs]).
  assert (S2 : wf_state self2) by (change self2 with (fst (self2, v4)); rewrite <- Er; apply wf_rejoin_state; [exact W3|exact Hs]).
  set (n1 := set_view (set_self n self2) v4).
  assert (H1 : node_ok n1) by (split; assumption).
  destruct (publish_leader n1) as [n2 evs] eqn:Ep. destruct (broadcast n2) as [n3 out] eqn:Eb.
  destruct (finish_ok n n1 eq_refl H1 n2 evs n3 out Ep Eb) as (C & [Ov Os] & P & _ & _).
  unfold handler_ok; cbn [fst snd]. split; [exact C|]. split; [split; [exact Ov|exact Os]|exact P].
Qed.

Lemma handle_gossip_ok n src v now choice : node_ok n -> WF v -> handler_ok n (handle_gossip n src v now choice).
Proof.
  intros [Hv Hs] Hw. split; [apply handle_gossip_cfg|]. split; [split|].
  - apply (handle_gossip_proj n src v now choice Hv Hw).
  - (* the own NodeState is not touched *)
    unfold handle_gossip.
    set (n1 := if nonempty src then _ else n).
    assert (E1 : nd_self n1 = nd_self n) by (unfold n1; destruct (nonempty src); reflexivity).
    set (n2 := match choice with Some _ => _ | None => _ end).
    assert (E2 : nd_self n2 = nd_self n) by (unfold n2; destruct choice; [destruct (nonempty src)|]; cbn; rewrite ?E1; reflexivity).
    destruct (view_merge 0 0 now (nd_view n2) v) as [v' ch]. destruct ch; [|cbn; rewrite E2; exact Hs].
    destruct (publish_leader (set_view n2 v')) as [n4 evs] eqn:Ep. destruct (broadcast n4) as [n5 out] eqn:Eb. cbn [fst].
    destruct (pl_inv (set_view n2 v')) as (_ & A2 & _). rewrite Ep in A2. cbn [fst] in A2.
    destruct (bc_inv n4) as (_ & B2 & _). rewrite Eb in B2. cbn [fst] in B2. rewrite B2, A2. cbn. rewrite E2. exact Hs.
  - intros d pv H. apply handle_gossip_payload in H. subst pv. apply (handle_gossip_proj n src v now choice Hv Hw).
Qed.

Lemma gossip_tick_ok n : node_ok n -> handler_ok n (gossip_tick n).
Proof.
  intros [Hv Hs]. split; [apply gossip_tick_cfg|]. split; [split|].
  - rewrite gossip_tick_view. exact Hv.
  - rewrite gossip_tick_node. exact Hs.
  - intros d v H. apply gossip_tick_payload in H. subst v. exact Hv.
Qed.

Lemma suspect_fold_WF self l v : WF v -> WF (fold_left (suspect_one self) l v).
Proof.
  revert v. induction l as [|id l IH]; intros v Hv; cbn; [exact Hv|]. apply IH.
  unfold suspect_one. destruct (vw_members v !! id); [|exact Hv]. apply WF_inc, WF_set_status. exact Hv.
Qed.
Lemma remove_fold_WF self l acc : WF (fst acc) -> WF (fst (fold_left (remove_one self) l acc)).
Proof.
  revert acc. induction l as [|id l IH]; intros acc Hv; cbn; [exact Hv|]. apply IH.
  unfold remove_one. cbn [fst]. apply WF_inc, WF_remove. exact Hv.
Qed.

Lemma fd_tick_ok n now : node_ok n -> handler_ok n (fst (fd_tick n now)).
Proof.
  intros [Hv Hs]. unfold fd_tick. destruct (fd_detect n now) as [sus rem].
  set (v1 := fold_left (suspect_one (nd_id n)) sus (nd_view n)).
  assert (W1 : WF v1) by (apply suspect_fold_WF; exact Hv).
  set (n1 := set_view n v1).
  assert (R1 : exists n2 out1 ev1, match sus with [] => (n1, [], []) | _ :: _ => let '(m, o) := broadcast n1 in (m, o, [ev_view v1 0 []]) end = (n2, out1, ev1) /\
                 nd_cfg n2 = nd_cfg n /\ nd_view n2 = v1 /\ nd_self n2 = nd_self n /\ forall d v, (d, v) ∈ out1 -> WF v).
  { destruct sus.
    - exists n1, [], []. split; [reflexivity|]. split; [reflexivity|]. split; [reflexivity|]. split; [reflexivity|]. intros d v H. inversion H.
    - destruct (broadcast n1) as [m o] eqn:Eb. exists m, o, [ev_view v1 0 []]. split; [reflexivity|].
      destruct (bc_inv n1) as (B1 & B2 & B3). rewrite Eb in B1, B2, B3. cbn [fst] in B1, B2, B3.
      split; [exact B3|]. split; [exact B1|]. split; [exact B2|].
      intros d v H. change o with (snd (m, o)) in H. rewrite <- Eb in H. apply broadcast_payload in H. subst v. exact W1. }
  destruct R1 as (n2 & out1 & ev1 & -> & C2 & V2 & S2 & P1).
  destruct (fold_left (remove_one (nd_id n)) rem (nd_view n2, [])) as [v2 removed] eqn:Ef.
  assert (W2 : WF v2).
  { change v2 with (fst (v2, removed)). rewrite <- Ef. apply remove_fold_WF. cbn [fst]. rewrite V2. exact W1. }
  set (removed' := isort lex_le removed). set (n3 := set_view n2 v2).
  assert (R2 : exists n4 out2 ev2, match removed' with [] => (n3, [], []) | _ :: _ => let '(m, o) := broadcast n3 in (m, o, [EMembers (member_addrs v2) 0 removed'; ev_view v2 0 removed']) end = (n4, out2, ev2) /\
                 nd_cfg n4 = nd_cfg n /\ nd_view n4 = v2 /\ nd_self n4 = nd_self n /\ forall d v, (d, v) ∈ out2 -> WF v).
  { destruct removed'.
    - exists n3, [], []. split; [reflexivity|]. split; [exact C2|]. split; [reflexivity|]. split; [exact S2|]. intros d v H. inversion H.
    - destruct (broadcast n3) as [m o] eqn:Eb. eexists m, o, _. split; [reflexivity|].
      destruct (bc_inv n3) as (B1 & B2 & B3). rewrite Eb in B1, B2, B3. cbn [fst] in B1, B2, B3.
      split; [rewrite B3; exact C2|]. split; [exact B1|]. split; [rewrite B2; exact S2|].
      intros d v H. change o with (snd (m, o)) in H. rewrite <- Eb in H. apply broadcast_payload in H. subst v. exact W2. }
  destruct R2 as (n4 & out2 & ev2 & -> & C4 & V4 & S4 & P2).
  destruct (publish_leader n4) as [n5 ev3] eqn:Ep. destruct (publish_dc n5) as [n6 ev4] eqn:Ed.
  destruct (pl_inv n4) as (A1 & A2 & A3). rewrite Ep in A1, A2, A3. cbn [fst] in A1, A2, A3.
  destruct (pdc_inv n5) as (D1 & D2 & D3). rewrite Ed in D1, D2, D3. cbn [fst] in D1, D2, D3.
  unfold handler_ok; cbn [fst snd]. split; [congruence|]. split; [split; [rewrite D1, A1, V4; exact W2|rewrite D2, A2, S4; exact Hs]|].
  apply out_wf_app; assumption.
Qed.

Lemma recovery_merge_ok n resp now :
  node_ok n -> WF resp ->
  nd_cfg (fst (recovery_merge n resp now)) = nd_cfg n /\ node_ok (fst (recovery_merge n resp now)) /\
  forall d v, (d, v) ∈ snd (recovery_merge n resp now) -> WF v.
Proof.
  intros [Hv Hs] Hr. unfold recovery_merge.
  destruct (view_merge 0 0 now (nd_view n) resp) as [v' ch] eqn:Em.
  assert (W : WF v') by (change v' with (fst (v', ch)); rewrite <- Em; apply WF_merge; assumption).
  destruct ch.
  - destruct (bc_inv (set_view n v')) as (B1 & B2 & B3). split; [exact B3|]. split; [split; [rewrite B1; exact W|rewrite B2; exact Hs]|].
    intros d v H. apply broadcast_payload in H. subst v. exact W.
  - cbn [fst snd]. split; [reflexivity|]. split; [split; [exact W|exact Hs]|]. intros d v H. inversion H.
Qed.

Lemma leave_ok n : node_ok n -> handler_ok n (leave n).
Proof.
  intros [Hv Hs]. pose proof (leave_not_announced n) as [Lv Lp].
  split; [|split; [split|]].
  - unfold leave. destruct (_ =? st_joining)%Z; [reflexivity|]. destruct (_ || _); [reflexivity|].
    destruct (broadcast _) as [n2 out] eqn:Eb. cbn [fst].
    destruct (bc_inv (set_self (set_timers n false false false) (ns_set_status (nd_self n) st_leaving))) as (_ & _ & B3).
    rewrite Eb in B3. cbn [fst] in B3. exact B3.
  - rewrite Lv. exact Hv.
  - unfold leave. destruct (_ =? st_joining)%Z; [exact Hs|]. destruct (_ || _); [exact Hs|].
    destruct (broadcast _) as [n2 out] eqn:Eb. cbn [fst nd_self set_self]. apply wf_status.
    destruct (bc_inv (set_self (set_timers n false false false) (ns_set_status (nd_self n) st_leaving))) as (_ & B2 & _).
    rewrite Eb in B2. cbn [fst] in B2. rewrite B2. exact Hs.
  - intros d v H. rewrite (Lp d v H). exact Hv.
Qed.

Lemma force_down_ok n id : node_ok n -> handler_ok n (force_down n id).
Proof.
  intros [Hv Hs]. unfold force_down. destruct id as [|b r].
  - split; [reflexivity|]. split; [split; assumption|]. intros d v H. inversion H.
  - destruct (vw_members (nd_view n) !! (b :: r)) as [m|].
    + set (v1 := view_inc _ _). set (n1 := set_view n v1).
      assert (H1 : node_ok n1) by (split; [unfold n1, v1; cbn [nd_view set_view]; apply WF_inc, WF_remove; exact Hv|exact Hs]).
      destruct (publish_leader n1) as [n2 evs] eqn:Ep. destruct (broadcast n2) as [n3 out] eqn:Eb.
      destruct (finish_ok n n1 eq_refl H1 n2 evs n3 out Ep Eb) as (C & Ok3 & P & _ & _).
      unfold handler_ok; cbn [fst snd]. auto.
    + split; [reflexivity|]. split; [split; assumption|]. intros d v H. inversion H.
Qed.

Lemma world_inv_empty : world_inv empty_world.
Proof. split; [intros a n H; cbn in H; rewrite lookup_empty in H; discriminate|intros p H; inversion H]. Qed.

Lemma stamp_wf src out p : (forall d v, (d, v) ∈ out -> WF v) -> p ∈ stamp src out -> WF (p_view p).
Proof. intros H Hp. unfold stamp in Hp. apply elem_of_list_fmap in Hp as ([d v] & -> & Hdv). cbn. eapply H; exact Hdv. Qed.

Lemma inv_update w n src out :
  world_inv w -> node_ok n -> (forall d v, (d, v) ∈ out -> WF v) ->
  world_inv (add_net (put_node w n) (stamp src out)).
Proof.
  intros [Hn Hp] Hok Hout. split; cbn.
  - intros a m Ha. destruct (decide (a = nd_addr n)) as [->|Hne].
    + rewrite lookup_insert in Ha. injection Ha as <-. split; [reflexivity|exact Hok].
    + rewrite lookup_insert_ne in Ha by congruence. apply (Hn a m Ha).
  - intros p H. apply elem_of_app in H as [H|H]; [apply (Hp p H)|eapply stamp_wf; eassumption].
Qed.

Lemma inv_update_nodes w n : world_inv w -> node_ok n -> world_inv (put_node w n).
Proof.
  intros Hw Hok. pose proof (inv_update w n [] [] Hw Hok) as H. unfold add_net, stamp in H; cbn in H.
  rewrite app_nil_r in H. apply H. intros d v Hd. inversion Hd.
Qed.

Lemma node_ok_timers n g f r : node_ok n -> node_ok (set_timers n g f r).
Proof. intros H. exact H. Qed.

Lemma new_node_ok c now : node_ok (new_node c now).
Proof. split; [apply WF_new|apply wf_new_node_state]. Qed.

Lemma try_join_inv asks : forall w n now log w' n' joined log',
  world_inv w -> node_ok n -> try_join w n now asks log = (w', n', joined, log') -> world_inv w' /\ node_ok n'.
Proof.
  induction asks as [|[s ok] rest IH]; intros w n now log w' n' joined log' Hw Hn H; cbn [try_join] in H.
  - injection H as <- <- _ _. auto.
  - destruct (negb ok || bool_decide (s = nd_addr n)); [eapply IH; eassumption|].
    destruct (w_nodes w !! s) as [sd|] eqn:Es; [|eapply IH; eassumption].
    destruct (handle_join_request sd (nd_self n)) as [[[[sd' resp] out] evs]|] eqn:Ej; [|eapply IH; eassumption].
    destruct (proj1 Hw s sd Es) as [_ Hsd].
    destruct (join_request_ok sd (nd_self n) sd' resp out evs Hsd (proj2 Hn) Ej) as (_ & Hsd' & Hout & Hresp).
    destruct (join_complete n resp now) as [[n1 out1] evs1] eqn:Ec.
    pose proof (join_complete_ok n resp now Hn Hresp) as (_ & Hn1 & Hout1). rewrite Ec in Hn1, Hout1. cbn [fst snd] in Hn1, Hout1.
    injection H as <- <- _ _. split; [|exact Hn1].
    pose proof (inv_update w sd' s out Hw Hsd' Hout) as Hw1.
    destruct Hw1 as [Hw1n Hw1p]. split; [exact Hw1n|].
    intros p Hp. cbn in Hp. apply elem_of_app in Hp as [Hp|Hp]; [apply Hw1p; exact Hp|eapply stamp_wf; eassumption].
Qed.

Lemma join_or_retry_inv w n now asks w' log :
  world_inv w -> node_ok n -> join_or_retry w n now asks = (w', log) -> world_inv w'.
Proof.
  intros Hw Hn H. unfold join_or_retry in H.
  destruct (try_join w n now asks []) as [[[w1 n1] joined] lg] eqn:Et.
  destruct (try_join_inv asks w n now [] w1 n1 joined lg Hw Hn Et) as [Hw1 Hn1].
  destruct joined; injection H as <- _; apply inv_update_nodes; assumption.
Qed.

Lemma try_recover_inv fuel : forall w n now seeds asks,
  world_inv w -> node_ok n ->
  node_ok (fst (try_recover w n now seeds asks fuel)) /\ forall d v, (d, v) ∈ snd (try_recover w n now seeds asks fuel) -> WF v.
Proof.
  induction fuel as [|fuel IH]; intros w n now seeds asks Hw Hn; cbn [try_recover].
  - destruct seeds; (split; [exact Hn|intros d v H; inversion H]).
  - destruct seeds as [|s seeds']; cbn [try_recover]; [split; [exact Hn|intros d v H; inversion H]|].
    cbv zeta. match goal with |- context [if ?b then _ else _] => destruct b end; [apply IH; assumption|].
    destruct (w_nodes w !! s) as [sd|] eqn:Es; [|apply IH; assumption].
    destruct (proj1 Hw s sd Es) as [_ [Hsd _]].
    destruct (recovery_merge_ok n (get_view_reply sd) now Hn Hsd) as (_ & H1 & H2). split; assumption.
Qed.

Theorem step_world_inv w now s w' l : world_inv w -> step_world w now s = Some (w', l) -> world_inv w'.
Proof.
  intros Hw H. destruct s as [c asks|a asks|a|a asks|k choice|k|a|a|a id]; cbn [step_world] in H.
  - destruct (negb (nonempty (c_addr c))); [discriminate|].
    destruct (w_nodes w !! c_addr c); [discriminate|].
    destruct (launch_is_seed c).
    + destruct (bootstrap (new_node c now)) as [[n1 out] evs] eqn:Eb. injection H as <- _.
      pose proof (bootstrap_ok (new_node c now) (new_node_ok c now)) as (_ & H1 & H2). rewrite Eb in H1, H2.
      apply inv_update; assumption.
    + destruct (join_or_retry w (new_node c now) now asks) as [w1 lg] eqn:Ej. injection H as <- _.
      eapply join_or_retry_inv; [exact Hw|apply new_node_ok|exact Ej].
  - destruct (w_nodes w !! a) as [n|] eqn:E; [|discriminate]. destruct (nd_retry_on n); [|discriminate].
    destruct (join_or_retry w _ now asks) as [w1 lg] eqn:Ej. injection H as <- _.
    eapply join_or_retry_inv; [exact Hw| |exact Ej]. apply node_ok_timers. apply (proj1 Hw a n E).
  - destruct (w_nodes w !! a) as [n|] eqn:E; [|discriminate]. destruct (nd_gossip_on n); [|discriminate].
    destruct (gossip_tick n) as [[n1 out] evs] eqn:Eg. injection H as <- _.
    pose proof (gossip_tick_ok n (proj2 (proj1 Hw a n E))) as (_ & H1 & H2). rewrite Eg in H1, H2.
    apply inv_update; assumption.
  - destruct (w_nodes w !! a) as [n|] eqn:E; [|discriminate]. destruct (nd_fd_on n); [|discriminate].
    destruct (fd_tick n now) as [[[n1 out] evs] rec] eqn:Ef.
    pose proof (fd_tick_ok n now (proj2 (proj1 Hw a n E))) as (_ & H1 & H2). rewrite Ef in H1, H2. cbn [fst snd] in H1, H2.
    destruct (if rec then try_recover w n1 now (c_seeds (nd_cfg n1)) asks max_get_view_targets else (n1, [])) as [n2 out2] eqn:Er.
    injection H as <- _.
    assert (Hr : node_ok n2 /\ forall d v, (d, v) ∈ out2 -> WF v).
    { destruct rec.
      - pose proof (try_recover_inv max_get_view_targets w n1 now (c_seeds (nd_cfg n1)) asks Hw H1) as [R1 R2].
        rewrite Er in R1, R2. auto.
      - injection Er as <- <-. split; [exact H1|intros d v Hd; inversion Hd]. }
    destruct Hr as [R1 R2]. apply inv_update; [exact Hw|exact R1|]. apply out_wf_app; assumption.
  - destruct (N.of_nat (length (w_net w)) <=? k); [discriminate|].
    destruct (w_net w !! N.to_nat k) as [p|] eqn:Ek; [|discriminate].
    assert (Hpw : WF (p_view p)) by (apply (proj2 Hw), elem_of_list_lookup_2 with (N.to_nat k); exact Ek).
    assert (Hw1 : world_inv (World (w_nodes w) (remove_at k (w_net w)))).
    { split; [exact (proj1 Hw)|]. intros q Hq. cbn in Hq. apply elem_of_remove_at in Hq. apply (proj2 Hw q Hq). }
    destruct (w_nodes w !! p_dst p) as [n|] eqn:E.
    + match type of H with (if ?b then _ else None) = _ => destruct b end; [|discriminate].
      destruct (handle_gossip n (p_src p) (p_view p) now choice) as [[n1 out] evs] eqn:Eg. injection H as <- _.
      pose proof (handle_gossip_ok n (p_src p) (p_view p) now choice (proj2 (proj1 Hw _ n E)) Hpw) as (_ & H1 & H2).
      rewrite Eg in H1, H2. apply inv_update; assumption.
    + destruct choice; [discriminate|]. injection H as <- _. exact Hw1.
  - destruct (N.of_nat (length (w_net w)) <=? k); [discriminate|]. injection H as <- _.
    split; [exact (proj1 Hw)|]. intros q Hq. cbn in Hq. apply elem_of_remove_at in Hq. apply (proj2 Hw q Hq).
  - destruct (w_nodes w !! a) as [n|] eqn:E; [|discriminate]. injection H as <- _.
    split; [|exact (proj2 Hw)]. intros b m Hb. cbn in Hb. apply lookup_delete_Some in Hb as [_ Hb]. apply (proj1 Hw b m Hb).
  - destruct (w_nodes w !! a) as [n|] eqn:E; [|discriminate].
    destruct (leave n) as [[n1 out] evs] eqn:El. injection H as <- _.
    pose proof (leave_ok n (proj2 (proj1 Hw a n E))) as (_ & _ & H2). rewrite El in H2. cbn [fst snd] in H2.
    split; cbn.
    + intros b m Hb. apply lookup_delete_Some in Hb as [_ Hb]. apply (proj1 Hw b m Hb).
    + intros q Hq. apply elem_of_app in Hq as [Hq|Hq]; [apply (proj2 Hw q Hq)|eapply stamp_wf; eassumption].
  - destruct (w_nodes w !! a) as [n|] eqn:E; [|discriminate].
    destruct (force_down n id) as [[n1 out] evs] eqn:Ef. injection H as <- _.
    pose proof (force_down_ok n id (proj2 (proj1 Hw a n E))) as (_ & H1 & H2). rewrite Ef in H1, H2.
    apply inv_update; assumption.
Qed.

Theorem run_inv sc : forall w w' l, world_inv w -> run w sc = Some (w', l) -> world_inv w'.
Proof.
  induction sc as [|[now s] rest IH]; intros w w' l Hw H; cbn [run] in H.
  - injection H as <- _. exact Hw.
  - destruct (step_world w now s) as [[w1 l1]|] eqn:E; [|discriminate].
    destruct (run w1 rest) as [[w2 l2]|] eqn:E2; [|discriminate]. injection H as <- _.
    eapply IH; [eapply step_world_inv; eassumption|exact E2].
Qed.

(** every world reachable from the empty one, whatever the history *)
Theorem reachable_inv sc w l :
  run empty_world sc = Some (w, l) ->
  (forall a n, w_nodes w !! a = Some n -> nd_addr n = a) /\
  (forall a n, w_nodes w !! a = Some n -> WF (nd_view n)) /\
  (forall p, p ∈ w_net w -> WF (p_view p)).
Proof.
  intros H. destruct (run_inv sc empty_world w l world_inv_empty H) as [Hn Hp].
  split; [intros a n Ha; apply (Hn a n Ha)|]. split; [intros a n Ha; apply (Hn a n Ha)|exact Hp].
Qed.

(** the exchange round after ANY history that leaves nothing in flight *)
Theorem exchange_round_reachable hist w0 l0 sc w1 l :
  run empty_world hist = Some (w0, l0) -> w_net w0 = [] ->
  forallb (fun p => round_step (snd p)) sc = true ->
  run w0 sc = Some (w1, l) ->
  exists aw1, arun (annotate w0) sc = Some (aw1, l) /\ erase aw1 = w1 /\
    (all_reached w0 aw1 ->
     forall a n, w_nodes w1 !! a = Some n ->
       WF (nd_view n) /\ proj (nd_view n) = pjoin_all (all_views0 w0)).
Proof.
  intros Hh Hnet Hsc Hr. destruct (reachable_inv hist w0 l0 Hh) as (H1 & H2 & _).
  exact (exchange_round w0 sc w1 l H1 H2 Hnet Hsc Hr).
Qed.

(** (e2) restart under a fresh NodeID, MemberByAddress yielding the predecessor's entry at every delivery *)
Definition wg_P (w1 : world) (l1 : evlog) (w2 : world) (logs : list evlog) : bool :=
  (length (rounds_of wg_play 40) =? 40)%nat &&
  forallb (removal_of_running w2) (skipn 30 logs) &&
  match w_nodes w2 !! ad1, w_nodes w2 !! ad2 with
  | Some s, Some k =>
      bool_decide (nd_id k = [107]) && lists_id s [106] && lists_id k [106] &&
      bool_decide (ns_seen <$> (vw_members (nd_view s) !! [106]) = Some 3100%Z) &&
      bool_decide (ns_seen <$> (vw_members (nd_view s) !! [107]) = Some 1110%Z)
  | _, _ => false
  end.
Lemma wg_check :
  exists w1 l1 w2 logs,
    run empty_world (faults_of wg_play 40) = Some (w1, l1) /\
    fair_rounds w1 1150 50 (rounds_of wg_play 40) = Some (w2, logs) /\ wg_P w1 l1 w2 logs = true.
Proof. apply witness_intro. vm_compute. reflexivity. Qed.

(** (c2) the new incarnation of a restarted node is never propagated once the vectors are equal *)
Definition wh_P (w1 : world) (l1 : evlog) (w2 : world) (logs : list evlog) : bool :=
  (length (rounds_of wh_play 30) =? 30)%nat && forallb quiet logs &&
  match w_nodes w2 !! ad1, w_nodes w2 !! ad2 with
  | Some s, Some j =>
      bool_decide (inc_of (nd_self j) = (3%Z, 3)) &&
      bool_decide (proj (nd_view j) !! [106] = Some (3%Z, 3)) &&
      bool_decide (proj (nd_view s) !! [106] = Some (2%Z, 2)) &&
      bool_decide (vw_vv (nd_view s) = vw_vv (nd_view j))
  | _, _ => false
  end.
Lemma wh_check :
  exists w1 l1 w2 logs,
    run empty_world (faults_of wh_play 30) = Some (w1, l1) /\
    fair_rounds w1 1250 50 (rounds_of wh_play 30) = Some (w2, logs) /\ wh_P w1 l1 w2 logs = true.
Proof. apply witness_intro. vm_compute. reflexivity. Qed.
