(** Model of internal/cluster/node_actor.go (the NodeActor), failure_detector.go, gossip_selector.go,
    quorum.go (global-majority strategy, ComputeLeaderAddr), cluster_events.go, as the code is.

    A node = the NodeActor state that matters; its handlers are pure functions
    [node -> input -> node * list (dest * view) * list event].  The world = running nodes keyed by
    their remoting address + the in-flight GossipMessages.  Every time.Now() read is the [now] input of
    the step; every timer (GossipTick, FailureDetectionTick, JoinRetryTick) is an explicit step that is
    only valid while the corresponding scheduler reference is registered; the Ask round trips
    (JoinRequest/JoinResponse, GetViewRequest/GetViewResponse) are synchronous calls into the target
    node inside the asking step, each with a flag saying whether the schedule lets it through
    (false = lost / partitioned / timed out).

    Where the code is random the choice is an input of the step:
      - rand.Shuffle of the seeds in tryJoinSeeds: the order of the [asks] list;
      - rand.Shuffle in SelectTargets: only the ORDER of the Tells of one broadcast (all candidates are
        taken while their number is <= MaxDiscoveryTargetsPerTick = 20, i.e. always for <= 7 nodes);
        the model emits them sorted by destination;
      - the Go map iteration in ClusterView.MemberByAddress when two members share an address
        (a process restarted with a fresh NodeID): the [choice] of SDeliver.

    Configuration outside the model (fixed to the defaults of NewClusterOptions / the zero value):
    no datacenter / region labels, no SeedsByDC / SeedsResolver, no cross-DC round, no join secret /
    allow lists / cluster name, join and gossip rate limiters off (rate 0 = always allow, which is what
    the code does), protocol-version window off, MaxClockSkew 0, TakeMax strategy,
    MaxVersionVectorEntries 0, QuorumStrategyGlobalMajority, no RequiredDCsForQuorum.
    Addresses are already normalised (utils.NormalizeAddress is the identity on them); the empty
    address is the invalid one. *)
From Coq Require Import List NArith ZArith Lia Bool.
From stdpp Require Import gmap.
From Vivid Require Import Codec.Prim Cluster.VV Cluster.View.
Local Open Scope N_scope.

Notation addr := (list N).
Notation lastmap := (gmap (list N) (gmap (list N) N)).

Definition st_leaving : Z := 5.
Definition st_exiting : Z := 6.

(** * Configuration and node state *)

Record cfg := Cfg {
  c_id : list N;          (* options.NodeID *)
  c_addr : addr;          (* the remoting advertise address handed to NewNodeActor *)
  c_seeds : list addr;    (* NormalizeAddresses(options.Seeds) *)
  c_fd : Z;               (* FailureDetectionTimeout (ns); <= 0 = no failure-detection loop *)
  c_confirm : Z           (* SuspectConfirmDuration (ns) *)
}.

Record node := Node {
  nd_cfg : cfg;
  nd_self : nstate;              (* a.nodeState *)
  nd_view : view;                (* a.clusterView *)
  nd_last : lastmap;             (* a.lastVersionVectorByAddr *)
  nd_inq : bool;                 (* events.lastInQuorum *)
  nd_leader : addr;              (* events.lastLeaderAddr *)
  nd_dch : option bool;          (* events.lastDCHealth["_default"] *)
  nd_gossip_on : bool;           (* Loop(SchedRefGossip) registered *)
  nd_fd_on : bool;               (* Loop(SchedRefFailureDetection) registered *)
  nd_retry_on : bool             (* Once(SchedRefJoinRetry) pending *)
}.

Global Instance view_eq_dec : EqDecision view.
Proof. solve_decision. Defined.
Global Instance cfg_eq_dec : EqDecision cfg.
Proof. solve_decision. Defined.
Global Instance node_eq_dec : EqDecision node.
Proof. solve_decision. Defined.

Definition nd_addr (n : node) : addr := c_addr (nd_cfg n).
Definition nd_id (n : node) : list N := c_id (nd_cfg n).

Definition set_self (n : node) (s : nstate) : node :=
  Node (nd_cfg n) s (nd_view n) (nd_last n) (nd_inq n) (nd_leader n) (nd_dch n) (nd_gossip_on n) (nd_fd_on n) (nd_retry_on n).
Definition set_view (n : node) (v : view) : node :=
  Node (nd_cfg n) (nd_self n) v (nd_last n) (nd_inq n) (nd_leader n) (nd_dch n) (nd_gossip_on n) (nd_fd_on n) (nd_retry_on n).
Definition set_last (n : node) (l : lastmap) : node :=
  Node (nd_cfg n) (nd_self n) (nd_view n) l (nd_inq n) (nd_leader n) (nd_dch n) (nd_gossip_on n) (nd_fd_on n) (nd_retry_on n).
Definition set_pub (n : node) (inq : bool) (l : addr) : node :=
  Node (nd_cfg n) (nd_self n) (nd_view n) (nd_last n) inq l (nd_dch n) (nd_gossip_on n) (nd_fd_on n) (nd_retry_on n).
Definition set_dch (n : node) (d : option bool) : node :=
  Node (nd_cfg n) (nd_self n) (nd_view n) (nd_last n) (nd_inq n) (nd_leader n) d (nd_gossip_on n) (nd_fd_on n) (nd_retry_on n).
Definition set_timers (n : node) (g f r : bool) : node :=
  Node (nd_cfg n) (nd_self n) (nd_view n) (nd_last n) (nd_inq n) (nd_leader n) (nd_dch n) g f r.

(** NewNodeActor(address, options) at wall clock [now] *)
Definition new_node (c : cfg) (now : Z) : node :=
  Node c (new_node_state (c_id c) (c_addr c) now) (new_view now 0) ∅ false [] None false false false.

Definition ns_refresh (s : nstate) (now : Z) : nstate :=
  NState (ns_id s) (ns_addr s) (ns_gen s) (ns_ts s) (ns_seq s)
         (if (ns_status s =? st_suspect)%Z then st_up else ns_status s) (ns_lc s) now.

(** * Events published on the event stream (address / removed lists sorted, as the harness canonicalises) *)
Inductive event :=
| EMembers (members : list addr) (added : N) (removed : list addr)          (* ClusterMembersChangedEvent *)
| EView (healthy unhealthy quorum count added : N) (removed : list addr)    (* ClusterViewChangedEvent *)
| ELeader (leader : addr) (iam inq : bool)                                  (* ClusterLeaderChangedEvent *)
| EQuorumLost (healthy quorum unhealthy : N)
| EQuorumReached (healthy quorum : N)
| EDCHealth (healthy unhealthy count : N) (is_healthy : bool)               (* ClusterDCHealthChangedEvent, dc "_default" *)
| ELeaveCompleted.

(** * quorum.go *)

Definition states (v : view) : list nstate := (map_to_list (vw_members v)).*2.

Definition is_up_addr (s : nstate) : bool :=
  (ns_status s =? st_up)%Z && negb (bool_decide (ns_addr s = [])).
(** the addresses ComputeLeaderAddr collects: members with Status == Up and a non-empty address *)
Definition up_addrs (v : view) : list addr := map ns_addr (List.filter is_up_addr (states v)).

(** the least element of a list in Go's string order *)
Fixpoint lmin (l : list addr) : option addr :=
  match l with
  | [] => None
  | a :: r => match lmin r with
              | None => Some a
              | Some m => Some (if lex_le a m then a else m)
              end
  end.
(** ComputeLeaderAddr: sort.Strings(addresses); addresses[0]  ("" when there is none) *)
Definition leader_of (v : view) : addr := default [] (lmin (up_addrs v)).
(** IAmLeader as published: selfAddr != "" && leaderAddr == selfAddr *)
Definition iam_leader (n : node) : bool :=
  negb (bool_decide (nd_addr n = [])) && bool_decide (leader_of (nd_view n) = nd_addr n).

(** SatisfiesQuorum, global majority: QuorumSize > 0 && HealthyCount >= QuorumSize (cached counts) *)
Definition sat_quorum (v : view) : bool := (0 <? vw_quorum v) && (vw_quorum v <=? vw_healthy v).

(** * cluster_events.go *)

(** memberAddresses(): non-empty addresses of all members (duplicates kept), sorted *)
Definition member_addrs (v : view) : list addr :=
  isort lex_le (List.filter (fun a => negb (bool_decide (a = []))) (map ns_addr (states v))).

Definition ev_view (v : view) (added : N) (removed : list addr) : event :=
  EView (vw_healthy v) (vw_unhealthy v) (vw_quorum v) (N.of_nat (size (vw_members v))) added removed.

(** PublishLeaderIfChanged(ctx, view, self address, SatisfiesQuorum(view)) *)
Definition publish_leader (n : node) : node * list event :=
  let v := nd_view n in
  let inq := sat_quorum v in
  let l := leader_of v in
  let e1 := if nd_inq n && negb inq then [EQuorumLost (vw_healthy v) (vw_quorum v) (vw_unhealthy v)]
            else if negb (nd_inq n) && inq then [EQuorumReached (vw_healthy v) (vw_quorum v)] else [] in
  let ch := negb (bool_decide (l = nd_leader n)) || negb (eqb inq (nd_inq n)) in
  let e2 := if ch then [ELeader l (negb (bool_decide (nd_addr n = [])) && bool_decide (l = nd_addr n)) inq] else [] in
  (set_pub n inq (if ch then l else nd_leader n), e1 ++ e2).

(** PublishDCHealthChangedIfNeeded with the single datacenter "_default" *)
Definition publish_dc (n : node) : node * list event :=
  let ss := states (nd_view n) in
  match ss with
  | [] => (set_dch n None, [])
  | _ :: _ =>
      let total := N.of_nat (length ss) in
      let h := N.of_nat (length (List.filter (fun s => (ns_status s =? st_up)%Z) ss)) in
      let ok := 1 <=? h in
      match nd_dch n with
      | Some was => if eqb was ok then (n, []) else (set_dch n (Some ok), [EDCHealth h (total - h) total ok])
      | None => (set_dch n (Some ok), [EDCHealth h (total - h) total ok])
      end
  end.

(** * gossip_selector.go, shouldSendGossipTo, pruneLastVersionVectors, broadcastViewOnce *)

Definition nonempty (a : addr) : bool := negb (bool_decide (a = [])).

(** SelectTargets: the seeds, then the member addresses, without the own address and without
    repetitions; all of them (their number is below MaxDiscoveryTargetsPerTick). Sorted. *)
Definition select_targets (n : node) : list addr :=
  isort lex_le (remove_dups (List.filter (fun a => nonempty a && negb (bool_decide (a = nd_addr n)))
                                          (c_seeds (nd_cfg n) ++ map ns_addr (states (nd_view n))))).

Definition should_send (n : node) (our : vv) (target : addr) : bool :=
  match nd_last n !! target with
  | None => true
  | Some theirs => match vcompare our theirs with VBefore | VEqual => false | _ => true end
  end.

Definition prune_last (n : node) : node :=
  let allowed := List.filter nonempty (map ns_addr (states (nd_view n))) ++ List.filter nonempty (c_seeds (nd_cfg n)) in
  set_last n (filter (fun p => fst p ∈ allowed) (nd_last n)).

(** broadcastViewOnce = runGossipRound: one snapshot, one Tell per target that passes shouldSendGossipTo *)
Definition broadcast (n : node) : node * list (addr * view) :=
  let n1 := prune_last n in
  let snap := view_snapshot (nd_view n1) in
  (n1, map (fun a => (a, snap)) (List.filter (should_send n1 (vw_vv snap)) (select_targets n1))).

(** * handlers *)

Definition start_loops (n : node) : node := set_timers n true (0 <? c_fd (nd_cfg n))%Z false.

(** onLaunch takes the seed path when there are no seeds or the own address is one of them *)
Definition launch_is_seed (c : cfg) : bool :=
  match c_seeds c with [] => true | _ :: _ => nonempty (c_addr c) && bool_decide (c_addr c ∈ c_seeds c) end.

(** bootstrapAsSeed; startGossipLoop; startFailureDetectionLoop *)
Definition bootstrap (n : node) : node * list (addr * view) * list event :=
  let self := ns_set_status (nd_self n) st_up in
  let n1 := set_view (set_self n self) (view_inc (view_add (nd_view n) self) (nd_id n)) in
  let '(n2, evs) := publish_leader n1 in
  let '(n3, out) := broadcast n2 in
  (start_loops n3, out, evs).

(** handleJoinRequest for a JoinRequest carrying [st]; [None] = an error reply (the state is unchanged) *)
Definition handle_join_request (n : node) (st : nstate) : option (node * view * list (addr * view) * list event) :=
  if negb (ns_status st =? st_joining)%Z then None
  else if negb (sat_quorum (nd_view n)) then None
  else
    let v1 := view_inc (view_add (nd_view n) (ns_set_status st st_up)) (nd_id n) in
    let n1 := set_view n v1 in
    let e1 := EMembers (member_addrs v1) 1 [] in
    let '(n2, evs) := publish_leader n1 in
    let reply := view_snapshot (nd_view n2) in
    let '(n3, out) := broadcast n2 in
    Some (n3, reply, out, e1 :: evs).

(** the part of tryJoinSeeds after a JoinResponse carrying [resp] arrived, then the success path of
    onLaunch / onJoinRetryTick *)
Definition join_complete (n : node) (resp : view) (now : Z) : node * list (addr * view) * list event :=
  let self1 := ns_set_status (nd_self n) st_up in
  let v2 := view_inc (view_add (nd_view n) self1) (nd_id n) in
  let v3 := fst (view_merge 0 0 now v2 resp) in
  let '(self2, v4) := view_rejoin self1 v3 now in
  let n1 := set_view (set_self n self2) v4 in
  let '(n2, evs) := publish_leader n1 in
  let '(n3, out) := broadcast n2 in
  (start_loops n3, out, evs).

(** the ids MemberByAddress can return for [src] (Go map order decides when there are several) *)
Definition refresh_candidates (v : view) (src : addr) : list (list N) :=
  map ns_id (List.filter (fun s => bool_decide (ns_addr s = src)) (states v)).

(** handleGossip for a GossipMessage{View: v} whose envelope sender has address [src] *)
Definition handle_gossip (n : node) (src : addr) (v : view) (now : Z) (choice : option (list N))
  : node * list (addr * view) * list event :=
  let n1 := if nonempty src then set_last n (<[src := vw_vv v]> (nd_last n)) else n in
  let n2 := match choice with
            | Some id => if nonempty src
                         then set_view n1 (set_members (nd_view n1) (alter (fun s => ns_refresh s now) id (vw_members (nd_view n1))))
                         else n1
            | None => n1
            end in
  let '(v', changed) := view_merge 0 0 now (nd_view n2) v in
  let n3 := set_view n2 v' in
  if changed then
    let '(n4, evs) := publish_leader n3 in
    let '(n5, out) := broadcast n4 in
    (n5, out, evs)
  else (n3, [], []).

(** runGossipRound *)
Definition gossip_tick (n : node) : node * list (addr * view) * list event :=
  let '(n1, out) := broadcast n in (n1, out, []).

(** FailureDetector.RunDetection(view, self address, "", now): ids to suspect, ids to remove *)
Definition fd_class (c : cfg) (self : addr) (now : Z) (s : nstate) : N :=   (* 0 keep, 1 suspect, 2 remove *)
  if bool_decide (ns_addr s = self) then 0
  else if (c_fd c <=? 0)%Z then 0
  else
    let confirm := Z.max (c_confirm c) 0 in
    let down := (c_fd c + confirm)%Z in
    if (ns_seen s <? now - down)%Z then 2
    else if (ns_status s =? st_up)%Z && (ns_seen s <? now - c_fd c)%Z && (0 <? confirm)%Z then 1
    else 0.

Definition fd_detect (n : node) (now : Z) : list (list N) * list (list N) :=
  let ms := map_to_list (vw_members (nd_view n)) in
  (map fst (List.filter (fun p => fd_class (nd_cfg n) (nd_addr n) now (snd p) =? 1) ms),
   map fst (List.filter (fun p => fd_class (nd_cfg n) (nd_addr n) now (snd p) =? 2) ms)).

Definition suspect_one (self : list N) (v : view) (id : list N) : view :=
  match vw_members v !! id with
  | Some _ => view_inc (view_set_status v id st_suspect) self
  | None => v
  end.
Definition remove_one (self : list N) (acc : view * list addr) (id : list N) : view * list addr :=
  let v := fst acc in
  (view_inc (view_remove v id) self,
   match vw_members v !! id with Some m => snd acc ++ [ns_addr m] | None => snd acc end).

(** handleGetView's reply *)
Definition get_view_reply (n : node) : view := view_snapshot (nd_view n).

(** runFailureDetection up to (not including) tryQuorumRecovery; the last component says whether
    quorum recovery runs (not in quorum and at least one seed configured) *)
Definition fd_tick (n : node) (now : Z) : node * list (addr * view) * list event * bool :=
  let '(sus, rem) := fd_detect n now in
  let v1 := fold_left (suspect_one (nd_id n)) sus (nd_view n) in
  let n1 := set_view n v1 in
  let '(n2, out1, ev1) :=
    match sus with
    | [] => (n1, [], [])
    | _ :: _ => let '(m, o) := broadcast n1 in (m, o, [ev_view v1 0 []])
    end in
  let '(v2, removed) := fold_left (remove_one (nd_id n)) rem (nd_view n2, []) in
  let removed := isort lex_le removed in
  let n3 := set_view n2 v2 in
  let '(n4, out2, ev2) :=
    match removed with
    | [] => (n3, [], [])
    | _ :: _ => let '(m, o) := broadcast n3 in (m, o, [EMembers (member_addrs v2) 0 removed; ev_view v2 0 removed])
    end in
  let inq := sat_quorum (nd_view n4) in
  let '(n5, ev3) := publish_leader n4 in
  let '(n6, ev4) := publish_dc n5 in
  (n6, out1 ++ out2, ev1 ++ ev2 ++ ev3 ++ ev4,
   negb inq && match c_seeds (nd_cfg n) with [] => false | _ :: _ => true end).

(** tryQuorumRecovery after a GetViewResponse carrying [resp] *)
Definition recovery_merge (n : node) (resp : view) (now : Z) : node * list (addr * view) :=
  let '(v', changed) := view_merge 0 0 now (nd_view n) resp in
  let n1 := set_view n v' in
  if changed then broadcast n1 else (n1, []).

(** a LeaveRequest (Context.Leave): handleLeaveRequest, or onLeaveWhileJoining + ExitingReady *)
Definition leave (n : node) : node * list (addr * view) * list event :=
  let st := ns_status (nd_self n) in
  if (st =? st_joining)%Z then
    (set_self (set_timers n false false false) (ns_set_status (nd_self n) st_exiting), [], [ELeaveCompleted])
  else if (st =? st_leaving)%Z || (st =? st_exiting)%Z then (n, [], [])
  else
    let n1 := set_self (set_timers n false false false) (ns_set_status (nd_self n) st_leaving) in
    let '(n2, out) := broadcast n1 in
    (set_self n2 (ns_set_status (nd_self n2) st_exiting), out, [ELeaveCompleted]).

(** handleForceMemberDown{NodeID: id} without an admin secret *)
Definition force_down (n : node) (id : list N) : node * list (addr * view) * list event :=
  match id with
  | [] => (n, [], [])
  | _ :: _ =>
    match vw_members (nd_view n) !! id with
    | None => (n, [], [])
    | Some m =>
        let v1 := view_inc (view_remove (nd_view n) id) (nd_id n) in
        let n1 := set_view n v1 in
        let e := [EMembers (member_addrs v1) 0 [ns_addr m]; ev_view v1 0 [ns_addr m]] in
        let '(n2, evs) := publish_leader n1 in
        let '(n3, out) := broadcast n2 in
        (n3, out, e ++ evs)
    end
  end.

(** * The world *)

Record packet := Pkt { p_src : addr; p_dst : addr; p_view : view }.

Record world := World {
  w_nodes : gmap (list N) node;    (* the running nodes, by remoting address *)
  w_net : list packet              (* GossipMessages in flight *)
}.

Definition empty_world : world := World ∅ [].

Inductive step :=
| SStart (c : cfg) (asks : list (addr * bool))   (* a process starts at c_addr: NewNodeActor + OnLaunch *)
| SRetry (a : addr) (asks : list (addr * bool))  (* JoinRetryTick *)
| SGossipTick (a : addr)
| SFdTick (a : addr) (asks : list bool)          (* FailureDetectionTick; flags of the GetView asks to seeds[0..] *)
| SDeliver (k : N) (choice : option (list N))    (* the k-th packet in flight reaches its destination *)
| SDrop (k : N)                                  (* ... is lost *)
| SCrash (a : addr)
| SLeave (a : addr)                              (* Context.Leave, then the process stops *)
| SForceDown (a : addr) (id : list N).

Definition stamp (src : addr) (out : list (addr * view)) : list packet :=
  map (fun p => Pkt src (fst p) (snd p)) out.
Definition tag {A} (a : addr) (l : list A) : list (addr * A) := map (fun e => (a, e)) l.

Definition put_node (w : world) (n : node) : world := World (<[nd_addr n := n]> (w_nodes w)) (w_net w).
Definition add_net (w : world) (ps : list packet) : world := World (w_nodes w) (w_net w ++ ps).

Notation evlog := (list (list N * event)).

(** tryJoinSeeds: the seeds in the (shuffled) order of [asks]; an Ask whose flag is false, whose target
    is not running, is the asker itself (an actor cannot answer its own Ask) or replies with an error
    counts as failed and the next seed is tried. *)
Fixpoint try_join (w : world) (n : node) (now : Z) (asks : list (addr * bool)) (log : evlog)
  : world * node * bool * evlog :=
  match asks with
  | [] => (w, n, false, log)
  | (s, ok) :: rest =>
      let next := try_join w n now rest log in
      if negb ok || bool_decide (s = nd_addr n) then next else
      match w_nodes w !! s with
      | None => next
      | Some sd =>
          match handle_join_request sd (nd_self n) with
          | None => next
          | Some (sd', resp, out, evs) =>
              let w1 := add_net (put_node w sd') (stamp s out) in
              let '(n', out', evs') := join_complete n resp now in
              (add_net w1 (stamp (nd_addr n) out'), n', true, log ++ tag s evs ++ tag (nd_addr n) evs')
          end
      end
  end.

(** onLaunch (non-seed path) / onJoinRetryTick *)
Definition join_or_retry (w : world) (n : node) (now : Z) (asks : list (addr * bool)) : world * evlog :=
  let '(w1, n1, joined, log) := try_join w n now asks [] in
  if joined then (put_node w1 n1, log)
  else (put_node w1 (set_timers n1 (nd_gossip_on n1) (nd_fd_on n1) true), log).

(** tryQuorumRecovery: seeds[0 .. min(5, len)) in configuration order; stops at the first reply *)
Fixpoint try_recover (w : world) (n : node) (now : Z) (seeds : list addr) (asks : list bool) (fuel : nat)
  : node * list (addr * view) :=
  match fuel, seeds with
  | S fuel', s :: seeds' =>
      let ok := match asks with b :: _ => b | [] => false end in
      let rest := match asks with _ :: r => r | [] => [] end in
      if negb ok || bool_decide (s = nd_addr n) then try_recover w n now seeds' rest fuel' else
      match w_nodes w !! s with
      | None => try_recover w n now seeds' rest fuel'
      | Some sd => recovery_merge n (get_view_reply sd) now
      end
  | _, _ => (n, [])
  end.

Definition max_get_view_targets : nat := 5.

Definition remove_at {A} (k : N) (l : list A) : list A := delete (N.to_nat k) l.

(** one step of the world at wall clock [now]; [None] = the step is not enabled *)
Definition step_world (w : world) (now : Z) (s : step) : option (world * evlog) :=
  match s with
  | SStart c asks =>
      if negb (nonempty (c_addr c)) then None else
      match w_nodes w !! c_addr c with
      | Some _ => None
      | None =>
          let n := new_node c now in
          if launch_is_seed c then
            let '(n1, out, evs) := bootstrap n in
            Some (add_net (put_node w n1) (stamp (c_addr c) out), tag (c_addr c) evs)
          else Some (join_or_retry w n now asks)
      end
  | SRetry a asks =>
      match w_nodes w !! a with
      | Some n => if nd_retry_on n then Some (join_or_retry w (set_timers n (nd_gossip_on n) (nd_fd_on n) false) now asks) else None
      | None => None
      end
  | SGossipTick a =>
      match w_nodes w !! a with
      | Some n => if nd_gossip_on n then
                    let '(n1, out, evs) := gossip_tick n in
                    Some (add_net (put_node w n1) (stamp a out), tag a evs)
                  else None
      | None => None
      end
  | SFdTick a asks =>
      match w_nodes w !! a with
      | Some n => if nd_fd_on n then
                    let '(n1, out, evs, rec) := fd_tick n now in
                    let '(n2, out2) := if rec then try_recover w n1 now (c_seeds (nd_cfg n1)) asks max_get_view_targets
                                       else (n1, []) in
                    Some (add_net (put_node w n2) (stamp a (out ++ out2)), tag a evs)
                  else None
      | None => None
      end
  | SDeliver k choice =>
      if N.of_nat (length (w_net w)) <=? k then None else
      match w_net w !! N.to_nat k with
      | None => None
      | Some p =>
          let w1 := World (w_nodes w) (remove_at k (w_net w)) in
          match w_nodes w !! p_dst p with
          | None => match choice with None => Some (w1, []) | Some _ => None end
          | Some n =>
              let cands := refresh_candidates (nd_view n) (p_src p) in
              let valid := match choice with
                           | None => match cands with [] => true | _ :: _ => negb (nonempty (p_src p)) end
                           | Some id => bool_decide (id ∈ cands)
                           end in
              if valid then
                let '(n1, out, evs) := handle_gossip n (p_src p) (p_view p) now choice in
                Some (add_net (put_node w1 n1) (stamp (p_dst p) out), tag (p_dst p) evs)
              else None
          end
      end
  | SDrop k =>
      if N.of_nat (length (w_net w)) <=? k then None
      else Some (World (w_nodes w) (remove_at k (w_net w)), [])
  | SCrash a =>
      match w_nodes w !! a with
      | Some _ => Some (World (delete a (w_nodes w)) (w_net w), [])
      | None => None
      end
  | SLeave a =>
      match w_nodes w !! a with
      | Some n => let '(n1, out, evs) := leave n in
                  Some (World (delete a (w_nodes w)) (w_net w ++ stamp a out), tag a evs)
      | None => None
      end
  | SForceDown a id =>
      match w_nodes w !! a with
      | Some n => let '(n1, out, evs) := force_down n id in
                  Some (add_net (put_node w n1) (stamp a out), tag a evs)
      | None => None
      end
  end.

(** a schedule = steps with their wall-clock readings; a step that is not enabled aborts the run *)
Fixpoint run (w : world) (sched : list (Z * step)) : option (world * evlog) :=
  match sched with
  | [] => Some (w, [])
  | (now, s) :: rest =>
      match step_world w now s with
      | None => None
      | Some (w1, l1) => match run w1 rest with
                         | None => None
                         | Some (w2, l2) => Some (w2, l1 ++ l2)
                         end
      end
  end.

(** * What the property talks about *)

(** the membership of a view as the property sees it: the (id, address) pairs it lists *)
Definition member_ids (v : view) : list (list N * addr) :=
  map (fun p => (fst p, ns_addr (snd p))) (map_to_list (vw_members v)).
(** the running nodes: (NodeID, address) *)
Definition running_ids (w : world) : list (list N * addr) :=
  map (fun p => (nd_id (snd p), fst p)) (map_to_list (w_nodes w)).

Definition same_set {A} (l1 l2 : list A) : Prop := forall x, x ∈ l1 <-> x ∈ l2.

(** every running node lists exactly the running nodes, and all compute the same leader *)
Definition converged (w : world) : Prop :=
  forall a n, w_nodes w !! a = Some n ->
    same_set (member_ids (nd_view n)) (running_ids w) /\
    (forall b m, w_nodes w !! b = Some m -> leader_of (nd_view n) = leader_of (nd_view m)).

(** boolean version, for computing on concrete worlds *)
Definition subset_b {A} `{EqDecision A} (l1 l2 : list A) : bool := forallb (fun x => bool_decide (x ∈ l2)) l1.
Definition converged_b (w : world) : bool :=
  let ns := map snd (map_to_list (w_nodes w)) in
  let run := running_ids w in
  forallb (fun n => subset_b (member_ids (nd_view n)) run && subset_b run (member_ids (nd_view n))
                    && forallb (fun m => bool_decide (leader_of (nd_view n) = leader_of (nd_view m))) ns) ns.

(** a membership / view / leader change is announced *)
Definition is_change (e : event) : bool :=
  match e with EMembers _ _ _ | EView _ _ _ _ _ _ | ELeader _ _ _ => true | _ => false end.
Definition quiet (l : evlog) : bool := forallb (fun p => negb (is_change (snd p))) l.

(** steps of the fault-free phase: timers fire, packets are delivered, every Ask goes through *)
Definition fault_free (s : step) : bool :=
  match s with
  | SGossipTick _ | SDeliver _ _ => true
  | SFdTick _ asks => forallb (fun b => b) asks
  | SRetry _ asks => forallb snd asks
  | _ => false
  end.

(** * The canonical fair round (the fault-free phase as a deterministic scheduler) and the witness schedules

    [auto_round t w]: at wall clock [t] every running node (ascending address) whose gossip loop is registered
    ticks; everything in flight is delivered (always packet 0, first MemberByAddress candidate); every node whose
    failure-detection loop is registered ticks; every node with a pending join retry retries (all Asks go
    through); everything in flight is delivered.  The harness has the same driver (autoRound in
    harness/cmd/gossip/scen.go) and replays the witness schedules below on the real NodeActors. *)

Notation sched := (list (Z * step)).

Definition running_addrs (w : world) : list addr := isort lex_le (map fst (map_to_list (w_nodes w))).

Definition first_choice (w : world) (k : N) : option (list N) :=
  match w_net w !! N.to_nat k with
  | Some p => match w_nodes w !! p_dst p with
              | Some n => match isort lex_le (refresh_candidates (nd_view n) (p_src p)) with
                          | [] => None
                          | id :: _ => Some id
                          end
              | None => None
              end
  | None => None
  end.

Fixpoint drain (fuel : nat) (t : Z) (w : world) (acc : sched) (log : evlog) : option (world * sched * evlog) :=
  match w_net w with
  | [] => Some (w, acc, log)
  | _ :: _ =>
      match fuel with
      | O => None
      | S f =>
          let s := SDeliver 0 (first_choice w 0) in
          match step_world w t s with
          | None => None
          | Some (w', l) => drain f t w' (acc ++ [(t, s)]) (log ++ l)
          end
      end
  end.

Fixpoint do_steps (t : Z) (w : world) (mk : node -> option step) (l : list addr) (acc : sched) (log : evlog)
  : option (world * sched * evlog) :=
  match l with
  | [] => Some (w, acc, log)
  | a :: r =>
      match match w_nodes w !! a with Some n => mk n | None => None end with
      | None => do_steps t w mk r acc log
      | Some s => match step_world w t s with
                  | None => None
                  | Some (w', lg) => do_steps t w' mk r (acc ++ [(t, s)]) (log ++ lg)
                  end
      end
  end.

Definition drain_fuel : nat := 2000.

Definition auto_round (t : Z) (w : world) : option (world * sched * evlog) :=
  match do_steps t w (fun n => if nd_gossip_on n then Some (SGossipTick (nd_addr n)) else None) (running_addrs w) [] [] with
  | None => None
  | Some (w1, s1, l1) =>
  match drain drain_fuel t w1 s1 l1 with
  | None => None
  | Some (w2, s2, l2) =>
  match do_steps t w2 (fun n => if nd_fd_on n then Some (SFdTick (nd_addr n) []) else None) (running_addrs w2) s2 l2 with
  | None => None
  | Some (w3, s3, l3) =>
  match do_steps t w3 (fun n => if nd_retry_on n then Some (SRetry (nd_addr n) (map (fun s => (s, true)) (c_seeds (nd_cfg n)))) else None)
                 (running_addrs w3) s3 l3 with
  | None => None
  | Some (w4, s4, l4) => drain drain_fuel t w4 s4 l4
  end end end end.

(** [n] canonical rounds at clocks t0, t0 + d, ...: the final world and, per round, its schedule and event log *)
Fixpoint auto_rounds (n : nat) (t0 d : Z) (w : world) : option (world * list (sched * evlog)) :=
  match n with
  | O => Some (w, [])
  | S n' => match auto_round t0 w with
            | None => None
            | Some (w1, s1, l1) => match auto_rounds n' (t0 + d)%Z d w1 with
                                   | None => None
                                   | Some (w2, rs) => Some (w2, (s1, l1) :: rs)
                                   end
            end
  end.

(** a fault phase followed by [n] canonical rounds *)
Definition scenario (faults : sched) (n : nat) (t0 d : Z) : option (world * evlog * list (sched * evlog)) :=
  match run empty_world faults with
  | None => None
  | Some (w1, l1) => match auto_rounds n t0 d w1 with
                     | None => None
                     | Some (w2, rs) => Some (w2, l1, rs)
                     end
  end.

(** ** Witness configurations.  Addresses "127.0.0.1:1" .. "127.0.0.1:4"; node ids "s", "a", "j", "x". *)
Definition loopback (port : N) : addr := [49; 50; 55; 46; 48; 46; 48; 46; 49; 58; port].
Definition ad1 := loopback 49.
Definition ad2 := loopback 50.
Definition ad3 := loopback 51.
Definition ad4 := loopback 52.

(** (a) two healthy nodes, failure-detection timeout 300, rounds every 50 *)
Definition wa_seed : cfg := Cfg [115] ad1 [ad1] 300 0.
Definition wa_join : cfg := Cfg [106] ad2 [ad1] 300 0.
Definition wa_faults : sched := [(1000, SStart wa_seed []); (1010, SStart wa_join [(ad1, true)])]%Z.
Definition wa_rounds : nat := 40.
Definition wa := scenario wa_faults wa_rounds 1050 50.

(** (c) the same two nodes with SuspectConfirmDuration 100000: suspicion instead of removal *)
Definition wc_seed : cfg := Cfg [115] ad1 [ad1] 300 100000.
Definition wc_join : cfg := Cfg [106] ad2 [ad1] 300 100000.
Definition wc_faults : sched := [(1000, SStart wc_seed []); (1010, SStart wc_join [(ad1, true)])]%Z.
Definition wc := scenario wc_faults 40 1050 50.

(** (b) failure detection off; seeds s and a, member x; x crashes and is forced down at s *)
Definition wb_s : cfg := Cfg [115] ad1 [ad1; ad2] 0 0.
Definition wb_a : cfg := Cfg [97] ad2 [ad1; ad2] 0 0.
Definition wb_x : cfg := Cfg [120] ad3 [ad1] 0 0.
Definition wb_prefix : sched :=
  [(1000, SStart wb_s []); (1010, SStart wb_a []); (1020, SStart wb_x [(ad1, true)])]%Z.

(** (d) failure detection off: j (the smaller address) joins the seed s, both converge, j leaves *)
Definition wd_s : cfg := Cfg [115] ad2 [ad2] 0 0.
Definition wd_j : cfg := Cfg [106] ad1 [ad2] 0 0.
Definition wd_prefix : sched := [(1000, SStart wd_s []); (1010, SStart wd_j [(ad2, true)])]%Z.

(** (e) failure detection off, two seeds s1, s2; j joins through s1 while s2 is cut off, crashes, restarts under the
    same NodeID and joins through s2 *)
Definition we_s1 : cfg := Cfg [115; 49] ad1 [ad1; ad2] 0 0.
Definition we_s2 : cfg := Cfg [115; 50] ad2 [ad1; ad2] 0 0.
Definition we_j1 : cfg := Cfg [106] ad3 [ad1] 0 0.   (* first life: configured with the seed s1 *)
Definition we_j2 : cfg := Cfg [106] ad3 [ad2] 0 0.   (* after the restart: same NodeID, configured with the seed s2 *)

(** * The fault-free phase as the property states it: fair rounds

    A round is FAIR from world [w] when all its steps are fault-free ([fault_free]), enabled, carry
    non-decreasing clock readings in [t, ...), every node of [w] whose gossip loop / failure-detection
    loop / join retry is registered gets its tick in the round, and nothing is left in flight at its end
    ("messages delivered"). *)

Fixpoint clocks_from (t : Z) (r : sched) : bool :=
  match r with
  | [] => true
  | (now, _) :: rest => (t <=? now)%Z && clocks_from now rest
  end.

Definition has_step (r : sched) (p : step -> bool) : bool := existsb (fun x => p (snd x)) r.

Definition ticks_everyone (w : world) (r : sched) : bool :=
  forallb (fun n =>
      (negb (nd_gossip_on n) || has_step r (fun s => match s with SGossipTick a => bool_decide (a = nd_addr n) | _ => false end))
   && (negb (nd_fd_on n) || has_step r (fun s => match s with SFdTick a _ => bool_decide (a = nd_addr n) | _ => false end))
   && (negb (nd_retry_on n) || has_step r (fun s => match s with SRetry a _ => bool_decide (a = nd_addr n) | _ => false end)))
    (map snd (map_to_list (w_nodes w))).

(** run the round; [None] unless it is fair from [w] at clock >= [t] *)
Definition fair_round (w : world) (t : Z) (r : sched) : option (world * evlog) :=
  if forallb (fun x => fault_free (snd x)) r && clocks_from t r && ticks_everyone w r then
    match run w r with
    | Some (w', l) => match w_net w' with [] => Some (w', l) | _ :: _ => None end
    | None => None
    end
  else None.

(** consecutive fair rounds, round i starting at clock >= t + i*d: the final world and the per-round logs *)
Fixpoint fair_rounds (w : world) (t d : Z) (rounds : list sched) : option (world * list evlog) :=
  match rounds with
  | [] => Some (w, [])
  | r :: rest =>
      match fair_round w t r with
      | None => None
      | Some (w1, l1) => match fair_rounds w1 (t + d)%Z d rest with
                         | None => None
                         | Some (w2, ls) => Some (w2, l1 :: ls)
                         end
      end
  end.

(** ** The unconditional property, in full: whatever happened before (any schedule [faults] of starts, joins,
    losses, partitions = dropped packets and failed Asks, crashes, restarts, leaves), after [L] fair rounds
    of length [d] every running node lists exactly the running nodes, all compute the same leader, and the
    last round announces no membership / view / leader change. *)
Definition C18_unconditional (L : nat) (d : Z) : Prop :=
  forall faults t rounds w1 l1 w2 logs,
    run empty_world faults = Some (w1, l1) ->
    fair_rounds w1 t d rounds = Some (w2, logs) ->
    (L <= length rounds)%nat ->
    converged w2 /\ (forall lg, last logs = Some lg -> quiet lg = true).

(** ** Scenario combinator for the witnesses: explicit steps and canonical rounds, in any sequence *)
Inductive phase := PSteps (s : sched) | PRounds (n : nat) (t0 d : Z).

Fixpoint play (w : world) (ps : list phase) : option (world * list (sched * evlog)) :=
  match ps with
  | [] => Some (w, [])
  | PSteps s :: r =>
      match run w s with
      | None => None
      | Some (w1, l1) => match play w1 r with
                         | None => None
                         | Some (w2, rs) => Some (w2, (s, l1) :: rs)
                         end
      end
  | PRounds n t0 d :: r =>
      match auto_rounds n t0 d w with
      | None => None
      | Some (w1, rs1) => match play w1 r with
                          | None => None
                          | Some (w2, rs2) => Some (w2, rs1 ++ rs2)
                          end
      end
  end.

(** the schedules of the witnesses, as data: everything before the last [k] entries, and the last [k] entries *)
Definition sched_of (rs : list (sched * evlog)) : sched := concat (map fst rs).
Definition split_last {A} (k : nat) (l : list A) : list A * list A :=
  (firstn (length l - k) l, skipn (length l - k) l).

(** (a) 40 canonical rounds of two healthy nodes *)
Definition wa_play : list phase := [PSteps wa_faults; PRounds 40 1050 50].
(** (c) the same with SuspectConfirmDuration 100000 *)
Definition wc_play : list phase := [PSteps wc_faults; PRounds 40 1050 50].
(** (b) s, a, x converge (failure detection off); x crashes; ForceMemberDown(x) at s; 30 rounds *)
Definition wb_play : list phase :=
  [PSteps wb_prefix; PRounds 3 1050 50;
   PSteps [(1200%Z, SCrash ad3); (1210%Z, SForceDown ad1 [120])]; PRounds 30 1250 50].
(** (d) s and j converge (failure detection off); j leaves; 30 rounds *)
Definition wd_play : list phase :=
  [PSteps wd_prefix; PRounds 3 1050 50; PSteps [(1200, SLeave ad1)]%Z; PRounds 30 1250 50].
(** (e) j joins through s1 while every packet to and from s2 is lost; j crashes; j restarts under the same NodeID,
    now configured with the seed s2, and joins through it; then 30 rounds *)
Definition we_play : list phase :=
  [PSteps [(1000%Z, SStart we_s1 []); (1005%Z, SStart we_s2 []);
           (1010%Z, SDrop 0); (1010%Z, SDrop 0);                  (* the two bootstrap broadcasts *)
           (1020%Z, SStart we_j1 [(ad1, true)])];
   PSteps [(1030%Z, SDrop 0); (1030%Z, SDrop 0);                 (* s1 -> s2 and s1 -> j are lost *)
           (1030%Z, SDeliver 0 (Some [106]));                     (* j -> s1 arrives: s1 holds j at (2,2) *)
           (1030%Z, SDrop 0)];                                    (* what s1 then sends to s2 is lost *)
   PSteps [(1040%Z, SCrash ad3); (1100%Z, SStart we_j2 [(ad2, true)])];
   PRounds 30 1150 50].

(** the schedule before the last [k] entries of a played scenario, and the schedules of its last [k] entries *)
Definition faults_of (ps : list phase) (k : nat) : sched :=
  match play empty_world ps with
  | Some (_, rs) => sched_of (fst (split_last k rs))
  | None => []
  end.
Definition rounds_of (ps : list phase) (k : nat) : list sched :=
  match play empty_world ps with
  | Some (_, rs) => map fst (snd (split_last k rs))
  | None => []
  end.

(** ** Observations used in the refutation statements *)
Definition nodes_of (w : world) : list node := map snd (map_to_list (w_nodes w)).
Definition is_running (w : world) (a : addr) : bool := bool_decide (is_Some (w_nodes w !! a)).
(** the log announces the removal of an address that is running in [w] *)
Definition removal_of_running (w : world) (lg : evlog) : bool :=
  existsb (fun p => match snd p with
                    | EMembers _ _ removed => existsb (is_running w) removed
                    | _ => false
                    end) lg.
Definition lists_id (n : node) (id : list N) : bool := bool_decide (is_Some (vw_members (nd_view n) !! id)).
(** a fault phase made only of process starts whose Asks all go through: nothing is lost, nobody stops *)
Definition only_clean_starts (f : sched) : bool :=
  forallb (fun x => match snd x with SStart _ asks => forallb snd asks | _ => false end) f.
Definition leaders_of (w : world) : list node := List.filter iam_leader (nodes_of w).
Definition same_members_everywhere (w : world) : bool :=
  forallb (fun n => forallb (fun m => subset_b (member_ids (nd_view n)) (member_ids (nd_view m))) (nodes_of w)) (nodes_of w).

(** (e2) timeout 300: j joins the seed s, crashes, and the process restarts at the same address under the fresh NodeID
    "k" (the default configuration draws a new uuid per process).  s then lists two members with that address; in this
    execution MemberByAddress always yields the predecessor's entry (on the real code the Go map iteration decides, at
    random, at every delivery - the pick is the [choice] input of SDeliver, here the smaller id). *)
Definition wg_seed : cfg := Cfg [115] ad1 [ad1] 300 0.
Definition wg_j : cfg := Cfg [106] ad2 [ad1] 300 0.
Definition wg_k : cfg := Cfg [107] ad2 [ad1] 300 0.
Definition wg_play : list phase :=
  [PSteps [(1000%Z, SStart wg_seed []); (1010%Z, SStart wg_j [(ad1, true)])]; PRounds 1 1050 50;
   PSteps [(1100%Z, SCrash ad2); (1110%Z, SStart wg_k [(ad1, true)])]; PRounds 40 1150 50].

(** (c2) failure detection off: j joins the seed s, crashes, restarts under the same NodeID and joins s again (s knew
    (2,2), so the new process is at (3,3)); the broadcast of s reaches j, the ONE GossipMessage that carries (3,3) to s
    is lost.  The version-vector entry of the restarted j starts at 1 again - the value it already had - so the
    vectors are Equal and j never sends again. *)
Definition wh_s : cfg := Cfg [115] ad1 [ad1] 0 0.
Definition wh_j : cfg := Cfg [106] ad2 [ad1] 0 0.
Definition wh_play : list phase :=
  [PSteps [(1000%Z, SStart wh_s []); (1010%Z, SStart wh_j [(ad1, true)])]; PRounds 2 1050 50;
   PSteps [(1200%Z, SCrash ad2); (1210%Z, SStart wh_j [(ad1, true)]);
           (1220%Z, SDeliver 0 (Some [115]));          (* s -> j: the view s sent when it accepted the join *)
           (1220%Z, SDrop 0)];                          (* j -> s, carrying j at (3,3): lost *)
   PRounds 30 1250 50].
