(** Executable entry point of the gossip model for the correspondence check: replay a schedule of
    process / timer / network events on the model and print, per step, the published events, the
    GossipMessages sent and the full state of every node the step touched.

    cfg    = ( #id #addr ( #seed ... ) fd:Z confirm:Z )
    step   = ( now:Z 0 cfg ( ( #seed ok ) ... ) )     process start: NewNodeActor + OnLaunch (asks in shuffled order)
             ( now:Z 1 #addr ( ( #seed ok ) ... ) )   JoinRetryTick
             ( now:Z 2 #addr )                        GossipTick
             ( now:Z 3 #addr ( ok ... ) )             FailureDetectionTick (flags of the GetView asks)
             ( now:Z 4 k choice )                     deliver packet k;  choice = () | ( #id )
             ( now:Z 5 k )                            drop packet k
             ( now:Z 6 #addr )                        crash
             ( now:Z 7 #addr )                        Context.Leave, then the process stops
             ( now:Z 8 #addr #id )                    ForceMemberDown
    input  = ( step ... )        or   ( ( 3e8 i ) ): the output is witness schedule i of Properties/C18.v, as steps
             or ( ( 7d0 flags ) step ... ): options first; flags bit 0 = the last-vector table of the implementation
             could not be observed, print () for it in every node state
    output = ( ( events sends nodes ) ... )           one entry per step; a step that is not enabled prints
                                                      the error term and ends the output
    events = ( ( #addr event ) ... ), sends = ( ( #src #dst vv members ) ... ), nodes = ( ( #addr state ) ... )
    a node the step left unchanged is printed as ( #addr ) only;
    state  = () when the address is not running, else
             ( self view ( ( #addr vv ) ... ) ( gossip_on fd_on retry_on ) in_quorum #last_leader dc_health #leader_of_view ) *)
From Coq Require Import List NArith ZArith.
From stdpp Require Import gmap.
From Vivid Require Import Base.Tm Codec.Prim Cluster.VV Cluster.VVRun Cluster.View Cluster.ViewRun Cluster.Gossip Cluster.GossipClean.
Local Open Scope N_scope.

Definition get_cfg (t : tm) : option cfg :=
  match t with
  | TL [TB id; TB a; seeds; fd; cf] =>
      match get_list get_b seeds, get_z fd, get_z cf with
      | Some seeds, Some fd, Some cf => Some (Cfg id a seeds fd cf)
      | _, _, _ => None
      end
  | _ => None
  end.

Definition get_asks (t : tm) : option (list (addr * bool)) := get_list (get_pair get_b get_bool) t.

Definition get_step (t : tm) : option (Z * step) :=
  match t with
  | TL (now :: TN kind :: args) =>
      match get_z now with
      | None => None
      | Some now =>
          match kind, args with
          | 0, [c; asks] => match get_cfg c, get_asks asks with Some c, Some asks => Some (now, SStart c asks) | _, _ => None end
          | 1, [TB a; asks] => match get_asks asks with Some asks => Some (now, SRetry a asks) | _ => None end
          | 2, [TB a] => Some (now, SGossipTick a)
          | 3, [TB a; asks] => match get_list get_bool asks with Some asks => Some (now, SFdTick a asks) | _ => None end
          | 4, [TN k; TL []] => Some (now, SDeliver k None)
          | 4, [TN k; TL [TB id]] => Some (now, SDeliver k (Some id))
          | 5, [TN k] => Some (now, SDrop k)
          | 6, [TB a] => Some (now, SCrash a)
          | 7, [TB a] => Some (now, SLeave a)
          | 8, [TB a; TB id] => Some (now, SForceDown a id)
          | _, _ => None
          end
      end
  | _ => None
  end.

Definition t_addrs (l : list addr) : tm := tlist TB l.

Definition t_event (e : event) : tm :=
  match e with
  | EMembers ms added removed => TL [TN 0; t_addrs ms; TN added; t_addrs removed]
  | EView h u q c added removed => TL [TN 1; TN h; TN u; TN q; TN c; TN added; t_addrs removed]
  | ELeader l iam inq => TL [TN 2; TB l; tbool iam; tbool inq]
  | EQuorumLost h q u => TL [TN 3; TN h; TN q; TN u]
  | EQuorumReached h q => TL [TN 4; TN h; TN q]
  | EDCHealth h u c ok => TL [TN 5; TN h; TN u; TN c; tbool ok]
  | ELeaveCompleted => TL [TN 6]
  end.

Definition t_last (l : lastmap) : tm :=
  tlist (tpair TB t_vv) (isort (fun p q => lex_le (fst p) (fst q)) (map_to_list l)).

(** [hide]: the harness could not observe the last-vector table of the implementation (a representation change of
    NodeActor): that component is printed as () on both sides, everything else is still compared *)
Definition t_node_opt (hide : bool) (n : node) : tm :=
  TL [t_state (nd_self n); t_view (nd_view n); (if hide then TL [] else t_last (nd_last n));
      TL [tbool (nd_gossip_on n); tbool (nd_fd_on n); tbool (nd_retry_on n)];
      tbool (nd_inq n); TB (nd_leader n); topt tbool (nd_dch n); TB (leader_of (nd_view n))].
Definition t_node (n : node) : tm := t_node_opt false n.

Definition t_packet (p : packet) : tm :=
  TL [TB (p_src p); TB (p_dst p); t_vv (vw_vv (p_view p)); TN (N.of_nat (size (vw_members (p_view p))))].

(** the addresses whose state is printed after the step *)
Definition touched (w : world) (s : step) : list addr :=
  let l := match s with
           | SStart c asks => c_addr c :: map fst asks
           | SRetry a asks => a :: map fst asks
           | SGossipTick a | SFdTick a _ | SForceDown a _ => [a]
           | SDeliver k _ => match w_net w !! N.to_nat k with Some p => [p_dst p] | None => [] end
           | SDrop _ | SCrash _ | SLeave _ => []
           end in
  isort lex_le (remove_dups l).

Definition removed_count (s : step) : nat := match s with SDeliver _ _ | SDrop _ => 1 | _ => 0 end.

Definition t_step_out_opt (hide : bool) (w w' : world) (s : step) (log : list (list N * event)) : tm :=
  TL [tlist (tpair TB t_event) log;
      tlist t_packet (skipn (length (w_net w) - removed_count s) (w_net w'));
      tlist (fun a => if decide ((if hide then (fun n => set_last n ∅) <$> (w_nodes w !! a) else w_nodes w !! a) =
                                 (if hide then (fun n => set_last n ∅) <$> (w_nodes w' !! a) else w_nodes w' !! a)) then TL [TB a]
                      else TL [TB a; match w_nodes w' !! a with Some n => t_node_opt hide n | None => TL [] end]) (touched w s)].
Definition t_step_out := t_step_out_opt false.

Fixpoint run_steps_opt (hide : bool) (w : world) (l : list tm) : list tm :=
  match l with
  | [] => []
  | t :: rest =>
      match get_step t with
      | None => [tm_err 1]
      | Some (now, s) =>
          match step_world w now s with
          | None => [tm_err 2]
          | Some (w', log) => t_step_out_opt hide w w' s log :: run_steps_opt hide w' rest
          end
      end
  end.
Definition run_steps := run_steps_opt false.

(** the schedule language, printed (inverse of [get_step]) *)
Definition t_cfg (c : cfg) : tm :=
  TL [TB (c_id c); TB (c_addr c); tlist TB (c_seeds c); tz (c_fd c); tz (c_confirm c)].
Definition t_asks (l : list (addr * bool)) : tm := tlist (tpair TB tbool) l.
Definition t_step (x : Z * step) : tm :=
  let now := tz (fst x) in
  match snd x with
  | SStart c asks => TL [now; TN 0; t_cfg c; t_asks asks]
  | SRetry a asks => TL [now; TN 1; TB a; t_asks asks]
  | SGossipTick a => TL [now; TN 2; TB a]
  | SFdTick a asks => TL [now; TN 3; TB a; tlist tbool asks]
  | SDeliver k choice => TL [now; TN 4; TN k; topt TB choice]
  | SDrop k => TL [now; TN 5; TN k]
  | SCrash a => TL [now; TN 6; TB a]
  | SLeave a => TL [now; TN 7; TB a]
  | SForceDown a id => TL [now; TN 8; TB a; TB id]
  end.

(** the kernel-checked witness schedules of Properties/C18.v, for their replay on the real code:
    1 = (a), 2 = (b), 3 = (c), 4 = (d), 5 = (e), 6 = (c2), 7 = (g), 8 = (i) the islands instance of the convergence
    theorem (C joins through A), 9 = (h), 10 = (i) when C joins through B *)
Definition witness_play (i : N) : list phase :=
  match i with
  | 1 => wa_play | 2 => wb_play | 3 => wc_play | 4 => wd_play | 5 => we_play | 6 => wh_play
  | 7 => wj_play | 8 => wi_play | 9 => wk_play | 10 => wi_play_b | _ => []
  end.
Definition witness_sched (i : N) : list (Z * step) :=
  match play empty_world (witness_play i) with
  | Some (_, rs) => sched_of rs
  | None => []
  end.

(** input ( step ... ): replay;  input ( ( 3e8 i ) ): print witness schedule i *)
Definition run_gossip (t : tm) : tm :=
  match t with
  | TL [TL [TN 1000; TN i]] => tlist t_step (witness_sched i)
  | TL (TL [TN 2000; TN flags] :: l) => TL (run_steps_opt (N.odd flags) empty_world l)
  | TL l => TL (run_steps empty_world l)
  | _ => tm_err 0
  end.
