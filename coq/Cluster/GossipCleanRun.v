(** Every clean step, hence every clean run, preserves the clean-world invariant. *)
From Coq Require Import List NArith ZArith Lia Bool.
From Coq Require Import ZifyN ZifyNat ZifyBool.
From stdpp Require Import gmap.
From Vivid Require Import Codec.Prim Cluster.VV Cluster.VVProofs Cluster.View Cluster.ViewProofs
  Cluster.Gossip Cluster.GossipProofs Cluster.GossipClean Cluster.GossipCleanOps Cluster.GossipCleanInv
  Cluster.GossipCleanStep Cluster.GossipCleanWorld Cluster.GossipCleanHandlers Cluster.GossipCleanJoin.
Local Open Scope N_scope.

(** * worlds as records *)
Lemma world_eq w1 w2 : w_nodes w1 = w_nodes w2 -> w_net w1 = w_net w2 -> w1 = w2.
Proof. destruct w1, w2; cbn; intros -> ->; reflexivity. Qed.

Lemma upd_nil w n : upd w n [] = put_node w n.
Proof. apply world_eq; cbn; [reflexivity|apply app_nil_r]. Qed.

Lemma upd_size w a n n' out : w_nodes w !! a = Some n -> nd_addr n' = a -> size (w_nodes (upd w n' out)) = size (w_nodes w).
Proof. intros Ha Ea. cbn. rewrite Ea. apply map_size_insert_Some. eexists; exact Ha. Qed.

Lemma nodes_cap_upd w a n n' out : w_nodes w !! a = Some n -> nd_addr n' = a -> nodes_cap (upd w n' out) <-> nodes_cap w.
Proof. intros Ha Ea. unfold nodes_cap. rewrite (upd_size w a n n' out Ha Ea). reflexivity. Qed.

(** * a fresh node enters the world *)
Lemma fresh_id_spec w id : fresh_id w id = true <-> forall a n, w_nodes w !! a = Some n -> nd_id n <> id.
Proof.
  unfold fresh_id, nodes_of. rewrite forallb_forall. split.
  - intros H a n Ha. specialize (H n). rewrite negb_true_iff, bool_decide_eq_false in H. apply H.
    apply in_map_iff. exists (a, n). split; [reflexivity|]. apply elem_of_list_In, elem_of_map_to_list. exact Ha.
  - intros H n Hn. apply in_map_iff in Hn as ([a n'] & <- & Hin). apply elem_of_list_In, elem_of_map_to_list in Hin.
    rewrite negb_true_iff, bool_decide_eq_false. eapply H; exact Hin.
Qed.

Lemma new_node_cinv G w c now :
  cinv G w -> w_nodes w !! c_addr c = None -> c_addr c <> [] -> clean_cfg c = true -> fresh_id w (c_id c) = true ->
  cinv G (put_node w (new_node c now)) /\ wext w (put_node w (new_node c now)).
Proof.
  intros Hc Hnone Hne Hcl Hfr. apply andb_true_iff in Hcl as [Hfd Hid]. rewrite fresh_id_spec in Hfr.
  set (n0 := new_node c now). set (w' := put_node w n0).
  assert (Hx : wext w w').
  { intros b m Hb. exists m. split; [|split; [reflexivity|apply vle_refl]].
    unfold w', put_node; cbn. rewrite lookup_insert_ne; [exact Hb|]. intros E. unfold nd_addr in E; cbn in E. congruence. }
  split; [|exact Hx]. split.
  - intros b m Hb. unfold w', put_node in Hb; cbn in Hb. change (nd_addr n0) with (c_addr c) in Hb.
    destruct (decide (b = c_addr c)) as [->|Hnb].
    + rewrite lookup_insert in Hb. injection Hb as <-. split; try reflexivity; try assumption.
      * apply wf_new_node_state.
      * split.
        -- apply WF_new.
        -- apply VVin_new.
        -- intros k s Hk. cbn in Hk. rewrite lookup_empty in Hk. discriminate.
        -- intros k s Hk. cbn in Hk. rewrite lookup_empty in Hk. discriminate.
        -- intros e He Hsel. exfalso. destruct (ci_log _ _ Hc e He) as (Hpos & _). unfold sel in Hsel. cbn in Hsel.
           unfold vget in Hsel. rewrite lookup_empty in Hsel. cbn in Hsel. lia.
        -- intros k Hk. cbn in Hk. unfold vget in Hk. rewrite lookup_empty in Hk. cbn in Hk. lia.
        -- reflexivity.
        -- reflexivity.
        -- reflexivity.
        -- split; reflexivity.
      * intros t q Hq. cbn in Hq. rewrite lookup_empty in Hq. discriminate.
      * cbn. discriminate.
      * split; reflexivity.
    + rewrite lookup_insert_ne in Hb by congruence. eapply ninv_mono; [apply (ci_nodes _ _ Hc); exact Hb|exact Hx|apply log_ext_refl].
  - intros p Hp. change (w_net w') with (w_net w) in Hp. destruct (ci_net _ _ Hc p Hp) as (Hv & m & Hm & Hle).
    split; [eapply vinv_mono; [exact Hv|exact Hx|apply log_ext_refl]|].
    destruct (Hx _ _ Hm) as (m' & Hm' & _ & L). exists m'. split; [exact Hm'|eapply vle_trans; eassumption].
  - intros b1 b2 m1 m2 H1 H2 Hid'. unfold w', put_node in H1, H2; cbn in H1, H2. change (nd_addr n0) with (c_addr c) in H1, H2.
    destruct (decide (b1 = c_addr c)) as [->|N1], (decide (b2 = c_addr c)) as [->|N2]; try reflexivity.
    + rewrite lookup_insert in H1. injection H1 as <-. rewrite lookup_insert_ne in H2 by congruence. exfalso. apply (Hfr _ _ H2). symmetry. exact Hid'.
    + rewrite lookup_insert in H2. injection H2 as <-. rewrite lookup_insert_ne in H1 by congruence. exfalso. apply (Hfr _ _ H1). exact Hid'.
    + rewrite lookup_insert_ne in H1, H2 by congruence. eapply (ci_uniq _ _ Hc); eassumption.
  - intros e He. destruct (ci_log _ _ Hc e He) as (Hpos & b & m & Hb & Hidm & Hle). split; [exact Hpos|].
    destruct (Hx _ _ Hb) as (m' & Hm' & Hid' & L). exists b, m'. split; [exact Hm'|]. split; [congruence|]. specialize (L (g_i e)). lia.
  - intros b m k Hb. unfold w', put_node in Hb; cbn in Hb. change (nd_addr n0) with (c_addr c) in Hb.
    destruct (decide (b = c_addr c)) as [->|Hnb].
    + rewrite lookup_insert in Hb. injection Hb as <-. cbn. unfold vget. rewrite lookup_empty. cbn. lia.
    + rewrite lookup_insert_ne in Hb by congruence. eapply (ci_cnt _ _ Hc); exact Hb.
Qed.

(** * changing the timers of a node that has not joined *)
Lemma timers_cinv G w a n g f r :
  cinv G w -> w_nodes w !! a = Some n -> nd_gossip_on n = false -> g = false -> f = false ->
  cinv G (put_node w (set_timers n g f r)) /\ wext w (put_node w (set_timers n g f r)) /\
  forall S, rinv S w -> rinv S (put_node w (set_timers n g f r)).
Proof.
  intros Hc Ha Hg -> ->. rewrite <- upd_nil.
  destruct (cinv_upd G G w a n (set_timers n false false r) [] Hc Ha) as (R1 & R2 & R3); auto.
  - destruct (npre_self G w a n Hc Ha) as [P1 P2 P3 P4 P5 P6 P7 P8 P9 P10 P11]. split; cbn; try assumption; try reflexivity. discriminate.
  - apply (ni_pub _ _ _ _ (ci_nodes _ _ Hc a n Ha)).
  - intros d v H. inversion H.
  - split; [exact R1|]. split; [exact R2|]. intros S Hr.
    eapply (rinv_upd S S w w a n (set_timers n false false r) []); try eassumption; try reflexivity.
    + intros q Hq. left; exact Hq.
    + apply vle_refl.
    + intros t q m Hq Hm. destruct (ni_last _ _ _ _ (ci_nodes _ _ Hc a n Ha) t q Hq) as (m' & Hm' & Hle).
      destruct (R2 _ _ Hm') as (m'' & Hm'' & _ & L). rewrite Hm in Hm''. injection Hm'' as <-. eapply vle_trans; eassumption.
    + auto.
    + left. split; [intros k; reflexivity|]. split; [intros t Ht; exact Ht|]. split; [cbn; congruence|auto].
Qed.

Lemma hjr_some sd st r : handle_join_request sd st = Some r -> sat_quorum (nd_view sd) = true.
Proof.
  unfold handle_join_request. destruct (negb (ns_status st =? st_joining)%Z); [discriminate|].
  destruct (sat_quorum (nd_view sd)); [reflexivity|discriminate].
Qed.

(** * tryJoinSeeds *)
Lemma try_join_cinv asks : forall G w n now log w1 n1 joined log1,
  cinv G (put_node w n) -> nodes_cap (put_node w n) -> N.of_nat (length G) + 3 < max_counter ->
  forallb (ask_ok w) asks = true ->
  try_join w n now asks log = (w1, n1, joined, log1) ->
  exists G1, cinv G1 (put_node w1 n1) /\ wext (put_node w n) (put_node w1 n1) /\ (length G1 <= length G + 3)%nat /\
             nd_addr n1 = nd_addr n /\ (joined = true -> nd_gossip_on n1 = true) /\ (joined = false -> n1 = n /\ w1 = w) /\
             forall S, rinv S (put_node w n) -> rinv (if joined then nd_addr n :: S else S) (put_node w1 n1).
Proof.
  induction asks as [|[s ok] rest IH]; intros G w n now log w1 n1 joined log1 Hc Hcap Hlen Hok H; cbn [try_join] in H.
  - injection H as <- <- <- _. exists G. split; [exact Hc|]. split; [apply wext_refl|]. split; [lia|]. split; [reflexivity|]. split; [discriminate|]. split; [auto|].
    intros S Hr; exact Hr.
  - cbn [forallb] in Hok. apply andb_true_iff in Hok as [Hok1 Hok].
    destruct (negb ok || bool_decide (s = nd_addr n)) eqn:Eskip; [eapply IH; eassumption|].
    apply orb_false_iff in Eskip as [Eok Esa]. apply negb_false_iff in Eok. subst ok. apply bool_decide_eq_false in Esa.
    destruct (w_nodes w !! s) as [sd|] eqn:Es; [|eapply IH; eassumption].
    destruct (handle_join_request sd (nd_self n)) as [[[[sd' resp] out] evs]|] eqn:Ej; [|eapply IH; eassumption].
    destruct (join_complete n resp now) as [[n' out'] evs'] eqn:Ec.
    injection H as <- <- <- _.
    assert (Hs0 : w_nodes (put_node w n) !! s = Some sd).
    { unfold put_node; cbn [w_nodes]. rewrite lookup_insert_ne; [exact Es|]. intros E. apply Esa. symmetry. exact E. }
    assert (Ha0 : w_nodes (put_node w n) !! nd_addr n = Some n) by (unfold put_node; cbn [w_nodes]; apply lookup_insert).
    set (a := nd_addr n) in *. set (w0 := put_node w n) in *.
    assert (Hg : nd_gossip_on sd = true).
    { unfold ask_ok in Hok1. cbn [fst snd negb orb] in Hok1. rewrite Es in Hok1. rewrite (hjr_some _ _ _ Ej) in Hok1. exact Hok1. }
    destruct (accept_cinv G w0 s sd a n sd' resp out evs Hc Hcap) as (G1 & C1 & X1 & A1 & L1 & Er & Rs); try assumption; [lia|].
    set (wA := upd w0 sd' out) in *.
    assert (HaA : w_nodes wA !! a = Some n).
    { unfold wA. rewrite lookup_upd_nodes, A1, decide_False by congruence. exact Ha0. }
    assert (HsA : w_nodes wA !! s = Some sd') by (unfold wA; rewrite lookup_upd_nodes, A1, decide_True by reflexivity; reflexivity).
    assert (HcapA : nodes_cap wA) by (apply (nodes_cap_upd w0 s sd sd' out Hs0 A1); exact Hcap).
    pose proof (join_complete_cinv G1 wA a n resp now C1 HcapA) as HJ. rewrite Ec in HJ. cbn [fst snd] in HJ.
    destruct HJ as (G2 & C2 & X2 & A2 & L2 & Gon & Rj); try assumption; [lia| | |].
    + rewrite Er. apply (ni_view _ _ _ _ (ci_nodes _ _ C1 s sd' HsA)).
    + intros k. rewrite Er. eapply (ci_cnt _ _ C1); exact HsA.
    + assert (Ew : put_node (add_net (add_net (put_node w sd') (stamp s out)) (stamp a out')) n' = upd wA n' out').
      { apply world_eq.
        - cbn. rewrite A1, A2. fold a. rewrite (insert_commute _ s a) by congruence. rewrite insert_insert.
          rewrite (insert_commute _ a s) by congruence. reflexivity.
        - cbn. rewrite A1, A2. reflexivity. }
      exists G2. rewrite Ew. split; [exact C2|]. split; [eapply wext_trans; eassumption|]. split; [lia|]. split; [exact A2|].
      split; [intros _; exact Gon|]. split; [discriminate|].
      intros S Hr. eapply rinv_sub; [apply Rj, Rs; exact Hr|]. intros b Hb. apply elem_of_cons in Hb as [->|Hb]; [left|right; right; exact Hb].
Qed.

(** * onLaunch (joining path) / onJoinRetryTick *)
Lemma join_or_retry_cinv G w n now asks w' log :
  cinv G (put_node w n) -> nodes_cap (put_node w n) -> N.of_nat (length G) + 3 < max_counter ->
  forallb (ask_ok w) asks = true -> nd_gossip_on n = false -> nd_fd_on n = false ->
  join_or_retry w n now asks = (w', log) ->
  exists G1, cinv G1 w' /\ wext (put_node w n) w' /\ (length G1 <= length G + 3)%nat /\
    exists joined, (joined = true -> exists n', w_nodes w' !! nd_addr n = Some n' /\ nd_gossip_on n' = true) /\
      (joined = false -> exists n', w_nodes w' !! nd_addr n = Some n' /\ nd_gossip_on n' = false) /\
      forall S, rinv S (put_node w n) -> rinv (if joined then nd_addr n :: S else S) w'.
Proof.
  intros Hc Hcap Hlen Hok Hg Hf H. unfold join_or_retry in H.
  destruct (try_join w n now asks []) as [[[w1 n1] joined] lg] eqn:Et.
  destruct (try_join_cinv asks G w n now [] w1 n1 joined lg Hc Hcap Hlen Hok Et) as (G1 & C1 & X1 & L1 & A1 & J1 & J0 & Rr).
  destruct joined; injection H as <- _.
  - exists G1. split; [exact C1|]. split; [exact X1|]. split; [exact L1|]. exists true.
    split; [intros _; exists n1; split; [cbn; rewrite A1; apply lookup_insert|apply J1; reflexivity]|]. split; [discriminate|exact Rr].
  - destruct (J0 eq_refl) as [-> ->]. rewrite Hg, Hf.
    assert (Ha : w_nodes (put_node w n) !! nd_addr n = Some n) by (cbn; apply lookup_insert).
    destruct (timers_cinv G (put_node w n) (nd_addr n) n false false true Hc Ha Hg eq_refl eq_refl) as (R1 & R2 & R3).
    assert (E : put_node (put_node w n) (set_timers n false false true) = put_node w (set_timers n false false true)).
    { apply world_eq; cbn; [apply insert_insert|reflexivity]. }
    rewrite E in R1, R2, R3. exists G. split; [exact R1|]. split; [exact R2|]. split; [lia|]. exists false.
    split; [discriminate|]. split; [intros _; exists (set_timers n false false true); split; [cbn; apply lookup_insert|reflexivity]|exact R3].
Qed.

(** * keys only grow in clean steps *)
Definition keys_le (w w' : world) : Prop := forall a, is_Some (w_nodes w !! a) -> is_Some (w_nodes w' !! a).

Lemma keys_le_refl w : keys_le w w.
Proof. intros a H; exact H. Qed.
Lemma keys_le_trans w1 w2 w3 : keys_le w1 w2 -> keys_le w2 w3 -> keys_le w1 w3.
Proof. intros H1 H2 a H. apply H2, H1, H. Qed.
Lemma keys_le_put w n : keys_le w (put_node w n).
Proof. intros a H. cbn. apply lookup_insert_is_Some'. right. exact H. Qed.
Lemma keys_le_net w ps : keys_le w (add_net w ps).
Proof. intros a H; exact H. Qed.

Lemma keys_le_cap w w' : keys_le w w' -> nodes_cap w' -> nodes_cap w.
Proof.
  intros Hk Hc. unfold nodes_cap in *.
  assert (size (w_nodes w) <= size (w_nodes w'))%nat; [|lia].
  rewrite <- !size_dom. apply subseteq_size. intros a Ha. apply elem_of_dom in Ha. apply elem_of_dom. apply Hk. exact Ha.
Qed.

Lemma join_complete_cfg n resp now : nd_cfg (fst (fst (join_complete n resp now))) = nd_cfg n.
Proof.
  unfold join_complete. destruct (view_rejoin _ _ _) as [s2 v4]. destruct (publish_leader _) as [n2 e2] eqn:Ep.
  destruct (broadcast n2) as [n3 o3] eqn:Eb. cbn [fst].
  destruct (publish_node (set_view (set_self n s2) v4)) as (A1 & _). rewrite Ep in A1. cbn [fst] in A1.
  destruct (broadcast_node n2) as (B1 & _). rewrite Eb in B1. cbn [fst] in B1.
  destruct (start_loops_fields n3) as (S1 & _). rewrite S1, B1, A1. reflexivity.
Qed.

Lemma bootstrap_cfg n : nd_cfg (fst (fst (bootstrap n))) = nd_cfg n.
Proof.
  unfold bootstrap. destruct (publish_leader _) as [n2 e2] eqn:Ep. destruct (broadcast n2) as [n3 o3] eqn:Eb. cbn [fst].
  match type of Ep with publish_leader ?x = _ => destruct (publish_node x) as (A1 & _) end. rewrite Ep in A1. cbn [fst] in A1.
  destruct (broadcast_node n2) as (B1 & _). rewrite Eb in B1. cbn [fst] in B1.
  destruct (start_loops_fields n3) as (S1 & _). rewrite S1, B1, A1. reflexivity.
Qed.

Lemma try_join_keys asks : forall w n now log w1 n1 joined log1,
  try_join w n now asks log = (w1, n1, joined, log1) -> keys_le w w1 /\ nd_cfg n1 = nd_cfg n.
Proof.
  induction asks as [|[s ok] rest IH]; intros w n now log w1 n1 joined log1 H; cbn [try_join] in H.
  - injection H as <- <- _ _. split; [apply keys_le_refl|reflexivity].
  - destruct (negb ok || bool_decide (s = nd_addr n)); [eapply IH; exact H|].
    destruct (w_nodes w !! s) as [sd|]; [|eapply IH; exact H].
    destruct (handle_join_request sd (nd_self n)) as [[[[sd' resp] out] evs]|]; [|eapply IH; exact H].
    destruct (join_complete n resp now) as [[n' out'] evs'] eqn:Ec. injection H as <- <- _ _. split.
    + eapply keys_le_trans; [apply keys_le_put|]. eapply keys_le_trans; [apply keys_le_net|apply keys_le_net].
    + pose proof (join_complete_cfg n resp now) as Hc. rewrite Ec in Hc. exact Hc.
Qed.

Lemma join_or_retry_keys w n now asks w' log :
  join_or_retry w n now asks = (w', log) -> keys_le w w' /\ is_Some (w_nodes w' !! nd_addr n).
Proof.
  unfold join_or_retry. destruct (try_join w n now asks []) as [[[w1 n1] joined] lg] eqn:Et.
  destruct (try_join_keys asks w n now [] w1 n1 joined lg Et) as [Hk Hc].
  assert (Ea : forall g f r, nd_addr (set_timers n1 g f r) = nd_addr n) by (intros; unfold nd_addr; cbn; rewrite Hc; reflexivity).
  assert (Ea1 : nd_addr n1 = nd_addr n) by (unfold nd_addr; rewrite Hc; reflexivity).
  destruct joined; intros [= <- _]; (split; [eapply keys_le_trans; [exact Hk|apply keys_le_put]|]); cbn.
  - rewrite Ea1, lookup_insert. eexists; reflexivity.
  - rewrite Ea, lookup_insert. eexists; reflexivity.
Qed.

Lemma elem_of_remove_at' {A} (k : N) (l : list A) x : x ∈ remove_at k l -> x ∈ l.
Proof.
  unfold remove_at. intros H. apply elem_of_list_lookup in H as [i Hi].
  destruct (decide (i < N.to_nat k)%nat).
  - rewrite lookup_delete_lt in Hi by assumption. eapply elem_of_list_lookup_2; exact Hi.
  - rewrite lookup_delete_ge in Hi by lia. eapply elem_of_list_lookup_2; exact Hi.
Qed.

Lemma cinv_less_net G w net' :
  cinv G w -> (forall p, p ∈ net' -> p ∈ w_net w) -> cinv G (World (w_nodes w) net').
Proof.
  intros Hc Hsub.
  assert (Hx : wext w (World (w_nodes w) net')) by (intros a n Ha; exists n; split; [exact Ha|split; [reflexivity|apply vle_refl]]).
  split.
  - intros a n Ha. cbn in Ha. eapply ninv_mono; [apply (ci_nodes _ _ Hc); exact Ha|exact Hx|apply log_ext_refl].
  - intros p Hp. cbn in Hp. destruct (ci_net _ _ Hc p (Hsub p Hp)) as (Hv & m & Hm & Hle).
    split; [eapply vinv_mono; [exact Hv|exact Hx|apply log_ext_refl]|]. exists m. split; [exact Hm|exact Hle].
  - exact (ci_uniq _ _ Hc).
  - exact (ci_log _ _ Hc).
  - exact (ci_cnt _ _ Hc).
Qed.

Lemma wext_same_nodes w w' : w_nodes w' = w_nodes w -> wext w w'.
Proof. intros E a n Ha. exists n. rewrite E. split; [exact Ha|split; [reflexivity|apply vle_refl]]. Qed.

(** * one clean step *)
Theorem clean_step_cinv G w now s w' l :
  cinv G w -> nodes_cap w' -> N.of_nat (length G) + 3 < max_counter -> clean_at w s = true ->
  step_world w now s = Some (w', l) ->
  exists G', cinv G' w' /\ wext w w' /\ (length G' <= length G + 3)%nat.
Proof.
  intros Hc Hcap Hlen Hcl H. unfold clean_at in Hcl. apply andb_true_iff in Hcl as [Hcs Hcl].
  destruct s as [c asks|a asks|a|a asks|k choice|k|a|a|a id]; cbn [step_world clean_step] in H, Hcs, Hcl; try discriminate.
  - (* start *)
    apply andb_true_iff in Hcl as [Hfr Hok].
    destruct (negb (nonempty (c_addr c))) eqn:Ene; [discriminate|]. apply negb_false_iff in Ene. unfold nonempty in Ene.
    apply negb_true_iff, bool_decide_eq_false in Ene.
    destruct (w_nodes w !! c_addr c) eqn:Enone; [discriminate|].
    destruct (new_node_cinv G w c now Hc Enone Ene Hcs Hfr) as [C0 X0].
    set (n0 := new_node c now) in *. set (w0 := put_node w n0) in *.
    assert (Ha0 : w_nodes w0 !! c_addr c = Some n0) by (unfold w0, put_node; cbn; apply lookup_insert).
    assert (Hcap0 : keys_le w w' -> is_Some (w_nodes w' !! c_addr c) -> nodes_cap w0).
    { intros Hk Hs. apply (keys_le_cap w0 w'); [|exact Hcap]. intros b Hb. unfold w0, put_node in Hb; cbn in Hb.
      change (nd_addr n0) with (c_addr c) in Hb. apply lookup_insert_is_Some' in Hb as [<-|Hb]; [exact Hs|apply Hk; exact Hb]. }
    destruct (launch_is_seed c).
    + destruct (bootstrap n0) as [[n1 out] evs] eqn:Eb. injection H as <- _.
      assert (A1 : nd_addr n1 = c_addr c) by (pose proof (bootstrap_cfg n0) as Hcf; rewrite Eb in Hcf; cbn in Hcf; unfold nd_addr; rewrite Hcf; reflexivity).
      assert (E : add_net (put_node w n1) (stamp (c_addr c) out) = upd w0 n1 out).
      { apply world_eq; cbn; rewrite A1; [change (nd_addr n0) with (c_addr c); rewrite insert_insert; reflexivity|reflexivity]. }
      pose proof (bootstrap_cinv G w0 (c_addr c) n0 C0) as HB. rewrite Eb in HB. cbn [fst snd] in HB.
      destruct HB as (G' & C1 & X1 & _ & L1 & _); [|lia|exact Ha0|].
      * apply Hcap0; [eapply keys_le_trans; [apply keys_le_put|apply keys_le_net]|]. cbn. rewrite A1, lookup_insert. eexists; reflexivity.
      * rewrite E. exists G'. split; [exact C1|]. split; [eapply wext_trans; eassumption|lia].
    + destruct (join_or_retry w n0 now asks) as [w1 lg] eqn:Ej. injection H as <- _.
      destruct (join_or_retry_keys w n0 now asks w1 lg Ej) as [Hk Hs].
      destruct (join_or_retry_cinv G w n0 now asks w1 lg C0) as (G1 & C1 & X1 & L1 & _); try assumption; try reflexivity.
      * apply Hcap0; assumption.
      * exists G1. split; [exact C1|]. split; [eapply wext_trans; eassumption|exact L1].
  - (* join retry *)
    destruct (w_nodes w !! a) as [n|] eqn:Ea; [|discriminate]. destruct (nd_retry_on n) eqn:Er; [|discriminate].
    destruct (join_or_retry w _ now asks) as [w1 lg] eqn:Ej. injection H as <- _.
    destruct (ci_nodes _ _ Hc a n Ea) as [N1 N2 N3 N4 N5 N6 N7 N8 N9 N10 N11 N12].
    assert (Hg : nd_gossip_on n = false).
    { destruct (nd_gossip_on n) eqn:E; [|reflexivity]. destruct (N11 eq_refl) as [R _]. congruence. }
    rewrite Hg, N8 in Ej.
    destruct (timers_cinv G w a n false false false Hc Ea Hg eq_refl eq_refl) as (C0 & X0 & _).
    destruct (join_or_retry_keys w _ now asks w1 lg Ej) as [Hk _].
    destruct (join_or_retry_cinv G w _ now asks w1 lg C0) as (G1 & C1 & X1 & L1 & _); try assumption; try reflexivity.
    + apply (keys_le_cap _ w1); [|exact Hcap]. intros b Hb. cbn in Hb. change (nd_addr (set_timers n false false false)) with (nd_addr n) in Hb.
      rewrite N1 in Hb. apply lookup_insert_is_Some' in Hb as [<-|Hb]; apply Hk; [eexists; exact Ea|exact Hb].
    + exists G1. split; [exact C1|]. split; [eapply wext_trans; eassumption|exact L1].
  - (* gossip tick *)
    destruct (w_nodes w !! a) as [n|] eqn:Ea; [|discriminate]. destruct (nd_gossip_on n); [|discriminate].
    destruct (gossip_tick n) as [[n1 out] evs] eqn:Eg. injection H as <- _.
    destruct (gossip_tick_npre G w a n Hc Ea) as [Hp Hout]. rewrite Eg in Hp, Hout. cbn [fst snd] in Hp, Hout.
    assert (Hpub : pub_ok n1).
    { pose proof (gossip_tick_node n) as Hn. rewrite Eg in Hn. cbn [fst] in Hn. subst n1. apply (ni_pub _ _ _ _ (ci_nodes _ _ Hc a n Ea)). }
    destruct (cinv_upd G G w a n n1 out Hc Ea Hp Hpub) as (R1 & R2 & R3); auto.
    assert (E : add_net (put_node w n1) (stamp a out) = upd w n1 out) by (unfold upd; rewrite R3; reflexivity).
    rewrite E. exists G. split; [exact R1|]. split; [exact R2|lia].
  - (* failure-detection tick: never enabled, the loop is not registered *)
    destruct (w_nodes w !! a) as [n|] eqn:Ea; [|discriminate].
    rewrite (ni_fdoff _ _ _ _ (ci_nodes _ _ Hc a n Ea)) in H. discriminate.
  - (* delivery *)
    destruct (N.of_nat (length (w_net w)) <=? k); [discriminate|].
    destruct (w_net w !! N.to_nat k) as [p|] eqn:Ek; [|discriminate].
    assert (Hp : p ∈ w_net w) by (eapply elem_of_list_lookup_2; exact Ek).
    set (w1 := World (w_nodes w) (remove_at k (w_net w))) in *.
    assert (C1 : cinv G w1) by (apply cinv_less_net; [exact Hc|intros q Hq; eapply elem_of_remove_at'; exact Hq]).
    assert (X1 : wext w w1) by (apply wext_same_nodes; reflexivity).
    destruct (w_nodes w !! p_dst p) as [n|] eqn:Ed.
    + match type of H with (if ?b then _ else None) = _ => destruct b end; [|discriminate].
      destruct (handle_gossip n (p_src p) (p_view p) now choice) as [[n1 out] evs] eqn:Eg. injection H as <- _.
      assert (Hcapw : nodes_cap w).
      { apply (keys_le_cap w (add_net (put_node w1 n1) (stamp (p_dst p) out))); [|exact Hcap].
        eapply keys_le_trans; [|apply keys_le_net]. eapply keys_le_trans; [|apply keys_le_put]. intros b Hb; exact Hb. }
      destruct (handle_gossip_npre G w (p_dst p) n p now choice Hc Hcapw Ed Hp) as [Hpre Hout]. rewrite Eg in Hpre, Hout. cbn [fst snd] in Hpre, Hout.
      (* the same facts hold against w1, which has the same nodes *)
      assert (Hpre1 : npre G w1 n n1).
      { destruct Hpre as [P1 P2 P3 P4 P5 P6 P7 P8 P9 P10 P11]. split; try assumption.
        destruct P6 as [Q1 Q2 Q3 Q4 Q5 Q6 Q7 Q8 Q9]. split; assumption. }
      assert (Hpub : pub_ok n1).
      { pose proof (handle_gossip_pub G w (p_dst p) n p now choice Hc Hcapw Ed Hp) as Hpp. rewrite Eg in Hpp. exact Hpp. }
      destruct (cinv_upd G G w1 (p_dst p) n n1 out C1 Ed Hpre1 Hpub) as (R1 & R2 & R3); auto.
      assert (E : add_net (put_node w1 n1) (stamp (p_dst p) out) = upd w1 n1 out) by (unfold upd; rewrite R3; reflexivity).
      rewrite E. exists G. split; [exact R1|]. split; [exact (wext_trans _ _ _ X1 R2)|lia].
    + destruct choice; [discriminate|]. injection H as <- _. exists G. split; [exact C1|]. split; [exact X1|lia].
  - (* loss *)
    destruct (N.of_nat (length (w_net w)) <=? k); [discriminate|]. injection H as <- _.
    exists G. split; [apply cinv_less_net; [exact Hc|intros q Hq; eapply elem_of_remove_at'; exact Hq]|].
    split; [apply wext_same_nodes; reflexivity|lia].
Qed.

(** * clean runs *)
Lemma clean_step_keys w now s w' l : clean_step s = true -> step_world w now s = Some (w', l) -> keys_le w w'.
Proof.
  intros Hcs H. destruct s as [c asks|a asks|a|a asks|k choice|k|a|a|a id]; cbn [step_world clean_step] in H, Hcs; try discriminate.
  - destruct (negb _); [discriminate|]. destruct (w_nodes w !! c_addr c); [discriminate|]. destruct (launch_is_seed c).
    + destruct (bootstrap _) as [[n1 out] evs]. injection H as <- _. eapply keys_le_trans; [apply (keys_le_put w n1)|apply keys_le_net].
    + destruct (join_or_retry _ _ _ _) as [w1 lg] eqn:Ej. injection H as <- _. apply (join_or_retry_keys _ _ _ _ _ _ Ej).
  - destruct (w_nodes w !! a); [|discriminate]. destruct (nd_retry_on n); [|discriminate].
    destruct (join_or_retry _ _ _ _) as [w1 lg] eqn:Ej. injection H as <- _. apply (join_or_retry_keys _ _ _ _ _ _ Ej).
  - destruct (w_nodes w !! a); [|discriminate]. destruct (nd_gossip_on n); [|discriminate].
    destruct (gossip_tick n) as [[n1 out] evs]. injection H as <- _. eapply keys_le_trans; [apply (keys_le_put w n1)|apply keys_le_net].
  - destruct (w_nodes w !! a); [|discriminate]. destruct (nd_fd_on n); [|discriminate].
    destruct (fd_tick n now) as [[[n1 out] evs] rec]. destruct (if rec then _ else _) as [n2 out2]. injection H as <- _.
    eapply keys_le_trans; [apply (keys_le_put w n2)|apply keys_le_net].
  - destruct (_ <=? _); [discriminate|]. destruct (w_net w !! N.to_nat k) as [p|]; [|discriminate].
    destruct (w_nodes w !! p_dst p).
    + match type of H with (if ?b then _ else None) = _ => destruct b end; [|discriminate].
      destruct (handle_gossip _ _ _ _ _) as [[n1 out] evs]. injection H as <- _. intros b Hb. cbn. apply lookup_insert_is_Some'. right. exact Hb.
    + destruct choice; [discriminate|]. injection H as <- _. intros b Hb; exact Hb.
  - destruct (_ <=? _); [discriminate|]. injection H as <- _. intros b Hb; exact Hb.
Qed.

Lemma clean_at_step w s : clean_at w s = true -> clean_step s = true.
Proof. unfold clean_at. intros H. apply andb_true_iff in H. tauto. Qed.

Lemma clean_run_keys h : forall w w' l, clean_run w h = true -> run w h = Some (w', l) -> keys_le w w'.
Proof.
  induction h as [|[now s] rest IH]; intros w w' l Hcl H; cbn [run clean_run] in H, Hcl.
  - injection H as <- _. apply keys_le_refl.
  - apply andb_true_iff in Hcl as [Hat Hcl].
    destruct (step_world w now s) as [[w1 l1]|] eqn:E; [|discriminate].
    destruct (run w1 rest) as [[w2 l2]|] eqn:E2; [|discriminate]. injection H as <- _.
    eapply keys_le_trans; [eapply clean_step_keys; [apply (clean_at_step w s); exact Hat|exact E]|eapply IH; eassumption].
Qed.

Theorem clean_run_cinv h : forall G w w' l,
  cinv G w -> clean_run w h = true -> run w h = Some (w', l) -> nodes_cap w' ->
  N.of_nat (length G) + 3 * N.of_nat (length h) < max_counter ->
  exists G', cinv G' w' /\ wext w w' /\ (length G' <= length G + 3 * length h)%nat.
Proof.
  induction h as [|[now s] rest IH]; intros G w w' l Hc Hcl H Hcap Hlen; cbn [run clean_run] in H, Hcl.
  - injection H as <- _. exists G. split; [exact Hc|]. split; [apply wext_refl|cbn; lia].
  - apply andb_true_iff in Hcl as [Hat Hcl].
    destruct (step_world w now s) as [[w1 l1]|] eqn:E; [|discriminate].
    destruct (run w1 rest) as [[w2 l2]|] eqn:E2; [|discriminate]. injection H as <- _.
    cbn [length] in Hlen.
    destruct (clean_step_cinv G w now s w1 l1 Hc) as (G1 & C1 & X1 & L1); try assumption.
    + apply (keys_le_cap w1 w2); [eapply clean_run_keys; eassumption|exact Hcap].
    + lia.
    + destruct (IH G1 w1 w2 l2 C1 Hcl E2 Hcap) as (G2 & C2 & X2 & L2); [lia|].
      exists G2. split; [exact C2|]. split; [eapply wext_trans; eassumption|cbn [length]; lia].
Qed.

(** * Theorem A: in every world a clean history reaches, the order of the version vectors is the order of the
    memberships - for the views of the nodes and of the GossipMessages in flight alike *)
Definition steps_ok (k : nat) : Prop := 3 * N.of_nat k + 3 < max_counter.

Lemma view_in_vinv G w v : cinv G w -> view_in w v -> vinv G w v.
Proof.
  intros Hc [(a & n & Ha & <-)|(p & Hp & <-)]; [apply (ni_view _ _ _ _ (ci_nodes _ _ Hc a n Ha))|apply (ci_net _ _ Hc p Hp)].
Qed.

Theorem clean_vector_order h w l :
  clean_history h = true -> run empty_world h = Some (w, l) ->
  N.of_nat (size (w_nodes w)) <= max_entries -> steps_ok (length h) ->
  forall u v, view_in w u -> view_in w v -> vle (vw_vv u) (vw_vv v) -> ple (proj u) (proj v).
Proof.
  intros Hcl Hrun Hcap Hst u v Hu Hv Hle. unfold steps_ok in Hst.
  destruct (clean_run_cinv h [] empty_world w l cinv_empty Hcl Hrun Hcap) as (G & Hc & _); [cbn [length]; lia|].
  eapply just_cover_ple; [apply (view_in_vinv G w u Hc Hu)|apply (view_in_vinv G w v Hc Hv)|exact Hle].
Qed.
