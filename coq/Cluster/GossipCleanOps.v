(** What the view operations of the clean class (AddMember, IncrementVersion, MergeFrom, the LastSeen refresh, the
    rejoin bump) do to the members map and to the version vector, under the guards that the clean-world invariant
    provides (every vector key is a member, the member count is within the entry cap, no counter overflow). *)
From Coq Require Import List NArith ZArith Lia Bool.
From Coq Require Import ZifyN ZifyNat ZifyBool.
From stdpp Require Import gmap.
From Vivid Require Import Codec.Prim Cluster.VV Cluster.VVProofs Cluster.View Cluster.ViewProofs
  Cluster.Gossip Cluster.GossipProofs Cluster.GossipClean.
Local Open Scope N_scope.

(** * ple *)
Lemma ple_refl p : ple p p.
Proof. intros m x H. exists x. split; [exact H|apply inc_lt_irrefl]. Qed.

Lemma inc_lt_false_trans p q r : inc_lt q p = false -> inc_lt r q = false -> inc_lt r p = false.
Proof.
  unfold inc_lt. destruct p as [a b], q as [c d], r as [e f]; cbn [fst snd]. lia.
Qed.

Lemma ple_trans p q r : ple p q -> ple q r -> ple p r.
Proof.
  intros H1 H2 m x Hm. destruct (H1 m x Hm) as (y & Hy & L1). destruct (H2 m y Hy) as (z & Hz & L2).
  exists z. split; [exact Hz|]. eapply inc_lt_false_trans; eassumption.
Qed.

Lemma inc_le_antisym p q : inc_lt p q = false -> inc_lt q p = false -> p = q.
Proof. intros H1 H2. apply inc_lt_total; assumption. Qed.

Lemma ple_antisym p q : ple p q -> ple q p -> p = q.
Proof.
  intros H1 H2. apply map_eq. intros m.
  destruct (p !! m) as [x|] eqn:Ep, (q !! m) as [y|] eqn:Eq; try reflexivity.
  - destruct (H1 m x Ep) as (y' & Hy' & L1). destruct (H2 m y Eq) as (x' & Hx' & L2).
    rewrite Eq in Hy'. injection Hy' as <-. rewrite Ep in Hx'. injection Hx' as <-.
    f_equal. apply inc_le_antisym; assumption.
  - destruct (H1 m x Ep) as (y' & Hy' & _). congruence.
  - destruct (H2 m y Eq) as (x' & Hx' & _). congruence.
Qed.

Lemma proj_lookup v m : proj v !! m = inc_of <$> (vw_members v !! m).
Proof. unfold proj. apply lookup_fmap. Qed.

(** * vle / veq *)
Lemma vle_refl a : vle a a.
Proof. intros k. lia. Qed.
Lemma vle_trans a b c : vle a b -> vle b c -> vle a c.
Proof. intros H1 H2 k. specialize (H1 k). specialize (H2 k). lia. Qed.
Lemma veq_vle a b : veq a b -> vle a b.
Proof. intros H k. rewrite (H k). lia. Qed.
Lemma veq_sym a b : veq a b -> veq b a.
Proof. intros H k. symmetry. apply H. Qed.
Lemma veq_trans a b c : veq a b -> veq b c -> veq a c.
Proof. intros H1 H2 k. rewrite (H1 k). apply H2. Qed.
Lemma vle_antisym a b : vle a b -> vle b a -> veq a b.
Proof. intros H1 H2 k. specialize (H1 k). specialize (H2 k). lia. Qed.

Lemma vget_insert (V : vv) id c k : vget (<[id := c]> V) k = if decide (k = id) then c else vget V k.
Proof.
  unfold vget. destruct (decide (k = id)) as [->|Hne]; [rewrite lookup_insert; reflexivity|rewrite lookup_insert_ne by congruence; reflexivity].
Qed.

(** * the entry cap with MaxVersionVectorEntries = 0 *)
Definition capN (m : members) : Prop := N.of_nat (size m) <= max_entries.

Lemma CapOK_capN v : vw_maxent v = 0%Z -> capN (vw_members v) -> CapOK v.
Proof. intros H0 H. unfold CapOK, vv_limit. rewrite H0. cbn. exact H. Qed.

(** * IncrementVersion *)
Lemma view_inc_spec v id :
  valid_addr id = true -> vget (vw_vv v) id < max_counter ->
  vw_vv (view_inc v id) = <[id := vget (vw_vv v) id + 1]> (vw_vv v) /\
  vw_members (view_inc v id) = vw_members v /\ vw_epoch (view_inc v id) = vw_epoch v /\
  vw_ts (view_inc v id) = vw_ts v /\ vw_proto (view_inc v id) = vw_proto v /\ vw_maxent (view_inc v id) = vw_maxent v /\
  vw_healthy (view_inc v id) = vw_healthy v /\ vw_quorum (view_inc v id) = vw_quorum v.
Proof.
  intros Hv Hc. unfold view_inc. destruct id as [|b r]; [discriminate Hv|].
  unfold vinc. rewrite Hv. replace (max_counter <=? vget (vw_vv v) (b :: r)) with false by lia.
  destruct v; cbn. repeat split; reflexivity.
Qed.

Lemma view_inc_vget_le v id k : vget (vw_vv v) k <= vget (vw_vv (view_inc v id)) k.
Proof.
  unfold view_inc. destruct id as [|b r]; [lia|].
  destruct (vinc (vw_vv v) (b :: r)) as [x|] eqn:E; [|lia].
  unfold vinc in E. destruct (valid_addr _); [|discriminate]. destruct (_ <=? _); [discriminate|].
  injection E as <-. destruct v; cbn. rewrite vget_insert. destruct (decide _) as [->|]; lia.
Qed.

Lemma view_inc_members v id : vw_members (view_inc v id) = vw_members v.
Proof. unfold view_inc. destruct id; [reflexivity|]. destruct (vinc _ _); destruct v; reflexivity. Qed.

(** * AddMember *)
Lemma view_add_members v s :
  vw_members (view_add v s) =
  match vw_members v !! ns_id s with
  | Some e => if isnewer s e then <[ns_id s := s]> (vw_members v) else vw_members v
  | None => <[ns_id s := s]> (vw_members v)
  end.
Proof.
  unfold view_add. destruct (vw_members v !! ns_id s) as [e|]; [destruct (isnewer s e)|]; destruct v; reflexivity.
Qed.

Lemma view_add_fields v s :
  vw_epoch (view_add v s) = vw_epoch v /\ vw_ts (view_add v s) = vw_ts v /\
  vw_proto (view_add v s) = vw_proto v /\ vw_maxent (view_add v s) = vw_maxent v.
Proof.
  unfold view_add. destruct (vw_members v !! ns_id s) as [e|]; [destruct (isnewer s e)|]; destruct v; repeat split; reflexivity.
Qed.

Lemma view_add_vv v s :
  VVin v -> vw_maxent v = 0%Z -> capN (<[ns_id s := s]> (vw_members v)) -> vw_vv (view_add v s) = vw_vv v.
Proof.
  intros Hin H0 Hcap.
  assert (E : vw_vv (recompute (set_members v (<[ns_id s := s]> (vw_members v)))) = vw_vv v).
  { rewrite recompute_vv_id; [destruct v; reflexivity| |].
    - intros k Hk. assert (Hk' : is_Some (vw_vv v !! k)) by (destruct v; exact Hk).
      destruct (Hin k Hk') as [x Hx]. destruct v; cbn in *.
      destruct (decide (k = ns_id s)) as [->|Hne]; [rewrite lookup_insert; eexists; reflexivity|].
      rewrite lookup_insert_ne by congruence. eexists; exact Hx.
    - apply CapOK_capN; [destruct v; exact H0|destruct v; exact Hcap]. }
  unfold view_add. destruct (vw_members v !! ns_id s) as [e|]; [destruct (isnewer s e)|]; try exact E; reflexivity.
Qed.

(** the entry AddMember leaves under the key of [s]: [s] itself or an entry that is not older *)
Lemma view_add_lookup_self v s :
  WF v -> wf_state s ->
  exists e, vw_members (view_add v s) !! ns_id s = Some e /\ inc_lt (inc_of e) (inc_of s) = false /\
            (e = s \/ vw_members v !! ns_id s = Some e).
Proof.
  intros Hv Hs. rewrite view_add_members.
  destruct (vw_members v !! ns_id s) as [e|] eqn:E.
  - destruct (isnewer s e) eqn:N.
    + exists s. rewrite lookup_insert. split; [reflexivity|]. split; [apply inc_lt_irrefl|left; reflexivity].
    + exists e. split; [exact E|]. destruct (Hv _ _ E) as [Ie We].
      rewrite isnewer_wf in N by (assumption || congruence). split; [exact N|right; reflexivity].
  - exists s. rewrite lookup_insert. split; [reflexivity|]. split; [apply inc_lt_irrefl|left; reflexivity].
Qed.

Lemma view_add_lookup_other v s k : k <> ns_id s -> vw_members (view_add v s) !! k = vw_members v !! k.
Proof.
  intros Hne. rewrite view_add_members.
  destruct (vw_members v !! ns_id s) as [e|]; [destruct (isnewer s e)|]; try reflexivity; rewrite lookup_insert_ne by congruence; reflexivity.
Qed.

(** every entry of the result is an entry of the argument or [s] *)
Lemma view_add_lookup_cases v s k e :
  vw_members (view_add v s) !! k = Some e -> vw_members v !! k = Some e \/ (k = ns_id s /\ e = s).
Proof.
  destruct (decide (k = ns_id s)) as [->|Hne].
  - rewrite view_add_members. destruct (vw_members v !! ns_id s) as [e0|] eqn:E0.
    + destruct (isnewer s e0); [rewrite lookup_insert; intros [= <-]; right; auto|rewrite E0; intros [= <-]; left; reflexivity].
    + rewrite lookup_insert. intros [= <-]. right; auto.
  - rewrite view_add_lookup_other by exact Hne. auto.
Qed.

(** nothing is lost or lowered *)
Lemma view_add_keeps v s k e :
  WF v -> wf_state s -> vw_members v !! k = Some e ->
  exists e', vw_members (view_add v s) !! k = Some e' /\ inc_lt (inc_of e') (inc_of e) = false.
Proof.
  intros Hv Hs Hk. destruct (decide (k = ns_id s)) as [->|Hne].
  - rewrite view_add_members, Hk. destruct (isnewer s e) eqn:N.
    + exists s. rewrite lookup_insert. split; [reflexivity|]. destruct (Hv _ _ Hk) as [Ie We].
      rewrite isnewer_wf in N by (assumption || congruence). apply inc_lt_asym. exact N.
    + exists e. split; [exact Hk|apply inc_lt_irrefl].
  - exists e. rewrite view_add_lookup_other by exact Hne. split; [exact Hk|apply inc_lt_irrefl].
Qed.

Lemma size_insert_le (m : members) k s : (size (<[k := s]> m) <= S (size m))%nat.
Proof.
  destruct (m !! k) as [e|] eqn:E.
  - rewrite map_size_insert_Some by (eexists; exact E). lia.
  - rewrite map_size_insert_None by exact E. lia.
Qed.

(** * MergeFrom *)
Lemma merge_vget v o now k :
  VVin v -> VVin o -> vw_maxent v = 0%Z -> capN (merge_members (vw_members v) (vw_members o)) ->
  vget (vw_vv (fst (view_merge 0 0 now v o))) k = N.max (vget (vw_vv v) k) (vget (vw_vv o) k).
Proof.
  intros Hv Ho H0 Hcap. destruct (o_empty_dec o) as [He|He].
  - rewrite view_merge_empty by exact He. cbn [fst]. rewrite (VVin_no_members o Ho He).
    unfold vget at 3. rewrite lookup_empty. cbn. lia.
  - rewrite merge_vv_value; [apply vget_merge|exact Hv| |].
    + apply CapOK_capN; [rewrite view_merge_maxent; exact H0|rewrite view_merge_members; exact Hcap].
    + intros E. rewrite E, map_size_empty in He. congruence.
Qed.

Lemma merge_fields v o now :
  vw_epoch v = 0%Z -> vw_epoch o = 0%Z -> vw_proto v = 1 -> vw_proto o = 1 ->
  vw_epoch (fst (view_merge 0 0 now v o)) = 0%Z /\ vw_proto (fst (view_merge 0 0 now v o)) = 1 /\
  vw_maxent (fst (view_merge 0 0 now v o)) = vw_maxent v.
Proof.
  intros E1 E2 P1 P2. unfold view_merge, view_merge_gen. destruct (bool_decide _); cbn [fst vw_epoch vw_proto vw_maxent].
  - auto.
  - rewrite E1, E2, P1, P2. rewrite Z.ltb_irrefl, andb_false_r. cbn. auto.
Qed.

(** the entry a merge leaves under a key: the newer of the two (under WF: by incarnation) *)
Lemma merge_lookup_ge_l v o now k e :
  WF v -> WF o -> vw_members v !! k = Some e ->
  exists e', vw_members (fst (view_merge 0 0 now v o)) !! k = Some e' /\ inc_lt (inc_of e') (inc_of e) = false.
Proof.
  intros Hv Ho Hk. rewrite view_merge_members, merge_members_lookup, Hk.
  destruct (vw_members o !! k) as [x|] eqn:Eo; [|exists e; split; [reflexivity|apply inc_lt_irrefl]].
  destruct (Hv _ _ Hk) as [Ie We]. destruct (Ho _ _ Eo) as [Ix Wx].
  destruct (isnewer x e) eqn:N.
  - exists x. split; [reflexivity|]. rewrite isnewer_wf in N by (assumption || congruence). apply inc_lt_asym. exact N.
  - exists e. split; [reflexivity|apply inc_lt_irrefl].
Qed.
Lemma merge_lookup_ge_r v o now k x :
  WF v -> WF o -> vw_members o !! k = Some x ->
  exists e', vw_members (fst (view_merge 0 0 now v o)) !! k = Some e' /\ inc_lt (inc_of e') (inc_of x) = false.
Proof.
  intros Hv Ho Hk. rewrite view_merge_members, merge_members_lookup, Hk.
  destruct (vw_members v !! k) as [e|] eqn:Ev; [|exists x; split; [reflexivity|apply inc_lt_irrefl]].
  destruct (Hv _ _ Ev) as [Ie We]. destruct (Ho _ _ Hk) as [Ix Wx].
  destruct (isnewer x e) eqn:N.
  - exists x. split; [reflexivity|apply inc_lt_irrefl].
  - exists e. split; [reflexivity|]. rewrite isnewer_wf in N by (assumption || congruence). exact N.
Qed.
Lemma merge_lookup_cases v o now k e :
  vw_members (fst (view_merge 0 0 now v o)) !! k = Some e ->
  vw_members v !! k = Some e \/ vw_members o !! k = Some e.
Proof.
  rewrite view_merge_members, merge_members_lookup.
  destruct (vw_members v !! k) as [a|], (vw_members o !! k) as [b|]; try discriminate.
  - destruct (isnewer b a); intros [= <-]; auto.
  - intros [= <-]; auto.
  - intros [= <-]; auto.
Qed.

(** a merge with a view that brings nothing newer leaves the members map as it is *)
Lemma merge_members_same v o now :
  WF v -> WF o -> ple (proj o) (proj v) ->
  vw_members (fst (view_merge 0 0 now v o)) = vw_members v.
Proof.
  intros Hv Ho Hle. rewrite view_merge_members. apply map_eq. intros k. rewrite merge_members_lookup.
  destruct (vw_members o !! k) as [x|] eqn:Eo; [|destruct (vw_members v !! k); reflexivity].
  destruct (Hle k (inc_of x)) as (y & Hy & L); [rewrite proj_lookup, Eo; reflexivity|].
  rewrite proj_lookup in Hy. destruct (vw_members v !! k) as [e|] eqn:Ev; [|discriminate]. cbn in Hy. injection Hy as <-.
  destruct (Hv _ _ Ev) as [Ie We]. destruct (Ho _ _ Eo) as [Ix Wx].
  rewrite isnewer_wf by (assumption || congruence).
  destruct (inc_lt (inc_of e) (inc_of x)) eqn:N; [|reflexivity].
  (* inc_of e < inc_of x and not (inc_of e < inc_of x)... L says inc_lt (inc_of e) (inc_of x) = false *)
  congruence.
Qed.

(** * the LastSeen / Suspect refresh of handleGossip *)
Lemma refresh_lookup (m : members) id now k :
  alter (fun s => ns_refresh s now) id m !! k =
  if decide (k = id) then (fun s => ns_refresh s now) <$> (m !! k) else m !! k.
Proof.
  destruct (decide (k = id)) as [->|Hne]; [apply lookup_alter|apply lookup_alter_ne; congruence].
Qed.

Lemma ns_refresh_up s now : ns_status s = st_up -> ns_status (ns_refresh s now) = st_up.
Proof. intros H. unfold ns_refresh; cbn. rewrite H. reflexivity. Qed.

(** * the cached counts *)
Lemma count_up_all_up (l : list (list N * nstate)) :
  (forall p, p ∈ l -> ns_status (snd p) = st_up) -> count_up l = N.of_nat (length l).
Proof.
  induction l as [|p r IH]; intros H; cbn [count_up length]; [reflexivity|].
  rewrite (H p) by (apply elem_of_cons; auto). rewrite IH by (intros q Hq; apply H, elem_of_cons; auto).
  cbn. lia.
Qed.
