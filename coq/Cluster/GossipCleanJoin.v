(** Bootstrap, accepting a join, completing a join: the clean-world invariant is preserved. *)
From Coq Require Import List NArith ZArith Lia Bool.
From Coq Require Import ZifyN ZifyNat ZifyBool.
From stdpp Require Import gmap.
From Vivid Require Import Codec.Prim Cluster.VV Cluster.VVProofs Cluster.View Cluster.ViewProofs
  Cluster.Gossip Cluster.GossipProofs Cluster.GossipClean Cluster.GossipCleanOps Cluster.GossipCleanInv
  Cluster.GossipCleanStep Cluster.GossipCleanWorld Cluster.GossipCleanHandlers.
Local Open Scope N_scope.

Lemma self_up_truthful G w a n :
  cinv G w -> w_nodes w !! a = Some n ->
  let s := ns_set_status (nd_self n) st_up in
  wf_state s /\ ns_status s = st_up /\ ns_id s = nd_id n /\ ns_addr s = a /\
  exists m, w_nodes w !! ns_addr s = Some m /\ nd_id m = ns_id s.
Proof.
  intros Hc Ha. destruct (ci_nodes _ _ Hc a n Ha) as [N1 N2 N3 N4 N5 N6 N7 N8 N9 N10 N11 N12]. cbn zeta.
  split; [exact N3|]. split; [reflexivity|]. split; [exact N4|]. split; [exact N5|].
  exists n. cbn. rewrite N5. split; [exact Ha|symmetry; exact N4].
Qed.

(** * bootstrapAsSeed *)
Lemma bootstrap_cinv G w a n :
  cinv G w -> nodes_cap w -> N.of_nat (length G) < max_counter -> w_nodes w !! a = Some n ->
  let r := bootstrap n in
  exists G', cinv G' (upd w (fst (fst r)) (snd (fst r))) /\ wext w (upd w (fst (fst r)) (snd (fst r))) /\
             nd_addr (fst (fst r)) = a /\ (length G' <= length G + 1)%nat /\ nd_gossip_on (fst (fst r)) = true /\
             forall S, rinv S w -> rinv (a :: S) (upd w (fst (fst r)) (snd (fst r))).
Proof.
  intros Hc Hcap Hlen Ha. cbn zeta.
  destruct (self_up_truthful G w a n Hc Ha) as (Sw & Su & Si & Sa & Sm).
  set (self := ns_set_status (nd_self n) st_up) in *.
  assert (Hself : is_Some (vw_members (view_add (nd_view n) self) !! nd_id n)).
  { destruct (ci_nodes _ _ Hc a n Ha) as [N1 N2 N3 N4 N5 N6 N7 N8 N9 N10 N11 N12].
    destruct (view_add_lookup_self (nd_view n) self (vi_wf _ _ _ N9) Sw) as (e & He & _). rewrite Si in He. eexists; exact He. }
  destruct (local_add G w a n self Hc Hcap Hlen Ha Sw Su Sm Hself) as (V0 & Ow & Hid & Hoth & Hmem).
  set (v2 := view_inc (view_add (nd_view n) self) (nd_id n)) in *.
  set (G' := G ++ [GEnt (nd_id n) (vget (vw_vv (nd_view n)) (nd_id n) + 1) (ns_id self) (inc_of self)]) in *.
  assert (Hle : vle (vw_vv (nd_view n)) (vw_vv v2)).
  { intros k. destruct (decide (k = nd_id n)) as [->|Hne]; [rewrite Hid; lia|rewrite Hoth by exact Hne; lia]. }
  assert (Hp : npre G' w n (set_view (set_self n self) v2)).
  { eapply npre_local; try eassumption.
    - intros _. rewrite Hmem. exact Hself.
    - intros k. unfold G'. rewrite app_length; cbn [length]. pose proof (ci_cnt _ _ Hc a n k Ha).
      destruct (decide (k = nd_id n)) as [->|Hne]; [rewrite Hid|rewrite Hoth by exact Hne]; lia. }
  assert (Hl : log_grows G G' n (set_view (set_self n self) v2)).
  { split; [intros e He; apply elem_of_app; left; exact He|]. split; [unfold G'; rewrite app_length; lia|].
    intros e He. apply elem_of_app in He as [He|He]; [left; exact He|right]. apply elem_of_list_singleton in He. subst e. cbn.
    rewrite Hid. split; [reflexivity|lia]. }
  unfold bootstrap. fold self. fold v2.
  destruct (publish_leader (set_view (set_self n self) v2)) as [n2 evs] eqn:Ep.
  destruct (broadcast n2) as [n3 out] eqn:Eb. cbn [fst snd].
  destruct (finish_cinv G G' w a n _ n2 evs n3 out true Hc Ha Hp Hl Ep Eb) as (R1 & R2 & R3 & R4 & R5 & R6).
  { intros _. cbn. rewrite Hmem. exact Hself. }
  exists G'. split; [exact R1|]. split; [exact R2|]. split; [exact R3|]. split; [unfold G'; rewrite app_length; cbn; lia|].
  split; [reflexivity|exact R6].
Qed.

(** * handleJoinRequest at a node that has itself joined *)
Lemma accept_cinv G w s sd aj nj n' resp out evs :
  cinv G w -> nodes_cap w -> N.of_nat (length G) < max_counter ->
  w_nodes w !! s = Some sd -> w_nodes w !! aj = Some nj -> nd_gossip_on sd = true ->
  handle_join_request sd (nd_self nj) = Some (n', resp, out, evs) ->
  exists G', cinv G' (upd w n' out) /\ wext w (upd w n' out) /\ nd_addr n' = s /\ (length G' <= length G + 1)%nat /\
             resp = nd_view n' /\ forall S, rinv S w -> rinv (s :: S) (upd w n' out).
Proof.
  intros Hc Hcap Hlen Hs Hj Hg. unfold handle_join_request.
  destruct (negb (ns_status (nd_self nj) =? st_joining)%Z); [discriminate|].
  destruct (negb (sat_quorum (nd_view sd))); [discriminate|].
  destruct (ci_nodes _ _ Hc s sd Hs) as [N1 N2 N3 N4 N5 N6 N7 N8 N9 N10 N11 N12].
  destruct (ci_nodes _ _ Hc aj nj Hj) as [J1 J2 J3 J4 J5 J6 J7 J8 J9 J10 J11 J12].
  set (st := ns_set_status (nd_self nj) st_up).
  assert (Sm : exists m, w_nodes w !! ns_addr st = Some m /\ nd_id m = ns_id st).
  { exists nj. cbn. rewrite J5. split; [exact Hj|symmetry; exact J4]. }
  destruct (N11 Hg) as [_ [e0 He0]].
  assert (Hself : is_Some (vw_members (view_add (nd_view sd) st) !! nd_id sd)).
  { destruct (view_add_keeps (nd_view sd) st _ _ (vi_wf _ _ _ N9) J3 He0) as (e' & He' & _). eexists; exact He'. }
  destruct (local_add G w s sd st Hc Hcap Hlen Hs J3 eq_refl Sm Hself) as (V0 & Ow & Hid & Hoth & Hmem).
  set (v1 := view_inc (view_add (nd_view sd) st) (nd_id sd)) in *.
  set (G' := G ++ [GEnt (nd_id sd) (vget (vw_vv (nd_view sd)) (nd_id sd) + 1) (ns_id st) (inc_of st)]) in *.
  assert (Hle : vle (vw_vv (nd_view sd)) (vw_vv v1)).
  { intros k. destruct (decide (k = nd_id sd)) as [->|Hne]; [rewrite Hid; lia|rewrite Hoth by exact Hne; lia]. }
  assert (Hp : npre G' w sd (set_view sd v1)).
  { replace (set_view sd v1) with (set_view (set_self sd (nd_self sd)) v1) by (destruct sd; reflexivity).
    eapply npre_local; try eassumption.
    - intros _. rewrite Hmem. exact Hself.
    - intros k. unfold G'. rewrite app_length; cbn [length]. pose proof (ci_cnt _ _ Hc s sd k Hs).
      destruct (decide (k = nd_id sd)) as [->|Hne]; [rewrite Hid|rewrite Hoth by exact Hne]; lia. }
  assert (Hl : log_grows G G' sd (set_view sd v1)).
  { split; [intros e He; apply elem_of_app; left; exact He|]. split; [unfold G'; rewrite app_length; lia|].
    intros e He. apply elem_of_app in He as [He|He]; [left; exact He|right]. apply elem_of_list_singleton in He. subst e. cbn.
    rewrite Hid. split; [reflexivity|lia]. }
  fold st. fold v1.
  destruct (publish_leader (set_view sd v1)) as [n2 ev2] eqn:Ep.
  destruct (broadcast n2) as [n3 o3] eqn:Eb.
  intros [= <- <- <- <-].
  destruct (finish_cinv G G' w s sd _ n2 ev2 n3 o3 false Hc Hs Hp Hl Ep Eb) as (R1 & R2 & R3 & R4 & R5 & R6); [discriminate|].
  cbn zeta in *. exists G'. split; [exact R1|]. split; [exact R2|]. split; [exact R3|]. split; [unfold G'; rewrite app_length; cbn; lia|].
  split; [|exact R6].
  unfold view_snapshot. rewrite R4. destruct (publish_node (set_view sd v1)) as (_ & _ & A3 & _). rewrite Ep in A3. cbn [fst] in A3. exact A3.
Qed.

(** * the rest of tryJoinSeeds after the JoinResponse, then startGossipLoop *)
Lemma join_complete_cinv G w a n resp now :
  cinv G w -> nodes_cap w -> N.of_nat (length G) + 1 < max_counter -> w_nodes w !! a = Some n ->
  vinv G w resp -> (forall k, vget (vw_vv resp) k <= N.of_nat (length G)) ->
  let r := join_complete n resp now in
  exists G', cinv G' (upd w (fst (fst r)) (snd (fst r))) /\ wext w (upd w (fst (fst r)) (snd (fst r))) /\
             nd_addr (fst (fst r)) = a /\ (length G' <= length G + 2)%nat /\ nd_gossip_on (fst (fst r)) = true /\
             forall S, rinv S w -> rinv (a :: S) (upd w (fst (fst r)) (snd (fst r))).
Proof.
  intros Hc Hcap Hlen Ha Hresp Hrc. cbn zeta.
  destruct (self_up_truthful G w a n Hc Ha) as (Sw & Su & Si & Sa & Sm).
  set (self1 := ns_set_status (nd_self n) st_up) in *.
  destruct (ci_nodes _ _ Hc a n Ha) as [N1 N2 N3 N4 N5 N6 N7 N8 N9 N10 N11 N12].
  pose proof (ci_uniq _ _ Hc) as Hu.
  assert (Hself : is_Some (vw_members (view_add (nd_view n) self1) !! nd_id n)).
  { destruct (view_add_lookup_self (nd_view n) self1 (vi_wf _ _ _ N9) Sw) as (e & He & _). rewrite Si in He. eexists; exact He. }
  assert (Hlen0 : N.of_nat (length G) < max_counter) by lia.
  destruct (local_add G w a n self1 Hc Hcap Hlen0 Ha Sw Su Sm Hself) as (V2 & O2 & Hid & Hoth & Hmem).
  set (v2 := view_inc (view_add (nd_view n) self1) (nd_id n)) in *.
  set (c1 := vget (vw_vv (nd_view n)) (nd_id n) + 1) in *.
  set (e1 := GEnt (nd_id n) c1 (ns_id self1) (inc_of self1)) in *.
  set (G2 := G ++ [e1]) in *.
  (* the response, against the extended log *)
  assert (R2 : vinv0 G2 w resp).
  { apply (vinv0_mono G G2 w w resp); [apply vinv_vinv0; exact Hresp|apply wext_refl|intros e He; apply elem_of_app; left; exact He|].
    intros e He Hsel. apply elem_of_app in He as [He|He]; [exact He|]. apply elem_of_list_singleton in He. subst e. exfalso.
    unfold sel in Hsel; cbn in Hsel. destruct (vi_own _ _ _ Hresp (nd_id n)) as (b & m & Hb & Hidm & Hle); [unfold c1 in Hsel; lia|].
    assert (b = a) by (eapply Hu; eassumption). subst b. rewrite Ha in Hb. injection Hb as <-. unfold c1 in Hsel. lia. }
  assert (RO : vown' w (nd_id n) resp) by (apply vown_vown'; apply Hresp).
  set (v3 := fst (view_merge 0 0 now v2 resp)).
  assert (V3 : vinv0 G2 w v3) by (apply vinv0_merge; assumption).
  assert (O3 : vown' w (nd_id n) v3) by (eapply vown'_merge; eassumption).
  assert (M3 : forall k, vget (vw_vv v3) k = N.max (vget (vw_vv v2) k) (vget (vw_vv resp) k))
    by (intros k; apply (vinv0_merge_vget G2 w); assumption).
  assert (Hself3 : exists prev, vw_members v3 !! nd_id n = Some prev).
  { rewrite <- Hmem in Hself. destruct Hself as [e He].
    destruct (merge_lookup_ge_l v2 resp now _ _ (v0_wf _ _ _ V2) (v0_wf _ _ _ R2) He) as (e' & He' & _). exists e'. exact He'. }
  (* the state of the node for any final self / view that satisfies the local-change facts *)
  assert (Hfin : forall G3 self2 v4,
            wf_state self2 -> ns_id self2 = nd_id n -> ns_addr self2 = a ->
            vinv0 G3 w v4 -> vown' w (nd_id n) v4 -> (forall k, vget (vw_vv v4) k = vget (vw_vv v3) k) ->
            is_Some (vw_members v4 !! nd_id n) ->
            (forall e, e ∈ G2 -> e ∈ G3) -> (length G2 <= length G3 <= length G2 + 1)%nat ->
            (forall e, e ∈ G3 -> e ∈ G2 \/ (g_i e = nd_id n /\ g_c e = vget (vw_vv v3) (nd_id n))) ->
            forall n2 evs n3 out, publish_leader (set_view (set_self n self2) v4) = (n2, evs) -> broadcast n2 = (n3, out) ->
            exists G', cinv G' (upd w (start_loops n3) out) /\ wext w (upd w (start_loops n3) out) /\
                       nd_addr (start_loops n3) = a /\ (length G' <= length G + 2)%nat /\
                       forall S, rinv S w -> rinv (a :: S) (upd w (start_loops n3) out)).
  { intros G3 self2 v4 W2 I2 A2 V4 O4 E4 S4 Sub Len New n2 evs n3 out Ep Eb.
    assert (Hle : vle (vw_vv (nd_view n)) (vw_vv v4)).
    { intros k. rewrite E4, M3. destruct (decide (k = nd_id n)) as [->|Hne]; [rewrite Hid; lia|rewrite Hoth by exact Hne; lia]. }
    assert (Hp : npre G3 w n (set_view (set_self n self2) v4)).
    { eapply npre_local; try eassumption.
      - intros _. exact S4.
      - intros k. rewrite E4, M3. pose proof (ci_cnt _ _ Hc a n k Ha). specialize (Hrc k).
        assert (length G2 = S (length G)) by (unfold G2; rewrite app_length; cbn; lia).
        destruct (decide (k = nd_id n)) as [->|Hne]; [rewrite Hid|rewrite Hoth by exact Hne]; lia. }
    assert (Hl : log_grows G G3 n (set_view (set_self n self2) v4)).
    { split; [intros e He; apply Sub, elem_of_app; left; exact He|]. split; [unfold G2 in Len; rewrite app_length in Len; cbn in Len; lia|].
      intros e He. cbn [nd_view set_view]. rewrite E4, M3, Hid.
      destruct (New e He) as [He2|[Ei Ec]].
      - apply elem_of_app in He2 as [He2|He2]; [left; exact He2|right]. apply elem_of_list_singleton in He2. subst e. cbn.
        split; [reflexivity|]. unfold c1. lia.
      - right. split; [exact Ei|]. rewrite Ec, M3, Hid. unfold c1. lia. }
    destruct (finish_cinv G G3 w a n _ n2 evs n3 out true Hc Ha Hp Hl Ep Eb) as (R1 & R2' & R3 & R4 & R5 & R6); [intros _; exact S4|].
    exists G3. split; [exact R1|]. split; [exact R2'|]. split; [exact R3|]. split; [|exact R6].
    assert (length G2 = S (length G)) by (unfold G2; rewrite app_length; cbn; lia). lia. }
  unfold join_complete. fold self1. fold v2. fold v3.
  destruct Hself3 as [prev Hprev].
  assert (Hprev' : vw_members v3 !! ns_id self1 = Some prev) by (rewrite Si; exact Hprev).
  unfold view_rejoin. rewrite Hprev'.
  destruct (ns_gen self1 <=? ns_gen prev)%Z eqn:Egen.
  - (* the bump *)
    set (self2 := NState (ns_id self1) (ns_addr self1) (ns_gen prev + 1) now (ns_seq self1) (ns_status self1)
                         (if ns_lc prev =? 0 then 1 else ns_lc prev + 1) (ns_seen self1)).
    assert (W2 : wf_state self2).
    { destruct (v0_wf _ _ _ V3 _ _ Hprev) as [_ [Hg Hl]]. split; cbn; [lia|destruct (ns_lc prev =? 0); lia]. }
    assert (Hcapi : capN (<[ns_id self2 := self2]> (vw_members v3))).
    { assert (Tm : truthful w (set_members v3 (<[ns_id self2 := self2]> (vw_members v3)))).
      { apply truthful_insert; [apply V3|exact Su|exact Sm]. }
      pose proof (truthful_capN w _ Tm Hu Hcap) as H. destruct v3; exact H. }
    set (v4 := view_add v3 self2).
    assert (E4 : vw_vv v4 = vw_vv v3) by (apply view_add_vv; [apply V3|apply V3|exact Hcapi]).
    set (c3 := vget (vw_vv v3) (nd_id n)).
    set (G3 := G2 ++ [GEnt (nd_id n) c3 (ns_id self2) (inc_of self2)]).
    destruct (local_just_cover G2 v3 v4 self2 (nd_id n) c3) as [J4 C4]; try (apply V3); try assumption; try reflexivity.
    + intros k _. rewrite E4. reflexivity.
    + rewrite E4. lia.
    + unfold c3. rewrite E4. reflexivity.
    + intros e0 He0 Ei. apply elem_of_app in He0 as [He0|He0].
      * destruct (ci_log _ _ Hc e0 He0) as (_ & b & m & Hb & Hidm & Hle).
        assert (b = a) by (eapply Hu; [exact Hb|exact Ha|rewrite Hidm, Ei; reflexivity]). subst b. rewrite Ha in Hb. injection Hb as <-.
        rewrite Ei in Hle. rewrite M3, Hid. lia.
      * apply elem_of_list_singleton in He0. subst e0. cbn. rewrite M3, Hid. unfold c1. lia.
    + destruct (view_add_fields v3 self2) as (F1 & F2 & F3 & F4).
      assert (V4 : vinv0 G3 w v4).
      { split.
        - apply WF_add; [apply V3|exact W2].
        - apply VVin_add. apply V3.
        - apply truthful_add; [apply V3|exact Su|exact Sm].
        - exact J4.
        - exact C4.
        - unfold v4. rewrite F1. apply V3.
        - unfold v4. rewrite F3. apply V3.
        - unfold v4. rewrite F4. apply V3.
        - apply view_add_CC; [apply V3|eapply truthful_all_up; apply V3|exact Su]. }
      destruct (publish_leader (set_view (set_self n self2) v4)) as [n2 evs] eqn:Ep.
      destruct (broadcast n2) as [n3 out] eqn:Eb. cbn [fst snd].
      destruct (Hfin G3 self2 v4 W2 Si Sa V4) with (n2 := n2) (evs := evs) (n3 := n3) (out := out) as (G' & R1 & R2' & R3 & R4 & R6); try assumption.
      * intros k Hk. rewrite E4 in Hk |- *. apply O3. exact Hk.
      * intros k. rewrite E4. reflexivity.
      * destruct (view_add_lookup_self v3 self2 (v0_wf _ _ _ V3) W2) as (e & He & _). change (ns_id self2) with (ns_id self1) in He. rewrite Si in He. eexists; exact He.
      * intros e He. apply elem_of_app; left; exact He.
      * unfold G3. rewrite app_length. cbn. lia.
      * intros e He. apply elem_of_app in He as [He|He]; [left; exact He|right]. apply elem_of_list_singleton in He. subst e. cbn. auto.
      * exists G'. split; [exact R1|]. split; [exact R2'|]. split; [exact R3|]. split; [exact R4|]. split; [reflexivity|exact R6].
  - (* no bump (cannot happen, but needs no argument) *)
    destruct (publish_leader (set_view (set_self n self1) v3)) as [n2 evs] eqn:Ep.
    destruct (broadcast n2) as [n3 out] eqn:Eb. cbn [fst snd].
    destruct (Hfin G2 self1 v3 Sw Si Sa V3 O3) with (n2 := n2) (evs := evs) (n3 := n3) (out := out) as (G' & R1 & R2' & R3 & R4 & R6); try assumption.
    + intros k. reflexivity.
    + eexists; exact Hprev.
    + auto.
    + lia.
    + intros e He. left; exact He.
    + exists G'. split; [exact R1|]. split; [exact R2'|]. split; [exact R3|]. split; [exact R4|]. split; [reflexivity|exact R6].
Qed.
